#!/usr/bin/env python3
"""Entry point: check.py <Cnn> [--tier quick|thorough] [--replay FILE]"""
import argparse
import importlib
import os
import sys

sys.path.insert(0, os.path.dirname(os.path.abspath(__file__)))
from lib import common  # noqa: E402


def main():
    ap = argparse.ArgumentParser()
    ap.add_argument("prop")
    ap.add_argument("--tier", default=os.environ.get("VERIF_TIER", "quick"))
    ap.add_argument("--replay")
    a = ap.parse_args()
    seed = int(os.environ.get("VERIF_SEED", "0") or 0)
    prop = a.prop.upper()
    common.CURRENT_PROP = prop
    ctx = common.Ctx(prop, a.tier if a.tier in ("quick", "thorough") else "quick", seed)
    mod = importlib.import_module("checks." + prop.lower())
    if a.replay:
        sys.exit(mod.replay(ctx, a.replay))
    common.arm_watchdog(ctx)
    rc = mod.run(ctx)
    sys.exit(rc)


if __name__ == "__main__":
    main()
