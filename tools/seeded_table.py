#!/usr/bin/env python3
"""Regenerates section 12 of DESIGN.md (seeded defects and which checks catch them) from seeded/*/meta.json."""
import glob, json, os, re
V = os.path.dirname(os.path.dirname(os.path.abspath(__file__)))
rows = []
for m in sorted(glob.glob(os.path.join(V, "seeded", "*", "meta.json"))):
    d = json.load(open(m))
    sid = os.path.basename(os.path.dirname(m))
    rows.append("| `%s` | %s | %s | %s | %s |" % (
        sid, d.get("breaks_property") or d.get("property"), (d.get("summary") or "").replace("|", "/")[:260],
        (d.get("what_it_needs_to_manifest") or d.get("needs") or "").replace("|", "/")[:220],
        (d.get("detected_by") or "").replace("|", "/")))
pend = sorted(os.listdir(os.path.join(V, "seeded_pending"))) if os.path.isdir(os.path.join(V, "seeded_pending")) else []
text = """## 12. Seeded defects and which checks catch them

Each change was written by an adversary agent that saw only the property text and a scratch
worktree of /repo (nothing from /verif), compiles, passes the pinned tests (unit + python),
and comes with a demonstration that fails with the change and passes without it; the
coordinator re-ran each demonstration on clean and patched scratch builds
(`tools/confirm_demo.sh`) and ran the checks against a patched copy of /repo
(`tools/try_mutation.py`, which points `VERIF_REPO` at the copy so that /repo itself is never
modified while other builders are reading it).  Kept under `seeded/<id>/` (patch.diff, demo/,
meta.json).

| seeded id | property | change | needs | detected by |
|---|---|---|---|---|
%s

Not yet caught (staged under `seeded_pending/`, the responsible check is being strengthened): %s
""" % ("\n".join(rows), ", ".join("`%s`" % p for p in pend) or "none")
p = os.path.join(V, "DESIGN.md")
s = open(p).read()
if "## 12. Seeded defects" in s:
    s = s[:s.index("## 12. Seeded defects")].rstrip() + "\n\n" + text
else:
    s = s.rstrip() + "\n\n---------------------------------------------------------------------------\n\n" + text
open(p, "w").write(s)
print(len(rows), "rows;", len(pend), "pending")
