#!/bin/bash
# MANIFEST.setup_cmd: build the Lean library parts that the claimed checks use and the
# model driver, from files on disk only.  Modules of properties that are not claimed
# (possibly under construction) are not built here and cannot fail the setup.
V=$(cd "$(dirname "$0")/.." && pwd)
cd "$V" || exit 2
targets=$(python3 - <<'PY'
import json
m = json.load(open("MANIFEST.json"))
print(" ".join("Uft.Props.%s" % c["property_id"] for c in m["checks"]))
PY
)
tools/lk build $targets uvmodel && exit 0
echo "setup: retrying with the claimed properties' drivers only" >&2
VERIF_DISPATCH=claimed tools/lk build $targets uvmodel
