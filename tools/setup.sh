#!/bin/bash
# MANIFEST.setup_cmd: build the Lean library parts that the claimed checks use and their model
# drivers (one executable uv_<id> per model), from files on disk only.  Modules of properties that
# are not claimed (possibly under construction) are not built here and cannot fail the setup.
V=$(cd "$(dirname "$0")/.." && pwd)
cd "$V" || exit 2
targets=$(python3 - <<'PY'
import json, os
m = json.load(open("MANIFEST.json"))
ids = [c["property_id"] for c in m["checks"]]
t = ["Uft.Props.%s" % i for i in ids]
en = [l.strip() for l in open("lean/Driver/enabled.txt") if l.strip() and not l.startswith("#")]
t += ["uv_%s" % i for i in en if (i in ids or i == "Mcount") and os.path.exists("lean/Driver/%s.lean" % i)]
print(" ".join(t))
PY
)
exec tools/lk build $targets
