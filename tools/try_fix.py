#!/usr/bin/env python3
"""Vet a proposed repair before it becomes a `fix:` commit in /repo: copy /repo's working tree, apply the
patch(es), build, run the pinned subset (unit tests + python runtests) and optional extra integration tests
(-t '201 202'), then run the named checks at the given seeds with VERIF_REPO pointing at the copy.
usage: tools/try_fix.py <patch.diff>[,<patch2.diff>…] <Cnn> [<Cnn>…] [-t 'NNN NNN'] [--seeds '0 1']"""
import os, shutil, subprocess, sys, tempfile
V = os.path.dirname(os.path.dirname(os.path.abspath(__file__)))
a = sys.argv[1:]
tests, seeds = "", "0 1"
if "-t" in a:
    i = a.index("-t"); tests = a[i + 1]; del a[i:i + 2]
if "--seeds" in a:
    i = a.index("--seeds"); seeds = a[i + 1]; del a[i:i + 2]
patches, props = a[0].split(","), a[1:]
d = tempfile.mkdtemp(prefix="uv-fix-", dir="/var/tmp")
def sh(cmd, **kw):
    return subprocess.run(cmd, shell=isinstance(cmd, str), stdout=subprocess.PIPE, stderr=subprocess.STDOUT, text=True, **kw)
try:
    subprocess.run(["rsync", "-a", "--exclude=.git", "/repo/", d + "/"], check=True)
    cfg = os.path.join(d, ".config")
    s = open(cfg).read().replace("srcdir := /repo", "srcdir := " + d).replace("objdir := /repo", "objdir := " + d)
    open(cfg, "w").write(s)
    for p in patches:
        if p == "-":
            continue
        r = sh(["patch", "-p1", "-i", os.path.abspath(p)], cwd=d)
        if r.returncode != 0:
            print("PATCH DID NOT APPLY", p, r.stdout[-400:]); sys.exit(2)
    r = sh("make -j16 -s 2>&1 | grep -E 'error|warning: ' | head -5", cwd=d)
    print("build:", r.stdout.strip() or "ok")
    r = sh("make -s unittest >/dev/null 2>&1; ./unittest 2>&1 | grep -E 'FAIL|SIG|BAD|failed|ran successfully'", cwd=d + "/tests")
    print("unittest:", " ".join(r.stdout.split()))
    r = sh("./runtest.py -P -j8 2>&1 | grep -E '^ *(OK|NG|NZ|SG|TM|BI):' ", cwd=d + "/tests")
    print("python tests:", " | ".join(x.strip() for x in r.stdout.strip().split("\n")))
    if tests:
        r = sh("./runtest.py -j8 '%s' 2>&1 | grep -vE ': OK|^$|^Start|Compiler|Runtime|---' | tail -15" % "|".join(tests.split()), cwd=d + "/tests")
        print("runtest %s:" % tests, r.stdout.strip() or "all OK")
    for p in props:
        for seed in seeds.split():
            env = dict(os.environ, VERIF_REPO=d, VERIF_SEED=seed)
            r = sh(["python3", os.path.join(V, "check.py"), p, "--tier", "quick"], env=env, cwd=V)
            lines = [l[:230] for l in r.stdout.split("\n") if l.startswith(("VIOLATION", "KNOWN-FINDING")) or "Traceback" in l]
            print("%s seed=%s rc=%d %s" % (p, seed, r.returncode, " | ".join(lines[:4]) or "(quiet)"))
finally:
    shutil.rmtree(d, ignore_errors=True)
