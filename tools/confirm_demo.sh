#!/bin/bash
# confirm_demo.sh <mutdir>: build a scratch copy of /repo clean and patched, run demo/run.sh on both
M=$1; D=$(mktemp -d /var/tmp/uv-confirm-XXXX)
rsync -a --exclude=.git /repo/ $D/clean/ && sed -i "s#^\(override \)\?srcdir := .*#\1srcdir := $D/clean#; s#^\(override \)\?objdir := .*#\1objdir := $D/clean#" $D/clean/.config
cp -a $D/clean $D/mut && sed -i "s#$D/clean#$D/mut#g" $D/mut/.config && (cd $D/mut && patch -p1 -s -i $M/patch.diff) || { echo "patch failed"; rm -rf $D; exit 2; }
(make -C $D/clean -j8 -s >/dev/null 2>&1; make -C $D/mut -j8 -s >/dev/null 2>&1)
timeout 600 sh $M/demo/run.sh $D/clean >/dev/null 2>&1; a=$?
timeout 600 sh $M/demo/run.sh $D/mut >/dev/null 2>&1; b=$?
# pinned subset on the patched tree
(cd $D/mut/tests && make -C .. -s unittest >/dev/null 2>&1; ./unittest 2>&1 | grep -c "FAIL\|SIG" ; ./runtest.py -P -j4 2>&1 | grep -E "^ +NG|^ +SG|^ +NZ" | tr '\n' ' ')
echo "demo clean rc=$a patched rc=$b"
rm -rf $D
