#!/usr/bin/env python3
"""Run every claimed check (quick tier by default) on the unchanged tree, a few at a time; print rc and lines."""
import json, os, subprocess, sys, time
from concurrent.futures import ThreadPoolExecutor
V = os.path.dirname(os.path.dirname(os.path.abspath(__file__)))
tier = sys.argv[1] if len(sys.argv) > 1 else "quick"
seed = sys.argv[2] if len(sys.argv) > 2 else "0"
par = int(sys.argv[3]) if len(sys.argv) > 3 else 3
M = json.load(open(os.path.join(V, "MANIFEST.json")))
def one(c):
    t = time.time()
    r = subprocess.run(["python3", os.path.join(V, "check.py"), c["property_id"], "--tier", tier], cwd=V,
                       stdout=subprocess.PIPE, stderr=subprocess.STDOUT, text=True, env=dict(os.environ, VERIF_SEED=seed))
    lines = [l[:160] for l in r.stdout.split("\n") if l.strip()]
    return c["property_id"], r.returncode, round(time.time() - t, 1), lines[:4]
with ThreadPoolExecutor(par) as ex:
    for pid, rc, dt, lines in ex.map(one, M["checks"]):
        print("%s rc=%d %ss %s" % (pid, rc, dt, " | ".join(lines)))
