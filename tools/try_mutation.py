#!/usr/bin/env python3
"""Run checks against a seeded change without touching /repo: copy /repo's working tree
(sources) to a scratch directory, apply the patch there, run `check.py <Cnn>` with
VERIF_REPO pointing at it, report, remove the copy.
usage: tools/try_mutation.py <patch.diff> <Cnn> [<Cnn> …] [--tier quick|thorough] [--seed N]"""
import os, shutil, subprocess, sys, tempfile
V = os.path.dirname(os.path.dirname(os.path.abspath(__file__)))
args = sys.argv[1:]
tier, seed = "quick", "0"
if "--tier" in args:
    i = args.index("--tier"); tier = args[i + 1]; del args[i:i + 2]
if "--seed" in args:
    i = args.index("--seed"); seed = args[i + 1]; del args[i:i + 2]
patch, props = args[0], args[1:]
d = tempfile.mkdtemp(prefix="uv-mut-", dir="/var/tmp")
try:
    subprocess.run(["rsync", "-a", "--exclude=.git", "/repo/", d + "/"], check=True)
    cfg = os.path.join(d, ".config")
    s = open(cfg).read().replace("srcdir := /repo", "srcdir := " + d).replace("objdir := /repo", "objdir := " + d)
    open(cfg, "w").write(s)
    r = subprocess.run(["patch", "-p1", "-s", "-i", os.path.abspath(patch)], cwd=d)
    if r.returncode != 0:
        print("PATCH DID NOT APPLY"); sys.exit(2)
    for p in props:
        env = dict(os.environ, VERIF_REPO=d, VERIF_SEED=seed)
        r = subprocess.run(["python3", os.path.join(V, "check.py"), p, "--tier", tier], stdout=subprocess.PIPE,
                           stderr=subprocess.STDOUT, text=True, env=env, cwd=V)
        lines = [l[:260] for l in r.stdout.split("\n") if l.startswith(("VIOLATION", "KNOWN-FINDING")) or "Traceback" in l]
        lines.sort(key=lambda l: (l.startswith("KNOWN"), "no-failing-input-found" in l))
        nv = sum(l.startswith("VIOLATION") for l in lines)
        nc = sum(l.startswith("VIOLATION") and "no-failing-input-found" not in l for l in lines)
        print("%s rc=%d [%d VIOLATION, %d with a concrete failing input] %s" % (p, r.returncode, nv, nc, " | ".join(lines[:4]) or "(quiet)"))
finally:
    shutil.rmtree(d, ignore_errors=True)
