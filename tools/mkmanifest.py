#!/usr/bin/env python3
"""Regenerates /verif/MANIFEST.json from tools/registry.json (claimed checks) so
that the manifest is always schema-valid and not_applicable is always complete."""
import json, os
V = os.path.dirname(os.path.dirname(os.path.abspath(__file__)))
reg = json.load(open(os.path.join(V, "tools/registry.json")))
props = [json.loads(l) for l in open(os.path.join(V, "properties.jsonl"))]
checks, na = [], []
for p in props:
    pid = p["id"]
    r = reg["checks"].get(pid)
    if r and r.get("claimed"):
        checks.append({
            "property_id": pid,
            "quick_cmd": "python3 check.py %s --tier quick" % pid,
            "thorough_cmd": "python3 check.py %s --tier thorough" % pid,
            "evidence_file": "/verif/evidence/%s.json" % pid,
            "replay_cmd_template": "python3 check.py %s --replay {path}" % pid,
            "engine": "lean4-proof+correspondence",
            "level_claimed": {"category": "proof", "text": r["text"], "design_ref": "DESIGN.md section 8, %s" % pid},
            "level_note": r["note"],
            "technique": r["technique"],
        })
    else:
        na.append({"property_id": pid, "reason": (r or {}).get("reason", reg["default_reason"])})
m = {
    "version": 1,
    "setup_cmd": "cd /verif && tools/setup.sh",
    "hooks": {
        "guard": "UFTRACE_VERIF",
        "enable": "checks copy /repo's working tree to a scratch directory and compile the sources they need with -DUFTRACE_VERIF; no guarded source change exists in /repo so far (harnesses #include/link the sources and interpose libc instead)",
        "baseline_off_cmd": "cd /repo && make -k -j8 test",
        "source_commits": reg.get("hook_commits", []),
        "add_only": True,
    },
    "engines": [{
        "name": "lean4-proof+correspondence",
        "path": "/verif/lean (Lean 4 models, theorems, one driver executable uv_<id> per model), /verif/translators (source-to-Lean translators incl. c2lean), /verif/check.py, /verif/checks, /verif/harness",
        "serves_properties": [c["property_id"] for c in checks],
        "kind_free_text": "machine-checked Lean 4 theorems over executable models; models tied to /repo's current sources by translators (regenerated definitions) and by differential correspondence harnesses",
    }],
    "checks": checks,
    "notes": reg.get("notes", ""),
    "not_applicable": na,
}
json.dump(m, open(os.path.join(V, "MANIFEST.json"), "w"), indent=1)
print("claimed:", [c["property_id"] for c in checks])
