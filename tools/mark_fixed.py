#!/usr/bin/env python3
"""Coordinator helper (never run by a check): record that a finding was repaired by a `fix:` commit in /repo.
usage: tools/mark_fixed.py <id> <Cnn> <commit> [--new 'what failed' [--witness thm,thm] [--input 'minimal input']]"""
import json, os, sys
V = os.path.dirname(os.path.dirname(os.path.abspath(__file__)))
a = sys.argv[1:]
opt = {}
for k in ("--new", "--witness", "--input"):
    if k in a:
        i = a.index(k); opt[k] = a[i + 1]; del a[i:i + 2]
fid, prop, commit = a
p = os.path.join(V, "known_findings.json")
k = json.load(open(p))
e = next((f for f in k["findings"] if f["id"] == fid and f["property"] == prop), None)
if e is None:
    if "--new" not in opt:
        sys.exit("no such finding; give --new 'what'")
    e = {"id": fid, "property": prop, "what": opt["--new"]}
    k["findings"].append(e)
if "--witness" in opt:
    e["witness_theorems"] = opt["--witness"].split(",")
if "--input" in opt:
    e["minimal_input"] = opt["--input"]
e["status"] = "fixed"
e["commit"] = commit
e["record"] = "fixed: property=%s %s %s" % (prop, commit, e["what"])
e.pop("why_not_fixed", None)
order = ["id", "property", "status", "commit", "what", "record", "shape", "minimal_input", "witness_theorems", "proposed_fix"]
k["findings"] = [{**{x: f[x] for x in order if x in f}, **{x: v for x, v in f.items() if x not in order}} for f in k["findings"]]
json.dump(k, open(p, "w"), indent=1, ensure_ascii=False)
open(p, "a").write("\n")
print("recorded", e["record"][:150])
