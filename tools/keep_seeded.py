#!/usr/bin/env python3
"""keep_seeded.py <out-dir>/mutN <seed-id> <caught-by text>: copy a confirmed seeded change into /verif/seeded/<id>/"""
import json, os, shutil, sys
V = os.path.dirname(os.path.dirname(os.path.abspath(__file__)))
src, sid, caught = sys.argv[1], sys.argv[2], sys.argv[3]
dst = os.path.join(V, "seeded", sid)
shutil.rmtree(dst, ignore_errors=True)
os.makedirs(dst)
shutil.copy(os.path.join(src, "patch.diff"), dst)
shutil.copytree(os.path.join(src, "demo"), os.path.join(dst, "demo"))
m = json.load(open(os.path.join(src, "meta.json")))
m["breaks_property"] = m.get("property")
m["what_it_needs_to_manifest"] = m.get("needs")
m["confirmed_by_coordinator"] = sys.argv[4] if len(sys.argv) > 4 else ""
m["detected_by"] = caught
json.dump(m, open(os.path.join(dst, "meta.json"), "w"), indent=1)
print("kept", dst)
