#!/usr/bin/env python3
"""Translator: arch/x86_64/{mcount,fentry,dynamic,plthook}.S -> lean/Uft/Gen/Stubs.lean.
The stubs are straight-line AT&T code.  Every instruction must be recognised; an
unknown mnemonic or operand shape makes the translator fail loudly (the proof
obligation is then reported as broken), nothing is skipped silently."""
import os
import re
import sys

sys.path.insert(0, os.path.dirname(os.path.dirname(os.path.abspath(__file__))))
from lib.common import write_if_changed, LEAN  # noqa: E402

FILES = ["mcount.S", "fentry.S", "dynamic.S", "plthook.S"]
REGS = {"rax", "rbx", "rcx", "rdx", "rsi", "rdi", "rbp", "rsp", "r8", "r9", "r10", "r11", "r12", "r13", "r14", "r15"}


class TranslateError(Exception):
    pass


def strip_comments(src):
    src = re.sub(r"/\*.*?\*/", "", src, flags=re.S)
    return src


def reg(tok):
    m = re.fullmatch(r"%(\w+)", tok)
    if not m or m.group(1) not in REGS:
        raise TranslateError("not a general register: " + tok)
    return "." + m.group(1)


def xmm(tok):
    m = re.fullmatch(r"%xmm(\d+)", tok)
    if not m:
        raise TranslateError("not an xmm register: " + tok)
    return int(m.group(1))


def memop(tok):
    m = re.fullmatch(r"(-?(?:0x[0-9a-fA-F]+|\d+))?\(%(\w+)\)", tok)
    if not m or m.group(2) not in REGS:
        raise TranslateError("unsupported memory operand: " + tok)
    off = int(m.group(1), 0) if m.group(1) else 0
    if off < 0:
        raise TranslateError("negative displacement: " + tok)
    return off, "." + m.group(2)


def imm(tok):
    m = re.fullmatch(r"\$(-?(?:0x[0-9a-fA-F]+|\d+))", tok)
    if not m:
        raise TranslateError("not an immediate: " + tok)
    return int(m.group(1), 0)


def split_ops(s):
    # operands separated by commas outside parentheses
    out, cur, depth = [], "", 0
    for ch in s:
        if ch == "(":
            depth += 1
        if ch == ")":
            depth -= 1
        if ch == "," and depth == 0:
            out.append(cur.strip())
            cur = ""
        else:
            cur += ch
    if cur.strip():
        out.append(cur.strip())
    return out


def translate_block(name, lines):
    """lines: instruction lines of one stub -> list of Lean Instr terms"""
    out = []
    i = 0
    while i < len(lines):
        ln = lines[i]
        mm = re.match(r"(\w+)\s*(.*)$", ln)
        if not mm:
            raise TranslateError("%s: cannot parse %r" % (name, ln))
        op, rest = mm.group(1), mm.group(2).strip()
        ops = split_ops(rest)
        if op in ("sub", "subq") and len(ops) == 2 and ops[0].startswith("$"):
            out.append(".subi %d %s" % (imm(ops[0]), reg(ops[1])))
        elif op in ("add", "addq") and len(ops) == 2 and ops[0].startswith("$"):
            out.append(".addi %d %s" % (imm(ops[0]), reg(ops[1])))
        elif op in ("movq", "mov") and len(ops) == 2:
            a, b = ops
            if a.startswith("%") and b.startswith("%"):
                out.append(".mov %s %s" % (reg(a), reg(b)))
            elif a.startswith("%"):
                off, base = memop(b)
                out.append(".store %s %d %s" % (reg(a), off, base))
            elif b.startswith("%"):
                off, base = memop(a)
                out.append(".load %d %s %s" % (off, base, reg(b)))
            else:
                raise TranslateError("%s: unsupported mov %r" % (name, ln))
        elif op == "movdqu" and len(ops) == 2:
            a, b = ops
            if a.startswith("%xmm"):
                off, base = memop(b)
                out.append(".storex %d %d %s" % (xmm(a), off, base))
            else:
                off, base = memop(a)
                out.append(".loadx %d %s %d" % (off, base, xmm(b)))
        elif op in ("lea", "leaq") and len(ops) == 2:
            off, base = memop(ops[0])
            out.append(".lea %d %s %s" % (off, base, reg(ops[1])))
        elif op in ("andq", "and") and len(ops) == 2 and imm(ops[0]) in (0xfffffffffffffff0, -16):
            out.append(".and16 %s" % reg(ops[1]))
        elif op == "push" and len(ops) == 1:
            out.append(".push %s" % reg(ops[0]))
        elif op == "pop" and len(ops) == 1:
            out.append(".pop %s" % reg(ops[0]))
        elif op == "call" and len(ops) == 1 and re.fullmatch(r"\w+", ops[0]):
            out.append('.call "%s"' % ops[0])
        elif op in ("retq", "ret") and not ops:
            out.append(".ret")
        elif op == "cmpq":
            # the one conditional tail of plt_hooker, recognised as a whole
            tail = lines[i:i + 6]
            pat = [r"cmpq\s+\$0\s*,\s*%r11", r"cmovz\s+(\w+)\(%rip\)\s*,\s*%r11", r"jz\s+1f",
                   r"add\s+\$16\s*,\s*%rsp", r"1:", r"jmp\s+\*%r11"]
            if len(tail) < 6 or not all(re.fullmatch(p, t.strip()) for p, t in zip(pat, tail)):
                raise TranslateError("%s: unsupported conditional code at %r" % (name, tail))
            sym = re.fullmatch(pat[1], tail[1].strip()).group(1)
            out.append('.pltTail "%s"' % sym)
            i += 6
            continue
        else:
            raise TranslateError("%s: unknown instruction %r" % (name, ln))
        i += 1
    return out


def parse_file(path):
    src = strip_comments(open(path).read())
    blocks = {}
    cur = None
    for raw in src.split("\n"):
        ln = raw.strip()
        if not ln or ln.startswith("#"):
            continue
        m = re.fullmatch(r"(GLOBAL|ENTRY)\((\w+)\)", ln)
        if m:
            cur = m.group(2)
            blocks[cur] = []
            continue
        m = re.fullmatch(r"END\((\w+)\)", ln)
        if m:
            cur = None
            continue
        if ln.startswith(".cfi_") or ln.startswith(".hidden") or ln.startswith(".text") or ln.startswith(".section") \
                or ln.startswith(".type") or ln.startswith(".size") or ln.startswith(".global") or ln.startswith(".align"):
            continue
        if cur is None:
            # text outside a stub: only comments/dumps are expected there
            if re.match(r"^(Parent|Child|Dump|0x|parent addr|child addr|\w+ addr =>)", ln):
                continue
            raise TranslateError("%s: code outside a stub: %r" % (path, ln))
        blocks[cur].append(ln)
    return blocks


def main(srcdir):
    allb = {}
    for f in FILES:
        allb.update(parse_file(os.path.join(srcdir, "arch/x86_64", f)))
    need = ["mcount", "mcount_return", "__fentry__", "__dentry__", "dynamic_return", "plt_hooker", "plthook_return"]
    for n in need:
        if n not in allb:
            raise TranslateError("stub %s not found" % n)
    L = ["/- GENERATED by translators/asm2lean.py from arch/x86_64/{mcount,fentry,dynamic,plthook}.S. Do not edit. -/",
         "import Uft.Model.Asm", "namespace Uft.Gen.Stubs", "open Uft.Asm Uft.Asm.Reg", ""]
    for n in need:
        ins = translate_block(n, allb[n])
        lname = n.strip("_")
        L.append("def %s : List Instr := [" % lname)
        L.append(",\n".join("  " + x for x in ins))
        L.append("]\n")
    L.append("end Uft.Gen.Stubs\n")
    text = "\n".join(L)
    changed = write_if_changed(os.path.join(LEAN, "Uft/Gen/Stubs.lean"), text)
    return changed, text


def disassemble(obj):
    """objdump -dr of a compiled stub object -> {symbol: [instruction lines in the translator's input syntax]}"""
    import subprocess
    out = subprocess.run(["objdump", "-dr", "--no-show-raw-insn", obj], stdout=subprocess.PIPE, text=True, check=True).stdout
    blocks, cur, addr_of = {}, None, {}
    raw = {}
    for ln in out.split("\n"):
        m = re.match(r"^[0-9a-f]+ <(\w+)>:$", ln)
        if m:
            cur = m.group(1)
            raw[cur] = []
            continue
        if cur is None:
            continue
        m = re.match(r"^\s*([0-9a-f]+):\s+(R_X86_64_\w+)\s+(\S+)$", ln)
        if m:                                   # relocation of the previous instruction
            sym = re.sub(r"[-+]0x[0-9a-f]+$", "", m.group(3))
            raw[cur][-1]["reloc"] = sym
            continue
        m = re.match(r"^\s*([0-9a-f]+):\s+(.*?)\s*$", ln)
        if m and m.group(2):
            raw[cur].append({"addr": int(m.group(1), 16), "text": re.sub(r"\s+#.*$", "", m.group(2))})
    for name, ins in raw.items():
        lines = []
        i = 0
        while i < len(ins):
            t = ins[i]["text"]
            op = t.split()[0]
            if op in ("nop", "nopw", "nopl", "xchg", "cs", "data16") :      # padding after the stub
                i += 1
                continue
            if op == "call":
                lines.append("call %s" % ins[i].get("reloc", "?"))
            elif op == "cmp" and i + 4 < len(ins):
                # the conditional tail of plt_hooker
                t1, t2, t3, t4 = (ins[i + k]["text"] for k in (1, 2, 3, 4))
                m2 = re.match(r"(je|jz)\s+([0-9a-f]+)", t2)
                ok = (re.fullmatch(r"cmp\s+\$0x0,%r11", t) and re.match(r"cmove\s+0x0\(%rip\),%r11", t1) and m2
                      and re.fullmatch(r"add\s+\$0x10,%rsp", t3) and re.fullmatch(r"jmp\s+\*%r11", t4)
                      and int(m2.group(2), 16) == ins[i + 4]["addr"])
                if not ok:
                    raise TranslateError("%s: unexpected conditional code in the object: %r" % (name, [x["text"] for x in ins[i:i + 5]]))
                lines += ["cmpq $0, %r11", "cmovz %s(%%rip), %%r11" % ins[i + 1].get("reloc", "?"), "jz 1f",
                          "add $16, %rsp", "1:", "jmp *%r11"]
                i += 5
                continue
            else:
                lines.append(t)
            i += 1
        blocks[name] = lines
    return blocks


def crosscheck(srcdir):
    """Assembler check of the translation: the instruction lists translated from the .S text must equal
    the ones translated from the disassembly of the objects built from the same .S (macro expansion,
    conditional assembly and operand encoding are then covered). Returns a list of differences."""
    src = {}
    for f in FILES:
        src.update(parse_file(os.path.join(srcdir, "arch/x86_64", f)))
    obj = {}
    for f in FILES:
        o = os.path.join(srcdir, "arch/x86_64", f[:-2] + ".op")
        if not os.path.exists(o):
            return ["object %s not built" % o]
        obj.update(disassemble(o))
    diffs = []
    for n in ["mcount", "mcount_return", "__fentry__", "__dentry__", "dynamic_return", "plt_hooker", "plthook_return"]:
        a = translate_block(n, src[n])
        if n not in obj:
            diffs.append("%s: not in the objects" % n)
            continue
        try:
            b = translate_block(n, obj[n])
        except TranslateError as e:
            diffs.append("%s: object code not translatable: %s" % (n, e))
            continue
        if a != b:
            k = next((i for i, (x, y) in enumerate(zip(a, b)) if x != y), min(len(a), len(b)))
            diffs.append("%s: instruction %d differs: source %s / object %s (lengths %d/%d)" % (
                n, k, a[k] if k < len(a) else "-", b[k] if k < len(b) else "-", len(a), len(b)))
    return diffs


if __name__ == "__main__":
    ch, text = main(sys.argv[1])
    print(text)
    print("changed", ch)
