#!/usr/bin/env python3
"""c2lean — translator from a restricted subset of C to Lean 4, driven by clang's typed AST.

    python3 translators/c2lean.py <tree>            regenerate every lean/Uft/Gen/*C.lean from <tree>
    python3 translators/c2lean.py <tree> --print X   print the text generated for Gen file X (no write)

`regen(src)` returns the list of Gen files whose text changed (written only if changed).
Anything outside the subset raises `Refuse` (command line: message on stderr, exit status 2);
nothing is guessed.  The subset, the translation rules (R1..R20) and what is trusted are described in
translators/C2LEAN.md; the rules are marked `# R<n>` in this file.

Shape of a generated file (namespace Uft.Gen.<Name>):
  structure St        one field per memory location read or written by the translated functions
                      (C int / long / signed enum -> Int, unsigned -> Nat, _Bool -> Bool, pointer -> Ptr);
                      arithmetic is on Int / Nat: wrap-around is NOT modelled (every place where the C value
                      could differ is listed in the header under "caveats")
  structure Oracles   one field per opaque callee: the call's scalar/pointer arguments, the call site and the
                      state go in, the result (and, for callees declared to write memory, a state of which only
                      the declared fields are copied back) comes out
  def <fn>            `Id.run do` block: one `let mut` variable per location the function may write (initialised
                      from the input state `s0`; locations that are only read are read as `s0.<field>`), the C
                      control flow statement by statement, early `return ({ s0 with ... }, v)`.
"""
import hashlib
import json
import os
import re
import subprocess
import sys

sys.path.insert(0, os.path.dirname(os.path.dirname(os.path.abspath(__file__))))
from lib.common import write_if_changed, LEAN  # noqa: E402

CLANG = os.environ.get("C2LEAN_CLANG", "clang-14")


class Refuse(Exception):
    """the source is outside the translated subset"""


# --------------------------------------------------------------------------------------------------
# what is translated
# --------------------------------------------------------------------------------------------------
# opaque callee spec:  writes = list of patterns naming the St fields the callee may write:
#     "argN->"        every field reached through the pointer passed as argument N
#     "argN->a.b"     fields whose C path starts with <argN>->a.b
#     "g:name"        global `name` (and everything below it)
#   log = True        the call is appended to the ghost field `St.calls`
# Everything a translated function calls must be listed in `opaque`, `drop`, `identity`, `abort`
# or `helpers`; an unknown callee is refused.
DROP = ["__pr_dbg", "__pr_out", "__pr_warn", "__pr_color"]
ABORT = ["__pr_err", "__pr_err_s"]
IDENTITY = ["__builtin_expect"]

GENFILES = [
    dict(name="FstackC", src="utils/fstack.c", variant="uftrace",
         functions=[dict(fn="fstack_entry"), dict(fn="fstack_exit"), dict(fn="fstack_update")],
         helpers=["fstack_get_filter_mode", "fstack_get_loc_mode"],
         opaque={
             "fstack_get": dict(writes=["arg0->fstack_warned"]),
             "find_task_session": dict(),
             "is_kernel_record": dict(),
             "get_kernel_address": dict(),
             "uftrace_match_filter": dict(writes=["arg2->"]),
             "strncmp": dict(), "strcmp": dict(), "strstr": dict(),
         }),
    dict(name="PyTraceC", src="python/trace-python.c", variant="python",
         functions=[dict(fn="can_trace"), dict(fn="match_filter"), dict(fn="apply_filters")],
         helpers=["match_filter"],
         opaque={"strcmp": dict(), "regexec": dict(), "fnmatch": dict()}),
    dict(name="ReportC", src="utils/report.c", variant="uftrace",
         functions=[dict(fn="cmp_" + k) for k in ("total", "total_avg", "total_min", "total_max", "self", "self_avg",
                                                  "self_min", "self_max", "call", "size")] + [dict(fn="cmp_func")],
         helpers=[], opaque={"strcmp": dict()}),
    dict(name="McountC", src="libmcount/mcount.c", variant="libmcount",
         functions=[dict(fn="mcount_save_filter"), dict(fn="mcount_entry_filter_check"),
                    dict(fn="mcount_exit_filter_record", prefix_until="filter_restore_from_rstack",
                         as_name="mcount_exit_filter_record_prefix")],
         helpers=["mcount_save_filter", "mcount_get_filter_mode", "mcount_get_loc_mode",
                  "filter_restore_from_rstack"],
         opaque={
             "mcount_check_rstack": dict(writes=["arg0->in_exception", "arg0->warned"], log=True),
             "uftrace_match_filter": dict(writes=["arg2->"]),
             "record_trace_data": dict(writes=[], log=True),
             "mcount_rstack_rehook": dict(writes=[], log=True),
         }),
]


def cflags(src, variant):
    """the preprocessor-relevant part of the flags uftrace's Makefile uses for this object (-O/-W/-g are
    irrelevant to -fsyntax-only)"""
    f = ["-std=gnu11", "-D_GNU_SOURCE", "-iquote", src, "-iquote", os.path.join(src, "arch/x86_64"),
         "-DDEBUG_MODE=0", "-w", "-Wno-everything"]
    dep = os.path.join(src, "check-deps")
    have = lambda n: os.path.exists(os.path.join(dep, n))  # noqa: E731
    if have("cxa_demangle"):
        f.append("-DHAVE_CXA_DEMANGLE")
    if have("have_libpython3"):
        inc = None
        for pc in ("python3-embed", "python3"):
            r = subprocess.run(["pkg-config", pc, "--cflags"], stdout=subprocess.PIPE, stderr=subprocess.DEVNULL, text=True)
            if r.returncode == 0:
                inc = r.stdout.split()
                break
        f += ["-DHAVE_LIBPYTHON3"] + (inc or []) + ["-DLIBPYTHON_VERSION=3"]
    if have("have_libluajit"):
        r = subprocess.run(["pkg-config", "--cflags", "luajit"], stdout=subprocess.PIPE, stderr=subprocess.DEVNULL, text=True)
        f += ["-DHAVE_LIBLUAJIT"] + r.stdout.split()
    for n, d in (("perf_clockid", "HAVE_PERF_CLOCKID"), ("perf_context_switch", "HAVE_PERF_CTXSW"),
                 ("have_libdw", "HAVE_LIBDW"), ("have_libunwind", "HAVE_LIBUNWIND")):
        if have(n):
            f.append("-D" + d)
    if have("have_libncurses"):
        f += ["-DHAVE_LIBNCURSES", "-D_DEFAULT_SOURCE", "-D_XOPEN_SOURCE=600"]
    if have("have_libtraceevent"):
        f += ["-DHAVE_LIBTRACEEVENT", "-I/usr/include/traceevent"]
    if variant != "python" and (have("have_libelf") or not os.path.isdir(dep)):
        f.append("-DHAVE_LIBELF")
    if variant == "libmcount":
        f.append("-DLIBMCOUNT")
    return f


# --------------------------------------------------------------------------------------------------
# C types
# --------------------------------------------------------------------------------------------------
INT_TYPES = {
    "char": (True, 8), "signed char": (True, 8), "unsigned char": (False, 8),
    "short": (True, 16), "unsigned short": (False, 16),
    "int": (True, 32), "unsigned int": (False, 32), "unsigned": (False, 32),
    "long": (True, 64), "unsigned long": (False, 64),
    "long long": (True, 64), "unsigned long long": (False, 64),
}


class CT:
    """a C type as far as the translator cares (LP64)"""

    def __init__(self, kind, signed=None, bits=None, name=None):
        self.kind, self.signed, self.bits, self.name = kind, signed, bits, name

    def __repr__(self):
        return "CT(%s,%s,%s,%s)" % (self.kind, self.signed, self.bits, self.name)


def ctype(t, enums):
    """clang JSON `type` object -> CT"""
    q = t.get("desugaredQualType", t.get("qualType", ""))
    q0 = q
    q = re.sub(r"\b(const|volatile|restrict|__restrict)\b", "", q).strip()
    q = re.sub(r"\s+", " ", q)
    if q.endswith("*") or "(*)" in q:
        return CT("ptr", name=q)
    if q.endswith("]"):
        return CT("array", name=q)
    if q in ("_Bool", "bool"):
        return CT("bool", False, 1, q)
    if q in INT_TYPES:
        s, b = INT_TYPES[q]
        return CT("int", s, b, q)
    if q.startswith("enum "):
        e = enums.get(q)
        if e is None:
            return CT("int", False, 32, q)      # pre-scan pass; replaced once the probe has run
        return CT("int", e["signed"], 32, q)
    if q == "void":
        return CT("void", name=q)
    if q.startswith("struct ") or q.startswith("union "):
        return CT("struct", name=q)
    if "(" in q:
        return CT("func", name=q)
    raise Refuse("unsupported C type %r" % q0)


def lean_type(ct):
    if ct.kind == "bool":
        return "Bool"
    if ct.kind == "int":
        return "Int" if ct.signed else "Nat"
    if ct.kind == "ptr":
        return "Ptr"
    if ct.kind == "void":
        return "Unit"
    raise Refuse("no Lean type for C type %s" % ct.name)


def wrap_c(v, ct):
    """the value of the integer constant `v` converted to C type `ct`"""
    if ct.kind == "bool":
        return 1 if v != 0 else 0
    m = 1 << ct.bits
    v %= m
    if ct.signed and v >= m // 2:
        v -= m
    return v


# --------------------------------------------------------------------------------------------------
# clang front end
# --------------------------------------------------------------------------------------------------
def parse_docs(s):
    dec, i, docs = json.JSONDecoder(), 0, []
    while i < len(s):
        while i < len(s) and s[i].isspace():
            i += 1
        if i >= len(s):
            break
        o, i = dec.raw_decode(s, i)
        docs.append(o)
    return docs


class TU:
    """one C source file of the tree with the flags of one build variant"""

    def __init__(self, src, rel, variant):
        self.src, self.rel, self.variant = src, rel, variant
        self.path = os.path.join(src, rel)
        if not os.path.exists(self.path):
            raise Refuse("%s: no such file" % self.path)
        self.flags = cflags(src, variant)
        self.fdecl = {}
        self.text = {}

    def clang(self, extra, inp=None, path=None):
        cmd = [CLANG, "-fsyntax-only"] + self.flags + extra + [path or self.path]
        r = subprocess.run(cmd, input=inp, stdout=subprocess.PIPE, stderr=subprocess.PIPE, text=True)
        if r.returncode != 0:
            raise Refuse("clang failed on %s: %s" % (self.rel, r.stderr[-1500:]))
        return r.stdout

    def function(self, name):
        """the FunctionDecl (with body) named `name`, and the file it is defined in"""
        if name in self.fdecl:
            return self.fdecl[name]
        out = self.clang(["-Xclang", "-ast-dump=json", "-Xclang", "-ast-dump-filter=" + name])
        cands = [d for d in parse_docs(out)
                 if d.get("kind") == "FunctionDecl" and d.get("name") == name
                 and any(c.get("kind") == "CompoundStmt" for c in d.get("inner", []))]
        if len(cands) != 1:
            raise Refuse("%s: %d definitions of function %s found" % (self.rel, len(cands), name))
        d = cands[0]
        f = d["loc"].get("file") or d["loc"].get("expansionLoc", {}).get("file") or self.path
        if not os.path.exists(f):
            f = self.path
        self.fdecl[name] = (d, f)
        return self.fdecl[name]

    def source_text(self, name):
        d, f = self.function(name)
        b = d["range"]["begin"]
        e = d["range"]["end"]
        raw = open(f, "rb").read()
        if "offset" not in b or "offset" not in e:
            # a function generated by one macro invocation (SORT_KEY(total, total.sum);): its source text is the
            # invocation together with the definition of the macro
            bx, ex = b.get("expansionLoc", {}), e.get("expansionLoc", {})
            if "offset" not in bx or bx.get("offset") != ex.get("offset"):
                raise Refuse("%s: function %s starts or ends inside a macro expansion" % (self.rel, name))
            o0 = bx["offset"]
            o1 = raw.index(b";", o0) + 1
            inv = raw[o0:o1].decode("utf-8", "replace")
            mname = re.match(r"\w+", inv).group(0)
            m = re.search(r"^[ \t]*#[ \t]*define[ \t]+%s\b(?:.*\\\n)*.*\n" % re.escape(mname),
                          raw.decode("utf-8", "replace"), re.M)
            if not m:
                raise Refuse("%s: definition of the macro %s that generates %s not found" % (self.rel, mname, name))
            return m.group(0) + inv, f, o0, o1
        raw = raw
        txt = raw[b["offset"]:e["offset"] + e.get("tokLen", 1)].decode("utf-8", "replace")
        if name not in txt.split("{")[0]:
            raise Refuse("%s: source range of %s does not contain its name" % (self.rel, name))
        return txt, f, b["offset"], e["offset"] + e.get("tokLen", 1)

    def probe_enums(self, consts, types):
        """values of enum constants and signedness of enum types, evaluated by clang itself: a probe
        translation unit that includes the source file and declares
            enum { c2l_probe_v_<i> = (<constant>) };  enum { c2l_probe_s_<i> = (((<enum type>)-1) < 0) };
        is dumped with -ast-dump-filter=c2l_probe_ and the ConstantExpr values are read back"""
        consts, types = sorted(consts), sorted(types)
        if not consts and not types:
            return {}, {}
        lines = ['#include "%s"' % self.path]
        for i, c in enumerate(consts):
            lines.append("enum c2l_probe_ve_%d { c2l_probe_v_%d = (%s) };" % (i, i, c))
        for i, t in enumerate(types):
            lines.append("enum c2l_probe_se_%d { c2l_probe_s_%d = (((%s)-1) < 0) };" % (i, i, t))
        out = self.clang(["-I", os.path.dirname(self.path), "-Xclang", "-ast-dump=json", "-Xclang",
                          "-ast-dump-filter=c2l_probe_", "-x", "c"], inp="\n".join(lines) + "\n", path="-")
        vals = {}
        for d in parse_docs(out):
            for n in walk(d):
                if n.get("kind") == "EnumConstantDecl" and n.get("name", "").startswith("c2l_probe_"):
                    ce = [x for x in walk(n) if x.get("kind") == "ConstantExpr" and "value" in x]
                    if not ce:
                        raise Refuse("probe: no value for " + n["name"])
                    vals[n["name"]] = int(ce[0]["value"])
        cv, ts = {}, {}
        for i, c in enumerate(consts):
            cv[c] = vals["c2l_probe_v_%d" % i]
        for i, t in enumerate(types):
            ts[t] = {"signed": bool(vals["c2l_probe_s_%d" % i])}
        return cv, ts


def walk(n):
    if isinstance(n, dict):
        yield n
        for c in n.get("inner", []) or []:
            yield from walk(c)


def kids(n):
    return [c for c in (n.get("inner") or [])]


# --------------------------------------------------------------------------------------------------
# locations and pointer values
# --------------------------------------------------------------------------------------------------
# Loc = ("g", name) | ("dot", Loc, member) | ("arrow", PV, member)
# PV  = ("addr", Loc) | ("stored", Loc) | ("param", name, boundPV|None) | ("objlocal", name) | ("opaque", lean)
def loc_ctext(l):
    if l[0] == "g":
        return l[1]
    if l[0] == "dot":
        return loc_ctext(l[1]) + "." + l[2]
    return pv_ctext(l[1]) + "->" + l[2]


def pv_ctext(p):
    if p[0] == "addr":
        return "(&" + loc_ctext(p[1]) + ")"
    if p[0] == "stored":
        return loc_ctext(p[1])
    if p[0] == "param":
        return pv_ctext(p[2]) if p[2] is not None and p[2][0] != "elem" else p[1]
    if p[0] in ("objlocal", "elem"):
        return p[1]
    raise Refuse("memory is reached through the pointer value `%s`, which is neither a parameter, a global, a "
                 "pointer field, nor a local assigned exactly once from an opaque call" % (p[1],))


def loc_root_pv(l):
    """the pointer value an access path starts from (None for a path rooted in a global)"""
    while l[0] == "dot":
        l = l[1]
    if l[0] == "g":
        return None
    pv = l[1]
    if pv[0] == "stored":
        return loc_root_pv(pv[1])
    if pv[0] == "addr":
        return loc_root_pv(pv[1])
    return pv


def is_elem_pv(pv):
    return pv is not None and (pv[0] == "elem" or (pv[0] == "param" and pv[2] is not None and pv[2][0] == "elem"))


def loc_fname(l):
    return re.sub(r"[^A-Za-z0-9_]", "", loc_ctext(l).replace("->", "_").replace(".", "_"))


def mk_arrow(pv, member):
    """R5: p->m; through an alias `p = &L` this is L.m"""
    if pv[0] == "param" and pv[2] is not None and pv[2][0] != "elem":
        pv = pv[2]
    if pv[0] == "addr":
        return ("dot", pv[1], member)
    return ("arrow", pv, member)


# --------------------------------------------------------------------------------------------------
# the translation of one Gen file
# --------------------------------------------------------------------------------------------------
LEAN_KEYWORDS = {"end", "from", "at", "in", "do", "then", "else", "if", "fun", "let", "have", "show", "type",
                 "open", "section", "namespace", "instance", "structure", "class", "where", "with", "match",
                 "def", "theorem", "o", "s0", "return", "for", "mut", "by"}


def lname(n):
    return n + "'" if n in LEAN_KEYWORDS else n


def lit(v, lt):
    if lt == "Bool":
        return "true" if v else "false"
    if lt == "Int":
        return "(%d : Int)" % v if v >= 0 else "(%d : Int)" % v
    if lt == "Nat":
        if v < 0:
            raise Refuse("negative constant %d at an unsigned type" % v)
        return "(%d : Nat)" % v
    raise Refuse("literal of type " + lt)


class GenFile:
    def __init__(self, spec, src):
        self.spec, self.src = spec, src
        self.tu = TU(src, spec["src"], spec["variant"])
        self.opaque = spec.get("opaque", {})
        self.helpers = set(spec.get("helpers", []))
        self.enum_vals, self.enum_types = {}, {}
        self.fields = {}        # fname -> dict(ctext, lt, ctname)   (the ghost fields calls/aborted are not in here)
        self.oracles = {}       # callee -> dict(args=[lean types], ret=lean type, writes, log)
        self.caveats = []
        self.defs = []          # (leanname, text) in emission order
        self.done = {}          # (fn, binding key) -> leanname
        self.meta = {}          # per function: data for the self-test
        self.hashes = {}        # fn -> (file, sha)
        self.in_progress = []
        self.freeze = False     # second pass: the field set is known
        self.written = {}       # lean def name -> set of field names it may write (from pass 1)
        self.elems = {}         # element type name -> {field name: dict(lt, rel)}   (R21: members read through a list cursor)
        self.lists = {}         # St field name -> dict(elem, ctext, member, ctype)  (R21: the lists iterated over)

    # ---- fields ------------------------------------------------------------------------------
    def field(self, loc, ct):
        name = loc_fname(loc)
        lt = lean_type(ct)
        ctext = loc_ctext(loc)
        old = self.fields.get(name)
        if old is None:
            if self.freeze:
                raise Refuse("internal: field %s appears only in the second pass" % name)
            self.fields[name] = dict(ctext=ctext, lt=lt, ctname=ct.name)
        elif old["lt"] != lt or old["ctext"] != ctext:
            raise Refuse("two different memory locations map to the field name %s (%s : %s / %s : %s)"
                         % (name, old["ctext"], old["lt"], ctext, lt))
        return name

    def caveat(self, fn, what):
        c = "%s: %s" % (fn, what)
        if c not in self.caveats:
            self.caveats.append(c)

    # ---- driver ------------------------------------------------------------------------------
    def prescan(self):
        """load the ASTs of every function that will be translated and probe the enum constants"""
        todo = [f["fn"] for f in self.spec["functions"]]
        seen = []
        consts, types = set(), set()
        while todo:
            fn = todo.pop()
            if fn in seen:
                continue
            seen.append(fn)
            d, _ = self.tu.function(fn)
            for n in walk(d):
                rd = n.get("referencedDecl")
                if rd and rd.get("kind") == "EnumConstantDecl":
                    consts.add(rd["name"])
                if rd and rd.get("kind") == "FunctionDecl" and rd["name"] in self.helpers:
                    todo.append(rd["name"])
                t = n.get("type")
                if t:
                    q = t.get("desugaredQualType", t.get("qualType", ""))
                    q = re.sub(r"\b(const|volatile)\b", "", q).strip()
                    if q.startswith("enum ") and "(" not in q and "*" not in q and "[" not in q:
                        types.add(q)
        self.enum_vals, self.enum_types = self.tu.probe_enums(consts, types)
        for fn in seen:
            txt, f, _, _ = self.tu.source_text(fn)
            self.hashes[fn] = (os.path.relpath(f, self.src), hashlib.sha256(txt.encode()).hexdigest())

    def run_pass(self):
        self.defs, self.done, self.caveats, self.meta = [], {}, [], {}
        for o in self.oracles.values():
            o["sites"] = []
        for f in self.spec["functions"]:
            FnTr(self, f["fn"], {}, top=f).translate()

    def generate(self):
        self.prescan()
        # the field set, the write sets of the opaque callees and the written sets of the defs depend on each
        # other: iterate to the fixed point (2-3 rounds), then emit with everything known
        for _ in range(6):
            snap = lambda: (sorted(self.fields), {k: sorted(v) for k, v in self.written.items()},  # noqa: E731
                            {k: list(o["wfields"]) for k, o in self.oracles.items()},
                            {k: sorted(v) for k, v in self.elems.items()}, sorted(self.lists))
            before = snap()
            self.run_pass()
            after = snap()
            if before == after:
                break
        else:
            raise Refuse("internal: no fixed point of the field / write sets")
        self.freeze = True
        self.run_pass()
        return self.render()

    # ---- output ------------------------------------------------------------------------------
    def render(self):
        sp = self.spec
        L = []
        L.append("/- GENERATED by translators/c2lean.py from %s — do not edit." % sp["src"])
        L.append("   clang AST (%s), build variant `%s`." % (CLANG, sp["variant"]))
        L.append("   Translated functions and the SHA-256 of their source text:")
        for fn in sorted(self.hashes):
            L.append("     %-34s %s  %s" % (fn, self.hashes[fn][0], self.hashes[fn][1]))
        L.append("   Integer arithmetic is on Int (signed C types) and Nat (unsigned C types): wrap-around,")
        L.append("   truncation by narrowing casts and the modular result of unsigned subtraction are NOT modelled.")
        L.append("   Where a conversion to an unsigned or narrower type, an unsigned subtraction or an unsigned `--` could")
        L.append("   make the C value differ, the ghost field `St.wrapped` is set when it does (sites marked `detected`);")
        L.append("   overflow of + and * beyond the width of the C type is not detected.")
        if self.caveats:
            L.append("   Caveats (places where the C value differs from the Lean value outside the modelled range):")
            for c in self.caveats:
                L.append("     - " + c)
        L.append("   Opaque callees (fields of `Oracles`; result and declared write set are parameters):")
        for k in sorted(self.oracles):
            o = self.oracles[k]
            L.append("     - %s : writes %s%s" % (k, ", ".join(o["wfields"]) if o["wfields"] else
                                                 ("nothing in St (declared: %s)" % ", ".join(self.opaque[k]["writes"])
                                                  if o["eff"] else "nothing"),
                                                 " ; logged in St.calls" if o["log"] else ""))
        L.append("-/")
        L.append("import Uft.Gen.RuntimeC")
        L.append("set_option linter.unusedVariables false")
        L.append("namespace Uft.Gen.%s" % sp["name"])
        L.append("open Uft.Gen.C\n")
        for en in sorted(self.elems):
            L.append("/-- an element of a list the code iterates over (R21): the members read through the cursor -/")
            L.append("structure %s where" % en)
            L.append("  self : Ptr := Ptr.null  -- the address of the element")
            for f in sorted(self.elems[en]):
                e = self.elems[en][f]
                L.append("  %s : %s := %s  -- ->%s" % (lname(f), e["lt"], DEFAULTS[e["lt"]], e["rel"]))
            L.append("  deriving DecidableEq, Repr, Inhabited\n")
            L.append("def %s.ptr (x : Option %s) : Ptr := match x with | some e => e.self | none => Ptr.null\n" % (en, en))
        L.append("/-- the memory the translated functions read or write: one field per C location -/")
        L.append("structure St where")
        for n in sorted(self.lists):
            li = self.lists[n]
            L.append("  %s : List %s := []  -- the elements of the list %s, in order (linked through .%s)"
                     % (lname(n), li["elem"], li["ctext"], li["member"]))
        for n in sorted(self.fields):
            f = self.fields[n]
            L.append("  %s : %s%s  -- %s  (%s)" % (lname(n), f["lt"], " := " + DEFAULTS[f["lt"]], f["ctext"], f["ctname"]))
        L.append("  calls : List CallEv := []   -- ghost: logged calls of opaque callees, oldest first")
        L.append("  aborted : Bool := false     -- ghost: a noreturn error function (pr_err) was reached")
        L.append("  wrapped : Bool := false     -- ghost: a conversion / unsigned subtraction left the modelled range")
        L.append("  deriving DecidableEq, Repr, Inhabited\n")
        for k in sorted(self.oracles):
            o = self.oracles[k]
            if o["eff"]:
                L.append("/-- the locations `%s` may write (current values in, new values out) -/" % k)
                L.append("structure W_%s where" % k)
                for f in o["wfields"]:
                    L.append("  %s : %s" % (lname(f), self.fields[f]["lt"]))
                if not o["wfields"]:
                    L.append("  unit : Unit := ()")
                L.append("  deriving DecidableEq, Repr, Inhabited\n")
        L.append("/-- the opaque callees; `site` names the call expression (\"<function>:<n>\") -/")
        L.append("structure Oracles where")
        for k in sorted(self.oracles):
            o = self.oracles[k]
            ret = o["ret"]
            if o["eff"]:
                ret = "W_%s" % k if ret == "Unit" else "%s × W_%s" % (ret, k)
            L.append("  %s : (site : String) → %s%s" % (lname(k), "".join(a + " → " for a in o["args"]),
                                                     ("W_%s → " % k if o["eff"] else "") + ret))
        if not self.oracles:
            L.append("  unit : Unit := ()")
        L.append("")
        for _, text in self.defs:
            L.append(text)
            L.append("")
        L.append("end Uft.Gen.%s" % sp["name"])
        return "\n".join(L) + "\n"


DEFAULTS = {"Int": "0", "Nat": "0", "Bool": "false", "Ptr": "Ptr.null"}


class Local:
    def __init__(self, name, ct, kind, pv=None):
        self.name, self.ct, self.kind, self.pv = name, ct, kind, pv   # kind: scalar | alias | objlocal | value


class FnTr:
    """translation of one C function (for one binding of its pointer parameters) to one Lean def"""

    def __init__(self, gf, fn, binding, top=None):
        self.gf, self.fn, self.binding, self.top = gf, fn, binding, top
        self.decl, self.file = gf.tu.function(fn)
        self.enums = gf.enum_types
        self.params = {}       # decl id -> (name, CT)
        self.locals = {}       # decl id -> Local
        self.lines = []
        self.ind = 1
        self.ntemp = 0
        self.nsite = 0
        self.reads = {}
        self.effects = []      # (field name or local name, own reads) of the current full expression
        self.oracle_helpers = {}
        self.used_oracles = []
        self.objlocals = {}    # name -> (callee, pointee type)
        self.has_oracle = False
        self.wset = set()      # fields written by this def (this pass)
        self.touched = set()   # fields read or written by this def and the helpers it calls
        self.listloops = {}    # ForStmt id -> description of a recognised list_for_each_entry loop (R21)
        self.elem_pos = {}     # decl id of a list cursor -> element type name
        self.loops = []        # the list loops we are inside of: dict(pos, evar, brk)
        self.cursor_state = {}  # cursor name -> "after" | "reset" | "dangling"
        self.used_lists = set()
        self.nbrk = 0
        self.nohoist = 0       # > 0: inside an operand that is evaluated conditionally (no statement may be hoisted)
        self.guard = None      # inside a predicated (return-free) if: the Lean Bool variable guarding the effects
        self.nguard = 0

    # ---- small helpers ---------------------------------------------------------------------
    def ct(self, n):
        return ctype(n["type"], self.enums)

    def emit(self, s):
        self.lines.append("  " * self.ind + s)

    def temp(self):
        self.ntemp += 1
        return "t%d" % self.ntemp

    def site(self):
        self.nsite += 1
        return '"%s:%d"' % (self.leanname, self.nsite)

    def refuse(self, n, msg):
        line = ""
        for k in ("loc",):
            pass
        r = n.get("range", {}).get("begin", {}) if isinstance(n, dict) else {}
        ln = r.get("line") or r.get("expansionLoc", {}).get("line") or r.get("spellingLoc", {}).get("line")
        if ln:
            line = " (near line %s)" % ln
        raise Refuse("%s: %s%s: %s" % (self.gf.spec["src"], self.fn, line, msg))

    # ---- pre-scan of the body: which locals are assigned where -------------------------------
    def strip(self, n):
        """drop parentheses and value-preserving implicit casts"""
        while True:
            if n.get("kind") == "ParenExpr":
                n = kids(n)[0]
            elif n.get("kind") in ("ImplicitCastExpr", "CStyleCastExpr") and \
                    n.get("castKind") in ("LValueToRValue", "NoOp", "BitCast", "FunctionToPointerDecay",
                                          "BuiltinFnToFnPtr"):
                n = kids(n)[0]
            elif n.get("kind") == "ConstantExpr":
                n = kids(n)[0]
            else:
                return n

    def callee_name(self, call):
        f = self.strip(kids(call)[0])
        if f.get("kind") == "DeclRefExpr" and f.get("referencedDecl", {}).get("kind") == "FunctionDecl":
            return f["referencedDecl"]["name"]
        self.refuse(call, "call through a function pointer")

    def assignments_to(self, body, declid):
        """(node, parent compound, index in parent) of every statement/expression that assigns the local"""
        out = []

        def rec(n, parent, idx):
            k = n.get("kind")
            if k in ("BinaryOperator", "CompoundAssignOperator") and (n.get("opcode", "").endswith("=")
                                                                      and n.get("opcode") not in ("==", "!=", "<=", ">=")):
                lhs = self.strip(kids(n)[0])
                if lhs.get("kind") == "DeclRefExpr" and lhs["referencedDecl"]["id"] == declid:
                    out.append((n, parent, idx))
            if k == "UnaryOperator" and n.get("opcode") in ("++", "--", "&"):
                t = self.strip(kids(n)[0])
                if t.get("kind") == "DeclRefExpr" and t["referencedDecl"]["id"] == declid:
                    out.append((n, parent, idx))
            for i, c in enumerate(kids(n)):
                if k == "CompoundStmt":
                    rec(c, n, i)
                else:
                    rec(c, parent, idx)
        rec(body, None, 0)
        return out

    def classify_locals(self, body):
        """R6: pointer locals are (a) aliases `T *p = &L;` / `T *p = q->m;` never assigned again,
        (b) object locals: assigned exactly once, by a statement `p = opaque(...)` that is a direct child of the
        block declaring p and precedes every other use, (c) plain values (null tests, arguments)"""
        for x in walk(body):
            if x.get("kind") == "ForStmt":
                d = self.match_list_loop(x)
                if d is not None:
                    self.listloops[x["id"]] = d
                    et = "Elem_" + re.sub(r"\W+", "_", re.sub(r"^(struct|union)\s+", "", d["postype"].rstrip("* ").strip()))
                    if self.elem_pos.get(d["pos_id"], et) != et:
                        self.refuse(x, "list cursor used with two element types")
                    self.elem_pos[d["pos_id"]] = et
                    d["elem"] = et

        def rec(n, block):
            if n.get("kind") == "CompoundStmt":
                block = n
            if n.get("kind") == "VarDecl" and n["id"] in self.elem_pos:
                # R21: the cursor of a list loop; every assignment to it must belong to the loop or its idiom
                l = Local(n["name"], self.ct(n), "elem")
                l.elem = self.elem_pos[n["id"]]
                if kids(n):
                    self.refuse(n, "list cursor `%s` has an initialiser" % n["name"])
                self.locals[n["id"]] = l
            elif n.get("kind") == "VarDecl":
                ct = self.ct(n)
                if n.get("storageClass") == "static":
                    self.refuse(n, "static local variable")
                if ct.kind in ("struct", "array"):
                    self.locals[n["id"]] = Local(n["name"], ct, "aggregate")
                elif ct.kind != "ptr":
                    self.locals[n["id"]] = Local(n["name"], ct, "scalar")
                else:
                    asg = self.assignments_to(body, n["id"])
                    init = kids(n)[0] if kids(n) else None
                    if init is not None and not asg and self.try_alias(init) is not None:
                        self.locals[n["id"]] = Local(n["name"], ct, "alias")       # pv filled when reached
                    elif init is None and len(asg) == 1 and asg[0][1] is block and self.is_objlocal_assign(asg[0][0]):
                        # every other use must come after the assignment statement in the same block
                        idx = asg[0][2]
                        ok = True
                        for j, st in enumerate(kids(block)):
                            if j < idx and st.get("kind") != "DeclStmt" and self.mentions(st, n["id"]):
                                ok = False
                        self.locals[n["id"]] = Local(n["name"], ct, "objlocal" if ok else "value")
                    else:
                        self.locals[n["id"]] = Local(n["name"], ct, "value")
            for c in kids(n):
                rec(c, block)
        rec(body, None)

    def mentions(self, n, declid):
        return any(x.get("kind") == "DeclRefExpr" and x.get("referencedDecl", {}).get("id") == declid for x in walk(n))

    def is_objlocal_assign(self, n):
        if n.get("kind") != "BinaryOperator" or n.get("opcode") != "=":
            return False
        r = self.strip(kids(n)[1])
        return r.get("kind") == "CallExpr" and self.callee_name(r) in self.gf.opaque

    def try_alias(self, init):
        """pointer initialiser that names memory: `&L` or a pointer-typed location; None otherwise"""
        n = self.strip(init)
        if n.get("kind") == "UnaryOperator" and n.get("opcode") == "&":
            t = self.strip(kids(n)[0])
            if t.get("kind") in ("MemberExpr", "DeclRefExpr"):
                return "addr"
        if n.get("kind") == "MemberExpr":
            return "stored"
        return None

    # ---- top level ---------------------------------------------------------------------------
    def binding_key(self):
        return tuple(sorted((k, "an element of the list" if v[0] == "elem" else pv_ctext(v))
                            for k, v in self.binding.items() if v is not None and v[0] != "opaque"))

    def translate(self):
        gf = self.gf
        d = self.decl
        body = [c for c in kids(d) if c.get("kind") == "CompoundStmt"][0]
        pnodes = [c for c in kids(d) if c.get("kind") == "ParmVarDecl"]
        for p in pnodes:
            if "name" not in p:
                self.refuse(p, "unnamed parameter")
            self.params[p["id"]] = (p["name"], self.ct(p))
        # name of the Lean def: the C name, plus the binding when a pointer parameter stands for another path
        suffix = ""
        for p in pnodes:
            b = self.binding.get(p["name"])
            if b is not None and b[0] == "elem":
                suffix += "__elem"
            elif b is not None and b[0] != "opaque" and pv_ctext(b) != p["name"]:
                suffix += "__" + re.sub(r"[^A-Za-z0-9]+", "_", pv_ctext(b)).strip("_")
        base = (self.top or {}).get("as_name", self.fn)
        self.leanname = base + suffix
        key = (self.fn, self.leanname)
        if key in gf.done:
            return gf.done[key]
        if key in gf.in_progress:
            self.refuse(d, "recursive call")
        gf.in_progress.append(key)
        rct = ctype({"qualType": d["type"]["qualType"].split("(")[0].strip()}, self.enums)
        self.rct = rct
        self.rlt = lean_type(rct)
        self.classify_locals(body)
        self.assigned_params = set()
        for pid, (pn, pct) in self.params.items():
            if self.assignments_to(body, pid):
                if pct.kind == "ptr":
                    # a pointer parameter that is assigned loses its meaning as a path root
                    for x in walk(body):
                        if x.get("kind") == "MemberExpr" and x.get("isArrow"):
                            b = self.strip(kids(x)[0])
                            if b.get("kind") == "DeclRefExpr" and b["referencedDecl"]["id"] == pid:
                                self.refuse(x, "pointer parameter %s is assigned and dereferenced" % pn)
                self.assigned_params.add(pid)
        stmts = kids(body)
        prefix_until = (self.top or {}).get("prefix_until")
        if prefix_until:
            cut = None
            for i, st in enumerate(stmts):
                c = self.strip(st)
                if c.get("kind") == "CallExpr" and self.callee_name(c) == prefix_until:
                    cut = i
                    break
            if cut is None:
                self.refuse(d, "prefix_until: no top-level call of %s" % prefix_until)
            stmts = stmts[:cut + 1]
            self.partial = "PREFIX ONLY: the top-level statements up to and including the call of %s" % prefix_until
        else:
            self.partial = None
        # header
        ps = []
        for p in pnodes:
            pn, pct = self.params[p["id"]]
            if pct.kind in ("struct", "array"):
                self.refuse(p, "aggregate parameter passed by value")
            ps.append("(%s : %s)" % (lname(pn), lean_type(pct)))
            b = self.binding.get(pn)
            if b is not None and b[0] == "elem":
                ps.append("(%s : %s)" % (lname(pn + "_e"), b[2]))          # R21: the element the pointer stands for
        res = "St" if rct.kind == "void" else "St × %s" % self.rlt
        self.emit_header = "def %s (o : Oracles) %s(s0 : St) : %s := Id.run do" % (
            lname(self.leanname), "".join(x + " " for x in ps), res)
        self.known_w = set(gf.written.get(self.leanname, set()))
        cnames = set(l.name for l in self.locals.values()) | set(pn for pn, _ in self.params.values())
        for f in sorted(self.known_w):
            if f in cnames:
                self.refuse(d, "C variable `%s` has the name of a memory field" % f)
            self.emit("let mut %s := s0.%s" % (lname(f), lname(f)))
        for pid in sorted(self.assigned_params, key=lambda i: self.params[i][0]):
            self.emit("let mut %s := %s" % (lname(self.params[pid][0]), lname(self.params[pid][0])))
        falls = self.block(stmts)
        if falls:
            if rct.kind != "void" and not prefix_until:
                self.refuse(d, "control may reach the end of a non-void function")
            self.emit("return " + self.ret_tuple(None))
        doc = "/-- %s:%s `%s`%s%s -/" % (
            gf.hashes.get(self.fn, ("?",))[0],
            d["loc"].get("line") or d["loc"].get("expansionLoc", {}).get("line", "?"), self.fn,
            " with " + ", ".join("%s ↦ %s" % (k, v) for k, v in self.binding_key()) if suffix else "",
            " — " + self.partial if self.partial else "")
        text = "\n".join([doc, self.emit_header] + self.lines)
        gf.in_progress.pop()
        if gf.freeze and self.wset != self.known_w:
            self.refuse(d, "internal: the two passes disagree on the written fields")
        gf.written[self.leanname] = set(self.wset)
        gf.defs.append((self.leanname, text))
        gf.done[key] = self.leanname
        gf.meta[self.leanname] = dict(
            fn=self.fn, params=[(self.params[p["id"]][0], self.params[p["id"]][1]) for p in pnodes],
            ptypes=[p["type"]["qualType"] for p in pnodes], ret=rct, objlocals=dict(self.objlocals),
            oracles=list(self.used_oracles), partial=self.partial, has_oracle=self.has_oracle,
            binding=dict(self.binding), touched=set(self.touched) | set(self.wset), line=d["loc"].get("line"),
            lists=set(self.used_lists))
        return self.leanname

    def fld(self, loc, ct):
        f = self.gf.field(loc, ct)
        self.touched.add(f)
        return f

    def cur_state(self):
        """the record of the current memory: the input state with the written locations replaced"""
        w = sorted(self.known_w)
        if not w:
            return "s0"
        return "{ s0 with %s }" % ", ".join(lname(f) for f in w)        # field abbreviation: f := f

    def fread(self, f):
        return lname(f) if f in self.known_w else "s0." + lname(f)

    def fwrite(self, f, val):
        self.wset.add(f)
        self.vassign(lname(f), val)

    def note_wrap(self, cond, what):
        """record that the C value differs from the Lean value when `cond` holds; returns True if detected"""
        if self.nohoist > 0:
            self.gf.caveat(self.fn, what + " — NOT detected (inside a conditionally evaluated operand)")
            return False
        self.gf.caveat(self.fn, what + " — detected (St.wrapped)")
        self.fwrite("wrapped", "(%s || %s)" % (self.fread("wrapped"), cond))
        return True

    def vassign(self, var, val):
        """assignment to a mutable Lean variable; under a guard it keeps its value when the guard is false (R12b)"""
        if self.guard is None:
            self.emit("%s := %s" % (var, val))
        else:
            self.emit("%s := if %s then %s else %s" % (var, self.guard, val, var))

    def ret_tuple(self, v):
        if self.rct.kind == "void" or (self.top or {}).get("prefix_until") and v is None:
            if self.rct.kind != "void":
                return "(%s, default)" % self.cur_state()
            return self.cur_state()
        return "(%s, %s)" % (self.cur_state(), v)

    # ---- statements --------------------------------------------------------------------------
    def block(self, stmts):
        """translate a statement list; returns True when control can fall out of its end"""
        falls = True
        i = 0
        while i < len(stmts):
            st = stmts[i]
            if not falls:
                self.refuse(st, "statement after a return / break / continue (dead code)")
            if st.get("kind") == "ForStmt":
                i += self.loop(st, stmts[i + 1] if i + 1 < len(stmts) else None)
                falls = True
            else:
                falls = self.stmt(st)
            i += 1
        return falls

    def is_dropped_call(self, n):
        n = self.strip(n)
        return n.get("kind") == "CallExpr" and self.callee_name(n) in DROP

    def only_dropped(self, n):
        """a statement made only of calls to dropped (debug print) functions"""
        k = n.get("kind")
        if k == "CompoundStmt":
            return all(self.only_dropped(c) for c in kids(n))
        if k == "NullStmt":
            return True
        if k in ("StmtExpr",):
            return all(self.only_dropped(c) for c in kids(n))
        if k == "DoStmt":
            b, c = kids(n)
            return self.is_zero(c) and self.only_dropped(b)
        if k == "IfStmt" and not n.get("hasElse"):
            c, t = kids(n)[0], kids(n)[1]
            return self.pure_expr(c) and self.only_dropped(t)
        if k in ("ParenExpr", "ImplicitCastExpr", "CStyleCastExpr"):
            return self.only_dropped(kids(n)[0])
        if k == "CallExpr":
            return self.callee_name(n) in DROP and all(self.pure_expr(a) for a in kids(n)[1:])
        return False

    def pure_expr(self, n):
        """no assignment, no increment, no call except identity functions"""
        for x in walk(n):
            k = x.get("kind")
            if k == "CompoundAssignOperator":
                return False
            if k == "BinaryOperator" and x.get("opcode") == "=":
                return False
            if k == "UnaryOperator" and x.get("opcode") in ("++", "--"):
                return False
            if k == "CallExpr" and self.callee_name(x) not in IDENTITY:
                return False
            if k == "StmtExpr":
                return False
        return True

    def is_zero(self, n):
        n = self.strip(n)
        while n.get("kind") in ("ImplicitCastExpr", "CStyleCastExpr", "ParenExpr"):
            n = kids(n)[0]
        return n.get("kind") == "IntegerLiteral" and int(n["value"]) == 0

    def stmt(self, n):
        k = n.get("kind")
        if self.only_dropped(n) and k != "NullStmt":
            return True                                   # R17: debug prints are dropped, with their guard
        if k == "NullStmt":
            return True
        if k == "CompoundStmt":
            return self.block(kids(n))
        if k == "StmtExpr":
            return self.block(kids(kids(n)[0]))
        if k == "DoStmt":                                 # R18: do { ... } while (0) wrappers of macros
            b, c = kids(n)
            if not self.is_zero(c):
                self.refuse(n, "loop (do/while)")
            if any(x.get("kind") in ("BreakStmt", "ContinueStmt") for x in walk(b)):
                self.refuse(n, "break/continue inside do { } while (0)")
            return self.stmt(b)
        if k in ("ForStmt", "WhileStmt"):
            self.loop(n)
            return True
        if k in ("ContinueStmt", "BreakStmt") and self.loops and self.guard is None:
            if k == "BreakStmt":
                self.emit("%s := true" % self.loops[-1]["brk"])
                self.emit("break")
            else:
                self.emit("continue")
            return False
        if k in ("GotoStmt", "LabelStmt", "IndirectGotoStmt", "ContinueStmt", "BreakStmt"):
            self.refuse(n, "%s outside the supported forms" % k)
        if k == "DeclStmt":
            for v in kids(n):
                self.decl_local(v)
            return True
        if k == "IfStmt":
            return self.if_stmt(n)
        if k == "SwitchStmt":
            return self.switch_stmt(n)
        if k == "ReturnStmt":
            self.begin_full()
            if kids(n):
                if self.rct.kind == "void":
                    self.refuse(n, "return with a value in a void function")
                v = self.expr(kids(n)[0], self.rlt)
                self.end_full(n)
                self.emit("return " + self.ret_tuple(v))
            else:
                self.end_full(n)
                self.emit("return " + self.ret_tuple(None))
            return False
        # expression statement
        self.begin_full()
        self.expr_stmt(n)
        self.end_full(n)
        return True

    def sig(self, n):
        """structural signature of an expression (parentheses and value-preserving casts ignored)"""
        n = self.strip(n)
        rd = n.get("referencedDecl", {})
        return (n.get("kind"), n.get("name"), n.get("opcode"), n.get("isArrow"), rd.get("id"), n.get("value"),
                tuple(self.sig(c) for c in kids(n)))

    def match_list_loop(self, n):
        """R21: the expansion of utils/list.h `list_for_each_entry(pos, head, member)`:
             for (pos = container_of((head)->next, typeof(*pos), member);
                  &pos->member != (head);
                  pos = container_of(pos->member.next, typeof(*pos), member))"""
        ks = n.get("inner") or []
        if len(ks) != 5:
            return None
        init, _, cond, inc, body = ks
        if not init or not cond or not inc:
            return None

        def assign_from_container(x):
            x = self.strip(x)
            if x.get("kind") != "BinaryOperator" or x.get("opcode") != "=":
                return None
            lhs, rhs = self.strip(kids(x)[0]), self.strip(kids(x)[1])
            if lhs.get("kind") != "DeclRefExpr" or rhs.get("kind") != "StmtExpr":
                return None
            nx = [y for y in walk(rhs) if y.get("kind") == "MemberExpr" and y.get("name") == "next"]
            if len(nx) != 1 or not any(y.get("kind") == "OffsetOfExpr" for y in walk(rhs)) \
                    or not any(y.get("kind") == "VarDecl" and y.get("name") == "__mptr" for y in walk(rhs)):
                return None
            return lhs, nx[0]

        a = assign_from_container(init)
        b = assign_from_container(inc)
        if a is None or b is None:
            return None
        pos, nx1 = a
        pos2, nx2 = b
        pid = pos["referencedDecl"]["id"]
        if pos2["referencedDecl"]["id"] != pid or not nx1.get("isArrow") or nx2.get("isArrow"):
            return None
        head = kids(nx1)[0]
        c = self.strip(cond)
        if c.get("kind") != "BinaryOperator" or c.get("opcode") != "!=":
            return None
        ca = self.strip(kids(c)[0])
        if ca.get("kind") != "UnaryOperator" or ca.get("opcode") != "&":
            return None
        m = self.strip(kids(ca)[0])
        if m.get("kind") != "MemberExpr" or not m.get("isArrow"):
            return None
        mb = self.strip(kids(m)[0])
        if mb.get("kind") != "DeclRefExpr" or mb["referencedDecl"]["id"] != pid:
            return None
        member = m["name"]
        if self.sig(kids(c)[1]) != self.sig(head):
            return None
        m2 = self.strip(kids(nx2)[0])
        if m2.get("kind") != "MemberExpr" or m2.get("name") != member or not m2.get("isArrow"):
            return None
        m2b = self.strip(kids(m2)[0])
        if m2b.get("kind") != "DeclRefExpr" or m2b["referencedDecl"]["id"] != pid:
            return None
        return dict(pos_id=pid, posname=pos["referencedDecl"]["name"], head=head, member=member, body=body,
                    postype=pos["type"].get("desugaredQualType", pos["type"]["qualType"]))

    def is_no_entry_idiom(self, st, d):
        """`if (&pos->member == head) pos = NULL;` — list_no_entry after the loop"""
        if st is None or st.get("kind") != "IfStmt" or st.get("hasElse") or len(kids(st)) != 2:
            return False
        c = self.strip(kids(st)[0])
        if c.get("kind") != "BinaryOperator" or c.get("opcode") != "==":
            return False
        ca = self.strip(kids(c)[0])
        if ca.get("kind") != "UnaryOperator" or ca.get("opcode") != "&":
            return False
        m = self.strip(kids(ca)[0])
        if m.get("kind") != "MemberExpr" or m.get("name") != d["member"] or not m.get("isArrow"):
            return False
        mb = self.strip(kids(m)[0])
        if mb.get("kind") != "DeclRefExpr" or mb["referencedDecl"]["id"] != d["pos_id"]:
            return False
        if self.sig(kids(c)[1]) != self.sig(d["head"]):
            return False
        t = kids(st)[1]
        if t.get("kind") == "CompoundStmt" and len(kids(t)) == 1:
            t = kids(t)[0]
        t = self.strip(t)
        if t.get("kind") != "BinaryOperator" or t.get("opcode") != "=":
            return False
        lhs = self.strip(kids(t)[0])
        if lhs.get("kind") != "DeclRefExpr" or lhs["referencedDecl"]["id"] != d["pos_id"]:
            return False
        r = kids(t)[1]
        while r.get("kind") in ("ImplicitCastExpr", "CStyleCastExpr", "ParenExpr"):
            r = kids(r)[0]
        return r.get("kind") == "IntegerLiteral" and int(r["value"]) == 0

    def loop(self, n, following=None):
        """R21: a list_for_each_entry loop is a Lean `for e in <list> do`; the list is an input (a `List` of
        element records holding the members read through the cursor); the cursor is `some e` inside the body,
        stays so after `break`, and is reset by the list_no_entry idiom when the loop ran to its end.
        Returns the number of following statements consumed (0 or 1)."""
        d = self.listloops.get(n.get("id"))
        if d is None:
            self.refuse(n, "loop (%s) — only list_for_each_entry loops are translated" % n.get("kind"))
        if self.guard is not None:
            self.refuse(n, "loop inside a predicated if")
        if self.loops:
            self.refuse(n, "nested loop")
        body = d["body"]
        for x in walk(body):
            if x.get("kind") == "ReturnStmt":
                self.refuse(x, "return inside a loop")
            if x.get("kind") in ("ForStmt", "WhileStmt", "DoStmt", "SwitchStmt") and x is not body:
                if not (x.get("kind") == "DoStmt" and self.is_zero(kids(x)[1])):
                    self.refuse(x, "%s inside a loop" % x["kind"])
            if x.get("kind") == "CallExpr" and self.callee_name(x) in ABORT:
                self.refuse(x, "noreturn call inside a loop")
        # the list: a location (global list head or a member)
        self.begin_full()
        hpv, _ = self.ptr(d["head"])
        self.end_full(n)
        if hpv[0] != "addr":
            self.refuse(n, "list head is not the address of a global or of a member")
        lname_ = loc_fname(hpv[1]) + "_elems"
        gf = self.gf
        old = gf.lists.get(lname_)
        info = dict(elem=d["elem"], ctext=loc_ctext(hpv[1]), member=d["member"], ctype=d["postype"])
        if old is not None and old != info:
            self.refuse(n, "list %s iterated with two element types / link members" % info["ctext"])
        gf.lists[lname_] = info
        gf.elems.setdefault(d["elem"], {})
        self.used_lists.add(lname_)
        has_break = any(x.get("kind") == "BreakStmt" for x in walk(body))
        pos = d["posname"]
        self.nbrk += 1
        brk = "brk%d" % self.nbrk
        if has_break:
            self.emit("let mut %s : Bool := false" % brk)
        ev = lname(pos + "_e")
        self.emit("for %s in s0.%s do" % (ev, lname(lname_)))
        self.ind += 1
        self.emit("%s := some %s" % (lname(pos), ev))
        self.loops.append(dict(pos=pos, evar=ev, brk=brk))
        self.stmt(body)
        self.loops.pop()
        self.ind -= 1
        self.cursor_state[pos] = "after"
        if self.is_no_entry_idiom(following, d):
            if has_break:
                self.emit("if !%s then" % brk)
                self.ind += 1
                self.emit("%s := none" % lname(pos))
                self.ind -= 1
            else:
                self.emit("%s := none" % lname(pos))
            self.cursor_state[pos] = "reset"
            return 1
        self.cursor_state[pos] = "dangling"     # points at the list head when the loop ran to its end
        return 0

    def decl_local(self, v):
        if v.get("kind") != "VarDecl":
            if v.get("kind") in ("RecordDecl", "TypedefDecl", "EnumDecl"):
                self.refuse(v, "local type declaration")
            self.refuse(v, "unsupported declaration " + str(v.get("kind")))
        loc = self.locals[v["id"]]
        init = kids(v)[0] if kids(v) else None
        if loc.kind == "aggregate":
            self.refuse(v, "local aggregate `%s`" % loc.name)
        if loc.kind == "elem":
            self.gf.elems.setdefault(loc.elem, {})
            self.emit("let mut %s : Option %s := none" % (lname(loc.name), loc.elem))
            return
        if loc.kind == "alias":
            self.begin_full()
            loc.pv, _ = self.ptr(init)                      # R6a
            self.end_full(v)
            if loc.pv[0] == "opaque":
                self.refuse(v, "alias initialiser of %s is not a location" % loc.name)
            return
        lt = lean_type(loc.ct)
        if init is None:
            self.emit("let mut %s : %s := %s" % (lname(loc.name), lt, DEFAULTS[lt]))
            return
        self.begin_full()
        e = self.expr(init, lt)
        self.end_full(v)
        self.emit("let mut %s : %s := %s" % (lname(loc.name), lt, e))

    def if_stmt(self, n):
        ks = kids(n)
        if len(ks) not in (2, 3) or any(c.get("kind") in ("DeclStmt",) for c in ks[:1]):
            self.refuse(n, "if with init statement / declaration")
        if self.guard is not None or self.return_free(n):
            return self.pred_if(n, ks)
        self.begin_full()
        c = self.cond(ks[0])
        self.end_full(n)
        self.emit("if %s then" % c)
        self.ind += 1
        mark = len(self.lines)
        f1 = self.stmt(ks[1])
        if len(self.lines) == mark:
            self.emit("pure ()")
        self.ind -= 1
        f2 = True
        if len(ks) == 3:
            self.emit("else")
            self.ind += 1
            mark = len(self.lines)
            f2 = self.stmt(ks[2])
            if len(self.lines) == mark:
                self.emit("pure ()")
            self.ind -= 1
        return f1 or f2

    def return_free(self, n):
        """no return and no call of a noreturn function anywhere inside the statement"""
        for x in walk(n):
            if x.get("kind") == "ReturnStmt":
                return False
            if x.get("kind") == "CallExpr" and self.callee_name(x) in ABORT:
                return False
            if x.get("kind") in ("SwitchStmt", "ForStmt", "WhileStmt", "GotoStmt", "LabelStmt", "BreakStmt", "ContinueStmt"):
                return False
            if x.get("kind") == "DoStmt" and not self.is_zero(kids(x)[1]):
                return False
            if x.get("kind") == "CallExpr" and self.callee_name(x) in self.gf.helpers \
                    and "aborted" in self.gf.written.get(self.callee_name(x), set()):
                return False
        return True

    def pred_if(self, n, ks):
        """R12b: an `if` statement without a return inside is translated by predication: the condition is bound
        once, every assignment in the branches is guarded by it (`x := if g then e else x`); nested ifs conjoin
        their conditions.  Control does not fork."""
        self.begin_full()
        c = self.cond(ks[0])
        self.end_full(n)
        self.nguard += 1
        k = self.nguard
        outer = self.guard
        if len(ks) == 3 or outer is not None:
            self.emit("let c%d : Bool := %s" % (k, c))
            c = "c%d" % k
        self.emit("let g%d : Bool := %s" % (k, c if outer is None else "(%s && %s)" % (outer, c)))
        self.guard = "g%d" % k
        self.stmt(ks[1])
        if len(ks) == 3:
            self.emit("let g%de : Bool := %s" % (k, "(!%s)" % c if outer is None else "(%s && !%s)" % (outer, c)))
            self.guard = "g%de" % k
            self.stmt(ks[2])
        self.guard = outer
        return True

    def switch_stmt(self, n):
        """R12: switch on an integer without fall-through -> if / else-if chain on the scrutinee"""
        ks = kids(n)
        if self.guard is not None:
            self.refuse(n, "switch inside a predicated if")
        self.begin_full()
        sc = self.strip_casts_int(ks[0])
        sct = self.ct(sc)
        slt = lean_type(sct)
        e = self.expr(sc, slt)
        self.end_full(n)
        t = self.temp()
        self.emit("let %s : %s := %s" % (t, slt, e))
        body = ks[1]
        if body.get("kind") != "CompoundStmt":
            self.refuse(n, "switch body is not a block")
        # split into groups: labels + statements
        groups, cur = [], None
        for st in kids(body):
            labels = []
            while st.get("kind") in ("CaseStmt", "DefaultStmt"):
                if st["kind"] == "CaseStmt":
                    cs = kids(st)
                    if len(cs) != 2:
                        self.refuse(st, "case range")
                    v = self.const(cs[0])
                    if v is None:
                        self.refuse(st, "case label is not a constant")
                    labels.append(wrap_c(v, sct))
                    st = cs[1]
                else:
                    labels.append(None)
                    st = kids(st)[0]
            if labels:
                if cur is not None and cur["falls"]:
                    self.refuse(st, "switch case falls through into the next label")
                cur = dict(labels=labels, stmts=[], falls=True)
                groups.append(cur)
            if cur is None:
                self.refuse(st, "statement before the first case label")
            if st.get("kind") == "BreakStmt":
                cur["falls"] = False
                cur["break"] = True
                continue
            if not cur["falls"]:
                self.refuse(st, "statement after break/return in a switch case")
            cur["stmts"].append(st)
            if self.always_returns(st):
                cur["falls"] = False
        if groups and groups[-1]["falls"]:
            groups[-1]["falls"] = False
            groups[-1]["break"] = True
        for g in groups:
            for st in g["stmts"]:
                if any(x.get("kind") == "BreakStmt" for x in walk(st)):
                    self.refuse(st, "break nested inside a switch case")
        default = [g for g in groups if None in g["labels"]]
        if default and (len(default) > 1 or len(default[0]["labels"]) > 1 or default[0] is not groups[-1]):
            self.refuse(n, "default label shares a body with a case label or is not last")
        falls = not default
        first = True
        for g in groups:
            if None in g["labels"]:
                self.emit("else")
            else:
                cnd = " || ".join("%s == %s" % (t, lit(v, slt)) for v in g["labels"])
                self.emit("%s %s then" % ("if" if first else "else if", cnd))
            first = False
            self.ind += 1
            mark = len(self.lines)
            f = self.block(g["stmts"])
            if len(self.lines) == mark:
                self.emit("pure ()")
            self.ind -= 1
            falls = falls or f
        return falls

    def always_returns(self, n):
        k = n.get("kind")
        if k == "ReturnStmt":
            return True
        if k == "CompoundStmt":
            return bool(kids(n)) and self.always_returns(kids(n)[-1])
        if k == "IfStmt" and len(kids(n)) == 3:
            return self.always_returns(kids(n)[1]) and self.always_returns(kids(n)[2])
        return False

    # ---- full expressions: side-effect discipline ----------------------------------------------
    def begin_full(self):
        self.reads, self.effects = {}, []

    def end_full(self, n):
        """R15: in one full expression every modified location is modified once and not read elsewhere"""
        seen = set()
        for tgt, own in self.effects:
            if tgt in seen:
                self.refuse(n, "location %s is modified twice in one expression" % tgt)
            seen.add(tgt)
            if self.reads.get(tgt, 0) > own:
                self.refuse(n, "location %s is modified and read in the same expression (unsequenced)" % tgt)
        self.reads, self.effects = {}, []

    def note_read(self, key):
        self.reads[key] = self.reads.get(key, 0) + 1

    # ---- lvalues -------------------------------------------------------------------------------
    def lvalue(self, n):
        """-> ("local", Local) | ("param", name, CT) | ("field", Loc, CT)"""
        n0 = n
        n = self.strip_paren(n)
        k = n.get("kind")
        if k == "DeclRefExpr":
            rd = n["referencedDecl"]
            if rd["kind"] == "ParmVarDecl":
                pn, pct = self.params[rd["id"]]
                return ("param", pn, pct)
            if rd["kind"] == "VarDecl":
                if rd["id"] in self.locals:
                    l = self.locals[rd["id"]]
                    if l.kind == "aggregate":
                        self.refuse(n, "local aggregate `%s`" % l.name)
                    return ("local", l)
                return ("field", ("g", rd["name"]), self.ct(n))                      # R4: global variable
            self.refuse(n, "reference to %s" % rd["kind"])
        if k == "MemberExpr":
            base = kids(n)[0]
            if n.get("isArrow"):
                pv, _ = self.ptr(base)
                loc = mk_arrow(pv, n["name"])
                if is_elem_pv(loc_root_pv(loc)):
                    return ("efield", loc, self.ct(n))                 # R21: a member of a list element
                return ("field", loc, self.ct(n))
            b = self.lvalue(base)
            if b[0] == "efield":
                return ("efield", ("dot", b[1], n["name"]), self.ct(n))
            if b[0] != "field":
                self.refuse(n, "member of a local aggregate")
            return ("field", ("dot", b[1], n["name"]), self.ct(n))
        if k == "UnaryOperator" and n.get("opcode") == "*":
            self.refuse(n, "dereference with `*` (only p->member is translated)")
        if k == "ArraySubscriptExpr":
            self.refuse(n, "array element as a memory location")
        self.refuse(n0, "unsupported lvalue (%s)" % k)

    def strip_paren(self, n):
        while n.get("kind") == "ParenExpr":
            n = kids(n)[0]
        return n

    def read_lvalue(self, lv, n):
        if lv[0] == "local":
            l = lv[1]
            if l.kind == "alias":
                return self.pv_lean(l.pv, n)
            if l.kind == "elem":
                return self.elem_ptr(("elem", l.name, l.elem), n)
            self.note_read("local:" + l.name)
            return lname(l.name)
        if lv[0] == "param":
            self.note_read("local:" + lv[1])
            return lname(lv[1])
        ct = lv[2]
        if ct.kind in ("struct", "array"):
            self.refuse(n, "aggregate value `%s`" % loc_ctext(lv[1]))
        if lv[0] == "efield":
            return self.efield(lv, n)
        f = self.fld(lv[1], ct)
        self.note_read(f)
        return self.fread(f)

    def elem_of(self, pv):
        return pv[2] if pv[0] == "elem" else pv[2][2]

    def elem_accessor(self, pv, n):
        """the Lean expression of the element record a cursor / element-bound parameter stands for"""
        if pv[0] == "param":
            return lname(pv[1] + "_e")
        for lp in self.loops:
            if lp["pos"] == pv[1]:
                return lp["evar"]
        if self.cursor_state.get(pv[1]) == "dangling":
            self.refuse(n, "list cursor `%s` is used after its loop without the list_no_entry idiom" % pv[1])
        return "(%s.getD default)" % lname(pv[1])

    def elem_ptr(self, pv, n):
        if pv[0] == "param":
            return lname(pv[1])
        for lp in self.loops:
            if lp["pos"] == pv[1]:
                return lp["evar"] + ".self"
        if self.cursor_state.get(pv[1]) == "dangling":
            self.refuse(n, "list cursor `%s` is used after its loop without the list_no_entry idiom" % pv[1])
        return "(%s.ptr %s)" % (pv[2], lname(pv[1]))

    def efield(self, lv, n):
        loc, ct = lv[1], lv[2]
        pv = loc_root_pv(loc)
        et = self.elem_of(pv)
        cx = loc_ctext(loc)
        root = pv_ctext(pv)
        if not cx.startswith(root + "->"):
            self.refuse(n, "unsupported path through a list element: " + cx)
        rel = cx[len(root) + 2:]
        if "->" in rel:
            self.refuse(n, "pointer chain inside a list element: " + cx)
        fnm = re.sub(r"\W+", "_", rel)
        lt = lean_type(ct)
        old = self.gf.elems.setdefault(et, {}).get(fnm)
        if old is not None and (old["lt"] != lt or old["rel"] != rel):
            self.refuse(n, "two different members map to the element field %s.%s" % (et, fnm))
        self.gf.elems[et][fnm] = dict(lt=lt, rel=rel, ctname=ct.name)
        return "%s.%s" % (self.elem_accessor(pv, n), lname(fnm))

    def write_lvalue(self, lv, val, n):
        if lv[0] == "efield":
            self.refuse(n, "assignment to a member of a list element")
        if lv[0] == "local" and lv[1].kind == "elem":
            self.refuse(n, "assignment to the list cursor `%s` outside list_for_each_entry / list_no_entry" % lv[1].name)
        if lv[0] == "local":
            if lv[1].kind == "alias":
                self.refuse(n, "assignment to alias pointer %s" % lv[1].name)
            self.vassign(lname(lv[1].name), val)
        elif lv[0] == "param":
            self.vassign(lname(lv[1]), val)
        else:
            if lv[2].kind == "ptr":
                self.refuse(n, "assignment to the pointer-typed location `%s`" % loc_ctext(lv[1]))     # R7
            f = self.fld(lv[1], lv[2])
            self.fwrite(f, val)

    def lv_key(self, lv):
        if lv[0] == "efield":
            return "efield:" + loc_ctext(lv[1])
        if lv[0] == "local":
            return "local:" + lv[1].name
        if lv[0] == "param":
            return "local:" + lv[1]
        return self.fld(lv[1], lv[2])

    def lv_ct(self, lv):
        return lv[1].ct if lv[0] == "local" else lv[2]

    # ---- pointer values ------------------------------------------------------------------------
    def ptr(self, n):
        """pointer-typed rvalue -> (PV, lean expression of type Ptr)"""
        n0 = n
        n = self.strip(n)
        k = n.get("kind")
        if k in ("ImplicitCastExpr", "CStyleCastExpr"):
            ck = n.get("castKind")
            if ck == "NullToPointer":
                return ("opaque", "Ptr.null"), "Ptr.null"
            if ck == "ArrayToPointerDecay":
                t = self.strip(kids(n)[0])
                if t.get("kind") == "StringLiteral":
                    e = "(Ptr.str %s)" % lean_str(json.loads(t["value"]) if t["value"].startswith('"') else t["value"])
                    return ("opaque", e), e
                self.refuse(n, "array used as a pointer")
            if ck == "IntegralToPointer":
                if self.is_zero(kids(n)[0]):
                    return ("opaque", "Ptr.null"), "Ptr.null"
                self.refuse(n, "integer converted to a pointer")
            self.refuse(n, "pointer cast %s" % ck)
        if k == "StringLiteral":
            e = "(Ptr.str %s)" % lean_str(json.loads(n["value"]))
            return ("opaque", e), e
        if k == "UnaryOperator" and n.get("opcode") == "&":
            t = self.strip_paren(kids(n)[0])
            if t.get("kind") == "ArraySubscriptExpr":                              # R8: &a[i]
                a, i = kids(t)
                _, abase = self.ptr_of_array(a)
                ie = self.expr(i, "Int")
                e = "(Ptr.idx %s %s)" % (abase, ie)
                return ("opaque", e), e
            lv = self.lvalue(t)
            if lv[0] == "efield":
                e = self.addr_lean(lv[1], n)
                return ("opaque", e), e
            if lv[0] != "field":
                self.refuse(n, "address of a local variable")
            return ("addr", lv[1]), self.addr_lean(lv[1], n)
        if k == "CallExpr":
            e = self.call(n, "Ptr")
            return ("opaque", e), e
        if k == "ConditionalOperator":
            c, a, b = kids(n)
            ce = self.cond(c)
            m = len(self.lines)
            self.nohoist += 1
            _, ae = self.ptr(a)
            _, be = self.ptr(b)
            self.nohoist -= 1
            if len(self.lines) != m:
                self.refuse(n, "side effect inside ?:")
            e = "(if %s then %s else %s)" % (ce, ae, be)
            return ("opaque", e), e
        if k in ("DeclRefExpr", "MemberExpr"):
            lv = self.lvalue(n)
            if lv[0] == "param":
                pn = lv[1]
                self.note_read("local:" + pn)
                pid = [i for i, (x, _) in self.params.items() if x == pn][0]
                if pid in self.assigned_params:
                    return ("opaque", lname(pn)), lname(pn)
                return ("param", pn, self.binding.get(pn)), lname(pn)
            if lv[0] == "local":
                l = lv[1]
                if l.kind == "alias":
                    return l.pv, self.pv_lean(l.pv, n)
                if l.kind == "elem":
                    pv = ("elem", l.name, l.elem)
                    return pv, self.elem_ptr(pv, n)
                self.note_read("local:" + l.name)
                if l.kind == "objlocal":
                    return ("objlocal", l.name), lname(l.name)
                return ("opaque", lname(l.name)), lname(l.name)
            if lv[0] == "efield":
                return ("opaque", self.efield(lv, n)), self.efield(lv, n)
            # a pointer stored in memory
            if lv[2].kind != "ptr":
                self.refuse(n, "non-pointer used as pointer")
            f = self.fld(lv[1], lv[2])
            self.note_read(f)
            return ("stored", lv[1]), self.fread(f)
        if k == "IntegerLiteral" and int(n["value"]) == 0:
            return ("opaque", "Ptr.null"), "Ptr.null"
        if k == "BinaryOperator" and n.get("opcode") == "=":
            e = self.assign(n, want_value=True)
            return ("opaque", e), e
        if k == "BinaryOperator" and n.get("opcode") in ("+", "-"):
            self.refuse(n, "pointer arithmetic")
        self.refuse(n0, "unsupported pointer expression (%s)" % k)

    def ptr_of_array(self, a):
        """the array in `&a[i]`: a pointer-typed value or an array member decayed to a pointer"""
        a = self.strip(a)
        if a.get("kind") in ("ImplicitCastExpr",) and a.get("castKind") == "ArrayToPointerDecay":
            t = self.strip_paren(kids(a)[0])
            lv = self.lvalue(t) if t.get("kind") in ("MemberExpr", "DeclRefExpr") else None
            if lv is None or lv[0] != "field":
                self.refuse(a, "array that is not a member or a global")
            return None, self.addr_lean(lv[1], a)
        return self.ptr(a)

    def addr_lean(self, loc, n):
        """Lean Ptr term for &loc"""
        if loc[0] == "g":
            return '(Ptr.glob "%s")' % loc[1]
        if loc[0] == "dot":
            return '(Ptr.fld %s "%s")' % (self.addr_lean(loc[1], n), loc[2])
        return '(Ptr.fld %s "%s")' % (self.pv_lean(loc[1], n), loc[2])

    def pv_lean(self, pv, n):
        if pv[0] == "addr":
            return self.addr_lean(pv[1], n)
        if pv[0] == "stored":
            f = self.fld(pv[1], CT("ptr", name="pointer"))
            self.note_read(f)
            return self.fread(f)
        if pv[0] == "elem":
            return self.elem_ptr(pv, n)
        if pv[0] in ("param", "objlocal"):
            return lname(pv[1])
        return pv[1]

    # ---- constants -----------------------------------------------------------------------------
    def const(self, n):
        """C integer constant expression -> Python int (value at the node's own type), or None"""
        k = n.get("kind")
        if k == "ParenExpr" or k == "ConstantExpr":
            return self.const(kids(n)[0])
        if k == "IntegerLiteral":
            return int(n["value"])
        if k == "CharacterLiteral":
            return int(n["value"])
        if k == "DeclRefExpr" and n.get("referencedDecl", {}).get("kind") == "EnumConstantDecl":
            nm = n["referencedDecl"]["name"]
            if nm not in self.gf.enum_vals:
                return 0 if not self.gf.enum_vals and not self.gf.freeze and False else self.gf.enum_vals.get(nm)
            return self.gf.enum_vals[nm]
        ct = None
        try:
            ct = self.ct(n)
        except Refuse:
            return None
        if ct.kind not in ("int", "bool"):
            return None
        if k in ("ImplicitCastExpr", "CStyleCastExpr"):
            if n.get("castKind") in ("IntegralCast", "NoOp", "IntegralToBoolean"):
                v = self.const(kids(n)[0])
                return None if v is None else wrap_c(v, ct)
            return None
        if k == "UnaryOperator":
            v = self.const(kids(n)[0])
            if v is None:
                return None
            op = n["opcode"]
            if op == "-":
                return wrap_c(-v, ct)
            if op == "+":
                return wrap_c(v, ct)
            if op == "~":
                return wrap_c(~v, ct)
            if op == "!":
                return 0 if v else 1
            return None
        if k == "BinaryOperator":
            a, b = self.const(kids(n)[0]), self.const(kids(n)[1])
            if a is None or b is None:
                return None
            op = n["opcode"]
            try:
                r = {"+": lambda: a + b, "-": lambda: a - b, "*": lambda: a * b,
                     "&": lambda: a & b, "|": lambda: a | b, "^": lambda: a ^ b,
                     "<<": lambda: a << b, ">>": lambda: a >> b,
                     "==": lambda: int(a == b), "!=": lambda: int(a != b), "<": lambda: int(a < b),
                     ">": lambda: int(a > b), "<=": lambda: int(a <= b), ">=": lambda: int(a >= b),
                     "&&": lambda: int(bool(a) and bool(b)), "||": lambda: int(bool(a) or bool(b))}[op]()
            except KeyError:
                return None
            return wrap_c(r, ct)
        if k == "ConditionalOperator":
            c, a, b = [self.const(x) for x in kids(n)]
            if c is None or a is None or b is None:
                return None
            return a if c else b
        return None

    def const_comment(self, n):
        s = self.strip_paren(n)
        while s.get("kind") in ("ImplicitCastExpr", "CStyleCastExpr", "ParenExpr"):
            s = kids(s)[0]
        if s.get("kind") == "DeclRefExpr" and s.get("referencedDecl", {}).get("kind") == "EnumConstantDecl":
            return s["referencedDecl"]["name"]
        return None

    # ---- expressions ---------------------------------------------------------------------------
    def strip_casts_int(self, n):
        """the switch scrutinee without the promotions clang inserts"""
        while n.get("kind") in ("ImplicitCastExpr", "ParenExpr") and n.get("castKind", "IntegralCast") in ("IntegralCast", "LValueToRValue", "NoOp"):
            if n.get("kind") == "ImplicitCastExpr" and n.get("castKind") == "LValueToRValue":
                break
            n = kids(n)[0]
        return n

    def conv(self, e, frm, to, n, const=False):
        """convert the Lean expression e : frm to type `to`"""
        if frm == to:
            return e
        if to == "Bool":
            m = re.fullmatch(r"\(if (.*) then \(1 : (Int|Nat)\) else \(0 : (Int|Nat)\)\)", e)
            if m and balanced(m.group(1)):
                return m.group(1)                                                  # R13: (b ? 1 : 0) != 0  is  b
            if frm == "Ptr":
                m = re.fullmatch(r"\(Elem_\w+\.ptr ([\w']+)\)", e)
                if m:
                    return "%s.isSome" % m.group(1)                                 # R21: the cursor is not NULL
                if any(e == lp["evar"] + ".self" for lp in self.loops):
                    return "true"
                return "(%s != Ptr.null)" % e
            return "(%s != %s)" % (e, lit(0, frm))
        if frm == "Bool":
            if to == "Ptr":
                self.refuse(n, "boolean converted to a pointer")
            return "(if %s then %s else %s)" % (e, lit(1, to), lit(0, to))
        if frm == "Nat" and to == "Int":
            return "(%s : Int)" % e if e.startswith("(") or re.fullmatch(r"[\w.']+", e) else "((%s) : Int)" % e
        if frm == "Int" and to == "Nat":
            m = re.fullmatch(r"\(if (.*) then \((\d+) : Int( /- \w+ -/)?\) else \((\d+) : Int( /- \w+ -/)?\)\)", e)
            if m and balanced(m.group(1)):      # R13: the conversion of (c ? k1 : k2) with constants k1, k2 >= 0
                return "(if %s then (%s : Nat%s) else (%s : Nat%s))" % (m.group(1), m.group(2), m.group(3) or "",
                                                                        m.group(4), m.group(5) or "")
            what = "signed value converted to an unsigned type as `Int.toNat` (negative values become 0, C wraps): `%s`" % e[:60]
            if self.nohoist == 0 and not re.fullmatch(r"[\w.']+", e):
                t = self.temp()
                self.emit("let %s : Int := %s" % (t, e))
                e = t
            self.note_wrap("decide (%s < 0)" % e, what)
            return "(Int.toNat %s)" % e
        self.refuse(n, "conversion %s -> %s" % (frm, to))

    def cond(self, n):
        return self.expr(n, "Bool")

    def expr(self, n, want):
        """translate the rvalue `n`; the result is a Lean expression of type `want`"""
        k = n.get("kind")
        if k in ("ParenExpr", "ConstantExpr"):
            return self.expr(kids(n)[0], want)
        ct = self.ct(n)
        if ct.kind == "ptr":
            _, e = self.ptr(n)
            return self.conv(e, "Ptr", want, n)
        if ct.kind == "void":
            self.refuse(n, "void expression used as a value")
        if ct.kind in ("struct", "array", "func"):
            self.refuse(n, "aggregate value")
        own = lean_type(ct)
        # R14: integer constant expressions are folded with C semantics (this is where ~ and casts of
        # negative constants to unsigned types get their exact value)
        cv = self.const(n)
        if cv is not None:
            cv = wrap_c(cv, ct)
            cm = self.const_comment(n)
            if want == "Bool":
                return "true" if cv != 0 else "false"
            if want == "Nat" and cv < 0:
                self.refuse(n, "negative constant %d used at an unsigned type" % cv)
            if want == "Ptr":
                self.refuse(n, "integer constant used as pointer")
            s = lit(cv, want)
            return s[:-1] + " /- " + cm + " -/)" if cm else s
        if k in ("ImplicitCastExpr", "CStyleCastExpr"):
            ck = n.get("castKind")
            c = kids(n)[0]
            if ck in ("LValueToRValue",):
                lv = self.lvalue(c)
                return self.conv(self.read_lvalue(lv, n), own, want, n)
            if ck in ("NoOp",):
                return self.expr(c, want)
            if ck == "IntegralCast":
                sct = self.ct(c)
                if sct.kind == "ptr":
                    self.refuse(n, "pointer converted to integer")
                # value-preserving on the modelled range: translate the operand at its own type, convert
                sl = lean_type(sct)
                if want == "Bool":
                    return self.expr(c, "Bool")                                     # (T)x != 0  iff  x != 0
                e = self.expr(c, sl)
                if sct.kind == "int" and ct.kind == "int" and ct.bits < sct.bits:
                    what = "narrowing conversion %s -> %s is the identity in the model" % (sct.name, ct.name)
                    if self.nohoist == 0 and not re.fullmatch(r"[\w.']+", e):
                        t = self.temp()
                        self.emit("let %s : %s := %s" % (t, sl, e))
                        e = t
                    if ct.signed:
                        lo, hi = -(1 << (ct.bits - 1)), 1 << (ct.bits - 1)
                        cnd = "(decide (%s < %s) || decide (%s ≥ %s))" % (e, lit(lo, sl), e, lit(hi, sl)) if sl == "Int" \
                            else "decide (%s ≥ %s)" % (e, lit(hi, sl))
                    else:
                        cnd = "decide (%s ≥ %s)" % (e, lit(1 << ct.bits, sl))       # a negative value is caught by toNat
                    self.note_wrap(cnd, what)
                e = self.conv(e, sl, own, n)
                return self.conv(e, own, want, n)
            if ck in ("IntegralToBoolean", "PointerToBoolean"):
                e = self.expr(c, "Bool")
                return self.conv(e, "Bool", want, n)
            if ck == "BooleanToSignedIntegral":
                self.refuse(n, "vector boolean cast")
            self.refuse(n, "cast %s" % ck)
        if k == "DeclRefExpr" or k == "MemberExpr":
            # an lvalue used without LValueToRValue does not occur in rvalue position
            self.refuse(n, "lvalue in rvalue position")
        if k == "UnaryOperator":
            return self.unary(n, ct, own, want)
        if k == "BinaryOperator":
            return self.binary(n, ct, own, want)
        if k == "CompoundAssignOperator":
            e = self.compound_assign(n, want_value=True)
            return self.conv(e, own, want, n)
        if k == "ConditionalOperator":
            c, a, b = kids(n)
            ce = self.cond(c)
            m = len(self.lines)
            self.nohoist += 1
            ae, be = self.expr(a, want), self.expr(b, want)
            self.nohoist -= 1
            if len(self.lines) != m:
                self.refuse(n, "side effect in an arm of ?:")
            return "(if %s then %s else %s)" % (ce, ae, be)
        if k == "CallExpr":
            e = self.call(n, own)
            return self.conv(e, own, want, n)
        if k == "StmtExpr":
            self.refuse(n, "GNU statement expression used as a value")
        if k == "UnaryExprOrTypeTraitExpr":
            self.refuse(n, "sizeof/alignof")
        self.refuse(n, "unsupported expression (%s)" % k)

    def unary(self, n, ct, own, want):
        op = n["opcode"]
        c = kids(n)[0]
        if op == "!":
            e = self.expr(c, "Bool")
            return self.conv("(!%s)" % e, "Bool", want, n)
        if op == "-":
            if own != "Int":
                self.refuse(n, "negation at an unsigned type")
            return self.conv("(-%s)" % self.expr(c, "Int"), own, want, n)
        if op == "+":
            return self.conv(self.expr(c, own), own, want, n)
        if op == "~":
            self.refuse(n, "`~` of a non-constant value")
        if op in ("++", "--"):
            lv = self.lvalue(c)
            lct = self.lv_ct(lv)
            if lct.kind == "ptr":
                self.refuse(n, "pointer increment")
            if lct.kind == "bool":
                self.refuse(n, "increment of a _Bool")
            lt = lean_type(lct)
            old = self.read_lvalue(lv, n)
            if lt == "Nat" and op == "--":
                self.note_wrap("(%s == 0)" % old, "`%s--` on an unsigned location is truncated subtraction (0 stays 0)" % old)
            t = self.temp()
            self.emit("let %s : %s := %s" % (t, lt, old))                          # R10
            self.write_lvalue(lv, "%s %s 1" % (t, "+" if op == "++" else "-"), n)
            self.effects.append((self.lv_key(lv), 1))
            val = t if n.get("isPostfix") else "(%s %s 1)" % (t, "+" if op == "++" else "-")
            return self.conv(val, lt, want, n)
        self.refuse(n, "unary operator %s" % op)

    def binary(self, n, ct, own, want):
        op = n["opcode"]
        a, b = kids(n)
        if op == "=":
            e = self.assign(n, want_value=True)
            return self.conv(e, own, want, n)
        if op == ",":
            self.refuse(n, "comma operator")
        if op in ("&&", "||"):
            ae = self.expr(a, "Bool")
            m = len(self.lines)
            ne = len(self.effects)
            self.nohoist += 1
            be = self.expr(b, "Bool")
            self.nohoist -= 1
            if len(self.lines) != m or len(self.effects) != ne:
                self.refuse(n, "side effect in the right operand of %s" % op)       # R16
            return self.conv("(%s %s %s)" % (ae, op, be), "Bool", want, n)
        if op in ("==", "!=", "<", ">", "<=", ">="):
            act, bct = self.ct(a), self.ct(b)
            if act.kind == "ptr" or bct.kind == "ptr":
                pa, ea = self.ptr(a)
                pb, eb = self.ptr(b)
                if op not in ("==", "!=") or (ea != "Ptr.null" and eb != "Ptr.null"):
                    self.refuse(n, "comparison of two pointers (only comparison with NULL is translated)")
                other = eb if ea == "Ptr.null" else ea
                nn = self.conv(other, "Ptr", "Bool", n)
                if nn != "(%s != Ptr.null)" % other:          # a list cursor: isSome
                    return self.conv(nn if op == "!=" else "(!%s)" % nn, "Bool", want, n)
                return self.conv("(%s %s %s)" % (ea, op, eb), "Bool", want, n)
            ol = lean_type(act)
            if lean_type(bct) != ol:
                self.refuse(n, "comparison operands of different signedness after promotion")
            ae, be = self.expr(a, ol), self.expr(b, ol)
            if op in ("==", "!="):
                r = "(%s %s %s)" % (ae, op, be)
            else:
                r = "(decide (%s %s %s))" % (ae, {"<": "<", ">": ">", "<=": "≤", ">=": "≥"}[op], be)
            return self.conv(r, "Bool", want, n)
        e = self.arith(op, a, b, own, n)
        return self.conv(e, own, want, n)

    def arith(self, op, a, b, own, n, ae=None):
        """R9: + - * / % & | ^ << >> at the (promoted) type clang gives the operation"""
        if ae is None:
            ae = self.expr(a, own)
        if op in ("<<", ">>"):
            be = self.expr(b, "Nat") if lean_type(self.ct(b)) == "Nat" or self.const(b) is not None else \
                "(Int.toNat %s)" % self.expr(b, "Int")
            if own != "Nat":
                self.refuse(n, "shift of a signed value")
            return "(%s %s %s)" % (ae, "<<<" if op == "<<" else ">>>", be)
        be = self.expr(b, own)
        if op in ("+", "*"):
            return "(%s %s %s)" % (ae, op, be)
        if op == "-":
            if own == "Nat":
                self.note_wrap("decide (%s < %s)" % (ae, be),
                               "unsigned subtraction `%s - %s` is truncated at 0 (C wraps)" % (ae[:40], be[:40]))
            return "(%s - %s)" % (ae, be)
        if op in ("/", "%"):
            if own == "Int":
                return "(Int.%s %s %s)" % ("tdiv" if op == "/" else "tmod", ae, be)
            return "(%s %s %s)" % (ae, op, be)
        if op in ("&", "|", "^"):
            if own != "Nat":
                self.refuse(n, "bit operation `%s` at a signed type" % op)
            return "(%s %s %s)" % (ae, {"&": "&&&", "|": "|||", "^": "^^^"}[op], be)
        self.refuse(n, "binary operator %s" % op)

    # ---- assignments ---------------------------------------------------------------------------
    def expr_stmt(self, n):
        n = self.strip_paren(n)
        k = n.get("kind")
        if k == "BinaryOperator" and n.get("opcode") == "=":
            self.assign(n, want_value=False)
        elif k == "CompoundAssignOperator":
            self.compound_assign(n, want_value=False)
        elif k == "UnaryOperator" and n.get("opcode") in ("++", "--"):
            lv = self.lvalue(kids(n)[0])
            lct = self.lv_ct(lv)
            if lct.kind in ("ptr", "bool"):
                self.refuse(n, "increment of a pointer / _Bool")
            lt = lean_type(lct)
            old = self.read_lvalue(lv, n)
            if lt == "Nat" and n["opcode"] == "--":
                self.note_wrap("(%s == 0)" % old, "`%s--` on an unsigned location is truncated subtraction (0 stays 0)" % old)
            self.write_lvalue(lv, "%s %s 1" % (old, "+" if n["opcode"] == "++" else "-"), n)      # R10
            self.effects.append((self.lv_key(lv), 1))
        elif k == "CallExpr":
            self.call(n, None)
        elif k in ("ImplicitCastExpr", "CStyleCastExpr") and n.get("castKind") == "ToVoid":
            self.expr_stmt(kids(n)[0])
        else:
            self.refuse(n, "expression statement without effect or of unsupported form (%s)" % k)

    def assign(self, n, want_value):
        a, b = kids(n)
        lv = self.lvalue(a)
        lct = self.lv_ct(lv)
        if lct.kind in ("struct", "array"):
            self.refuse(n, "aggregate assignment")
        lt = lean_type(lct)
        if lv[0] == "local" and lv[1].kind == "objlocal":
            # R6b: p = opaque(...): the pointee of p is the anonymous object `*p`
            r = self.strip(b)
            callee = self.callee_name(r)
            self.objlocals[lv[1].name] = (callee, lv[1].ct.name)
        r0 = self.reads.get(self.lv_key(lv), 0)
        val = self.expr(b, lt)
        own = self.reads.get(self.lv_key(lv), 0) - r0      # reads inside the right-hand side are sequenced before
        if want_value:
            t = self.temp()
            self.emit("let %s : %s := %s" % (t, lt, val))
            val = t
        self.write_lvalue(lv, val, n)
        self.effects.append((self.lv_key(lv), own))
        return val

    def compound_assign(self, n, want_value):
        """R11: x op= e  is  x = x op e, at the type clang computes the operation in"""
        op = n["opcode"][:-1]
        a, b = kids(n)
        lv = self.lvalue(a)
        lct = self.lv_ct(lv)
        if lct.kind in ("ptr", "bool"):
            self.refuse(n, "compound assignment to a pointer / _Bool")
        lt = lean_type(lct)
        comp = ctype(n.get("computeResultType", n["type"]), self.enums)
        cl = lean_type(comp)
        old = self.read_lvalue(lv, n)
        olde = self.conv(old, lt, cl, n)
        e = self.arith(op, a, b, cl, n, ae=olde)
        val = self.conv(e, cl, lt, n)
        if want_value:
            t = self.temp()
            self.emit("let %s : %s := %s" % (t, lt, val))
            val = t
        self.write_lvalue(lv, val, n)
        self.effects.append((self.lv_key(lv), 1))
        return val

    # ---- calls ---------------------------------------------------------------------------------
    def call(self, n, want):
        """a call; `want` is the Lean type of the value, None for a call statement"""
        name = self.callee_name(n)
        args = kids(n)[1:]
        if name in IDENTITY:                                                        # R19
            rct = self.ct(n)
            return self.expr(args[0], lean_type(rct))
        if name in DROP:
            self.refuse(n, "value of the dropped function %s is used" % name)
        if name in ABORT:
            if want is not None:
                self.refuse(n, "value of the noreturn function %s is used" % name)
            self.fwrite("aborted", "true")                                          # R20
            self.emit("return " + (self.cur_state() if self.rct.kind == "void" else "(%s, default)" % self.cur_state()))
            return None
        if name in self.gf.opaque:
            return self.oracle_call(n, name, args, want)
        if name in self.gf.helpers:
            return self.helper_call(n, name, args, want)
        self.refuse(n, "call of `%s`, which is neither declared opaque nor a translated helper" % name)

    def oracle_call(self, n, name, args, want):
        spec = self.gf.opaque[name]
        rct = self.ct(n)
        rlt = lean_type(rct)
        ats, aes, pvs = [], [], []
        for a in args:
            act = self.ct(a)
            if act.kind in ("struct", "array"):
                self.refuse(a, "aggregate argument")
            alt = lean_type(act)
            if act.kind == "ptr":
                pv, e = self.ptr(a)
                pvs.append(pv)
            else:
                e = self.expr(a, alt)
                pvs.append(None)
            ats.append(alt)
            aes.append(e)
        # the write set, as field names (R3)
        wfields = []
        wrel = {}
        fq = self.strip(kids(n)[0]).get("type", {}).get("qualType", "")
        for pat in spec.get("writes", []):
            argi = None
            if pat.startswith("g:"):
                pre = pat[2:]
            else:
                m = re.fullmatch(r"arg(\d+)->(.*)", pat)
                if not m:
                    raise Refuse("bad write pattern %r for %s" % (pat, name))
                i = int(m.group(1))
                argi = i
                if i >= len(pvs) or pvs[i] is None:
                    self.refuse(n, "write pattern %s of %s: no such pointer argument" % (pat, name))
                pv = pvs[i]
                if pv[0] == "param" and pv[2] is not None:
                    pv = pv[2]
                if pv[0] == "opaque":
                    continue            # through a pointer that names no modelled memory
                pre = (loc_ctext(pv[1]) + ".") if pv[0] == "addr" else (pv_ctext(pv) + "->")
                pre += m.group(2)
            for fnm in sorted(self.gf.fields):
                cx = self.gf.fields[fnm]["ctext"]
                if cx == pre.rstrip(".->") or cx.startswith(pre):
                    nxt = cx[len(pre):len(pre) + 1] if not pre.endswith((">", ".")) else ""
                    if nxt and (nxt.isalnum() or nxt == "_"):
                        continue
                    if fnm not in wfields:
                        wfields.append(fnm)
                    base = pre[:len(pre) - len(m.group(2))] if argi is not None else ""
                    wrel[fnm] = ("g", cx) if argi is None else (argi, cx[len(base):])
        old = self.gf.oracles.get(name)
        sig = dict(args=ats, ret=rlt, wfields=None, log=bool(spec.get("log")), eff=bool(spec.get("writes")))
        if old is not None and (old["args"] != ats or old["ret"] != rlt):
            self.refuse(n, "opaque callee %s is used with two different signatures" % name)
        # the Oracles field returns a state when the callee is declared to write anything at all
        eff = bool(spec.get("writes"))
        if old is None:
            sig["wfields"] = ["*"] if eff else []
            self.gf.oracles[name] = sig
        self.gf.oracles[name].setdefault("allw", set()).update(wfields)
        self.gf.oracles[name].setdefault("wrel", {}).update(wrel)
        self.gf.oracles[name]["fqual"] = fq
        self.gf.oracles[name]["wfields"] = sorted(self.gf.oracles[name]["allw"]) if eff else []
        self.has_oracle = True
        site = self.site()
        self.used_oracles.append(dict(name=name, site=site, args=ats, ret=rlt, wfields=list(wfields), eff=eff))
        callx = "o.%s %s %s" % (lname(name), site, " ".join(aes))
        if spec.get("log"):
            ints = [self.conv(e, t, "Int", n) for e, t in zip(aes, ats) if t in ("Int", "Nat", "Bool")]
            ptrs = [e for e, t in zip(aes, ats) if t == "Ptr"]
            self.fwrite("calls", "%s ++ [{ fn := \"%s\", site := %s, ints := [%s], ptrs := [%s] }]"
                        % (self.fread("calls"), name, site, ", ".join(ints), ", ".join(ptrs)))
        if not eff:
            if want is None:
                if not spec.get("log"):
                    self.emit("-- %s(...) : no modelled effect" % name)
                return None
            return "(%s)" % callx.rstrip()
        # effectful: hoisted; the current values of the declared write set go in, and only the locations this
        # call site can reach are copied back                                                       (R3)
        allw = self.gf.oracles[name]["wfields"]
        if True:
            for f in allw:
                self.note_read(f)
            wlit = "{ %s }" % ", ".join("%s := %s" % (lname(f), self.fread(f)) for f in allw) if allw else "{}"
        t = self.temp()
        self.emit("let %s := %s %s" % (t, callx.rstrip(), wlit))
        st = t if rlt == "Unit" else t + ".2"
        for f in wfields:
            self.fwrite(f, "%s.%s" % (st, lname(f)))
            self.effects.append((f, 1))
        if want is None:
            return None
        if rlt == "Unit":
            self.refuse(n, "value of a void function is used")
        return t + ".1"

    def helper_call(self, n, name, args, want):
        """R2: a call of a translated function: its Lean def, specialised to the pointer arguments"""
        d, _ = self.gf.tu.function(name)
        pnodes = [c for c in kids(d) if c.get("kind") == "ParmVarDecl"]
        if len(pnodes) != len(args):
            self.refuse(n, "variadic / mismatching call of %s" % name)
        binding, aes = {}, []
        for p, a in zip(pnodes, args):
            act = self.ct(a)
            if act.kind == "ptr":
                pv, e = self.ptr(a)
                if is_elem_pv(pv):
                    binding[p["name"]] = ("elem", p["name"], self.elem_of(pv))
                    aes.append(e)
                    aes.append(self.elem_accessor(pv, a))
                    continue
                if pv[0] == "param" and pv[2] is not None:
                    pv = pv[2]
                binding[p["name"]] = pv if pv[0] != "param" else ("param", pv[1], None)
                if pv[0] == "param" and pv[1] == p["name"]:
                    binding[p["name"]] = None
            else:
                e = self.expr(a, lean_type(ctype(p["type"], self.enums)))
            aes.append(e)
        sub = FnTr(self.gf, name, binding)
        ln = sub.translate()
        meta = self.gf.meta[ln]
        if meta["has_oracle"]:
            if ln in self.oracle_helpers:
                self.refuse(n, "helper %s (which calls opaque functions) is called twice: call sites would not be unique" % name)
            self.oracle_helpers[ln] = True
            self.has_oracle = True
        callx = "%s o %s%s" % (lname(ln), "".join(e + " " for e in aes), self.cur_state())
        rct = meta["ret"]
        hw = sorted(self.gf.written.get(ln, set()))
        self.touched |= meta["touched"]
        self.used_oracles += meta["oracles"]
        self.used_lists |= meta["lists"]
        t = self.temp()
        self.emit("let %s := %s" % (t, callx))
        st = t if rct.kind == "void" else t + ".1"
        for f in hw:                                       # the locations the helper may write are copied back
            self.fwrite(f, "%s.%s" % (st, lname(f)))
        self.effects.append(("*helper*" + str(len(self.lines)), 0))
        if "aborted" in hw:
            self.emit("if aborted then return " + self.ret_tuple(None if self.rct.kind == "void" else "default"))
        if rct.kind == "void":
            if want is not None:
                self.refuse(n, "value of a void function is used")
            return None
        return t + ".2" if want is not None else None


def balanced(s):
    d = 0
    for ch in s:
        d += ch == "("
        d -= ch == ")"
        if d < 0:
            return False
    return d == 0


def lean_str(s):
    return json.dumps(s, ensure_ascii=True)


RUNTIME = '''/- GENERATED by translators/c2lean.py — do not edit.
   Support definitions shared by the generated `Uft/Gen/*C.lean` files. -/
namespace Uft.Gen.C

/-- a symbolic pointer value.  Pointer values are never inspected by the translated code except for the
    comparison with NULL; they are handed to the opaque callees, which may tell them apart.
    `obj k` stands for "some object" (parameters, results of opaque callees, pointers stored in memory);
    `fld p "m"` is `&p->m`, `idx p i` is `&p[i]`, `glob "g"` is `&g`, `str "..."` a string literal. -/
inductive Ptr where
  | null
  | obj (id : Nat)
  | glob (name : String)
  | str (lit : String)
  | fld (base : Ptr) (member : String)
  | idx (base : Ptr) (i : Int)
  deriving DecidableEq, Repr, Inhabited

/-- one logged call of an opaque callee (ghost state) -/
structure CallEv where
  fn : String
  site : String
  ints : List Int
  ptrs : List Ptr
  deriving DecidableEq, Repr, Inhabited

end Uft.Gen.C
'''


def generate_all(src, only=None):
    """-> {relative lean path: text}, {name: GenFile}"""
    out, gfs = {"Uft/Gen/RuntimeC.lean": RUNTIME}, {}
    for spec in GENFILES:
        if only and spec["name"] not in only:
            continue
        gf = GenFile(spec, os.path.abspath(src))
        out["Uft/Gen/%s.lean" % spec["name"]] = gf.generate()
        gfs[spec["name"]] = gf
    return out, gfs


def regen(src, only=None, lean_dir=LEAN):
    """regenerate lean/Uft/Gen/*C.lean from the source tree `src`; returns the files whose text changed.
    Raises `Refuse` (and writes nothing for that file) when a function has left the translated subset."""
    texts, _ = generate_all(src, only)
    changed = []
    for rel, text in texts.items():
        if write_if_changed(os.path.join(lean_dir, rel), text):
            changed.append(rel)
    return changed


if __name__ == "__main__":
    if len(sys.argv) < 2:
        sys.stderr.write(__doc__)
        sys.exit(64)
    try:
        if len(sys.argv) >= 4 and sys.argv[2] == "--print":
            texts, _ = generate_all(sys.argv[1], [sys.argv[3]])
            print(texts["Uft/Gen/%s.lean" % sys.argv[3]])
        else:
            ch = regen(sys.argv[1], sys.argv[2:] or None)
            print("changed: " + (" ".join(ch) if ch else "(nothing)"))
    except Refuse as e:
        sys.stderr.write("c2lean: REFUSED: %s\n" % e)
        sys.exit(2)
