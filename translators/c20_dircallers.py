#!/usr/bin/env python3
"""Translator for C20: which commands create or remove data directories, and in which order.

Reads cmds/*.c of the checked tree, finds every function from which create_directory(),
remove_directory() or mkstemp() can be reached, and for every entry point (`command_*`) enumerates the
execution paths through that code as *traces* of directory events

    fresh p        mkstemp(p) succeeded and the file was unlinked again: the name p does not exist
    createOk p     create_directory(p) returned 0
    createFail p   create_directory(p) returned -1
    remove p       remove_directory(p)

`p` is the source text of the argument after parameter substitution and alias resolution
(`opts->dirname = tmp_dirname` makes both the same path); a buffer that is written again gets a new
version (`client->dirname@2`): it names a different directory.  The walk is a small symbolic
execution of the C statements: `if`/`else`, loops (0 or 1 iteration, the condition once more), `switch`, `goto` inside a
function, `return`, calls of the project's own functions (inlined when they can reach one of the
three primitives), the result tests `x < 0`, `x >= 0`, `!x` … on create_directory()/inlined calls
and on variables they were assigned to, conditions that are plain flags (`opts->nop`,
`!opts->record`, `pid == 0`: the same text gets the same truth value along a path until it is
assigned), `buf[0] == '\\0'` on a static buffer, functions registered with atexit() or as
`sa_handler` (they may run after every later state change, and when the path ends).
Everything else is ignored; unknown conditions take both branches.

Output: lean/Uft/Gen/DirCallers.lean (written only if changed)
    entryPoints  : List EntryPoint      name + traces
    rawCalls     : the unlink/rmdir/rename/remove/system/nftw calls in cmds/*.c (function, callee, argument)
    otherCallers : calls of create_directory/remove_directory outside cmds/*.c (file, function)
Props/C20.lean proves `c20_every_entry_point_guards` over these lists: every `remove p` comes after
`createOk p` or `fresh p` of the same path on the same trace."""
import glob
import os
import re
import sys

sys.path.insert(0, os.path.dirname(os.path.dirname(os.path.abspath(__file__))))
from lib.common import write_if_changed, LEAN  # noqa: E402

PRIMS = {"create_directory", "remove_directory", "mkstemp", "atexit"}
RAW = {"unlink", "rmdir", "rename", "remove", "system", "nftw", "unlinkat", "renameat"}
WRITERS = {"snprintf": 0, "sprintf": 0, "strcpy": 0, "strncpy": 0, "strcat": 0, "xasprintf": 0, "asprintf": 0,
           "vsnprintf": 0, "memcpy": 0, "realpath": 1}
NORETURN_ATEXIT = {"pr_err", "pr_err_ns", "exit"}
NORETURN_PLAIN = {"abort", "_exit", "_Exit", "execv", "execvp", "execl", "execlp", "execve"}
KEYWORDS = {"if", "else", "for", "while", "do", "switch", "case", "default", "return", "goto", "break",
            "continue", "sizeof", "struct", "union", "enum", "typedef", "static", "const", "volatile"}
MAX_PATHS = 200000
LOOP_MAX = 1          # a loop body runs at most this many times on a path (its condition once more)


# ------------------------------------------------------------------ lexing
def strip_source(src):
    out = []
    i, n = 0, len(src)
    while i < n:
        c = src[i]
        if src.startswith("/*", i):
            j = src.find("*/", i + 2)
            i = n if j < 0 else j + 2
            out.append(" ")
        elif src.startswith("//", i):
            j = src.find("\n", i)
            i = n if j < 0 else j
        elif c == '"':
            j = i + 1
            while j < n and src[j] != '"':
                j += 2 if src[j] == "\\" else 1
            out.append('"S"')
            i = j + 1
        elif c == "'":
            j = i + 1
            while j < n and src[j] != "'":
                j += 2 if src[j] == "\\" else 1
            lit = src[i:j + 1]
            out.append("'\\0'" if lit in ("'\\0'",) else "'c'")
            i = j + 1
        else:
            out.append(c)
            i += 1
    s = "".join(out)
    # unit-test code (#ifdef UNIT_TEST … [#else …] #endif) is not part of the program; of every other
    # conditional both sides stay.  Then the preprocessor lines (with continuations) go.
    lines = s.split("\n")
    stack = []            # per open conditional: "skip" | "keep" | "plain"
    kept = []
    for ln in lines:
        t = ln.strip()
        m = re.match(r"#\s*(ifdef|ifndef|if|elif|else|endif)\b(.*)", t)
        if m:
            d, rest = m.group(1), m.group(2).strip()
            if d in ("ifdef", "ifndef", "if"):
                ut = re.match(r"^(UNIT_TEST|defined\s*\(?\s*UNIT_TEST\s*\)?)\s*$", rest) is not None
                if ut and d in ("ifdef", "if"):
                    stack.append("skip")
                elif ut and d == "ifndef":
                    stack.append("keep")
                else:
                    stack.append("plain")
            elif d in ("else", "elif") and stack:
                if stack[-1] == "skip":
                    stack[-1] = "keep"
                elif stack[-1] == "keep":
                    stack[-1] = "skip"
            elif d == "endif" and stack:
                stack.pop()
            kept.append("")
            continue
        kept.append("" if "skip" in stack else ln)
    s = "\n".join(kept)
    s = re.sub(r"(?m)^[ \t]*#(?:[^\n\\]|\\\n|\\.)*", "", s)
    return s


TOK = re.compile(r"\s*(->|==|!=|<=|>=|&&|\|\||\+\+|--|<<|>>|[A-Za-z_]\w*|\d[\w.]*|\"S\"|'\\0'|'c'|.)", re.S)


def tokenize(s):
    toks = TOK.findall(s)
    return [t for t in toks if t.strip()]


def match_close(toks, i, op, cl):
    """toks[i] == op -> index of the matching cl"""
    d = 0
    while i < len(toks):
        if toks[i] == op:
            d += 1
        elif toks[i] == cl:
            d -= 1
            if d == 0:
                return i
        i += 1
    raise ValueError("unbalanced %s" % op)


def functions_of(path):
    """-> {name: (params, body tokens, is_static)}"""
    toks = tokenize(strip_source(open(path, errors="replace").read()))
    out = {}
    i, depth = 0, 0
    n = len(toks)
    while i < n:
        t = toks[i]
        if t == "{":
            depth += 1
        elif t == "}":
            depth -= 1
        elif depth == 0 and t == "(" and i > 0 and re.match(r"[A-Za-z_]\w*$", toks[i - 1]) and toks[i - 1] not in KEYWORDS:
            j = match_close(toks, i, "(", ")")
            if j + 1 < n and toks[j + 1] == "{":
                name = toks[i - 1]
                k = match_close(toks, j + 1, "{", "}")
                # static?  look back to the previous ; or }
                b = i - 1
                while b > 0 and toks[b - 1] not in (";", "}"):
                    b -= 1
                is_static = "static" in toks[b:i]
                params = []
                cur = []
                d = 0
                for x in toks[i + 1:j]:
                    if x in "([":
                        d += 1
                    elif x in ")]":
                        d -= 1
                    if x == "," and d == 0:
                        params.append(cur)
                        cur = []
                    else:
                        cur.append(x)
                if cur:
                    params.append(cur)
                pnames = []
                for p in params:
                    ids = [x for x in p if re.match(r"[A-Za-z_]\w*$", x) and x not in KEYWORDS]
                    pnames.append(ids[-1] if ids else None)
                out[name] = (pnames, toks[j + 2:k], is_static)
                i = k
                # depth unchanged: we jumped over the body
        i += 1
    return out


# ------------------------------------------------------------------ statements
def parse_block(toks, i, end):
    """statements of toks[i:end] -> list"""
    out = []
    while i < end:
        st, i = parse_stmt(toks, i, end)
        if st is not None:
            out.append(st)
    return out


def parse_stmt(toks, i, end):
    t = toks[i]
    if t == ";":
        return None, i + 1
    if t == "{":
        k = match_close(toks, i, "{", "}")
        return ("block", parse_block(toks, i + 1, k)), k + 1
    if t == "if":
        j = match_close(toks, i + 1, "(", ")")
        th, k = parse_stmt(toks, j + 1, end)
        el = None
        if k < end and toks[k] == "else":
            el, k = parse_stmt(toks, k + 1, end)
        return ("if", toks[i + 2:j], th, el), k
    if t in ("while", "for"):
        j = match_close(toks, i + 1, "(", ")")
        body, k = parse_stmt(toks, j + 1, end)
        inner = toks[i + 2:j]
        if t == "for":
            parts, cur, d = [], [], 0
            for x in inner:
                if x in "([{":
                    d += 1
                elif x in ")]}":
                    d -= 1
                if x == ";" and d == 0:
                    parts.append(cur)
                    cur = []
                else:
                    cur.append(x)
            parts.append(cur)
            while len(parts) < 3:
                parts.append([])
            return ("for", parts[0], parts[1], parts[2], body), k
        return ("for", [], inner, [], body), k
    if t == "do":
        body, k = parse_stmt(toks, i + 1, end)
        # while ( cond ) ;
        j = match_close(toks, k + 1, "(", ")")
        return ("do", body, toks[k + 2:j]), j + 2
    if t == "switch":
        j = match_close(toks, i + 1, "(", ")")
        k = match_close(toks, j + 1, "{", "}")
        segs, cur = [], None
        p = j + 2
        while p < k:
            if toks[p] in ("case", "default"):
                q = p
                while toks[q] != ":":
                    q += 1
                if cur is not None:
                    segs.append(cur)
                cur = []
                p = q + 1
                continue
            st, p = parse_stmt(toks, p, k)
            if st is not None and cur is not None:
                cur.append(st)
        if cur is not None:
            segs.append(cur)
        return ("switch", toks[i + 2:j], segs), k + 1
    if t == "return":
        j = i
        while toks[j] != ";":
            j += 1
        return ("return", toks[i + 1:j]), j + 1
    if t == "goto":
        return ("goto", toks[i + 1]), i + 3
    if t == "break":
        return ("break",), i + 2
    if t == "continue":
        return ("continue",), i + 2
    if re.match(r"[A-Za-z_]\w*$", t) and i + 1 < end and toks[i + 1] == ":" and t not in KEYWORDS:
        return ("label", t), i + 2
    # expression / declaration statement: up to ; at depth 0
    j, d = i, 0
    while j < end:
        if toks[j] in "([{":
            d += 1
        elif toks[j] in ")]}":
            d -= 1
        elif toks[j] == ";" and d == 0:
            break
        j += 1
    return ("expr", toks[i:j]), j + 1


# ------------------------------------------------------------------ symbolic execution
class State:
    __slots__ = ("trace", "alias", "ver", "tmpl", "empty", "truth", "status", "handlers", "bind", "spawned")

    def __init__(self):
        self.trace = []
        self.alias = {}       # lvalue text -> canonical path
        self.ver = {}         # base text -> version
        self.tmpl = set()     # canonical paths produced by mkstemp (unlink makes them `fresh`)
        self.empty = {}       # base text -> True while a static buffer has never been written / was zeroed
        self.truth = {}       # atom text -> bool
        self.status = {}      # variable text -> "neg" | "ok"
        self.handlers = []    # functions registered with atexit / as signal handler
        self.bind = {}        # parameter -> argument text (innermost inlined call)
        self.spawned = []     # finished side paths (a handler ran and the process ended)

    def sig(self):
        return (tuple(self.trace), frozenset(self.alias.items()), frozenset(self.ver.items()), frozenset(self.tmpl),
                frozenset(self.empty.items()), frozenset(self.truth.items()), frozenset(self.status.items()),
                tuple(self.handlers), frozenset(self.bind.items()))

    def copy(self):
        s = State()
        s.trace = list(self.trace)
        s.alias = dict(self.alias)
        s.ver = dict(self.ver)
        s.tmpl = set(self.tmpl)
        s.empty = dict(self.empty)
        s.truth = dict(self.truth)
        s.status = dict(self.status)
        s.handlers = list(self.handlers)
        s.bind = dict(self.bind)
        s.spawned = self.spawned       # shared on purpose: collected per entry point
        return s


LV = re.compile(r"^[A-Za-z_]\w*(?:(?:->|\.)[A-Za-z_]\w*)*$")


def dedupe(results):
    """results: [(state, x, …)] -> one per (state signature, rest)"""
    seen, out = set(), []
    for r in results:
        k = (r[0].sig(),) + tuple(r[1:])
        if k not in seen:
            seen.add(k)
            out.append(r)
    return out


class Walker:
    def __init__(self, funcs):
        self.funcs = funcs            # name -> (params, body AST, file)
        self.effect = set()
        self.paths = 0
        self.notes = []
        self.relevant = set()         # condition atoms that guard something the walk cares about

    # ---- which functions matter
    def compute_effects(self, raw_bodies):
        eff = set()
        changed = True
        while changed:
            changed = False
            for name, toks in raw_bodies.items():
                if name in eff:
                    continue
                for a, b in zip(toks, toks[1:]):
                    if b == "(" and (a in PRIMS or a in eff):
                        eff.add(name)
                        changed = True
                        break
        self.effect = eff
        # buffers that hold directory names: last identifier of the arguments of the primitives, closed under
        # plain assignments `a = b`
        names = set()
        for toks in raw_bodies.values():
            for i in range(len(toks) - 1):
                if toks[i] in ("create_directory", "remove_directory", "mkstemp") and toks[i + 1] == "(":
                    j = match_close(toks, i + 1, "(", ")")
                    ids = [x for x in toks[i + 2:j] if re.match(r"[A-Za-z_]\w*$", x)]
                    if ids:
                        names.add(ids[-1])
        changed = True
        while changed:
            changed = False
            for toks in raw_bodies.values():
                for i in range(1, len(toks) - 1):
                    if toks[i] == "=" and re.match(r"[A-Za-z_]\w*$", toks[i - 1]) and re.match(r"[A-Za-z_]\w*$", toks[i + 1]):
                        j = i + 1
                        while j + 2 < len(toks) and toks[j + 1] in ("->", "."):
                            j += 2
                        a, b = toks[i - 1], toks[j]
                        if toks[j + 1:j + 2] == [";"] and ((a in names) != (b in names)):
                            names.update((a, b))
                            changed = True
        self.pathnames = names
        # conditions (their atoms, as text) that guard a primitive or an inlined call
        for name, (params, body, _) in self.funcs.items():
            self.collect_relevant(body)

    def writes_path(self, toks, i):
        """toks[i] is a writer/memset/unlink call: is its target a buffer that holds a directory name?"""
        j = match_close(toks, i + 1, "(", ")")
        args = self.split_args(toks[i + 2:j])
        k = WRITERS.get(toks[i], 0)
        if k >= len(args):
            return False
        ids = [x for x in args[k] if re.match(r"[A-Za-z_]\w*$", x)]
        return bool(ids) and ids[-1] in self.pathnames

    def hard_toks(self, toks):
        for i, (a, b) in enumerate(zip(toks, toks[1:] + [""])):
            if b == "(" and (a in PRIMS or a in self.effect):
                return True
            if b == "(" and (a in WRITERS or a in ("unlink", "memset")) and self.writes_path(toks, i):
                return True
            if a == "sa_handler":
                return True
            if b == "=" and a in self.pathnames:
                return True
        return False

    def hard(self, node):
        if node is None:
            return False
        k = node[0]
        if k == "block":
            return any(self.hard(x) for x in node[1])
        if k == "if":
            return self.hard_toks(node[1]) or self.hard(node[2]) or self.hard(node[3])
        if k == "for":
            return any(self.hard_toks(x) for x in node[1:4]) or self.hard(node[4])
        if k == "do":
            return self.hard(node[1]) or self.hard_toks(node[2])
        if k == "switch":
            return self.hard_toks(node[1]) or any(self.hard(x) for seg in node[2] for x in seg)
        if k in ("expr", "return"):
            return self.hard_toks(node[1])
        return False

    def atoms(self, toks):
        toks = list(toks)
        while len(toks) >= 2 and toks[0] == "(" and match_close(toks, 0, "(", ")") == len(toks) - 1:
            toks = toks[1:-1]
        for op in ("||", "&&"):
            parts = self.split_top(toks, op)
            if len(parts) > 1:
                out = []
                for p in parts:
                    out += self.atoms(p)
                return out
        while toks and toks[0] == "!":
            toks = toks[1:]
            while len(toks) >= 2 and toks[0] == "(" and match_close(toks, 0, "(", ")") == len(toks) - 1:
                toks = toks[1:-1]
            if len(self.split_top(toks, "||")) > 1 or len(self.split_top(toks, "&&")) > 1:
                return self.atoms(toks)
        return ["".join(toks)] if toks else []

    def collect_relevant(self, stmts):
        """atoms of the conditions on the way to (or skipping) something hard, in this statement list"""
        later_hard = False
        for node in reversed(stmts):
            k = node[0]
            if k == "block":
                self.collect_relevant(node[1])
            elif k == "if":
                # relevant when a branch is hard, or when a branch leaves and something hard comes later
                leaves = self.leaves(node[2]) or self.leaves(node[3])
                if self.hard(node[2]) or self.hard(node[3]) or (leaves and later_hard):
                    self.relevant.update(self.atoms(node[1]))
                for b in (node[2], node[3]):
                    if b is not None:
                        self.collect_relevant([b])
            elif k == "for":
                if self.hard(node[4]):
                    self.relevant.update(self.atoms(node[2]))
                if node[4] is not None:
                    self.collect_relevant([node[4]])
            elif k == "do":
                self.collect_relevant([node[1]])
            elif k == "switch":
                for seg in node[2]:
                    self.collect_relevant(seg)
            if self.hard(node):
                later_hard = True

    def leaves(self, node):
        if node is None:
            return False
        k = node[0]
        if k in ("return", "goto", "break", "continue"):
            return True
        if k == "block":
            return any(self.leaves(x) for x in node[1])
        if k == "if":
            return self.leaves(node[2]) or self.leaves(node[3])
        return False

    # ---- paths and names
    def subst(self, st, text):
        m = re.match(r"^([A-Za-z_]\w*)(.*)$", text)
        if m and m.group(1) in st.bind and st.bind[m.group(1)] is not None:
            return st.bind[m.group(1)] + m.group(2)
        return text

    def lv(self, st, toks):
        """token list -> normalised lvalue text or None"""
        t = list(toks)
        while t and t[0] in ("&", "(", "*") and (t[0] != "(" or t[-1] == ")"):
            if t[0] == "(":
                t = t[1:-1]
            else:
                t = t[1:]
        text = "".join(t)
        if not LV.match(text):
            return None
        return self.subst(st, text)

    def canon(self, st, text):
        seen = 0
        while text in st.alias and seen < 8:
            text = st.alias[text]
            seen += 1
        v = st.ver.get(text, 0)
        return text if v == 0 else "%s@%d" % (text, v)

    def bump(self, st, text, empty=False):
        base = text
        seen = 0
        while base in st.alias and seen < 8:
            base = st.alias[base]
            seen += 1
        st.alias.pop(text, None)
        if empty:
            st.empty[base] = True
        else:
            st.ver[base] = st.ver.get(base, 0) + 1
            st.empty[base] = False
        for k in [k for k in st.truth if base in k or text in k]:
            del st.truth[k]
        self.after_change(st)

    def event(self, st, kind, path):
        st.trace.append((kind, path))
        self.after_change(st)

    def after_change(self, st):
        """a registered handler may run now (the process can end in any function we do not look into)"""
        if st.handlers:
            side = st.copy()
            side.handlers = []
            for h in st.handlers:
                for s2, _ in self.call_function(side, h, [], depth=1):
                    side = s2
                    break
            if side.trace != st.trace:
                st.spawned.append(side.trace)

    # ---- expressions
    def split_args(self, toks):
        args, cur, d = [], [], 0
        for x in toks:
            if x in "([{":
                d += 1
            elif x in ")]}":
                d -= 1
            if x == "," and d == 0:
                args.append(cur)
                cur = []
            else:
                cur.append(x)
        if cur:
            args.append(cur)
        return args

    def eval_calls(self, st, toks, depth):
        """run the calls of an expression left to right -> [(state, status of the LAST effectful call | None,
        terminated?)]"""
        results = [(st, None, False)]
        i = 0
        n = len(toks)
        while i < n:
            if i + 1 < n and toks[i + 1] == "(" and re.match(r"[A-Za-z_]\w*$", toks[i]) and toks[i] not in KEYWORDS \
                    and (i == 0 or toks[i - 1] not in ("->", ".")):
                j = match_close(toks, i + 1, "(", ")")
                name = toks[i]
                args = self.split_args(toks[i + 2:j])
                new = []
                for s, status, term in results:
                    if term:
                        new.append((s, status, term))
                        continue
                    # nested calls in the arguments first
                    inner = [(s, None, False)]
                    for a in args:
                        nxt = []
                        for s1, _, t1 in inner:
                            nxt += [(s1, None, True)] if t1 else self.eval_calls(s1, a, depth)
                        inner = nxt
                    for s1, _, t1 in inner:
                        if t1:
                            new.append((s1, status, True))
                            continue
                        for s2, st2, t2 in self.do_call(s1, name, args, depth):
                            new.append((s2, st2 if st2 is not None else status, t2))
                results = new
                i = j + 1
            else:
                i += 1
        return results

    def do_call(self, st, name, args, depth):
        """-> [(state, result status "neg"|"ok"|None, terminated)]"""
        if name == "create_directory" and args:
            p = self.lv(st, args[0])
            p = self.canon(st, p) if p else "?" + "".join(args[0])
            a, b = st.copy(), st.copy()
            self.event(a, "createOk", p)
            self.event(b, "createFail", p)
            return [(a, "ok", False), (b, "neg", False)]
        if name == "remove_directory" and args:
            p = self.lv(st, args[0])
            base = p
            p = self.canon(st, p) if p else "?" + "".join(args[0])
            s = st.copy()
            self.event(s, "remove", p)
            return [(s, None, False)]
        if name == "mkstemp" and args:
            p = self.lv(st, args[0])
            s = st.copy()
            if p:
                self.bump(s, p)
                s.tmpl.add(self.canon(s, p))
            return [(s, None, False)]
        if name == "unlink" and args:
            p = self.lv(st, args[0])
            if p and self.canon(st, p) in st.tmpl:
                s = st.copy()
                s.tmpl.discard(self.canon(s, p))
                self.event(s, "fresh", self.canon(s, p))
                return [(s, None, False)]
            return [(st, None, False)]
        if name in WRITERS and len(args) > WRITERS[name]:
            p = self.lv(st, args[WRITERS[name]])
            if p:
                s = st.copy()
                self.bump(s, p)
                return [(s, None, False)]
            return [(st, None, False)]
        if name == "memset" and len(args) >= 2:
            p = self.lv(st, args[0])
            if p and "".join(args[1]) in ("0", "'\\0'"):
                s = st.copy()
                self.bump(s, p, empty=True)
                return [(s, None, False)]
            return [(st, None, False)]
        if name == "atexit" and args:
            h = "".join(args[0])
            s = st.copy()
            if h in self.funcs and h not in s.handlers:
                s.handlers.append(h)
                self.after_change(s)
            return [(s, None, False)]
        # pr_err()/exit()/abort()/exec*(): the path would end here.  It goes on instead: what happened so far
        # is a prefix of the longer trace, and the registered handlers have been run on every state the path
        # went through (`after_change`), so nothing is lost by not ending it.
        if name in self.effect and name in self.funcs and depth < 8:
            out = []
            for s2, ret in self.call_function(st, name, args, depth + 1):
                if ret in ("exit", "abort"):
                    out.append((s2, None, ret))
                else:
                    out.append((s2, ret, False))
            return out
        return [(st, None, False)]

    def call_function(self, st, name, args, depth):
        """inline -> [(state, "neg"|"ok"|None|"exit"|"abort")]"""
        params, body, _ = self.funcs[name]
        s = st.copy()
        saved = dict(st.bind)
        newbind = {}
        for k, p in enumerate(params):
            if p is None:
                continue
            a = self.lv(st, args[k]) if k < len(args) else None
            newbind[p] = a
        s.bind = newbind
        out = []
        for s2, oc in self.run_block(s, body, depth):
            s2.bind = dict(saved)
            kind = oc[0]
            if kind == "return":
                out.append((s2, oc[1]))
            elif kind in ("exit", "abort"):
                out.append((s2, kind))
            else:
                out.append((s2, None))
        return dedupe(out)

    # ---- conditions
    def split_top(self, toks, op):
        parts, cur, d = [], [], 0
        for x in toks:
            if x in "([{":
                d += 1
            elif x in ")]}":
                d -= 1
            if x == op and d == 0:
                parts.append(cur)
                cur = []
            else:
                cur.append(x)
        parts.append(cur)
        return parts

    def eval_cond(self, st, toks, depth):
        """-> [(state, truth, terminated)]"""
        toks = list(toks)
        while len(toks) >= 2 and toks[0] == "(" and match_close(toks, 0, "(", ")") == len(toks) - 1:
            toks = toks[1:-1]
        if not toks:
            return [(st, True, False)]
        ors = self.split_top(toks, "||")
        if len(ors) > 1:
            out = []
            pend = [(st, False)]
            for part in ors:
                nxt = []
                for s, _ in pend:
                    for s2, tv, term in self.eval_cond(s, part, depth):
                        if term or tv:
                            out.append((s2, True, term))
                        else:
                            nxt.append((s2, False))
                pend = nxt
            return out + [(s, False, False) for s, _ in pend]
        ands = self.split_top(toks, "&&")
        if len(ands) > 1:
            out = []
            pend = [(st, True)]
            for part in ands:
                nxt = []
                for s, _ in pend:
                    for s2, tv, term in self.eval_cond(s, part, depth):
                        if term or not tv:
                            out.append((s2, False, term))
                        else:
                            nxt.append((s2, True))
                pend = nxt
            return out + [(s, True, False) for s, _ in pend]
        neg = False
        while toks and toks[0] == "!":
            neg = not neg
            toks = toks[1:]
            while len(toks) >= 2 and toks[0] == "(" and match_close(toks, 0, "(", ")") == len(toks) - 1:
                toks = toks[1:-1]
        if neg and (len(self.split_top(toks, "||")) > 1 or len(self.split_top(toks, "&&")) > 1):
            return [(s, not tv, term) for s, tv, term in self.eval_cond(st, toks, depth)]
        # comparison with a constant?
        cmp_op, lhs, rhs = None, toks, []
        d = 0
        for k, x in enumerate(toks):
            if x in "([{":
                d += 1
            elif x in ")]}":
                d -= 1
            elif d == 0 and x in ("<", ">", "<=", ">=", "==", "!="):
                cmp_op, lhs, rhs = x, toks[:k], toks[k + 1:]
                break
        results = []
        for s, status, term in self.eval_calls(st, toks, depth):
            if term:
                results.append((s, False, term))
                continue
            tv = None
            rtxt = "".join(rhs)
            ltxt = "".join(lhs)
            lv = self.lv(s, lhs) if lhs else None
            if status is None and lv is not None and lv in s.status:
                status = s.status[lv]
            if status is not None and (cmp_op is None or rtxt in ("0", "-1")):
                fail = status == "neg"
                if cmp_op is None:
                    tv = fail                      # non-zero = -1
                elif cmp_op == "<" and rtxt == "0":
                    tv = fail
                elif cmp_op == ">=" and rtxt == "0":
                    tv = not fail
                elif cmp_op == "==":
                    tv = (not fail) if rtxt == "0" else fail
                elif cmp_op == "!=":
                    tv = fail if rtxt == "0" else (not fail)
            if tv is None and cmp_op == "==" and rtxt == "'\\0'" and ltxt.endswith("[0]"):
                base = self.lv(s, lhs[:-3])
                if base is not None:
                    b2 = base
                    seen = 0
                    while b2 in s.alias and seen < 8:
                        b2 = s.alias[b2]
                        seen += 1
                    tv = s.empty.get(b2, s.ver.get(b2, 0) == 0)
            if tv is not None:
                results.append((s, tv != neg, False))
                continue
            raw = "".join(toks)
            key = "".join(self.subst(s, x) if k == 0 else x for k, x in enumerate(toks))
            if key in s.truth:
                results.append((s, s.truth[key] != neg, False))
                continue
            for val in (True, False):
                s2 = s.copy()
                if raw in self.relevant:
                    s2.truth[key] = val
                results.append((s2, val != neg, False))
        return dedupe(results)

    # ---- statements
    def has_effect(self, node):
        """can this statement change anything the walk tracks?"""
        if node is None:
            return False
        k = node[0]
        if k == "block":
            return any(self.has_effect(x) for x in node[1])
        if k == "if":
            return self.toks_effect(node[1]) or self.has_effect(node[2]) or self.has_effect(node[3])
        if k == "for":
            return any(self.toks_effect(x) for x in node[1:4]) or self.has_effect(node[4])
        if k == "do":
            return self.has_effect(node[1]) or self.toks_effect(node[2])
        if k == "switch":
            return self.toks_effect(node[1]) or any(self.has_effect(x) for seg in node[2] for x in seg)
        if k == "expr":
            return self.toks_effect(node[1])
        if k == "return":
            return True
        return k in ("goto", "break", "continue", "label")

    def toks_effect(self, toks):
        if self.hard_toks(toks):
            return True
        # assignments to something a relevant condition mentions (`ret = -1`, `opts->nop = true`)
        for i, x in enumerate(toks):
            if x == "=" and i > 0:
                j = i - 1
                while j > 1 and toks[j - 1] in ("->", "."):
                    j -= 2
                lhs = "".join(toks[j:i])
                if any(lhs and lhs in key for key in self.relevant):
                    return True
        return False

    def run_block(self, st, stmts, depth, start=0):
        """-> [(state, outcome)]  outcome = ("fall",) | ("return", status) | ("goto", L) | ("break",) |
        ("continue",) | ("exit",) | ("abort",)"""
        labels = {s[1]: k for k, s in enumerate(stmts) if s[0] == "label"}
        work = [(st, start, 0)]
        done = []
        visited = set()
        while work:
            s, idx, jumps = work.pop()
            vk = (idx, jumps, s.sig())
            if vk in visited:
                continue
            visited.add(vk)
            self.paths += 1
            if self.paths > MAX_PATHS:
                raise RuntimeError("too many paths")
            if idx >= len(stmts):
                done.append((s, ("fall",)))
                continue
            for s2, oc in self.run_stmt(s, stmts[idx], depth):
                if oc[0] == "fall":
                    work.append((s2, idx + 1, jumps))
                elif oc[0] == "goto" and oc[1] in labels and jumps < 2:
                    work.append((s2, labels[oc[1]], jumps + 1))
                elif oc[0] == "goto" and oc[1] in labels:
                    done.append((s2, ("fall",)))          # loop by goto: cut
                else:
                    done.append((s2, oc))
        return dedupe(done)

    def run_stmt(self, st, node, depth):
        return dedupe(self.run_stmt1(st, node, depth))

    def run_stmt1(self, st, node, depth):
        k = node[0]
        if k == "block":
            return self.run_block(st, node[1], depth)
        if k == "label":
            return [(st, ("fall",))]
        if k in ("break", "continue"):
            return [(st, (k,))]
        if k == "goto":
            return [(st, ("goto", node[1]))]
        if k == "return":
            out = []
            toks = node[1]
            for s, status, term in self.eval_calls(st, toks, depth):
                if term:
                    out.append((s, (term,)))
                    continue
                txt = "".join(toks)
                if status is None:
                    if re.match(r"^-\d+$", txt):
                        status = "neg"
                    elif re.match(r"^\d+$", txt) or txt in ("UFTRACE_EXIT_SUCCESS",):
                        status = "ok"
                    else:
                        lv = self.lv(s, toks) if toks else None
                        status = s.status.get(lv) if lv else None
                out.append((s, ("return", status)))
            return out
        if k == "expr":
            return self.run_expr(st, node[1], depth)
        if k == "if":
            if not self.has_effect(node):
                return [(st, ("fall",))]
            out = []
            for s, tv, term in self.eval_cond(st, node[1], depth):
                if term:
                    out.append((s, (term,)))
                elif tv:
                    out += self.run_stmt(s, node[2], depth) if node[2] else [(s, ("fall",))]
                else:
                    out += self.run_stmt(s, node[3], depth) if node[3] else [(s, ("fall",))]
            return out
        if k == "for":
            if not self.has_effect(node):
                return [(st, ("fall",))]
            out = []
            starts = self.run_expr(st, node[1], depth) if node[1] else [(st, ("fall",))]
            for s0, oc0 in starts:
                if oc0[0] != "fall":
                    out.append((s0, oc0))
                    continue
                pend = [(s0, 0)]
                while pend:
                    s, it = pend.pop()
                    conds = self.eval_cond(s, node[2], depth) if node[2] else [(s, True, False)]
                    for s1, tv, term in conds:
                        if term:
                            out.append((s1, (term,)))
                            continue
                        if not tv or it >= LOOP_MAX:
                            out.append((s1, ("fall",)))
                            continue
                        # an unknown loop condition: the keys it set must not pin the next iteration
                        for s2, oc in (self.run_stmt(s1, node[4], depth) if node[4] else [(s1, ("fall",))]):
                            if oc[0] in ("fall", "continue"):
                                steps = self.run_expr(s2, node[3], depth) if node[3] else [(s2, ("fall",))]
                                for s3, oc3 in steps:
                                    if oc3[0] == "fall":
                                        s3.truth = {a: b for a, b in s3.truth.items() if a != "".join(node[2])}
                                        pend.append((s3, it + 1))
                                    else:
                                        out.append((s3, oc3))
                            elif oc[0] == "break":
                                out.append((s2, ("fall",)))
                            else:
                                out.append((s2, oc))
            return out
        if k == "do":
            if not self.has_effect(node):
                return [(st, ("fall",))]
            out = []
            pend = [(st, 0)]
            while pend:
                s, it = pend.pop()
                for s2, oc in self.run_stmt(s, node[1], depth):
                    if oc[0] in ("fall", "continue"):
                        for s3, tv, term in self.eval_cond(s2, node[2], depth):
                            s3.truth.pop("".join(node[2]), None)
                            if term:
                                out.append((s3, (term,)))
                            elif tv and it < LOOP_MAX:
                                pend.append((s3, it + 1))
                            else:
                                out.append((s3, ("fall",)))
                    elif oc[0] == "break":
                        out.append((s2, ("fall",)))
                    else:
                        out.append((s2, oc))
            return out
        if k == "switch":
            if not self.has_effect(node):
                return [(st, ("fall",))]
            out = []
            for s, _, term in self.eval_calls(st, node[1], depth):
                if term:
                    out.append((s, (term,)))
                    continue
                out.append((s, ("fall",)))               # no case taken
                segs = node[2]
                for a in range(len(segs)):
                    flat = [x for seg in segs[a:] for x in seg]
                    if not any(self.has_effect(x) for x in segs[a]):
                        continue
                    for s2, oc in self.run_block(s.copy(), flat, depth):
                        out.append((s2, ("fall",) if oc[0] == "break" else oc))
            return out
        return [(st, ("fall",))]

    def run_expr(self, st, toks, depth):
        out = []
        # signal handlers: `sa.sa_handler = f`
        for k, x in enumerate(toks):
            if x == "sa_handler" and k + 2 < len(toks) + 1 and toks[k + 1:k + 2] == ["="]:
                h = "".join(toks[k + 2:])
                if h in self.funcs:
                    st = st.copy()
                    if h not in st.handlers:
                        st.handlers.append(h)
                        self.after_change(st)
                    return [(st, ("fall",))]
        # assignment?  LHS = RHS   (declarations `type x = …` too: take the last identifier chain of the LHS)
        eq = None
        d = 0
        for k, x in enumerate(toks):
            if x in "([{":
                d += 1
            elif x in ")]}":
                d -= 1
            elif x == "=" and d == 0:
                eq = k
                break
        lhs = None
        rhs = toks
        if eq is not None:
            rhs = toks[eq + 1:]
            ltoks = toks[:eq]
            # strip a declaration prefix: keep the trailing lvalue
            j = len(ltoks)
            while j > 0 and (re.match(r"[A-Za-z_]\w*$", ltoks[j - 1]) or ltoks[j - 1] in ("->", ".")):
                j -= 1
                if re.match(r"[A-Za-z_]\w*$", ltoks[j]) and j > 0 and re.match(r"[A-Za-z_]\w*$", ltoks[j - 1]):
                    break
            lhs = self.lv(st, ltoks[j:]) if ltoks[j:] else None
        for s, status, term in self.eval_calls(st, rhs, depth):
            if term:
                out.append((s, (term,)))
                continue
            if lhs is not None:
                s = s.copy()
                r = self.lv(s, rhs)
                for key in [key for key in s.truth if lhs in key]:
                    del s.truth[key]
                if status is not None:
                    s.status[lhs] = status
                elif r is not None and r in s.status:
                    s.status[lhs] = s.status[r]
                else:
                    s.status.pop(lhs, None)
                    txt = "".join(rhs)
                    if re.match(r"^-\d+$", txt):
                        s.status[lhs] = "neg"
                if r is not None:
                    s.alias[lhs] = r          # the same string from now on
                    self.after_change(s)
                elif lhs in s.alias:
                    del s.alias[lhs]
            out.append((s, ("fall",)))
        return out


# ------------------------------------------------------------------ driver
def translate(srcdir):
    files = sorted(glob.glob(os.path.join(srcdir, "cmds", "*.c")))
    if not files:
        raise ValueError("no cmds/*.c under %s" % srcdir)
    funcs, raw_bodies, where = {}, {}, {}
    for f in files:
        for name, (params, toks, is_static) in functions_of(f).items():
            if name in funcs and is_static:
                # two static functions of the same name: keep both apart by file
                name2 = "%s@%s" % (name, os.path.basename(f))
                raw_bodies[name2] = toks
                funcs[name2] = (params, parse_block(toks, 0, len(toks)), f)
                continue
            raw_bodies[name] = toks
            funcs[name] = (params, parse_block(toks, 0, len(toks)), f)
            where[name] = os.path.relpath(f, srcdir)
    w = Walker(funcs)
    w.compute_effects(raw_bodies)
    entries = []
    for name in sorted(funcs):
        if not name.startswith("command_") or name not in w.effect:
            continue
        st = State()
        spawned = st.spawned
        traces = set()
        for s, oc in w.call_function(st, name, [[p] for p in funcs[name][0] if p], 0):
            tr = list(s.trace)
            if oc != "abort" and s.handlers:
                # the process ends (return to main, then exit): the handlers run
                side = s.copy()
                hs = side.handlers
                side.handlers = []
                for h in hs:
                    for s2, _ in w.call_function(side, h, [], 1):
                        side = s2
                        break
                tr = list(side.trace)
            if tr:
                traces.add(tuple(tr))
        for tr in spawned:
            if tr:
                traces.add(tuple(tr))
        # a trace that is a proper prefix of another one adds nothing (the guard is checked per position)
        keep = []
        for t in sorted(traces):
            if not any(o != t and o[:len(t)] == t for o in traces):
                keep.append(t)
        entries.append((name, where.get(name, "?"), keep))
    raw = []
    for name in sorted(raw_bodies):
        toks = raw_bodies[name]
        for i in range(len(toks) - 1):
            if toks[i] in RAW and toks[i + 1] == "(" and (i == 0 or toks[i - 1] not in ("->", ".")):
                j = match_close(toks, i + 1, "(", ")")
                raw.append((name.split("@")[0], toks[i], "".join(toks[i + 2:j])))
    others = []
    for f in sorted(glob.glob(os.path.join(srcdir, "*.c")) + glob.glob(os.path.join(srcdir, "utils", "*.c")) +
                    glob.glob(os.path.join(srcdir, "libmcount", "*.c")) + glob.glob(os.path.join(srcdir, "arch", "*", "*.c")) +
                    glob.glob(os.path.join(srcdir, "python", "*.c")) + glob.glob(os.path.join(srcdir, "misc", "*.c"))):
        try:
            fs = functions_of(f)
        except ValueError:
            continue
        for name, (_, toks, _) in fs.items():
            if name in ("create_directory", "remove_directory"):
                continue
            for i in range(len(toks) - 1):
                if toks[i] in ("create_directory", "remove_directory") and toks[i + 1] == "(":
                    others.append((os.path.relpath(f, srcdir), name, toks[i]))
    return entries, sorted(set(raw)), sorted(set(others)), sorted(w.effect)


def lean_str(s):
    return '"' + s.replace("\\", "\\\\").replace('"', '\\"') + '"'


def render(entries, raw, others, effect):
    out = ["/- GENERATED by translators/c20_dircallers.py from cmds/*.c of the checked tree — do not edit.",
           "   Directory events on every execution path of every command that can reach create_directory(),",
           "   remove_directory() or mkstemp(); see the translator's docstring for the event vocabulary. -/",
           "import Uft.Model.DirGuard",
           "namespace Uft.Gen.DirCallers",
           "open Uft.DirGuard",
           "",
           "/-- functions of cmds/*.c from which one of the primitives can be reached (inlined by the walk) -/",
           "def reaching : List String := [" + ", ".join(lean_str(e) for e in effect) + "]",
           ""]
    for name, where, traces in entries:
        out.append("/-- %s (%s): %d trace(s) -/" % (name, where, len(traces)))
        out.append("def %s : EntryPoint :=" % name)
        out.append("  { name := %s," % lean_str(name))
        out.append("    traces := [")
        rows = []
        for t in traces:
            rows.append("      [" + ", ".join(".%s %s" % (k, lean_str(p)) for k, p in t) + "]")
        out.append(",\n".join(rows))
        out.append("    ] }")
        out.append("")
    out.append("def entryPoints : List EntryPoint := [" + ", ".join(n for n, _, _ in entries) + "]")
    out.append("")
    out.append("/-- unlink/rmdir/rename/remove/system/nftw calls in cmds/*.c: (function, callee, argument) -/")
    out.append("def rawCalls : List (String × String × String) := [")
    out.append(",\n".join("  (%s, %s, %s)" % (lean_str(a), lean_str(b), lean_str(c)) for a, b, c in raw))
    out.append("]")
    out.append("")
    out.append("/-- calls of create_directory/remove_directory outside cmds/*.c: (file, function, callee) -/")
    out.append("def otherCallers : List (String × String × String) := [")
    out.append(",\n".join("  (%s, %s, %s)" % (lean_str(a), lean_str(b), lean_str(c)) for a, b, c in others))
    out.append("]")
    out.append("")
    out.append("end Uft.Gen.DirCallers")
    return "\n".join(out) + "\n"


def main(srcdir, write=True):
    entries, raw, others, effect = translate(srcdir)
    text = render(entries, raw, others, effect)
    changed = False
    if write:
        changed = write_if_changed(os.path.join(LEAN, "Uft", "Gen", "DirCallers.lean"), text)
    return {"entries": [(n, len(t)) for n, _, t in entries], "raw": len(raw), "others": others,
            "changed": changed, "text": text,
            "traces": {n: [[list(e) for e in t] for t in ts] for n, _, ts in entries}}


if __name__ == "__main__":
    r = main(sys.argv[1] if len(sys.argv) > 1 else "/repo", write="--write" in sys.argv)
    print(r["text"])
