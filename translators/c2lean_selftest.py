#!/usr/bin/env python3
"""Differential self-test of translators/c2lean.py: the REAL C function against the generated Lean def.

    python3 translators/c2lean_selftest.py <tree> [GenFile ...] [-n CASES] [--seed S] [--keep]

For every translated top-level function of every Gen file:
  1. a copy of the C source file is made in a scratch directory; immediately before each translated function
     `#define <opaque callee> c2l_stub_<callee>` lines are inserted (and `#undef`ed after it), so that the
     function's own text — byte for byte the text of the tree — is compiled with its opaque callees replaced by
     stubs; a driver is appended to the same translation unit (static functions and variables are reachable);
  2. the driver reads test vectors (values for the scalar parameters and for every memory location the
     generated def reads or writes, plus a seed for the stubs), builds the objects the access paths need
     (`task->h->depth` ...), calls the real function, and prints the values it actually stored as inputs
     (`IN`), the returned value, every location afterwards and the logged calls (`OUT`);
  3. the stubs return — and store through their pointer arguments, for callees declared to write — values that
     are a fixed hash of the seed, the callee and its scalar arguments; the Lean side gets `Oracles` computing
     the same hash;
  4. a generated Lean script evaluates the generated def on the `IN` lines (`lake env lean --run`) and prints
     `OUT` lines in the same format; the two are compared line by line.
A function translated only up to a statement (`prefix_until`) is compiled with `return;` inserted after that
statement.  Exit status 0 iff every compared line agrees.
"""
import os
import random
import re
import shutil
import subprocess
import sys
import tempfile

sys.path.insert(0, os.path.dirname(os.path.dirname(os.path.abspath(__file__))))
from translators import c2lean  # noqa: E402
from lib.common import VERIF, LEAN, SCRATCH_ROOT  # noqa: E402

MASK = (1 << 64) - 1


def mix(seed, xs):
    """the hash shared by the C stubs and the Lean oracles (64-bit)"""
    h = (seed * 6364136223846793005 + 1442695040888963407) & MASK
    for x in xs:
        h = ((h ^ (x & MASK)) * 1099511628211) & MASK
        h ^= h >> 29
    return h


C_PRELUDE = r'''
/* ---- c2lean self-test driver (appended by translators/c2lean_selftest.py) ---- */
#include <stdio.h>
#include <stdlib.h>
#include <string.h>
#include <setjmp.h>
#include <unistd.h>
typedef unsigned long long c2l_u64;
static c2l_u64 c2l_seed;
static jmp_buf c2l_jb;
static int c2l_aborted;
static char c2l_log[4096];
static int c2l_nlog;
static c2l_u64 c2l_mix(int n, const long long *xs) {
    c2l_u64 h = c2l_seed * 6364136223846793005ULL + 1442695040888963407ULL;
    for (int i = 0; i < n; i++) { h = (h ^ (c2l_u64)xs[i]) * 1099511628211ULL; h ^= h >> 29; }
    return h;
}
static const long long c2l_ipool[] = { %(ipool)s };
static const c2l_u64 c2l_npool[] = { %(npool)s };
#define C2L_NI ((int)(sizeof c2l_ipool / sizeof c2l_ipool[0]))
#define C2L_NN ((int)(sizeof c2l_npool / sizeof c2l_npool[0]))
static long long c2l_int(c2l_u64 h) { return c2l_ipool[(h >> 7) %% C2L_NI]; }
static c2l_u64 c2l_nat(c2l_u64 h) {
    int m = (int)((h >> 40) & 3);
    if (m == 0) return 0;
    if (m == 1) return c2l_npool[(h >> 7) %% C2L_NN];
    return c2l_npool[(h >> 7) %% C2L_NN] | c2l_npool[(h >> 23) %% C2L_NN];
}
static int c2l_bool(c2l_u64 h) { return (int)((h >> 7) & 1); }
static int c2l_isnull(c2l_u64 h) { return ((h >> 7) %% 5) == 0; }
static char c2l_dummy[64];
static void c2l_logcall(const char *fn, int n, const long long *xs) {
    c2l_nlog += snprintf(c2l_log + c2l_nlog, sizeof c2l_log - c2l_nlog, " %%s", fn);
    for (int i = 0; i < n; i++) c2l_nlog += snprintf(c2l_log + c2l_nlog, sizeof c2l_log - c2l_nlog, ",%%lld", xs[i]);
}
'''

LEAN_PRELUDE = '''import Uft.Gen.%(name)s
open Uft.Gen.C Uft.Gen.%(name)s

def mask : Nat := 18446744073709551616
def u64 (x : Int) : Nat := (x %% (mask : Int)).toNat
def mix (seed : Nat) (xs : List Int) : Nat :=
  xs.foldl (fun h x => let h1 := ((h ^^^ u64 x) * 1099511628211) %% mask; h1 ^^^ (h1 >>> 29))
    ((seed * 6364136223846793005 + 1442695040888963407) %% mask)
def ipool : Array Int := #[%(ipool)s]
def npool : Array Nat := #[%(npool)s]
def hInt (h : Nat) : Int := ipool[(h >>> 7) %% ipool.size]!
def hNat (h : Nat) : Nat :=
  let m := (h >>> 40) %% 4
  if m == 0 then 0 else if m == 1 then npool[(h >>> 7) %% npool.size]!
  else npool[(h >>> 7) %% npool.size]! ||| npool[(h >>> 23) %% npool.size]!
def hBool (h : Nat) : Bool := (h >>> 7) %% 2 == 1
def hPtr (h : Nat) (k : Nat) : Ptr := if (h >>> 7) %% 5 == 0 then Ptr.null else Ptr.obj k
def b2i (b : Bool) : Int := if b then 1 else 0
def n2i (n : Nat) : Int := n
def ints (l : String) : Array Int := ((l.splitOn " ").filterMap (fun w => w.trimAscii.toString.toInt?)).toArray
def showCalls (cs : List CallEv) : String :=
  String.join (cs.map fun c => " " ++ c.fn ++ String.join (c.ints.map fun i => "," ++ toString i))
'''


def c_proto(fqual, name):
    """`ret (args)` qualType -> (ret, [arg types])"""
    m = re.fullmatch(r"(.*?)\((.*)\)", fqual.strip())
    if not m:
        raise RuntimeError("cannot parse the type of %s: %r" % (name, fqual))
    ret = m.group(1).strip()
    args = [a.strip() for a in split_top(m.group(2))]
    if args == ["void"]:
        args = []
    return ret, args


def split_top(s):
    out, d, cur = [], 0, ""
    for ch in s:
        if ch == "(":
            d += 1
        if ch == ")":
            d -= 1
        if ch == "," and d == 0:
            out.append(cur)
            cur = ""
        else:
            cur += ch
    if cur.strip():
        out.append(cur)
    return out


class FnTest:
    def __init__(self, gf, ln, spec_fn, ncases, rng, workdir):
        self.gf, self.ln, self.spec_fn = gf, ln, spec_fn
        self.meta = gf.meta[ln]
        self.ncases, self.rng, self.work = ncases, rng, workdir
        self.fn = self.meta["fn"]
        text = gf_text[gf.spec["name"]]
        self.ipool = sorted(set([-2, -1, 0, 1, 2, 3] + [int(x) for x in re.findall(r"\((-?\d+) : Int", text)]))
        self.npool = sorted(set([0, 1, 2, 3] + [int(x) for x in re.findall(r"\((\d+) : Nat", text) if int(x) < (1 << 31)]))
        self.fields = sorted(self.meta["touched"] - {"calls", "aborted", "wrapped"})
        self.sparams = [(n, ct) for n, ct in self.meta["params"] if ct.kind != "ptr"]
        self.pparams = [(n, ct, t) for (n, ct), t in zip(self.meta["params"], self.meta["ptypes"]) if ct.kind == "ptr"]
        # pointer parameters the def compares with NULL may be passed as NULL
        deftext = [t for n, t in gf.defs if n == ln][0]
        self.nullable = [n for n, _, _ in self.pparams
                         if re.search(r"\(%s [!=]= Ptr\.null\)" % re.escape(c2lean.lname(n)), deftext)]
        self.lists = sorted(self.meta.get("lists", ()))       # R21: lists the function iterates over
        self.oracles = {}
        for u in self.meta["oracles"]:
            self.oracles[u["name"]] = gf.oracles[u["name"]]
        self.fnid = {k: i + 1 for i, k in enumerate(sorted(gf.oracles))}

    # ---- input vectors ---------------------------------------------------------------------
    def vectors(self):
        out = []
        for _ in range(self.ncases):
            v = [self.rng.randrange(1 << 30)]
            self.quiet = self.rng.choice([0.0, 0.3, 0.6, 0.9])     # share of locations left at a neutral value
            for n, ct in self.sparams:
                v.append(self.rand(c2lean.lean_type(ct)))
            for n in self.nullable:
                v.append(self.rng.choice([0, 1, 1]))
            for f in self.fields:
                v.append(self.rand(self.gf.fields[f]["lt"]))
            for ln in self.lists:
                ef = self.gf.elems[self.gf.lists[ln]["elem"]]
                k = self.rng.choice([0, 1, 2, 3, 3])
                v.append(k)
                self.quiet = 0.0
                for _ in range(k):
                    for f in sorted(ef):
                        v.append(self.rand(ef[f]["lt"]))
            out.append(v)
        return out

    def rand(self, lt):
        q = self.rng.random() < self.quiet
        if lt == "Bool":
            return self.rng.randrange(2)
        if lt == "Int":
            return self.rng.choice([0, 1, 1, 2]) if q else self.rng.choice(self.ipool)
        if lt == "Nat":
            return self.rng.choice([0, 0, 1]) if q else self.rng.choice(self.npool) | self.rng.choice(self.npool)
        return self.rng.choice([0, 1, 2])      # Ptr: NULL or one of two dummies

    # ---- C side ----------------------------------------------------------------------------
    def c_source(self):
        gf = self.gf
        tu = gf.tu
        src = open(tu.path, "rb").read()
        # insertion points: before / after every translated function defined in this file
        edits = []
        names = sorted(set(m["fn"] for m in gf.meta.values()))
        defs = "".join("#define %s c2l_stub_%s\n" % (k, k) for k in sorted(gf.oracles)) + \
               "".join("#define %s c2l_stub_abort\n" % k for k in c2lean.ABORT)
        undefs = "".join("#undef %s\n" % k for k in sorted(gf.oracles) + list(c2lean.ABORT))
        protos = [self.stub_proto(k) + ";" for k in sorted(gf.oracles)]
        protos.append("static void c2l_stub_abort(const char *fmt, ...);")
        first = None
        for fn in names:
            _, f, b, e = tu.source_text(fn)
            if os.path.abspath(f) != os.path.abspath(tu.path):
                for u in gf.meta.get(fn, {}).get("oracles", []):
                    raise RuntimeError("helper %s lives in a header and calls opaque functions: not testable" % fn)
                continue
            edits.append((b, "\n" + defs))
            edits.append((e, "\n" + undefs))
            first = b if first is None else min(first, b)
        if self.spec_fn.get("prefix_until"):
            cut = self.prefix_cut()
            edits.append((cut, " return; "))
        edits.append((first, "\n" + "\n".join(protos) + "\n"))
        edits.sort(key=lambda x: (x[0], 0 if "proto" in x[1] or "c2l_stub_abort(const" in x[1] else 1))
        out, pos = [], 0
        for off, ins in edits:
            out.append(src[pos:off])
            out.append(ins.encode())
            pos = off
        out.append(src[pos:])
        text = b"".join(out).decode("utf-8", "replace")
        text += C_PRELUDE % dict(ipool=", ".join("%dLL" % x for x in self.ipool),
                                 npool=", ".join("%dULL" % x for x in self.npool))
        text += self.c_objects() + self.c_stubs() + self.c_main()
        return text

    def prefix_cut(self):
        d, _ = self.gf.tu.function(self.fn)
        body = [c for c in c2lean.kids(d) if c.get("kind") == "CompoundStmt"][0]
        tr = c2lean.FnTr(self.gf, self.fn, {}, top=self.spec_fn)
        for st in c2lean.kids(body):
            c = tr.strip(st)
            if c.get("kind") == "CallExpr" and tr.callee_name(c) == self.spec_fn["prefix_until"]:
                e = st["range"]["end"]
                off = e["offset"] + e.get("tokLen", 1)
                src = open(self.gf.tu.path, "rb").read()
                semi = src.index(b";", off)
                return semi + 1
        raise RuntimeError("prefix statement not found")

    def stub_proto(self, k):
        o = self.gf.oracles[k]
        ret, args = c_proto(o["fqual"], k)
        return "static %s c2l_stub_%s(%s)" % (ret, k, ", ".join("%s a%d" % (t, i) for i, t in enumerate(args)) or "void")

    def c_objects(self):
        """file-scope objects for the object locals (the pointee of `p = opaque(...)`)"""
        L = []
        for name, (callee, ptype) in sorted(self.meta["objlocals"].items()):
            L.append("static char c2l_ol_%s[sizeof(*((%s)0)) + 64] __attribute__((aligned(64)));" % (name, ptype))
        return "\n".join(L) + "\n"

    def c_stubs(self):
        gf = self.gf
        L = ["static void c2l_stub_abort(const char *fmt, ...) { (void)fmt; c2l_aborted = 1; longjmp(c2l_jb, 1); }"]
        owner = {}
        for name, (callee, ptype) in self.meta["objlocals"].items():
            owner.setdefault(callee, []).append(name)
        for k in sorted(gf.oracles):
            o = gf.oracles[k]
            ret, args = c_proto(o["fqual"], k)
            sc = [i for i, t in enumerate(o["args"]) if t != "Ptr"]
            body = ["long long xs[] = { %d%s };" % (self.fnid[k], "".join(", (long long)a%d" % i for i in sc)),
                    "int n = %d;" % (1 + len(sc)),
                    "c2l_u64 h = c2l_mix(n, xs);"]
            if o["log"]:
                body.append("c2l_logcall(\"%s\", n - 1, xs + 1);" % k)
            if k not in self.oracles:
                body.append("/* not called by the function under test */")
            for j, f in enumerate(o["wfields"]):
                rel = o["wrel"][f]
                lt = gf.fields[f]["lt"]
                val = {"Int": "c2l_int", "Nat": "c2l_nat", "Bool": "c2l_bool"}.get(lt)
                if val is None:
                    raise RuntimeError("opaque %s writes the pointer field %s: not testable" % (k, f))
                hx = "c2l_mix(n, xs) ^ (c2l_u64)%dULL * 0x9E3779B97F4A7C15ULL" % (j + 1)
                tgt = rel[1] if rel[0] == "g" else "a%d->%s" % (rel[0], rel[1].lstrip(".").lstrip("->"))
                body.append("%s = %s(%s);" % (tgt, val, hx))
            rl = o["ret"]
            if rl == "Unit":
                body.append("(void)h; return;")
            elif rl == "Ptr":
                objs = owner.get(k, [])
                if objs:
                    # the pointee of the object local(s) bound to this callee
                    body.append("return c2l_isnull(h) ? 0 : (%s)c2l_ol_%s;" % (ret, objs[0]))
                else:
                    body.append("return c2l_isnull(h) ? 0 : (%s)c2l_dummy;" % ret)
            elif rl == "Bool":
                body.append("return c2l_bool(h);")
            elif rl == "Int":
                body.append("return (%s)c2l_int(h);" % ret)
            else:
                body.append("return (%s)c2l_nat(h);" % ret)
            L.append("%s {\n    %s\n}" % (self.stub_proto(k), "\n    ".join(body)))
        return "\n".join(L) + "\n"

    def roots(self):
        return set(n for n, _, _ in self.pparams) | set(self.meta["objlocals"])

    def c_main(self):
        gf = self.gf
        L = ["static void c2l_run(void) {", "  char line[8192];",
             "  while (fgets(line, sizeof line, stdin)) {",
             "    long long v[512]; int nv = 0; char *p = line, *q;",
             "    for (;;) { long long x = strtoll(p, &q, 10); if (q == p) break; v[nv++] = x; p = q; }",
             "    if (!nv) continue;", "    int k = 0; c2l_seed = (c2l_u64)v[k++];",
             "    c2l_aborted = 0; c2l_nlog = 0; c2l_log[0] = 0;"]
        for n, ct in self.sparams:
            L.append("    %s %s = (%s)v[k++];" % (ct.name, n, ct.name))
        # objects for pointer parameters
        for n, ct, t in self.pparams:
            L.append("    static char c2l_o_%s[sizeof(*((%s)0)) + 64] __attribute__((aligned(64))); "
                     "memset(c2l_o_%s, 0, sizeof c2l_o_%s);" % (n, t, n, n))
            if n in self.nullable:
                L.append("    %s %s = v[k++] ? (%s)c2l_o_%s : 0;" % (t, n, t, n))
                L.append("    %s %s_obj = (%s)c2l_o_%s;" % (t, n, t, n))
            else:
                L.append("    %s %s = (%s)c2l_o_%s;" % (t, n, t, n))
        for name, (callee, ptype) in sorted(self.meta["objlocals"].items()):
            L.append("    memset(c2l_ol_%s, 0, sizeof c2l_ol_%s); %s %s = (%s)c2l_ol_%s;" % (name, name, ptype, name, ptype, name))
        # objects for the pointers inside the access paths
        done = set()
        lv = {}
        self.prefix_ptrs = set()
        for f in self.fields:
            cx = gf.fields[f]["ctext"]
            parts = re.split(r"(->|\.)", cx)
            root = parts[0]
            acc = root
            if root in self.nullable:
                acc = root + "_obj"
            expr = acc
            for i in range(1, len(parts), 2):
                sep, mem = parts[i], parts[i + 1]
                if sep == "->" and expr not in done and expr not in [n for n, _, _ in self.pparams] \
                        and expr not in self.meta["objlocals"] and not expr.endswith("_obj"):
                    done.add(expr)
                    idn = re.sub(r"\W+", "_", expr)
                    L.append("    static char c2l_p_%s[sizeof(*(%s)) + 64] __attribute__((aligned(64))); "
                             "memset(c2l_p_%s, 0, sizeof c2l_p_%s); %s = (__typeof__(%s))c2l_p_%s;"
                             % (idn, expr, idn, idn, expr, expr, idn))
                    self.prefix_ptrs.add(expr)
                expr = expr + sep + mem
            lv[f] = expr
        for f in self.fields:
            lt = gf.fields[f]["lt"]
            if lt == "Ptr" and lv[f] in self.prefix_ptrs:
                L.append("    k++;   /* %s points to the object its members live in */" % lv[f])
            elif lt == "Ptr":
                L.append("    { long long x = v[k++]; %s = x ? (void *)(c2l_dummy + 8 * x) : 0; }" % lv[f])
            else:
                L.append("    %s = v[k++];" % lv[f])
        # R21: the linked lists
        for ln in self.lists:
            li = gf.lists[ln]
            ef = gf.elems[li["elem"]]
            et = li["ctype"].rstrip("* ").strip()
            L.append("    static %s c2l_el_%s[4]; memset(c2l_el_%s, 0, sizeof c2l_el_%s);" % (et, ln, ln, ln))
            L.append("    (&%s)->next = (&%s)->prev = &%s;" % (li["ctext"], li["ctext"], li["ctext"]))
            L.append("    int c2l_n_%s = (int)v[k++];" % ln)
            L.append("    for (int i = 0; i < c2l_n_%s; i++) {" % ln)
            for f in sorted(ef):
                if ef[f]["lt"] == "Ptr":
                    L.append("      { long long x = v[k++]; c2l_el_%s[i].%s = x ? (void *)(c2l_dummy + 8 * x) : 0; }" % (ln, ef[f]["rel"]))
                else:
                    L.append("      c2l_el_%s[i].%s = v[k++];" % (ln, ef[f]["rel"]))
            L.append("      list_add_tail(&c2l_el_%s[i].%s, &%s);" % (ln, li["member"], li["ctext"]))
            L.append("    }")
        # effective inputs
        L.append("    printf(\"IN %llu\", c2l_seed);")
        for n, ct in self.sparams:
            L.append("    printf(\" %%lld\", (long long)%s);" % n)
        for n in self.nullable:
            L.append("    printf(\" %%d\", %s != 0);" % n)
        for f in self.fields:
            if gf.fields[f]["lt"] == "Ptr" and lv[f] in self.prefix_ptrs:
                L.append("    printf(\" 1\");")
            elif gf.fields[f]["lt"] == "Ptr":
                L.append("    printf(\" %%lld\", %s ? (long long)(((char *)%s - c2l_dummy) / 8) : 0LL);" % (lv[f], lv[f]))
            else:
                L.append("    printf(\" %%lld\", (long long)%s);" % lv[f])
        for ln in self.lists:
            li = gf.lists[ln]
            ef = gf.elems[li["elem"]]
            L.append("    printf(\" %%d\", c2l_n_%s);" % ln)
            L.append("    for (int i = 0; i < c2l_n_%s; i++) {" % ln)
            for f in sorted(ef):
                if ef[f]["lt"] == "Ptr":
                    L.append("      printf(\" %%lld\", c2l_el_%s[i].%s ? (long long)(((char *)c2l_el_%s[i].%s - c2l_dummy) / 8) : 0LL);"
                             % (ln, ef[f]["rel"], ln, ef[f]["rel"]))
                else:
                    L.append("      printf(\" %%lld\", (long long)c2l_el_%s[i].%s);" % (ln, ef[f]["rel"]))
            L.append("    }")
        L.append("    printf(\"\\n\");")
        args = ", ".join(n for n, _ in self.meta["params"])
        ret = self.meta["ret"]
        partial = bool(self.spec_fn.get("prefix_until"))
        if ret.kind == "void" or partial:
            L.append("    long long rv = 0; if (!setjmp(c2l_jb)) { %s(%s); }" % (self.fn, args))
        else:
            L.append("    long long rv = 0; if (!setjmp(c2l_jb)) { rv = (long long)%s(%s); }" % (self.fn, args))
        L.append("    printf(\"OUT %lld %d\", c2l_aborted ? 0LL : rv, c2l_aborted);")
        for f in self.fields:
            if gf.fields[f]["lt"] != "Ptr":
                L.append("    printf(\" %%lld\", (long long)%s);" % lv[f])
        L.append("    printf(\" |%s\\n\", c2l_log);")
        L += ["  }", "}",
              "__attribute__((constructor(101))) static void c2l_entry(void) { c2l_run(); fflush(stdout); _exit(0); }"]
        src = open(self.gf.tu.path).read()
        if not re.search(r"^\s*int\s+main\s*\(", src, re.M):
            L.append("int main(void) { return 0; }")
        return "\n".join(L) + "\n"

    # ---- Lean side --------------------------------------------------------------------------
    def lean_script(self):
        gf = self.gf
        L = [LEAN_PRELUDE % dict(name=gf.spec["name"], ipool=", ".join(str(x) for x in self.ipool),
                                 npool=", ".join(str(x) for x in self.npool))]
        # oracles
        L.append("def mkO (seed : Nat) : Oracles := {")
        for k in sorted(gf.oracles):
            o = gf.oracles[k]
            names = ["a%d" % i for i in range(len(o["args"]))]
            sc = []
            for nm, t in zip(names, o["args"]):
                if t == "Int":
                    sc.append(nm)
                elif t == "Nat":
                    sc.append("n2i " + nm)
                elif t == "Bool":
                    sc.append("b2i " + nm)
            xs = "[%s]" % ", ".join(["(%d : Int)" % self.fnid[k]] + sc)
            res = {"Ptr": "hPtr h 7", "Bool": "hBool h", "Int": "hInt h", "Nat": "hNat h", "Unit": "()"}[o["ret"]]
            if o["eff"]:
                ws = []
                for j, f in enumerate(o["wfields"]):
                    lt = gf.fields[f]["lt"]
                    fnc = {"Int": "hInt", "Nat": "hNat", "Bool": "hBool"}[lt]
                    ws.append("%s := %s (h ^^^ ((%d * 0x9E3779B97F4A7C15) %% mask))" % (c2lean.lname(f), fnc, j + 1))
                wl = "{ %s }" % ", ".join(ws) if ws else "w"
                val = wl if o["ret"] == "Unit" else "(%s, %s)" % (res, wl)
                L.append("  %s := fun _ %s w => let h := mix seed %s; %s" % (c2lean.lname(k), " ".join(names), xs, val))
            else:
                L.append("  %s := fun _ %s => let h := mix seed %s; %s" % (c2lean.lname(k), " ".join(names), xs, res))
        if not gf.oracles:
            L.append("  unit := ()")
        L.append("}")
        L.append("def runOne (l : String) : String :=")
        L.append("  let v := ints l")
        L.append("  let seed := (v[0]!).toNat")
        k = 1
        args = []
        for n, ct in self.meta["params"]:
            if ct.kind == "ptr":
                continue
        idx = {}
        for n, ct in self.sparams:
            idx[n] = k
            k += 1
        for n in self.nullable:
            idx["?" + n] = k
            k += 1
        for n, ct in self.meta["params"]:
            if ct.kind == "ptr":
                if n in self.nullable:
                    args.append("(if v[%d]! == 0 then Ptr.null else Ptr.obj 1)" % idx["?" + n])
                else:
                    args.append("(Ptr.obj 1)")
            else:
                lt = c2lean.lean_type(ct)
                args.append({"Int": "(v[%d]!)", "Nat": "(v[%d]!).toNat", "Bool": "(v[%d]! != 0)"}[lt] % idx[n])
        inits = []
        for f in self.fields:
            lt = gf.fields[f]["lt"]
            e = {"Int": "v[%d]!", "Nat": "(v[%d]!).toNat", "Bool": "(v[%d]! != 0)",
                 "Ptr": "(if v[%d]! == 0 then Ptr.null else Ptr.obj (v[%d]!).toNat)"}[lt]
            e = e % ((k,) * e.count("%d"))
            inits.append("%s := %s" % (c2lean.lname(f), e))
            k += 1
        for ln in self.lists:
            li = gf.lists[ln]
            ef = gf.elems[li["elem"]]
            nf = len(ef)
            flds = []
            for j, f in enumerate(sorted(ef)):
                lt = ef[f]["lt"]
                at = "v[%d + 1 + i * %d + %d]!" % (k, nf, j)
                e = {"Int": "%s", "Nat": "(%s).toNat", "Bool": "(%s != 0)",
                     "Ptr": "(if %s == 0 then Ptr.null else Ptr.obj (%s).toNat)"}[lt]
                flds.append("%s := %s" % (c2lean.lname(f), e.replace("%s", at)))
            L.append("  let n_%s := (v[%d]!).toNat" % (ln, k))
            L.append("  let l_%s : List %s := (List.range n_%s).map fun i => { self := Ptr.obj (100 + i)%s }"
                     % (ln, li["elem"], ln, "".join(", " + x for x in flds)))
            inits.append("%s := l_%s" % (c2lean.lname(ln), ln))
            if ln != self.lists[-1]:
                raise RuntimeError("self-test: only one list per function is supported")
        L.append("  let s : St := { %s }" % ", ".join(inits) if inits else "  let s : St := {}")
        ret = self.meta["ret"]
        partial = bool(self.spec_fn.get("prefix_until"))
        call = "%s (mkO seed) %s s" % (c2lean.lname(self.ln), " ".join(args))
        if ret.kind == "void":
            L.append("  let st := %s" % call)
            L.append("  let rv : Int := 0")
        else:
            L.append("  let r := %s" % call)
            L.append("  let st := r.1")
            if partial:
                L.append("  let rv : Int := 0")
            else:
                rl = c2lean.lean_type(ret)
                L.append("  let rv : Int := %s" % {"Int": "r.2", "Nat": "n2i r.2", "Bool": "b2i r.2"}[rl])
        outs = []
        for f in self.fields:
            lt = gf.fields[f]["lt"]
            if lt == "Ptr":
                continue
            outs.append({"Int": "toString st.%s", "Nat": "toString st.%s", "Bool": "toString (b2i st.%s)"}[lt] % c2lean.lname(f))
        L.append("  \"OUT \" ++ toString (if st.aborted then 0 else rv) ++ \" \" ++ toString (b2i st.aborted)" +
                 "".join(" ++ \" \" ++ " + o for o in outs) + " ++ \" |\" ++ showCalls st.calls ++ (if st.wrapped then \" WRAPPED\" else \"\")")
        L.append("def main (args : List String) : IO Unit := do")
        L.append("  let txt ← IO.FS.readFile args.head!")
        L.append("  for l in txt.splitOn \"\\n\" do")
        L.append("    if l.startsWith \"IN \" then IO.println (runOne (l.drop 3).toString)")
        return "\n".join(L) + "\n"

    # ---- run --------------------------------------------------------------------------------
    def run(self):
        gf = self.gf
        base = os.path.join(self.work, "%s_%s" % (gf.spec["name"], self.ln))
        csrc = base + ".c"
        open(csrc, "w").write(self.c_source())
        exe = base + ".exe"
        flags = [f for f in gf.tu.flags if f not in ("-Wno-everything",)]
        obj = base + ".o"
        cmd = ["gcc"] + flags + ["-O0", "-g", "-I", os.path.dirname(gf.tu.path), "-c", csrc, "-o", obj]
        r = subprocess.run(cmd, stdout=subprocess.PIPE, stderr=subprocess.STDOUT, text=True)
        if r.returncode != 0:
            return False, "driver does not compile:\n" + r.stdout[-3000:]
        # everything else the file refers to (the rest of uftrace) is not linked: the undefined symbols become
        # zero-filled data; only the function under test, its translated helpers and the stubs run
        r = subprocess.run(["gcc", obj, "-o", exe, "-lm"], stdout=subprocess.PIPE, stderr=subprocess.STDOUT, text=True)
        if r.returncode != 0:
            und = sorted(set(re.findall(r"undefined reference to [`'](\w+)'", r.stdout)))
            defs = base + "_undef.c"
            open(defs, "w").write("".join("char %s[4096] __attribute__((aligned(64)));\n" % u for u in und))
            r = subprocess.run(["gcc", "-w", obj, defs, "-o", exe, "-lm"], stdout=subprocess.PIPE,
                               stderr=subprocess.STDOUT, text=True)
            if r.returncode != 0:
                return False, "driver does not link:\n" + r.stdout[-3000:]
        vec = self.vectors()
        inp = "".join(" ".join(str(x) for x in v) + "\n" for v in vec)
        r = subprocess.run([exe], input=inp, stdout=subprocess.PIPE, stderr=subprocess.PIPE, text=True, timeout=60)
        if r.returncode != 0:
            return False, "driver failed (status %d): %s" % (r.returncode, r.stderr[-500:])
        cout = r.stdout
        open(base + ".cout", "w").write(cout)
        lscript = base + ".lean"
        open(lscript, "w").write(self.lean_script())
        r = subprocess.run([os.path.join(VERIF, "tools", "lk"), "env", "lean", "--run", lscript, base + ".cout"],
                           stdout=subprocess.PIPE, stderr=subprocess.STDOUT, text=True, timeout=600)
        if r.returncode != 0:
            return False, "lean script failed:\n" + r.stdout[-3000:]
        c_out = [l for l in cout.split("\n") if l.startswith("OUT ")]
        c_in = [l for l in cout.split("\n") if l.startswith("IN ")]
        l_out = [l for l in r.stdout.split("\n") if l.startswith("OUT ")]
        if len(c_out) != len(vec) or len(l_out) != len(vec):
            return False, "expected %d result lines, C gave %d, Lean gave %d\n%s" % (len(vec), len(c_out), len(l_out), r.stdout[-1500:])
        # cases in which the Lean side reports that a value left the modelled range are not compared
        nwrap = sum(1 for c in l_out if c.endswith(" WRAPPED"))
        bad = [(i, a, b, c) for a, b, c, i in zip(c_in, c_out, l_out, range(len(vec)))
               if not c.endswith(" WRAPPED") and b.split() != c.split()]
        nz = sum(1 for l in c_out if l.split()[1] != "0")
        dist = len(set(c_out))
        # a proxy for path coverage: which locations changed, with the returned value
        sig = set()
        names_in = [f for f in self.fields]
        for a, b in zip(c_in, c_out):
            iv = a.split()[2 + len(self.sparams) + len(self.nullable):]
            ov = b.split()[3:]
            ivs = [x for x, f in zip(iv, names_in) if gf.fields[f]["lt"] != "Ptr"]
            ch = tuple(i for i, (x, y) in enumerate(zip(ivs, ov)) if x != y)
            sig.add((b.split()[1], b.split()[2], ch))
        if bad:
            i, a, b, c = bad[0]
            names = ["ret", "aborted"] + [f for f in self.fields if gf.fields[f]["lt"] != "Ptr"]
            diff = [n for n, x, y in zip(names, b.split()[1:], c.split()[1:]) if x != y]
            return False, "%d of %d cases differ; first: case %d differs in %s\n  %s\n  C   : %s\n  Lean: %s" % (
                len(bad), len(vec), i, diff, a, b, c)
        return True, "%d cases agree%s (%d distinct outcomes, %d with a non-zero return value, %d distinct " \
                     "(return value, set of changed locations) signatures)" % (
                         len(vec) - nwrap, " + %d outside the modelled range (St.wrapped)" % nwrap if nwrap else "",
                         dist, nz, len(sig))


gf_text = {}


def selftest(src, only=None, ncases=600, seed=0, keep=False, verbose=True):
    """returns (ok, report lines)"""
    texts, gfs = c2lean.generate_all(src, only)
    # the Lean side evaluates the committed Gen files: they must be the ones generated from `src`
    for rel, text in texts.items():
        cur = open(os.path.join(LEAN, rel)).read() if os.path.exists(os.path.join(LEAN, rel)) else None
        if cur != text:
            return False, ["%s is not what c2lean generates from %s: run translators/c2lean.py %s first" % (rel, src, src)]
    r = subprocess.run([os.path.join(VERIF, "tools", "lk"), "build"] + ["Uft.Gen." + n for n in gfs],
                       stdout=subprocess.PIPE, stderr=subprocess.STDOUT, text=True)
    if r.returncode != 0:
        return False, ["generated files do not build:\n" + r.stdout[-2000:]]
    work = tempfile.mkdtemp(prefix="c2l-selftest-", dir=SCRATCH_ROOT)
    ok, rep = True, []
    try:
        for name, gf in gfs.items():
            gf_text[name] = texts["Uft/Gen/%s.lean" % name]
            for f in gf.spec["functions"]:
                ln = f.get("as_name", f["fn"])
                rng = random.Random("%s/%s/%d" % (name, ln, seed))
                t = FnTest(gf, ln, f, ncases, rng, work)
                try:
                    good, msg = t.run()
                except Exception as e:  # noqa: BLE001
                    good, msg = False, "self-test could not run: %r" % (e,)
                ok = ok and good
                rep.append("%s %s.%s: %s" % ("ok  " if good else "FAIL", name, ln, msg))
                if verbose:
                    print(rep[-1], flush=True)
    finally:
        if keep or not ok:
            rep.append("scratch kept: " + work)
            if verbose:
                print(rep[-1])
        else:
            shutil.rmtree(work, ignore_errors=True)
    return ok, rep


if __name__ == "__main__":
    a = sys.argv[1:]
    if not a:
        sys.stderr.write(__doc__)
        sys.exit(64)
    n, seed, keep, only = 600, 0, False, []
    src = a.pop(0)
    while a:
        x = a.pop(0)
        if x == "-n":
            n = int(a.pop(0))
        elif x == "--seed":
            seed = int(a.pop(0))
        elif x == "--keep":
            keep = True
        else:
            only.append(x)
    try:
        ok, _ = selftest(src, only or None, n, seed, keep)
    except c2lean.Refuse as e:
        sys.stderr.write("c2lean: REFUSED: %s\n" % e)
        sys.exit(2)
    sys.exit(0 if ok else 1)
