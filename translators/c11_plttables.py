#!/usr/bin/env python3
"""Translator (C11): the special-function tables of libmcount/plthook.c.

libmcount recognises the library functions that need special treatment BY NAME: `skip_syms`,
`setjmp_syms`, `longjmp_syms`, `vfork_syms`, `dlsym_syms`, `flush_syms`, `except_syms`, `resolve_syms`
are matched against the dynamic symbols of every module by setup_dynsym_indexes(), each table giving one
PLT_FL_* flag; __plthook_entry() then looks at the flags in a fixed order (skip first; flush; then the
`if … else if …` chain setjmp / longjmp / vfork / dlsym / except; resolve).  Replay has its own name table
(`fixup_syms` of utils/fstack.c) for the depth fix-ups after setjmp/longjmp/fork/exec.

This translator renders, from the sources of the snapshot, on every run:
 * every `static const char *<x>_syms[] = { … }` table of libmcount/plthook.c as a list of names,
 * the (table, flag) pairs of setup_dynsym_indexes() in call order,
 * the order in which __plthook_entry() tests the flags (the else-if chain),
 * the PLT_FL_* values of libmcount/internal.h,
 * `fixup_syms` of utils/fstack.c,
 * the names of the wrapper functions libmcount/wrap.c exports (`__visible_default`).
Output: lean/Uft/Gen/PltTables.lean (written only if changed).  Props/C11.lean states over these lists what the
property needs (every jump entry point glibc can bind is a longjmp symbol AND is flushed, …)."""
import os
import re
import sys

sys.path.insert(0, os.path.dirname(os.path.dirname(os.path.abspath(__file__))))
from lib.common import write_if_changed, LEAN  # noqa: E402


def strip_comments(src):
    src = re.sub(r"/\*.*?\*/", " ", src, flags=re.S)
    return re.sub(r"//[^\n]*", " ", src)


def string_tables(src):
    """name -> [strings] for every `static const char *NAME_syms[] = { "…", … };`"""
    tabs = {}
    for m in re.finditer(r"static\s+const\s+char\s*\*\s*(?:const\s+)?(\w+)\s*\[\s*\]\s*=\s*\{(.*?)\}\s*;", src, re.S):
        body = m.group(2)
        if not m.group(1).endswith("_syms"):
            continue
        rest = re.sub(r'"(?:[^"\\]|\\.)*"', "", body)
        if re.sub(r"[\s,]", "", rest):
            raise ValueError("table %s holds something that is not a string literal: %r" % (m.group(1), rest.strip()[:60]))
        tabs[m.group(1)] = re.findall(r'"((?:[^"\\]|\\.)*)"', body)
    return tabs


def func_body(src, name):
    m = re.search(r"\n(?:static\s+)?[\w\s\*]*\b%s\s*\([^)]*\)\s*\{" % re.escape(name), src)
    if not m:
        raise ValueError("function %s not found" % name)
    i, depth = m.end(), 1
    while depth and i < len(src):
        depth += {"{": 1, "}": -1}.get(src[i], 0)
        i += 1
    return src[m.end():i]


def lean_str(s):
    if not re.fullmatch(r"[\w.$@]+", s):
        raise ValueError("symbol name %r has a character the translator does not expect" % s)
    return '"%s"' % s


def lean_list(xs):
    return "[" + ", ".join(lean_str(x) for x in xs) + "]"


def extract(srcdir):
    plt = strip_comments(open(os.path.join(srcdir, "libmcount/plthook.c")).read())
    tabs = {k: v for k, v in string_tables(plt).items() if k.endswith("_syms")}
    body = func_body(plt, "setup_dynsym_indexes")
    setup = re.findall(r"build_special_funcs\s*\(\s*pd\s*,\s*(\w+)\s*,\s*ARRAY_SIZE\s*\(\s*(\w+)\s*\)\s*,\s*(PLT_FL_\w+)\s*\)", body)
    if not setup:
        raise ValueError("setup_dynsym_indexes: no build_special_funcs() call found")
    for t, t2, _ in setup:
        if t != t2:
            raise ValueError("build_special_funcs(%s, ARRAY_SIZE(%s)): table and size disagree" % (t, t2))
        if t not in tabs:
            raise ValueError("table %s used by setup_dynsym_indexes is not a string table of plthook.c" % t)
    # the order in which __plthook_entry looks at the flags
    ent = func_body(plt, "__plthook_entry")
    tests = [(m.start(), m.group(1) or "", m.group(2)) for m in
             re.finditer(r"(else\s+)?if\s*\(\s*(?:unlikely\s*\(\s*)?special_flag\s*&\s*(PLT_FL_\w+)", ent)]
    first = [t[2] for t in tests]
    chain, cur = [], []
    for _, els, flag in tests:
        if els:
            cur.append(flag)
        else:
            if len(cur) > 1:
                chain.append(cur)
            cur = [flag]
    if len(cur) > 1:
        chain.append(cur)
    if len(chain) != 1:
        raise ValueError("__plthook_entry: expected one else-if chain over special_flag, found %s" % chain)
    hdr = strip_comments(open(os.path.join(srcdir, "libmcount/internal.h")).read())
    flags = [(n, int(b)) for n, b in re.findall(r"\b(PLT_FL_\w+)\s*=\s*1U?\s*<<\s*(\d+)", hdr)]
    if not flags:
        raise ValueError("PLT_FL_* not found in libmcount/internal.h")
    fst = strip_comments(open(os.path.join(srcdir, "utils/fstack.c")).read())
    ftabs = string_tables(fst)
    if "fixup_syms" not in ftabs:
        raise ValueError("fixup_syms not found in utils/fstack.c")
    wrap = strip_comments(open(os.path.join(srcdir, "libmcount/wrap.c")).read())
    wrappers = re.findall(r"__visible_default\s+[\w\s\*]*?\b(\w+)\s*\(", wrap)
    return {"tables": tabs, "setup": [(t, f) for t, _, f in setup], "first_tests": first, "chain": chain[0],
            "flags": flags, "fixup_syms": ftabs["fixup_syms"], "wrappers": wrappers}


def flags_of(info, name):
    """the PLT_FL_* flags setup_dynsym_indexes() gives a dynamic symbol of this name"""
    return [f for t, f in info["setup"] if name in info["tables"][t]]


def render(info):
    L = ["/- generated by translators/c11_plttables.py from libmcount/plthook.c, libmcount/internal.h,",
         "   libmcount/wrap.c and utils/fstack.c of the snapshot — do not edit -/",
         "namespace Uft.Gen.PltTables",
         ""]
    for name in sorted(info["tables"]):
        L.append("def %s : List String := %s" % (name, lean_list(info["tables"][name])))
    L.append("")
    L.append("/-- setup_dynsym_indexes(): (table, flag) in call order -/")
    L.append("def setup : List (List String × String) :=")
    L.append("  [" + ", ".join("(%s, %s)" % (t, lean_str(f)) for t, f in info["setup"]) + "]")
    L.append("")
    L.append("/-- the `if … else if …` chain of __plthook_entry over special_flag: only the first flag that is set acts -/")
    L.append("def entryChain : List String := " + lean_list(info["chain"]))
    L.append("/-- all tests of special_flag in __plthook_entry, in source order -/")
    L.append("def entryTests : List String := " + lean_list(info["first_tests"]))
    L.append("")
    L.append("/-- PLT_FL_* bit numbers (libmcount/internal.h) -/")
    L.append("def flagBits : List (String × Nat) := [" + ", ".join("(%s, %d)" % (lean_str(n), b) for n, b in info["flags"]) + "]")
    L.append("")
    L.append("/-- replay's name table for the depth fix-ups (utils/fstack.c) -/")
    L.append("def fixup_syms : List String := " + lean_list(info["fixup_syms"]))
    L.append("")
    L.append("/-- functions libmcount/wrap.c interposes itself (`__visible_default`) -/")
    L.append("def wrappers : List String := " + lean_list(info["wrappers"]))
    L.append("")
    L.append("/-- the flags a dynamic symbol of this name gets -/")
    L.append("def flagsOf (name : String) : List String := (setup.filter (fun p => p.1.contains name)).map (·.2)")
    L.append("")
    L.append("end Uft.Gen.PltTables")
    return "\n".join(L) + "\n"


def main(srcdir, scratch=None):
    info = extract(srcdir)
    changed = write_if_changed(os.path.join(LEAN, "Uft", "Gen", "PltTables.lean"), render(info))
    return changed, info


if __name__ == "__main__":
    ch, info = main(sys.argv[1] if len(sys.argv) > 1 else "/repo")
    print("changed=%s" % ch)
    for k in sorted(info["tables"]):
        print(k, info["tables"][k])
    print(info["setup"], info["chain"], info["first_tests"], info["flags"], info["fixup_syms"], info["wrappers"], sep="\n")
