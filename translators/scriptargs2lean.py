#!/usr/bin/env python3
"""Translator for C18: the layout of the argument / return-value buffer as each party walks it.

  writer   libmcount/record.c      save_to_argbuf()           size = ALIGN(len + 2, 4) | ALIGN(spec->size, 4)
  reader   cmds/replay.c           get_argspec_string()       data += ALIGN(size, 4) with size per format
  reader   utils/script-python.c   setup_argument_context()   data += <expr> per `case ARG_FMT_…` group
  reader   utils/script-luajit.c   setup_argument_context()   data += <expr> per `case ARG_FMT_…` group

The C expressions (integer literals, spec->size, slen / len, +, ALIGN(x, 2^k), parentheses) are parsed and
emitted as Lean functions of (size, slen); a format without a `case` in a binding's switch gets `none`
(`default: pr_warn(...)`: no value, no advance).  Output: lean/Uft/Gen/ScriptArgs.lean (written only if
changed).  Returns (changed, info) with info["oct_case"] = {"python": bool, "lua": bool}."""
import os
import re
import sys

sys.path.insert(0, os.path.dirname(os.path.dirname(os.path.abspath(__file__))))
from lib.common import write_if_changed, LEAN  # noqa: E402

FMTS = [("ARG_FMT_AUTO", "auto"), ("ARG_FMT_SINT", "sint"), ("ARG_FMT_UINT", "uint"), ("ARG_FMT_HEX", "hex"),
        ("ARG_FMT_OCT", "oct"), ("ARG_FMT_STR", "str"), ("ARG_FMT_CHAR", "chr"), ("ARG_FMT_FLOAT", "flt"),
        ("ARG_FMT_STD_STRING", "stdstr"), ("ARG_FMT_PTR", "ptr"), ("ARG_FMT_ENUM", "enm"), ("ARG_FMT_STRUCT", "strct")]
STRS = ("ARG_FMT_STR", "ARG_FMT_STD_STRING")

TOK = re.compile(r"\s*(\d+|[A-Za-z_]\w*(?:->\w+)?|[()+,])")


def tokenize(s):
    out, i = [], 0
    s = s.strip()
    while i < len(s):
        m = TOK.match(s, i)
        if not m:
            raise ValueError("cannot tokenize %r at %d" % (s, i))
        out.append(m.group(1))
        i = m.end()
    return out


def parse_expr(s, env):
    """-> Lean text; env maps C identifiers to Lean text"""
    toks = tokenize(s)
    pos = [0]

    def peek():
        return toks[pos[0]] if pos[0] < len(toks) else None

    def eat(t=None):
        x = peek()
        if x is None or (t is not None and x != t):
            raise ValueError("expected %r in %r" % (t, s))
        pos[0] += 1
        return x

    def atom():
        x = eat()
        if x.isdigit():
            return x
        if x == "(":
            e = summ()
            eat(")")
            return "(" + e + ")"
        if x == "ALIGN":
            eat("(")
            a = summ()
            eat(",")
            b = eat()
            eat(")")
            if not b.isdigit() or int(b) & (int(b) - 1) or int(b) == 0:
                raise ValueError("ALIGN to %r (not a power of two literal) in %r" % (b, s))
            return "(alignUp (%s) %s)" % (a, b)
        if x in env:
            return env[x]
        raise ValueError("unknown identifier %r in %r" % (x, s))

    def summ():
        e = atom()
        while peek() == "+":
            eat()
            e = "%s + %s" % (e, atom())
        return e
    e = summ()
    if peek() is not None:
        raise ValueError("trailing tokens in %r" % s)
    return e


def func_body(text, name):
    m = re.search(r"^[\w \*]*\b%s\(" % re.escape(name), text, re.M)
    if not m:
        raise ValueError("function %s not found" % name)
    i = text.index("{", m.end())
    depth, j = 0, i
    while j < len(text):
        if text[j] == "{":
            depth += 1
        elif text[j] == "}":
            depth -= 1
            if depth == 0:
                return text[i:j + 1]
        j += 1
    raise ValueError("unbalanced braces in %s" % name)


def strip_comments(s):
    s = re.sub(r"/\*.*?\*/", "", s, flags=re.S)
    return re.sub(r"//.*", "", s)


ENV = {"spec->size": "size", "slen": "slen", "len": "slen"}


def binding_table(path):
    """the switch (spec->fmt) of a script binding: format -> advance expression (Lean)"""
    body = strip_comments(func_body(open(path).read(), "setup_argument_context"))
    table, group, fresh = {}, [], False
    depth, outer = 0, None
    for line in body.split("\n"):
        t = line.strip()
        d0 = depth
        depth += t.count("{") - t.count("}")
        if not t or t.startswith("#"):
            continue
        if outer is None:
            if re.match(r"^switch \(spec->fmt\) \{$", t):
                outer = depth            # labels of this switch sit at this depth
            continue
        if d0 < outer:
            outer, group = None, []      # the switch is closed
            continue
        m = re.match(r"^case (ARG_FMT_\w+):$", t)
        if m:
            if not fresh:
                group = []
            group.append(m.group(1))
            fresh = True
            continue
        fresh = False
        if re.match(r"^default:", t):
            if d0 == outer:
                group = []
            continue
        m = re.match(r"^data \+= (.*);$", t)
        if m:
            if not group:
                raise ValueError("%s: `data +=` outside a format case: %s" % (path, t))
            e = parse_expr(m.group(1), ENV)
            for g in group:
                if g in table and table[g] != e:
                    raise ValueError("%s: two different advances for %s" % (path, g))
                table[g] = e
    if not table:
        raise ValueError("%s: no `data += …` found" % path)
    return table


def block_after(body, cond_re):
    m = re.search(cond_re, body)
    if not m:
        raise ValueError("condition %s not found" % cond_re)
    i = body.index("{", m.end() - 1)
    depth, j = 0, i
    while j < len(body):
        if body[j] == "{":
            depth += 1
        elif body[j] == "}":
            depth -= 1
            if depth == 0:
                return body[i:j + 1]
        j += 1
    raise ValueError("unbalanced block")


def replay_table(path):
    body = strip_comments(func_body(open(path).read(), "get_argspec_string"))
    m = re.search(r"size_t size = (.*?);", body)
    if not m:
        raise ValueError("replay: default size not found")
    default = parse_expr(m.group(1), ENV)
    adv = re.findall(r"data \+= (.*?);", body)
    if len(adv) != 1:
        raise ValueError("replay: expected one `data +=`, found %d" % len(adv))
    sizes = {f: default for f, _ in FMTS}
    sblock = block_after(body, r"if \(spec->fmt == ARG_FMT_STR \|\| spec->fmt == ARG_FMT_STD_STRING\) \{")
    cblock = block_after(body, r"else if \(spec->fmt == ARG_FMT_CHAR\) \{")
    for blk, fmts in ((sblock, STRS), (cblock, ("ARG_FMT_CHAR",))):
        a = re.findall(r"^\s*size = (.*?);", blk, re.M)
        if len(a) != 1:
            raise ValueError("replay: expected one size assignment in the block of %s" % (fmts,))
        for f in fmts:
            sizes[f] = parse_expr(a[0], ENV)
    # any other assignment to `size` would be a format this translator does not know about
    others = [x for x in re.findall(r"^\s*size = (.*?);", body, re.M)]
    if len(others) != 2:
        raise ValueError("replay: %d assignments to size (expected 2)" % len(others))
    return {f: parse_expr(adv[0], dict(ENV, size="(" + sizes[f] + ")")) for f, _ in FMTS}


def writer_table(path):
    body = strip_comments(func_body(open(path).read(), "save_to_argbuf"))
    sblock = block_after(body, r"if \(spec->fmt == ARG_FMT_STR \|\| spec->fmt == ARG_FMT_STD_STRING\) \{")
    a = re.findall(r"^\s*size = (.*?);", sblock, re.M)
    if len(a) != 1:
        raise ValueError("writer: expected one size assignment in the string branch")
    rest = body.replace(sblock, "")
    b = re.findall(r"^\s*size = (.*?);", rest, re.M)
    if len(b) != 2 or b[0] != b[1]:
        raise ValueError("writer: expected the same size for struct and scalar values, found %r" % (b,))
    if "ptr += size;" not in body:
        raise ValueError("writer: `ptr += size` not found")
    t = {f: parse_expr(b[0], ENV) for f, _ in FMTS}
    for f in STRS:
        t[f] = parse_expr(a[0], ENV)
    return t


def emit_fun(name, table, optional):
    out = ["def %s : Fmt → Nat → Nat → %s" % (name, "Option Nat" if optional else "Nat")]
    for c, l in FMTS:
        if c in table:
            out.append("  | .%s, size, slen => %s" % (l, ("some (%s)" % table[c]) if optional else table[c]))
        else:
            out.append("  | .%s, _, _ => none" % l)
    return "\n".join(out).replace("size, slen =>", "size, slen =>")


def main(src, scratch=None):
    wr = writer_table(os.path.join(src, "libmcount/record.c"))
    rp = replay_table(os.path.join(src, "cmds/replay.c"))
    py = binding_table(os.path.join(src, "utils/script-python.c"))
    lu = binding_table(os.path.join(src, "utils/script-luajit.c"))
    s = ["/- GENERATED by translators/scriptargs2lean.py from libmcount/record.c (save_to_argbuf), cmds/replay.c",
         "   (get_argspec_string), utils/script-python.c and utils/script-luajit.c (setup_argument_context).",
         "   Do not edit.  `size` = spec->size, `slen` = the 2-byte length in front of a string. -/",
         "set_option linter.unusedVariables false",
         "namespace Uft.Gen.ScriptArgs", "",
         "/-- utils/utils.h ALIGN(n, a) for a power of two `a` -/",
         "def alignUp (n a : Nat) : Nat := (n + (a - 1)) / a * a", "",
         "/-- enum uftrace_arg_format (utils/argspec.h) -/",
         "inductive Fmt where", "  | " + " | ".join(l for _, l in FMTS), "deriving DecidableEq, Repr, Inhabited", "",
         "/-- bytes the writer uses for one value -/", emit_fun("wrSize", wr, False), "",
         "/-- how far replay advances over one value -/", emit_fun("replayAdv", rp, True), "",
         "/-- how far the python binding advances (`none`: the switch has no case for the format) -/",
         emit_fun("pyAdv", py, True), "",
         "/-- how far the luajit binding advances -/", emit_fun("luaAdv", lu, True), "",
         "end Uft.Gen.ScriptArgs", ""]
    changed = write_if_changed(os.path.join(LEAN, "Uft", "Gen", "ScriptArgs.lean"), "\n".join(s))
    info = {"oct_case": {"python": "ARG_FMT_OCT" in py, "lua": "ARG_FMT_OCT" in lu},
            "python": py, "lua": lu, "replay": rp, "writer": wr}
    return changed, info


if __name__ == "__main__":
    ch, info = main(sys.argv[1] if len(sys.argv) > 1 else "/repo")
    print("changed" if ch else "unchanged", info)
