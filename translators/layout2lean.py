#!/usr/bin/env python3
"""Translator: record word layout.
Reader side: a C probe compiled against <src>/uftrace.h sets each bit-field of
struct uftrace_record to all-ones and prints shift/width (what the compiler's
bit-field layout — i.e. every reader — sees).
Writer side: the hand-packing statements of libmcount/record.c:record_ret_stack
and record_event are parsed (small C expression parser) and emitted as Lean.
Output: lean/Uft/Gen/Layout.lean (written only if changed)."""
import os
import re
import subprocess
import sys

sys.path.insert(0, os.path.dirname(os.path.dirname(os.path.abspath(__file__))))
from lib.common import write_if_changed, LEAN  # noqa: E402

PROBE = r'''
#include <stdio.h>
#include <string.h>
#include <stddef.h>
#include "uftrace.h"
#include "libmcount/mcount.h"
static void show(const char *n, unsigned long long w) {
    int sh = 0, wd = 0; if (!w) { printf("%s 0 0\n", n); return; }
    while (!(w & 1)) { w >>= 1; sh++; } while (w & 1) { w >>= 1; wd++; }
    printf("%s %d %d\n", n, sh, wd);
}
#define F(f) do { struct uftrace_record r; unsigned long long w[2]; memset(&r, 0, sizeof(r)); r.f = ~0ULL; \
    memcpy(w, &r, 16); show(#f, w[1]); if (w[0]) printf("ERR %s in word0\n", #f); } while (0)
int main(void) {
    F(type); F(more); F(magic); F(depth); F(addr);
    { struct uftrace_record r; unsigned long long w[2]; memset(&r,0,sizeof(r)); r.time = ~0ULL; memcpy(w,&r,16);
      printf("time_word0 %d\n", w[0] == ~0ULL && w[1] == 0); }
    printf("sizeof_record %zu\n", sizeof(struct uftrace_record));
    printf("RECORD_MAGIC %d\n", RECORD_MAGIC);
    printf("UFTRACE_ENTRY %d\nUFTRACE_EXIT %d\nUFTRACE_LOST %d\nUFTRACE_EVENT %d\n", UFTRACE_ENTRY, UFTRACE_EXIT, UFTRACE_LOST, UFTRACE_EVENT);
    printf("sizeof_shmem_buffer_hdr %zu\n", offsetof(struct mcount_shmem_buffer, data));
    printf("SHMEM_FL_NEW %u\nSHMEM_FL_WRITTEN %u\nSHMEM_FL_RECORDING %u\n", SHMEM_FL_NEW, SHMEM_FL_WRITTEN, SHMEM_FL_RECORDING);
    printf("sizeof_msg %zu\n", sizeof(struct uftrace_msg));
    printf("UFTRACE_MSG_MAGIC %u\n", UFTRACE_MSG_MAGIC);
    return 0;
}
'''

# ---- tiny C expression parser (|, &, +, <<, ?:, unary casts, parens) ------------
TOK = re.compile(r"\s*(0x[0-9a-fA-F]+|\d+|[A-Za-z_][\w]*(?:->\w+)*|<<|>>|[()|&+\-?:!~*])")


def tokenize(s):
    out, i = [], 0
    s = s.strip()
    while i < len(s):
        m = TOK.match(s, i)
        if not m:
            raise ValueError("cannot tokenize %r at %d" % (s, i))
        out.append(m.group(1))
        i = m.end()
    return out


class P:
    def __init__(self, toks, names):
        self.t, self.i, self.names = toks, 0, names

    def peek(self):
        return self.t[self.i] if self.i < len(self.t) else None

    def eat(self, x=None):
        v = self.peek()
        if x is not None and v != x:
            raise ValueError("expected %r got %r" % (x, v))
        self.i += 1
        return v

    def ternary(self):
        c = self.bor()
        if self.peek() == "?":
            self.eat()
            a = self.ternary()
            self.eat(":")
            b = self.ternary()
            return "(if %s then %s else %s)" % (self.truthy(c), a, b)
        return c

    def truthy(self, c):
        return c if c.startswith("(more") or c == "more" else "(%s != 0)" % c

    def bor(self):
        a = self.band()
        while self.peek() == "|":
            self.eat()
            a = "(%s ||| %s)" % (a, self.band())
        return a

    def band(self):
        a = self.shift()
        while self.peek() == "&":
            self.eat()
            a = "(%s &&& %s)" % (a, self.shift())
        return a

    def shift(self):
        a = self.add()
        while self.peek() in ("<<", ">>"):
            op = self.eat()
            a = "(%s %s %s)" % (a, "<<<" if op == "<<" else ">>>", self.add())
        return a

    def add(self):
        a = self.unary()
        while self.peek() in ("+",):
            self.eat()
            a = "(%s + %s)" % (a, self.unary())
        return a

    def unary(self):
        v = self.peek()
        if v == "(":
            # cast?
            if self.i + 2 < len(self.t) and re.fullmatch(r"u?int\d+_t|unsigned|long|uint64_t", self.t[self.i + 1]) \
                    and self.t[self.i + 2] == ")":
                self.i += 3
                return self.unary()
            self.eat("(")
            e = self.ternary()
            self.eat(")")
            return e
        if v == "!":
            self.eat()
            if self.peek() == "!":
                self.eat()
            return self.unary()
        self.eat()
        if re.fullmatch(r"0x[0-9a-fA-F]+|\d+", v):
            return str(int(v, 0))
        if v in self.names:
            return self.names[v]
        raise ValueError("unknown identifier %r in packing expression" % v)


def parse_stmt_chain(body, var, names):
    """`var = e0; var += e1; var |= e2; …` -> Lean expression string."""
    expr = None
    for m in re.finditer(r"\b%s\s*(=|\+=|\|=)\s*([^;]+);" % re.escape(var), body):
        op, rhs = m.group(1), m.group(2)
        e = P(tokenize(rhs), names).ternary()
        if op == "=":
            expr = e
        elif op == "+=":
            expr = "(%s + %s)" % (expr, e)
        else:
            expr = "(%s ||| %s)" % (expr, e)
    if expr is None:
        raise ValueError("no packing statements for %s found" % var)
    return expr


def func_body(src, name):
    m = re.search(r"\n(?:static\s+)?\w[\w\s\*]*\b%s\s*\([^)]*\)\s*\{" % re.escape(name), src)
    if not m:
        raise ValueError("function %s not found" % name)
    i = m.end()
    depth = 1
    while depth and i < len(src):
        depth += {"{": 1, "}": -1}.get(src[i], 0)
        i += 1
    return src[m.end():i]


def main(srcdir, scratch):
    probe_c = os.path.join(scratch, "layout_probe.c")
    open(probe_c, "w").write(PROBE)
    exe = os.path.join(scratch, "layout_probe")
    r = subprocess.run(["gcc", "-std=gnu11", "-D_GNU_SOURCE", "-w", "-iquote", srcdir, "-iquote",
                        os.path.join(srcdir, "arch/x86_64"), probe_c, "-o", exe],
                       stdout=subprocess.PIPE, stderr=subprocess.STDOUT, text=True)
    if r.returncode != 0:
        raise RuntimeError("probe does not compile: " + r.stdout[-1500:])
    out = subprocess.run([exe], stdout=subprocess.PIPE, text=True).stdout
    vals = {}
    for line in out.split("\n"):
        p = line.split()
        if len(p) >= 2:
            vals[p[0]] = [int(x) for x in p[1:]] if p[0] != "ERR" else p[1:]
    if "ERR" in vals:
        raise RuntimeError("unexpected layout: " + out)
    rec_c = open(os.path.join(srcdir, "libmcount/record.c")).read()
    names = {"type": "type", "RECORD_MAGIC": "RECORD_MAGIC", "argbuf": "more", "mrstack->depth": "depth",
             "mrstack->child_ip": "addr", "UFTRACE_EVENT": "UFTRACE_EVENT", "event->id": "addr"}
    body = func_body(rec_c, "record_ret_stack")
    # the chain starts at `rec = type | …` (the declaration `uint64_t rec;` has no initialiser)
    pack = parse_stmt_chain(body, "rec", names)
    ebody = func_body(rec_c, "record_event")
    # `rec->data += 4;` sits under `if (data_size)`: it is the 'more' bit; translate it as such
    eb = ebody.replace("rec->data", "recdata").replace("rec->time", "rectime")
    if len(re.findall(r"recdata\s*\+=\s*4\s*;", eb)) != 1 or "if (data_size)" not in eb:
        raise ValueError("record_event: unexpected shape of the 'more' bit statement")
    eb = re.sub(r"recdata\s*\+=\s*4\s*;", "recdata += more ? 4 : 0;", eb)
    epack = parse_stmt_chain(eb, "recdata", dict(names, **{"event->id": "addr", "more": "more"}))
    L = []
    L.append("/- GENERATED by translators/layout2lean.py from uftrace.h (compiled probe) and")
    L.append("   libmcount/record.c (record_ret_stack / record_event). Do not edit. -/")
    L.append("namespace Uft.Gen.Layout\n")
    for k in ("RECORD_MAGIC", "UFTRACE_ENTRY", "UFTRACE_EXIT", "UFTRACE_LOST", "UFTRACE_EVENT",
              "sizeof_record", "sizeof_shmem_buffer_hdr", "SHMEM_FL_NEW", "SHMEM_FL_WRITTEN",
              "SHMEM_FL_RECORDING", "sizeof_msg", "UFTRACE_MSG_MAGIC", "time_word0"):
        L.append("def %s : Nat := %d" % (k, vals[k][0]))
    L.append("")
    L.append("/-! reader side: bit-field positions inside the second 64-bit word -/")
    for f in ("type", "more", "magic", "depth", "addr"):
        L.append("def %sShift : Nat := %d" % (f, vals[f][0]))
        L.append("def %sWidth : Nat := %d" % (f, vals[f][1]))
    L.append("")
    L.append("def field (w shift width : Nat) : Nat := (w >>> shift) % 2 ^ width")
    L.append("def unpackType (w : Nat) : Nat := field w typeShift typeWidth")
    L.append("def unpackMore (w : Nat) : Nat := field w moreShift moreWidth")
    L.append("def unpackMagic (w : Nat) : Nat := field w magicShift magicWidth")
    L.append("def unpackDepth (w : Nat) : Nat := field w depthShift depthWidth")
    L.append("def unpackAddr (w : Nat) : Nat := field w addrShift addrWidth")
    L.append("")
    L.append("/-! writer side: the word as libmcount/record.c computes it (uint64_t arithmetic) -/")
    L.append("def packWord (type : Nat) (more : Bool) (depth addr : Nat) : Nat :=")
    L.append("  " + pack + " % 2 ^ 64")
    L.append("def packEventWord (more : Bool) (addr : Nat) : Nat :=")
    L.append("  " + epack + " % 2 ^ 64")
    L.append("\nend Uft.Gen.Layout\n")
    text = "\n".join(L)
    changed = write_if_changed(os.path.join(LEAN, "Uft/Gen/Layout.lean"), text)
    return changed, text


if __name__ == "__main__":
    ch, text = main(sys.argv[1], sys.argv[2])
    print(text)
    print("changed:", ch)
