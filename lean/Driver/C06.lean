import Driver.Proto
import Uft.Model.Replay
/- C06 driver.
   R <merge 0|1> <col 0|1> <fx abc> <syms addr=name,...|-> <sel i,j|-> | <parent|-|?> <rec>* | <parent|-|?> <rec>* ...
     rec = E:<time>:<depth>:<addr> or X:<time>:<depth>:<addr>   (decimal)
     one `|` section per task, in info.tids order; sel = selected task indices (`-` = all)
     fx = abc: a = 1 with the C06-FORK-LATEST repair, b = 1 with the C06-TID-ORPHAN repair, c = 1 with C06-EXEC-FAILED
     syms: the symbol table (decimal address = name); a function is a fix-up by its name
     parent: index of the task with tid = ppid, `?` = forked but the parent is no task, `-` = not forked
   K <name> ...               -> class of each name: none exec setjmp longjmp fork
   T                          -> fixup_syms of the model, in order
   ->  <line> ; <line> ; ... # <task> <k>:<addr> <k>:<addr> ; <task> ...
     line = <e|x|l> <task> <indent> <fn> <addr> <dur> <time> <delta> <elapsed>
   M | <rec>* | <rec>* ...     -> merged stream as <task>:<rec> ...
-/
namespace Driver.C06
open Uft.Merge Uft.Replay

def parseRec (w : String) : Option Rec :=
  match w.splitOn ":" with
  | [k, t, d, a] =>
    match t.toNat?, d.toNat?, a.toNat? with
    | some t, some d, some a =>
      if k = "E" then some { time := t, exit := false, depth := d, addr := a }
      else if k = "X" then some { time := t, exit := true, depth := d, addr := a }
      else none
    | _, _, _ => none
  | _ => none

def parseNats (s : String) : Option (List Nat) :=
  if s = "-" then some [] else
  (s.splitOn ",").foldr (fun w acc => match acc, w.toNat? with
    | some l, some n => some (n :: l)
    | _, _ => none) (some [])

def splitBar (ws : List String) : List (List String) :=
  ws.foldr (fun w acc => if w = "|" then [] :: acc else
    match acc with
    | [] => [[w]]
    | a :: r => (w :: a) :: r) [[]]

def parseRecs (ws : List String) : Option (List Rec) :=
  ws.foldr (fun w acc => match acc, parseRec w with
    | some l, some r => some (r :: l)
    | _, _ => none) (some [])

def parseTask : List String → Option ((Option Nat × Bool) × List Rec)
  | p :: ws =>
    match parseRecs ws with
    | some rs =>
      if p = "-" then some ((none, false), rs)
      else if p = "?" then some ((none, true), rs)
      else p.toNat?.map (fun n => ((some n, true), rs))
    | none => none
  | [] => none

def parseSyms (s : String) : Option (List (Nat × String)) :=
  if s = "-" then some [] else
  (s.splitOn ",").foldr (fun w acc => match acc, w.splitOn "=" with
    | some l, [a, n] => a.toNat?.map (fun a => (a, n) :: l)
    | _, _ => none) (some [])

def fixStr : Fix → String
  | .none => "none" | .exec => "exec" | .setjmp => "setjmp" | .longjmp => "longjmp" | .fork => "fork"

def parseTasks (secs : List (List String)) : Option (List ((Option Nat × Bool) × List Rec)) :=
  secs.foldr (fun s acc => match acc, parseTask s with
    | some l, some t => some (t :: l)
    | _, _ => none) (some [])

def kindStr : Kind → String
  | .entry => "e" | .exit => "x" | .leaf => "l"

def showLine (l : Line) : String :=
  s!"{kindStr l.ev.kind} {l.ev.task} {l.ev.indent} {l.ev.fn} {l.ev.addr} {l.ev.dur} {l.ev.time} {l.delta} {l.elapsed}"

def showRem (p : Nat × List (Nat × Nat)) : String :=
  " ".intercalate (toString p.1 :: p.2.map (fun q => s!"{q.1}:{q.2}"))

def showRec (r : Rec) : String :=
  s!"{if r.exit then "X" else "E"}:{r.time}:{r.depth}:{r.addr}"

def handle (ws : List String) : String :=
  match splitBar ws with
  | ["R", m, c, fx, syms, sel] :: secs =>
    match parseSyms syms, parseNats sel, parseTasks secs with
    | some syms, some sel, some tasks =>
      let ts := tasks.map (·.2)
      let selF : Nat → Bool := fun i => sel.isEmpty || sel.contains i
      let ts' := selectTasks selF ts
      let cls : Nat → Fix := fun a => match syms.lookup a with
        | some n => classifyName n
        | none => .none
      let fxs : Fixes := { forkLatest := fx.toList.getD 0 '0' == '1', orphan := fx.toList.getD 1 '0' == '1',
                           execFail := fx.toList.getD 2 '0' == '1' }
      let outX := replayX fxs cls (m != "0") (w0 (tasks.map (·.1.1)) (tasks.map (·.1.2))) (merge ts')
      let out := (outX.1.g, outX.2)
      let evs := match c.toNat? with
        | some 0 => out.2
        | some off => columnize off [] out.2
        | none => out.2
      let lines := annotate (firstOfUnselected selF 0 0 ts) [] evs
      " ; ".intercalate (lines.map showLine) ++ " # " ++
        " ; ".intercalate ((remaining ts.length out.1).map showRem)
    | _, _, _ => "bad-op"
  | ("K" :: names) :: [] => " ".intercalate (names.map (fun n => fixStr (classifyName n)))
  | ["T"] :: [] => " ".intercalate fixupSyms
  | ["M"] :: secs =>
    match (secs.foldr (fun s acc => match acc, parseRecs s with
      | some l, some t => some (t :: l)
      | _, _ => none) (some [])) with
    | some ts => " ".intercalate ((merge ts).map (fun p => s!"{p.1}:{showRec p.2}"))
    | none => "bad-op"
  | _ => "bad-op"

def model : Model := { σ := Unit, init := (), step := fun _ ws => ((), handle ws) }

end Driver.C06
