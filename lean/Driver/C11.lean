import Driver.Proto
import Uft.Model.NonLocal
/- C11 driver (op set of harness/h1_c11_driver.c).
   FIX r e j p x           select the code variant per finding (0 = as it is, 1 = repaired) -> ok
   RESET                   new machine -> ok
   WATCH n                 print return slots 1..n -> ok
   CALL n|m|p child slot orig fpw | RET | TAIL m|p child
   SETJMP j child slot orig | LONGJMP j child slot orig
   THROW | UNWIND | RESUME | CATCH fa
   PEXIT child slot orig | EXIT child slot orig | VFORK child slot orig echild eorig | DTOR
     -> "last=<a|-> idx=<n> ridx=<n> exc=<b> mem=<v,...> recs=<E|X><tid>.<depth>.<addr>,…|-"
        or "dead" once the model reached pr_err/ASSERT
   REPLAY <fixed> t.d.k …  (k: p|s|l) -> "coh=<b> d0,d1,…"
-/
namespace Driver.C11
open Uft.NonLocal

structure DS where
  fx : Fix := Fix.none
  m : M := M.init
  watch : Nat := 40
  nout : Nat := 0

def showVal (v : Nat) : String :=
  if v = TRAMP then "T" else if v = PTRAMP then "P" else toString v

def showRec (r : Rec) : String :=
  (if r.typ = 0 then "E" else "X") ++ toString r.tid ++ "." ++ toString r.depth ++ "." ++ toString r.addr

def parseKind : String → Option Kind
  | "n" => some .none | "m" => some .mcount | "p" => some .plt | _ => none

def nat (s : String) : Option Nat := s.toNat?

def parseOp : List String → Option (Op × Bool)   -- (op, prints `last`)
  | ["CALL", k, c, s, o, f] => do some (.call (← parseKind k) (← nat c) (← nat s) (← nat o) (← nat f), false)
  | ["RET"] => some (.ret, true)
  | ["TAIL", k, c] => do some (.tailcall (← parseKind k) (← nat c), false)
  | ["SETJMP", j, c, s, o] => do some (.setjmp (← nat j) (← nat c) (← nat s) (← nat o), true)
  | ["LONGJMP", j, c, s, o] => do some (.longjmp (← nat j) (← nat c) (← nat s) (← nat o), true)
  | ["THROW"] => some (.throw, false)
  | ["UNWIND"] => some (.unwind, false)
  | ["RESUME"] => some (.resume, false)
  | ["CATCH", fa] => do some (.catch_ (← nat fa), false)
  | ["PEXIT", c, s, o] => do some (.pthreadExit (← nat c) (← nat s) (← nat o), false)
  | ["EXIT", c, s, o] => do some (.exit (← nat c) (← nat s) (← nat o), false)
  | ["VFORK", c, s, o, ec, eo] => do some (.vforkExec (← nat c) (← nat s) (← nat o) (← nat ec) (← nat eo), true)
  | ["DTOR"] => some (.mtdDtor, false)
  | _ => none

def render (d : DS) (m : M) (withLast : Bool) : String :=
  if m.sh.dead then "dead" else
  let newRecs := m.sh.out.drop d.nout
  let mems := (List.range d.watch).map fun i => showVal (m.sh.mem (i + 1))
  s!"last={if withLast then showVal m.last else "-"} idx={m.sh.rs.length} ridx={m.sh.recIdx} " ++
  s!"exc={if m.sh.inExc then 1 else 0} mem={",".intercalate mems} " ++
  s!"recs={if newRecs.isEmpty then "-" else ",".intercalate (newRecs.map showRec)}"

def parseRRec (s : String) : Option RRec :=
  match s.splitOn "." with
  | [t, d, k] => do
    let kind ← match k with | "p" => some RKind.plain | "s" => some .setjmp | "l" => some .longjmp | _ => none
    some ⟨← nat t, ← nat d, kind⟩
  | _ => none

def b01 (s : String) : Bool := s = "1"

def handle (d : DS) (ws : List String) : DS × String :=
  match ws with
  | ["FIX", r, e, j, p, x] => ({ d with fx := ⟨b01 r, b01 e, b01 j, b01 p, b01 x⟩ }, "ok")
  | ["RESET"] => ({ d with m := M.init, nout := 0 }, "ok")
  | ["WATCH", n] => ({ d with watch := (nat n).getD 40 }, "ok")
  | "REPLAY" :: fixed :: recs =>
    match recs.mapM parseRRec with
    | none => (d, "bad-op")
    | some rs =>
      let ds := rrun (b01 fixed) RSt.init rs
      (d, s!"coh={if coherent CSt.init rs then 1 else 0} {",".intercalate (ds.map toString)}")
  | _ =>
    match parseOp ws with
    | none => (d, "bad-op")
    | some (op, wl) =>
      if d.m.sh.dead then (d, "dead") else
      let m := step d.fx d.m op
      ({ d with m := m, nout := m.sh.out.length }, render d m wl)

def model : Model := { σ := DS, init := {}, step := handle }

end Driver.C11
