import Driver.Proto
import Driver.Mcount
import Uft.Model.Shmem
import Uft.Model.Crash
/- C03 / C04 driver (models Shmem, Writers, Crash).
   RESET <nwriters> <maxsize> <fixed:0|1> [<countFix:0|1> <tailFix:0|1>]
   P <t> prepare | finish | ftrig
   P <t> emit <id> <size> <payload:0|1> <ok:0|1>            record_ret_stack for one record
   P <t> batch <id> <size> <payload> <onfail> <ok> …        record_trace_data; onfail: -1 ignore and go on,
                                                             c abandon the batch and count it (`losts += count - 1`),
                                                             u abandon it uncounted (own ENTRY failed, as coded)
   P <t> steps <batch…>                                      the same, answering with the sequence of distinct
                                                             kill views (file of t if killed after each micro-step)
   P <t> write <id> <size> <payload> | bump | bump2 | end <id> <size> <payload> | pick <ok> | start | mark
         | abandon <c|u> {<id> <size> <payload>}                 micro-steps
   K <t>                                                     kill
   R read | R flush <t> <i> | R flushall | R stop | R remaining | R shutdown
   W <w> pick | write | splice
   WP init <nw> | start <t> <i> | end <t> <i> | pick <w> | write <w> | splice <w> | stop | flushall | remaining
                                                             the recorder session around the writer pool alone
                                                             (Writers.Sess; counterpart of harness/c03_writer.c)
   SEGV <fixed:0|1> <maxstack> <idx> <written…>               segv_handler's flush (Crash.segvFlush): idx calls are
                                                             open, function k at depth k, innermost first flags
   H <line of the hook-model driver>                          (C04) CFG / TRIG / FSIZE / T / E pg|cyg <fn> / X … are passed to
                                                             Driver.Mcount (the libmcount hook model with its record-time
                                                             filters); the answer is that driver's
   HSEGV <fixed:0|1>                                          segv_handler on the hook model's current state (whatever frames
                                                             the filters made NORECORD / DISABLED): Crash.segvFlush
   TID <again:0|1> <mt:0|1> <pid> <ktid> <op…>               the identity machine (Shmem.idRun): g gettid, v<child> vfork,
                                                             d0|d1 the parent returns from vfork (1: to the restored copy
                                                             of the vfork frame), f<child> fork, x exec, o<tid> another
                                                             thread is inside vfork; answers tid= ktid= bufs= own=
   every answer: "ok <state>" or "disabled <state>"
-/
namespace Driver.C03
open Uft Uft.Shmem Uft.Writers

structure St where
  cfg : Cfg := {}
  s : State := State.init 1
  tids : List Tid := []
  mc : Driver.Mcount.DS := {}      -- (C04) the hook model under record-time filters
  se : Sess := {}                  -- the recorder session around the writer pool (harness/c03_writer.c)

def showItem : Item → String
  | .whole r => toString r.id
  | .lost n => s!"L{n}"
  | .torn r => s!"~{r.id}"

def showBuf (b : Buf) : String :=
  (if b.recording then "R" else "") ++ (if b.written then "W" else "") ++ (if b.isNew then "N" else "") ++ ":" ++
    ",".intercalate (b.data.map showItem)

def showProd (t : Tid) (p : Prod) : String :=
  let c := match p.curr with | some c => toString c | none => "-"
  s!"T{t} alive={if p.alive then 1 else 0} done={if p.done then 1 else 0} curr={c} losts={p.losts} bufs=[{";".intercalate (p.bufs.map showBuf)}]"

def showMsg : Msg → String
  | .recStart t i => s!"S{t}.{i}"
  | .recEnd t i => s!"E{t}.{i}"
  | .lost t n => s!"L{t}.{n}"
  | .finish => "F"

def showWB (b : WBuf) : String := s!"{b.tid}.{b.idx}"
def showWBs (l : List WBuf) : String := ",".intercalate (l.map showWB)

def showWarg (w : Warg) : String :=
  (match w.tid with | some t => toString t | none => "-") ++ ":" ++ showWBs w.head ++ ":" ++ showWBs w.bufs

def showState (st : St) : String :=
  let s := st.s
  " | ".intercalate (st.tids.map fun t => showProd t (s.prod t)) ++
  s!" | PIPE=[{",".intercalate (s.pipe.map showMsg)}] SHM=[{showWBs s.shmemList}] WL=[{showWBs s.pool.writeList}] " ++
  s!"WR=[{";".intercalate (s.pool.writers.map showWarg)}] LOST={s.lostCount} " ++
  " ".intercalate (st.tids.map fun t => s!"F{t}=[{",".intercalate ((s.file t).map showItem)}]")

def showSess (e : Sess) : String :=
  s!"SHM=[{showWBs e.shm}] WL=[{showWBs e.pool.writeList}] WR=[{";".intercalate (e.pool.writers.map showWarg)}] " ++
  s!"K={if e.stopped then 0 else e.pool.kicks} LOG=[{showWBs e.log}]"

def sessAct (st : St) (r : Option Sess) : St × String :=
  match r with
  | some e => ({ st with se := e }, "ok " ++ showSess e)
  | none => (st, "disabled " ++ showSess st.se)

def insertTid (t : Tid) : List Tid → List Tid
  | [] => [t]
  | x :: xs => if t < x then t :: x :: xs else if t = x then x :: xs else x :: insertTid t xs

def parseRec : List String → Option (Rec × List String)
  | id :: sz :: pl :: rest =>
    match id.toNat?, sz.toNat? with
    | some id, some sz => some ({ id := id, size := sz, payload := pl == "1" }, rest)
    | _, _ => none
  | _ => none

partial def parseBatch : List String → Option (List (Rec × Option Bool × Bool))
  | [] => some []
  | ws =>
    match parseRec ws with
    | some (r, extra :: ok :: rest) =>
      match parseBatch rest with
      | some l => some ((r, (if extra == "-1" then none else some (extra == "c")), ok == "1") :: l)
      | none => none
    | _ => none

/-- `emit`, keeping every intermediate state (same composition as Shmem.emit; the driver checks that the
    final states agree) -/
def emitTrace (cfg : Cfg) (s : State) (t : Tid) (r : Rec) (ok : Bool) : Option (List State × Bool) :=
  let go (s : State) (acts : List Action) : Option (List State) :=
    acts.foldl (fun acc a => match acc with
      | none => none
      | some l => match step cfg (l.getLastD s) a with
        | some s' => some (l ++ [s'])
        | none => none) (some [])
  let bumps : List Action := [.pBump t] ++ (if r.payload && !cfg.fixed then [.pBump2 t] else [])
  if fits cfg (s.prod t) r then (go s ([.pWrite t r] ++ bumps)).map (·, true)
  else
    match go s [.pEnd t r, .pPick t ok] with
    | none => none
    | some l =>
      let s2 := l.getLastD s
      if (s2.prod t).curr.isNone then some (l, false) else
      match go s2 ([.pStart t, .pMark t] ++ bumps) with
      | none => none
      | some l2 => some (l ++ l2, true)

/-- what `<t>.dat` would hold if thread `t` were killed now and the recorder shut down -/
def killView (cfg : Cfg) (s : State) (t : Tid) : String :=
  let s1 := match step cfg s (.kill t) with | some x => x | none => s
  ",".intercalate (((Crash.shutdown cfg s1).file t).map showItem)

def dedup : List String → List String
  | a :: b :: l => if a = b then dedup (b :: l) else a :: dedup (b :: l)
  | l => l

partial def batchTrace (cfg : Cfg) (s : State) (t : Tid) :
    List (Rec × Option Bool × Bool) → Option (List State × State)
  | [] => some ([], s)
  | (r, extra, ok) :: rest =>
    match emitTrace cfg s t r ok with
    | none => none
    | some (l, stored) =>
      let s1 := l.getLastD s
      let continue_ (s1 : State) := match batchTrace cfg s1 t rest with
        | some (l2, sf) => some (l ++ l2, sf)
        | none => none
      if stored then continue_ s1 else
      match extra with
      | none => continue_ s1
      | some counted =>
        match step cfg s1 (.pAbandon t (rest.map (·.1)) counted) with
        | none => none
        | some s2 => some (l ++ [s2], s2)

def act (st : St) (a : Action) : St × String :=
  match step st.cfg st.s a with
  | some s' => let st' := { st with s := s' }; (st', "ok " ++ showState st')
  | none => (st, "disabled " ++ showState st)

def handle (st : St) : List String → St × String
  | "RESET" :: nw :: mx :: fx :: more =>
    let cf := match more with | c :: _ => c == "1" | [] => true
    let tf := match more with | _ :: t :: _ => t == "1" | _ => true
    let st' : St := { cfg := { maxsize := mx.toNat!, fixed := fx == "1", countFix := cf, tailFix := tf },
                      s := State.init nw.toNat!, tids := [] }
    (st', "ok " ++ showState st')
  | "P" :: t :: rest =>
    match t.toNat? with
    | none => (st, "bad-op")
    | some t =>
      match rest with
      | ["prepare"] => act { st with tids := insertTid t st.tids } (.pPrepare t)
      | ["finish"] => act st (.pFinish t)
      | ["ftrig"] => act st (.pFinishTrigger t)
      | "emit" :: ws =>
        match parseRec ws with
        | some (r, [ok]) =>
          match emit st.cfg st.s t r (ok == "1") with
          | some (s', stored) =>
            let st' := { st with s := s' }
            (st', s!"ok stored={if stored then 1 else 0} " ++ showState st')
          | none => (st, "disabled " ++ showState st)
        | _ => (st, "bad-op")
      | "batch" :: ws =>
        match parseBatch ws with
        | some l =>
          match emitBatch st.cfg st.s t l with
          | some s' => let st' := { st with s := s' }; (st', "ok " ++ showState st')
          | none => (st, "disabled " ++ showState st)
        | none => (st, "bad-op")
      | "steps" :: ws =>
        match parseBatch ws with
        | some l =>
          match batchTrace st.cfg st.s t l, emitBatch st.cfg st.s t l with
          | some (states, sf), some sref =>
            let st' := { st with s := sf }
            let views := dedup ((st.s :: states).map fun x => "[" ++ killView st.cfg x t ++ "]")
            let agree := showState st' == showState { st with s := sref }
            (st', s!"ok STEPS agree={if agree then 1 else 0} views=" ++ "|".intercalate views)
          | _, _ => (st, "disabled " ++ showState st)
        | none => (st, "bad-op")
      | "write" :: ws => match parseRec ws with
        | some (r, []) => act st (.pWrite t r)
        | _ => (st, "bad-op")
      | ["bump"] => act st (.pBump t)
      | ["bump2"] => act st (.pBump2 t)
      | "end" :: ws => match parseRec ws with
        | some (r, []) => act st (.pEnd t r)
        | _ => (st, "bad-op")
      | ["pick", ok] => act st (.pPick t (ok == "1"))
      | ["start"] => act st (.pStart t)
      | ["mark"] => act st (.pMark t)
      | "abandon" :: cn :: ws =>
        let rec recs (ws : List String) (fuel : Nat) : List Rec :=
          match fuel, parseRec ws with
          | fuel + 1, some (r, rest) => r :: recs rest fuel
          | _, _ => []
        act st (.pAbandon t (recs ws ws.length) (cn == "c"))
      | _ => (st, "bad-op")
  | ["K", t] => act st (.kill t.toNat!)
  | ["R", "read"] => act st .rRead
  | ["R", "flush", t, i] => act st (.rFlush t.toNat! i.toNat!)
  | ["R", "stop"] => act st .rStop
  | ["R", "remaining"] => act st .rRemaining
  | ["R", "flushall"] =>
    let st' := { st with s := Crash.flushAll st.cfg st.s }
    (st', "ok " ++ showState st')
  | ["R", "shutdown"] =>
    let st' := { st with s := Crash.shutdown st.cfg st.s }
    (st', "ok " ++ showState st')
  | ["W", w, "pick"] => act st (.wPick w.toNat!)
  | ["W", w, "write"] => act st (.wWrite w.toNat!)
  | ["W", w, "splice"] => act st (.wSplice w.toNat!)
  | ["WP", "init", nw] =>
    sessAct st (some (Sess.init nw.toNat!))
  | ["WP", "start", t, i] => sessAct st (st.se.step (.start ⟨t.toNat!, i.toNat!⟩))
  | ["WP", "end", t, i] => sessAct st (st.se.step (.fin ⟨t.toNat!, i.toNat!⟩))
  | ["WP", "pick", w] => sessAct st (st.se.step (.pick w.toNat!))
  | ["WP", "write", w] => sessAct st (st.se.step (.write w.toNat!))
  | ["WP", "splice", w] => sessAct st (st.se.step (.splice w.toNat!))
  | ["WP", "stop"] => sessAct st (st.se.step .stop)
  | ["WP", "flushall"] => sessAct st (st.se.step .flushAll)
  | ["WP", "remaining"] => sessAct st (st.se.step .remaining)
  | "SEGV" :: fx :: maxst :: idx :: written =>
    let mx := maxst.toNat!
    let idx := idx.toNat!
    let n := min idx mx
    -- frame k (0 = outermost) is function k at depth k; `written` lists the flags innermost first
    let frames : List Mcount.Frame := (List.range n).reverse.zipWith
      (fun k w => { addr := k, start := 1, depth := k, cyg := true, written := w })
      ((written.map (· == "1")) ++ List.replicate n false)
    let ms : Mcount.St := { frames := frames, over := idx - n }
    (st, Crash.showSegv (Crash.segvFlush (fx == "1") ms))
  | "TID" :: ag :: mt :: pid :: ktid :: ops =>
    let parseOp (w : String) : Option IdOp :=
      let arg := (w.drop 1).toString.toNat?.getD 0
      match w.toList.head? with
      | some 'g' => some .gettid
      | some 'v' => some (.vfork arg)
      | some 'd' => some (.vforkDone (arg == 1))
      | some 'f' => some (.fork arg)
      | some 'x' => some .exec
      | some 'o' => some (.otherVfork arg)
      | _ => none
    let s := idRun { again := ag == "1", mt := mt == "1" }
      { pid := pid.toNat!, ktid := ktid.toNat!, bufs := ktid.toNat! } (ops.filterMap parseOp)
    (st, s!"tid={s.msgTid} ktid={s.ktid} bufs={s.bufs} own={if s.own then 1 else 0}")
  | "H" :: ws =>
    let (d, out) := Driver.Mcount.step st.mc ws
    ({ st with mc := d }, out)
  | ["HSEGV", fx] =>
    if st.mc.st.isNone then (st, "nothing") else       -- check_thread_data: the handler does nothing without thread data
    match Crash.segvFlush (fx == "1") st.mc.state with
    | .nothing => (st, "nothing")
    | .wild i => (st, s!"wild {i}")
    | .flushed fs recs =>
      let s' : Mcount.St := { st.mc.state with frames := fs, out := st.mc.state.out ++ recs }
      ({ st with mc := { st.mc with st := some s', nout := s'.out.length } },
       "flushed recs=[" ++ " ".intercalate (recs.map Driver.Mcount.showRec) ++ "]")
  | _ => (st, "bad-op")

def model : Model := { σ := St, init := {}, step := handle }

end Driver.C03
