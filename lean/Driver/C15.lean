import Driver.Proto
import Uft.Model.Graph
/- C15 driver.  Byte strings are hex ("-" = empty, "~" = absent).
   esc <hex>                         -> hex of the escaped string
   quote <hex>                       -> hex of json_quote
   cmdl <hex>                        -> hex of the repaired footer escaping
   body <hex>                        -> 1/0  (valid JSON string body)
   json <hex>                        -> 1/0  (valid JSON text)
   name <fixed> <hex>                -> "<oob> <term> <pos> <hex of name_buf string>"
   chrome <fix> <exename> <version> <date> <cmdline|~> | syms | tid:pid … | recs [| arglists]
                                     -> "<oob> <hex of the whole output>"
       <fix>: "1" = every repair, "0" = none, or three digits main/abuf/asym (Json.Fix);
       a record may carry a fifth field, the index of its value list in `arglists`;
       a value list is "-" (empty) or values joined by ",": s<hex> string, S<hex> std::string,
       c<hex byte> char, y<hex> pointer to the symbol of that name, r<hex> printf text
   args <abuf> <asym> <retval> <arglist> -> "<oob> <term> <pos> <len> <hex of the spec_buf string>"
   flame <fixed> <st | auto:total> | syms | tid:pid … | recs          -> hex of the output
   graphviz <exename> <version> <cmdline|~> | syms | tasks | recs -> hex of the output
   mermaid <exename> | syms | tasks | recs                    -> hex of the edge lines
   graph <exename> | syms | tasks | recs   -> "depth:namehex:calls:time:self …" pre-order
   tunit <fixed> <ns>                -> "<whole> <three-digit part> <unit index>"  (print_time_unit, ns > 0)
   tsval <ns>                        -> "<hex of tsText> <digitsVal int part> <digitsVal fraction>"
   recs: E:<tid>:<symidx>:<time>  X:<tid>:<symidx>:<time>
         scheduling events are records named linux:schedule (E at sched-out, X at sched-in);
         P:<tid>:<symidx>:<time>  the sched-out of a pre-empted task as dump_replay_event treats it now: seen by the
                                  time accounting, not handed to the dump callbacks (C15-DUMP-PREEMPT); repaired: an E
-/
namespace Driver.C15
open Uft.Json Uft.Graph

def bytes (s : String) : Option (List Nat) :=
  (parseHexBytes s).map fun l => l.map (·.toNat)

def hex (l : List Nat) : String := hexOfBytes (l.map UInt8.ofNat)

def optBytes (s : String) : Option (Option (List Nat)) :=
  if s = "~" then some none else (bytes s).map some

def splitBar (ws : List String) : List (List String) :=
  ws.foldr (fun w acc => if w = "|" then [] :: acc else
    match acc with
    | [] => [[w]]
    | a :: r => (w :: a) :: r) [[]]

def parseSyms (ws : List String) : Option (Array (List Nat)) :=
  ws.foldl (fun acc w => match acc, bytes w with
    | some a, some b => some (a.push b)
    | _, _ => none) (some #[])

def parseTasks (ws : List String) : Option (List Task) :=
  ws.foldr (fun w acc => match acc, w.splitOn ":" with
    | some l, [a, b] =>
      match a.toNat?, b.toNat? with
      | some t, some p => some (⟨t, p⟩ :: l)
      | _, _ => none
    | _, _ => none) (some [])

def parseRecs (syms : Array (List Nat)) (ws : List String) : Option (List Rec) :=
  ws.foldr (fun w acc => match acc, w.splitOn ":" with
    | some l, [k, t, s, tm] =>
      match t.toNat?, s.toNat?, tm.toNat? with
      | some t, some s, some tm =>
        if k = "E" ∨ k = "X" then some (⟨t, k = "E", syms.getD s [], tm⟩ :: l)
        else if k = "P" then some (⟨t, true, syms.getD s [] ++ [0], tm⟩ :: l)
        else none
      | _, _, _ => none
    | _, _ => none) (some [])

def b2s (b : Bool) : String := if b then "1" else "0"

def pidOf (tasks : List Task) (tid : Nat) : Nat :=
  match tasks.find? (·.tid = tid) with
  | some t => t.pid
  | none => tid

def trace (syms tasks recs : List String) : Option (List Task × List Out) :=
  match parseSyms syms, parseTasks tasks with
  | some sy, some ts =>
    match parseRecs sy recs with
    | some rs =>
      -- P: the entry of a pre-empted schedule as the dump callbacks get it now (not at all)
      some (ts, dropEntries isPreMark (outs (ts.map (·.tid)) rs))
    | none => none
  | _, _ => none

def parseFix (s : String) : Option Fix :=
  if s = "1" then some Fix.all
  else if s = "0" then some Fix.none
  else match s.toList with
    | [a, b, c] =>
      if (a = '0' ∨ a = '1') ∧ (b = '0' ∨ b = '1') ∧ (c = '0' ∨ c = '1') then
        some ⟨a = '1', b = '1', c = '1'⟩
      else none
    | _ => none

def hexTail (w : String) : Option (List Nat) :=
  let r := (w.drop 1).toString
  if r = "" then some [] else bytes r

def parseVal (w : String) : Option ArgVal :=
  match w.toList.head?, hexTail w with
  | some 's', some b => some (.str b false)
  | some 'S', some b => some (.str b true)
  | some 'c', some [c] => some (.chr c)
  | some 'y', some b => some (.sym b)
  | some 'r', some b => some (.raw b)
  | _, _ => none

def parseVals (w : String) : Option (List ArgVal) :=
  if w = "-" then some []
  else (w.splitOn ",").foldr (fun x acc => match acc, parseVal x with
    | some l, some v => some (v :: l)
    | _, _ => none) (some [])

def parseArgLists (ws : List String) : Option (Array (List ArgVal)) :=
  ws.foldl (fun acc w => match acc, parseVals w with
    | some a, some v => some (a.push v)
    | _, _ => none) (some #[])

/-- the optional fifth field of the records: index into the value lists -/
def recArgIdx (ws : List String) : Option (List (Option Nat)) :=
  ws.foldr (fun w acc => match acc, w.splitOn ":" with
    | some l, [_, _, _, _] => some (none :: l)
    | some l, [_, _, _, _, a] => match a.toNat? with
      | some n => some (some n :: l)
      | none => none
    | _, _ => none) (some [])

def stripArgIdx (ws : List String) : List String :=
  ws.map fun w => ":".intercalate ((w.splitOn ":").take 4)

/-- the events of `dump --chrome`: one per record (with its value list) and the closing
    events of the calls still open (`more = 0`) -/
def mkEvs (ts : List Task) (os : List Out) (idx : List (Option Nat)) (al : Array (List ArgVal)) : List Ev :=
  let rec go : List Out → List (Option Nat) → List Ev
    | [], _ => []
    | o :: os, [] => ⟨o.entry, o.tid, pidOf ts o.tid, o.name, o.time, none⟩ :: go os []
    | o :: os, i :: is =>
      ⟨o.entry, o.tid, pidOf ts o.tid, o.name, o.time, i.map (fun k => al.getD k [])⟩ :: go os is
  go os idx

def chromeLine (f exe ver date cmd : String) (syms tasks recs args : List String) : String :=
  match parseFix f, bytes exe, bytes ver, bytes date, optBytes cmd, trace syms tasks (stripArgIdx recs),
        recArgIdx recs, parseArgLists args with
  | some fx, some exe, some ver, some date, some cmd, some (ts, os), some idx, some al =>
    let d : Doc := { exename := exe, version := ver, date := date, cmdline := cmd, tasks := ts,
                     evs := mkEvs ts os idx al }
    s!"{b2s (chromeOob fx d)} {hex (chromeOutput fx d)}"
  | _, _, _, _, _, _, _, _ => "bad-op"

partial def showGraph (depth : Nat) : Nodes → List String
  | .nil => []
  | .cons n rest =>
    s!"{depth}:{hex n.name}:{n.calls}:{n.time}:{((n.time : Int) - n.child) % (Uft.Graph.W : Int)}" ::
      (showGraph (depth + 1) n.kids ++ showGraph depth rest)

def handle (ws : List String) : String :=
  match splitBar ws with
  | [["esc", h]] => match bytes h with | some b => hex (escapeStr b) | none => "bad-op"
  | [["quote", h]] => match bytes h with | some b => hex (jsonQuote b) | none => "bad-op"
  | [["cmdl", h]] => match bytes h with | some b => hex (escCmdline b) | none => "bad-op"
  | [["body", h]] => match bytes h with | some b => b2s (validBody b) | none => "bad-op"
  | [["json", h]] => match bytes h with | some b => b2s (validJson b) | none => "bad-op"
  | [["name", f, h]] =>
    match bytes h with
    | some b => let r := escapeName (f = "1") b
                s!"{b2s r.oob} {b2s r.term} {r.pos} {hex r.out}"
    | none => "bad-op"
  | [["chrome", f, exe, ver, date, cmd], syms, tasks, recs] => chromeLine f exe ver date cmd syms tasks recs []
  | [["chrome", f, exe, ver, date, cmd], syms, tasks, recs, args] => chromeLine f exe ver date cmd syms tasks recs args
  | [["args", ab, as, rv, l]] =>
    match parseVals l with
    | some vs => let r := argString (ab = "1") (as = "1") (rv = "1") vs
                 s!"{b2s r.oob} {b2s r.term} {r.pos} {r.len} {hex r.out}"
    | none => "bad-op"
  | [["flame", f, st], syms, tasks, recs] =>
    let st? : Option Nat := if st.startsWith "auto:" then ((st.drop 5).toString.toNat?).map autoSample else st.toNat?
    match st?, trace syms tasks recs with
    | some st, some (_, os) => hex (flameText (f = "1") st (build (some st) (G.init []) os).root)
    | _, _ => "bad-op"
  | [["graphviz", exe, ver, cmd], syms, tasks, recs] =>
    match bytes exe, bytes ver, optBytes cmd, trace syms tasks recs with
    | some exe, some ver, some cmd, some (_, os) =>
      hex (graphvizText ver cmd (build none (G.init (basename exe)) os).root)
    | _, _, _, _ => "bad-op"
  | [["mermaid", exe], syms, tasks, recs] =>
    match bytes exe, trace syms tasks recs with
    | some exe, some (_, os) => hex (mermaidEdges (build none (G.init (basename exe)) os).root)
    | _, _ => "bad-op"
  | [["tunit", f, n]] =>
    match n.toNat? with
    | some ns => let r := timeUnit (f = "1") ns
                 s!"{r.1} {r.2.1} {r.2.2}"
    | none => "bad-op"
  | [["tsval", n]] =>
    match n.toNat? with
    | some t =>
      let txt := tsText t
      let ip := txt.takeWhile (· ≠ 46)
      let fp := (txt.dropWhile (· ≠ 46)).drop 1
      s!"{hex txt} {digitsVal ip} {digitsVal fp}"
    | none => "bad-op"
  | [["graph", exe], syms, tasks, recs] =>
    match bytes exe, trace syms tasks recs with
    | some exe, some (_, os) =>
      let r := (build none (G.init (basename exe)) os).root
      let t := sumTime r.kids
      " ".intercalate (s!"0:{hex r.name}:1:{t}:0" :: showGraph 1 r.kids)
    | _, _ => "bad-op"
  | _ => "bad-op"

def model : Model := { σ := Unit, init := (), step := fun _ ws => ((), handle ws) }

end Driver.C15
