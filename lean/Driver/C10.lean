import Driver.Proto
import Uft.Model.Symtab
import Uft.Model.SymFile
import Uft.Model.Session
import Uft.Model.DlRecord
import Uft.Model.ElfSym
/- C10 driver.  Numbers are hex without prefix; byte strings are hex or `-`; a symbol
   is `addr:size:typecode:namehex`; sections are separated by `|`.

   load <off> <texthex>                       -> table (after sort)
   raw  <off> <texthex>                       -> npo=<0|1> wf=<0|1>   (NoProperOverlap of the
                                                 pre-sort table, WellFormed of the sorted one)
   find | <table> | <addr>...                 -> wf=<0|1> <sym|->...
   save <off> <pathhex> <bidhex> | <table>    -> texthex
   scen | op | op ...                         -> one result per query op
     WS <0|1>                       symbol directory = data directory (0) or separate (--with-syms, 1)
     MODT <id> <texthex>            file mod<id>.so.sym with this text; module <id> = /nonexistent-c10/mod<id>.so
     MODS <id> <pathhex> <bidhex> <table...>   save_module_symbol_file into the symbol directory;
                                    module <id> = (path, build-id); its table is whatever
                                    load_module_symbol selects from the directory
     S <sid> <pid> <time> <stack|-> <start:end:modid>...   create_session (tid = pid)
     T <pid> <tid> <time> / F <ppid> <tid> <time>          create_task(…, false/true)
     D <sid> <time> <base> <modid>                         session_add_dlopen
     R <tid> <time>            find_task_session      -> sid | -
     Y <sid> <addr>            find_symtabs           -> sym | -
     L <sid> <time> <addr>     session_find_dlsym     -> sym | -
     Q <tid> <time> <addr>     task_find_sym_addr     -> sid/sym
   dlrec <fixed 0|1> <stampAtSend 0|1> | ev | ev ...    (record-time dlopen model, Model/DlRecord.lean)
     IM <namehex> <start> <stop>                      a session map (mcount_sym_info at start-up)
     LD <namehex> <realhex> <bias> <start> <stop> <sym>...   the loader maps an object (with its symbol table)
     TK <dt> / CL <addr> / EN <w> <fnamehex> / LV <w> <handle> / XC <handle> <start>...
                                              -> M <namehex>@<bias>... | S <symhex@namehex@bias|->...   (messages
                                                 in the order sent; for every CL the symbol it is shown as and the
                                                 message it is resolved with)
   elfload <off> | <value>:<size>:<info>:<shndx>:<namehex> ...   load_symtab (filter, sort, dedup) -> table
   elfmerge | <table> | <table>                       merge_symtabs(symtab, dynsymtab) -> table
-/
namespace Driver.C10
open Uft.Symtab Uft.SymFile Uft.Session

def bytesToChars (bs : List UInt8) : List Char := bs.map (fun b => Char.ofNat b.toNat)
def charsToBytes (cs : List Char) : List UInt8 := cs.map (fun c => UInt8.ofNat c.toNat)

def parseChars (s : String) : Option (List Char) := (parseHexBytes s).map bytesToChars
def showChars (cs : List Char) : String := hexOfBytes (charsToBytes cs)

def showHex (n : Nat) : String := String.ofList (Nat.toDigits 16 n)

def parseSym (tok : String) : Option Sym :=
  match tok.splitOn ":" with
  | [a, s, t, n] =>
    match parseHexNat a, parseHexNat s, parseHexNat t, parseChars n with
    | some a, some s, some t, some n => some { addr := a, size := s, type := Char.ofNat t, name := n }
    | _, _, _, _ => none
  | _ => none

def showSym (s : Sym) : String :=
  s!"{showHex s.addr}:{showHex s.size}:{showHex s.type.toNat}:{showChars s.name}"

def showOSym : Option Sym → String
  | some s => showSym s
  | none => "-"

def parseTable (toks : List String) : Option (List Sym) := toks.mapM parseSym

def showTable (t : List Sym) : String :=
  if t.isEmpty then "-" else " ".intercalate (t.map showSym)

def splitBar (ws : List String) : List (List String) :=
  ws.foldr (fun w acc => if w = "|" then [] :: acc else
    match acc with
    | [] => [[w]]
    | a :: r => (w :: a) :: r) [[]]

def b01 (b : Bool) : String := if b then "1" else "0"

structure Scen where
  dir : SymDir := []
  withSyms : Bool := false
  mods : List (Nat × (List Char × List Char)) := []
  link : Link := {}
  out : List String := []
  bad : Bool := false

/-- table of module `id` as a map entry (build-id from the map file) -/
def modTable (sc : Scen) (id : Nat) : List Sym :=
  match sc.mods.lookup id with
  | some (p, b) => moduleTable sc.dir sc.withSyms p b
  | none => moduleTable sc.dir sc.withSyms "/nonexistent-c10/none".toList []

/-- table of module `id` when dlopen'ed: `read_build_id` of a non-existent file gives "" -/
def modTableDl (sc : Scen) (id : Nat) : List Sym :=
  match sc.mods.lookup id with
  | some (p, _) => moduleTable sc.dir sc.withSyms p []
  | none => moduleTable sc.dir sc.withSyms "/nonexistent-c10/none".toList []

def modPath (sc : Scen) (id : Nat) : List Char :=
  match sc.mods.lookup id with
  | some (p, _) => p
  | none => "/nonexistent-c10/none".toList

def modtPath (id : Nat) : List Char := "/nonexistent-c10/mod".toList ++ (showHex id).toList ++ ".so".toList

def parseMapTok (tok : String) : Option (Nat × Nat × Nat) :=
  match tok.splitOn ":" with
  | [a, b, m] =>
    match parseHexNat a, parseHexNat b, parseHexNat m with
    | some a, some b, some m => some (a, b, m)
    | _, _, _ => none
  | _ => none

def updSess (lk : Link) (sid : Nat) (f : Sess → Sess) : Link :=
  { lk with sessions := lk.sessions.map (fun s => if s.sid == sid then f s else s) }

def scenOp (sc : Scen) (op : List String) : Scen :=
  let fail : Scen := { sc with bad := true }
  match op with
  | ["WS", b] => { sc with withSyms := b == "1" }
  | ["MODT", id, text] =>
    match parseHexNat id, parseChars text with
    | some id, some text =>
      let name := basename (modtPath id) ++ ".sym".toList
      { sc with dir := (name, text) :: sc.dir.filter (fun e => e.1 != name),
                mods := (id, (modtPath id, [])) :: sc.mods }
    | _, _ => fail
  | "MODS" :: id :: path :: bid :: tab =>
    match parseHexNat id, parseChars path, parseChars bid, parseTable tab with
    | some id, some path, some bid, some t =>
      { sc with dir := saveInto sc.dir path bid t, mods := (id, (path, bid)) :: sc.mods }
    | _, _, _, _ => fail
  | "S" :: sid :: pid :: time :: stack :: maps =>
    match parseHexNat sid, parseHexNat pid, parseHexNat time, maps.mapM parseMapTok with
    | some sid, some pid, some time, some mls =>
      let kb := if stack = "-" then 0 else guessKernelBase ((parseHexNat stack).getD 0)
      let lines : List MapLine := mls.map (fun (a, b, m) => { start := a, stop := b, path := modPath sc m })
      let merged := mergeMapLines [] lines
      -- the map keeps the build-id of its first line
      let idOf (ml : MapLine) : Nat :=
        match mls.find? (fun (a, _, m) => a == ml.start && modPath sc m == ml.path) with
        | some (_, _, m) => m
        | none => 0
      let ms : List Map := merged.map (fun ml =>
        { start := ml.start, stop := ml.stop, syms := modTable sc (idOf ml) })
      let ns : Sess := { sid := sid, pid := pid, tid := pid, start := time,
                         info := { kernelBase := kb, maps := ms } }
      { sc with link := createSession sc.link ns }
    | _, _, _, _ => fail
  | [k, pid, tid, time] =>
    if k = "T" ∨ k = "F" then
      match parseHexNat pid, parseHexNat tid, parseHexNat time with
      | some pid, some tid, some time => { sc with link := createTask sc.link pid tid time (k = "F") }
      | _, _, _ => fail
    else if k = "L" then
      match parseHexNat pid, parseHexNat tid, parseHexNat time with
      | some sid, some t, some addr =>
        let r := match getSess sc.link sid with
          | some s => showOSym (findDlsym s.dl t addr)
          | none => "nosess"
        { sc with out := r :: sc.out }
      | _, _, _ => fail
    else if k = "Q" then
      match parseHexNat pid, parseHexNat tid, parseHexNat time with
      | some tid, some t, some addr =>
        let (sid, sym) := taskFindSymAddr sc.link tid t addr
        let r := (match sid with | some s => showHex s | none => "-") ++ "/" ++ showOSym sym
        { sc with out := r :: sc.out }
      | _, _, _ => fail
    else fail
  | ["D", sid, time, base, modid] =>
    match parseHexNat sid, parseHexNat time, parseHexNat base, parseHexNat modid with
    | some sid, some time, some base, some m =>
      let lib : DlLib := { time := time, base := base, syms := modTableDl sc m }
      { sc with link := updSess sc.link sid (fun s => { s with dl := addDlopen s.dl lib }) }
    | _, _, _, _ => fail
  | ["R", tid, time] =>
    match parseHexNat tid, parseHexNat time with
    | some tid, some t =>
      let r := match findTaskSession sc.link.tasks (sc.link.tasks.length + 1)
                      (findTask sc.link.tasks tid) t with
        | some s => showHex s
        | none => "-"
      { sc with out := r :: sc.out }
    | _, _ => fail
  | ["Y", sid, addr] =>
    match parseHexNat sid, parseHexNat addr with
    | some sid, some addr =>
      let r := match getSess sc.link sid with
        | some s => showOSym (findSymtabs s.info addr)
        | none => "nosess"
      { sc with out := r :: sc.out }
    | _, _ => fail
  | _ => fail

/-! ### record-time dlopen model -/
open Uft.DlRecord in
def dlrecEv (cfg : Cfg) (st : St) (op : List String) : Option St :=
  match op with
  | ["IM", n, a, b] =>
    match parseChars n, parseHexNat a, parseHexNat b with
    | some n, some a, some b =>
      some { st with maps := st.maps ++ [{ name := n, start := a, stop := b, handle := none, live := true }] }
    | _, _, _ => none
  | "LD" :: n :: r :: b :: s :: e :: tab =>
    match parseChars n, parseChars r, parseHexNat b, parseHexNat s, parseHexNat e, parseTable tab with
    | some n, some r, some b, some s, some e, some t => some (step cfg st (.load n r b s e t))
    | _, _, _, _, _, _ => none
  | ["TK", d] => (parseHexNat d).map (fun d => step cfg st (.tick d))
  | ["CL", a] => (parseHexNat a).map (fun a => step cfg st (.call a))
  | ["EN", w, f] =>
    match parseHexNat w, parseChars f with
    | some w, some f => some (step cfg st (.enter w f))
    | _, _ => none
  | ["LV", w, h] =>
    match parseHexNat w, parseHexNat h with
    | some w, some h => some (step cfg st (.leave w h))
    | _, _ => none
  | "XC" :: h :: gone =>
    match parseHexNat h, gone.mapM parseHexNat with
    | some h, some g => some (step cfg st (.close h g))
    | _, _ => none
  | _ => none

/-- `libOf` with the library name and load address appended to every symbol name, so that the driver
    can print which message a record was resolved with (`session_find_dlsym` looks at names only to
    drop the `__sym_end` markers, which the harness tables do not contain) -/
def libOfTagged (m : Uft.DlRecord.Msg) : DlLib :=
  let l := Uft.DlRecord.libOf m
  { l with syms := l.syms.map (fun s =>
      { s with name := (showChars s.name ++ "@" ++ showChars m.name ++ "@" ++ showHex m.bias).toList }) }

open Uft.DlRecord in
def dlrec (fixed atSend : String) (ops : List (List String)) : String :=
  let cfg : Cfg := { fixed := fixed == "1", stampAtSend := atSend == "1" }
  let r := ops.foldl (fun (acc : Option St) op => acc.bind (fun st => dlrecEv cfg st op)) (some {})
  match r with
  | none => "bad-op"
  | some st =>
    let ms := st.msgs.map (fun m => showChars m.name ++ "@" ++ showHex m.bias)
    let libs := st.msgs.foldl (fun acc m => addDlopen acc (libOfTagged m)) []
    let ss := st.recs.map (fun r => match findDlsym libs r.time r.addr with
                                    | some s => String.ofList s.name
                                    | none => "-")
    "M " ++ " ".intercalate ms ++ " | S " ++ " ".intercalate ss

/-! ### ELF symbol loading -/
open Uft.ElfSym in
def parseElfSym (tok : String) : Option ESym :=
  match tok.splitOn ":" with
  | [v, s, i, x, n] =>
    match parseHexNat v, parseHexNat s, parseHexNat i, parseHexNat x, parseChars n with
    | some v, some s, some i, some x, some n => some { value := v, size := s, info := i, shndx := x, name := n }
    | _, _, _, _, _ => none
  | _ => none

def handle (ws : List String) : String :=
  match splitBar ws with
  | ["dlrec", fixed, atSend] :: ops => dlrec fixed atSend ops
  | [["elfload", off], syms] =>
    match parseHexNat off, (if syms = ["-"] then [] else syms).mapM parseElfSym with
    | some off, some es => showTable (Uft.ElfSym.loadSymtab off es)
    | _, _ => "bad-op"
  | [["elfmerge"], l, r] =>
    match parseTable (if l = ["-"] then [] else l), parseTable (if r = ["-"] then [] else r) with
    | some l, some r => showTable (Uft.ElfSym.mergeSymtabs l r)
    | _, _ => "bad-op"
  | [["load", off, text]] =>
    match parseHexNat off, parseChars text with
    | some off, some text => showTable (load off text)
    | _, _ => "bad-op"
  | [["raw", off, text]] =>
    match parseHexNat off, parseChars text with
    | some off, some text =>
      s!"npo={b01 (decide (NoProperOverlap (rawLoad off text)))} wf={b01 (decide (WellFormed (load off text)))}"
    | _, _ => "bad-op"
  | [["find"], tab, addrs] =>
    match parseTable (if tab = ["-"] then [] else tab), addrs.mapM parseHexNat with
    | some t, some as =>
      s!"wf={b01 (decide (WellFormed t))} " ++ " ".intercalate (as.map (fun a => showOSym (findSym t a)))
    | _, _ => "bad-op"
  | [["save", off, path, bid], tab] =>
    match parseHexNat off, parseChars path, parseChars bid, parseTable (if tab = ["-"] then [] else tab) with
    | some off, some path, some bid, some t => showChars (save off path bid t)
    | _, _, _, _ => "bad-op"
  | ["scen"] :: ops =>
    let sc := ops.foldl scenOp {}
    if sc.bad then "bad-op" else " ".intercalate sc.out.reverse
  | _ => "bad-op"

def model : Model := { σ := Unit, init := (), step := fun _ ws => ((), handle ws) }

end Driver.C10
