import Driver.Proto
import Uft.Model.Trunc
import Uft.Model.InfoFile
import Uft.Model.TaskTxt
/- C12 driver.  <fixed> is 0 (code as found) or 1 (with the proposed fixes F7 … F17, S2 … S4).
   [<nl>] is optional, 0 or 1: with proposed_fixes/C12-F18{i,t,m,s,c}.diff (a last line without its
   newline is an incomplete record and ends the file); left out = 0 = the code without them.
   dat  <fixed> <specs|-> <hex>          -> n=<k> st=<status> ust=<hex> | time,typ,more,depth,addr,payload,partl,cok,craw ; …
        specs: <addrhex>:<idx>.<s|c|t|o>.<size>,…/<addrhex>:…
   info <fixed> [<nl>] <hex>             -> ok mask=… k=<hex> … | err <what> | oob <where>
   task <fixed> [<nl>] <tid,tid|-> <hex> -> <ok|err|oob> open=<ok|einval|enodata> chrome=… tf0=<ok|oob> | items
   map  <fixed> [<nl>] <hex>             -> ok kb=<n> | start end prot path buildid ; …
   sym  <fixed> [<nl>] <modname hex> <hex> -> ok use=<0|1> | addr size type name ; …
   perf <fixed> <hex>                    -> n=<k> st=<eof|oob|badsize|fuel> | type,misc,pid,tid,time ; …
                                            (`Trunc.readPerfAll`: the events read_perf_event delivers)
   whole <info|text> <hex>               -> <hex>: the file cut at its last whole record
                                            (`InfoFile.infoWhole` / `TextScan.wholeLines`)
-/
namespace Driver.C12
open Uft

def hx (bs : List UInt8) : String := hexOfBytes bs

def us (s : String) : String := s.map (fun c => if c == ' ' then '_' else c)

def parseFmt : String → Option Trunc.Fmt
  | "s" => some .str | "c" => some .chr | "t" => some .strct | "o" => some .other | _ => none

def parseSpec (s : String) : Option Trunc.Spec :=
  match s.splitOn "." with
  | [i, f, z] =>
    match i.toNat?, parseFmt f, z.toNat? with
    | some i, some f, some z => some ⟨i, f, z⟩
    | _, _, _ => none
  | _ => none

def parseSpecs (s : String) : Option (List (Nat × List Trunc.Spec)) :=
  if s = "-" then some [] else
  (s.splitOn "/").foldr (fun item acc =>
    match acc, item.splitOn ":" with
    | some l, [a, sp] =>
      match parseHexNat a, (sp.splitOn ",").foldr (fun x acc2 =>
          match acc2, parseSpec x with
          | some l2, some y => some (y :: l2)
          | _, _ => none) (some []) with
      | some a, some sps => some ((a, sps) :: l)
      | _, _ => none
    | _, _ => none) (some [])

def mkCtx (tbl : List (Nat × List Trunc.Spec)) : Trunc.Ctx :=
  { specs := fun a => (tbl.find? (·.1 == a)).map (·.2) }

def showStatus : Trunc.Status → String
  | .eof => "eof" | .badMagic => "badmagic" | .missingArg => "missingarg"
  | .unknownEvent => "unknownevent" | .assertLen => "assertlen" | .badEvent => "badevent"
  | .oob => "oob" | .fuel => "fuel"

def b01 (x : Bool) : String := if x then "1" else "0"

def dat (fixed : Bool) (ctx : Trunc.Ctx) (bs : List UInt8) : String :=
  let r := Trunc.readAll fixed ctx bs
  let recs := r.1.map fun x =>
    s!"{x.time},{x.typ},{b01 x.more},{x.depth},{x.addr},{hx x.payload},{b01 x.partl}," ++
    s!"{b01 (Trunc.consumeOk fixed false ctx x)},{b01 (Trunc.consumeOk fixed true ctx x)}"
  s!"n={r.1.length} st={showStatus r.2.1} ust={hx r.2.2} | " ++ " ; ".intercalate recs

def showInts (l : List Int) : String := if l.isEmpty then "-" else ",".intercalate (l.map toString)

def info (fixed nl : Bool) (bs : List UInt8) : String :=
  match InfoFile.parseInfo fixed nl bs with
  | .ok (h, i) =>
    let fs := i.fields.reverse.map fun (k, v) => s!"{us k}={hx v}"
    s!"ok version={h.version} feat={h.feat} mask={h.infoMask} maxstack={h.maxStack} " ++
    s!"exit={i.exitStatus} nr_tid={i.nrTid} tids={match i.tids with | some t => showInts t | none => "none"} " ++
    s!"autoargs={b01 i.autoArgs} patt={hx i.pattType} " ++ " ".intercalate fs
  | .err e => "err " ++ us e
  | .oob t => "oob " ++ us t

def showItem : TaskTxt.Item → String
  | .task t tid pid => s!"T {t} {tid} {pid}"
  | .fork t tid ppid => s!"F {t} {tid} {ppid}"
  | .sess t pid sid exe => s!"S {t} {pid} {hx sid} {hx exe}"
  | .dlop t tid sid base lib => s!"D {t} {tid} {hx sid} {base} {hx lib}"

def showOpen : TaskTxt.Open → String
  | .ok => "ok" | .einval => "einval" | .enodata => "enodata"

def parseTids (s : String) : Option (List Int) :=
  if s = "-" then some [] else
  (s.splitOn ",").foldr (fun x acc => match acc, x.toInt? with
    | some l, some v => some (v :: l)
    | _, _ => none) (some [])

def task (fixed nl : Bool) (tids : List Int) (bs : List UInt8) : String :=
  let r := TaskTxt.parseTaskTxt fixed nl bs
  let o := showOpen (TaskTxt.openOutcome r tids)
  match r with
  | .ok items =>
    let ch := match TaskTxt.chromeHeader fixed items tids with
      | .ok l => s!"chrome={showInts l}"
      | .err _ => "chrome=err"
      | .oob _ => "chrome=oob"
    -- F19: the `--task` views / `-f task` field of the code without C12-F19.diff (with it: always ok)
    let tf := match TaskTxt.taskFields false items tids with
      | .ok _ => "tf0=ok"
      | _ => "tf0=oob"
    s!"ok open={o} {ch} {tf} | " ++ " ; ".intercalate (items.map showItem)
  | .err e => s!"err open={o} | {us e}"
  | .oob t => s!"oob open={o} | {us t}"

def map (fixed nl : Bool) (bs : List UInt8) : String :=
  match TaskTxt.parseMap fixed nl bs with
  | .ok m =>
    s!"ok kb={m.kernelBase} | " ++ " ; ".intercalate (m.maps.reverse.map fun e =>
      s!"{e.start} {e.stop} {hx e.prot} {hx e.path} {hx e.buildId}")
  | .err e => "err " ++ us e
  | .oob t => "oob " ++ us t

def sym (fixed nl : Bool) (modname bs : List UInt8) : String :=
  match TaskTxt.parseSym fixed nl modname bs with
  | .ok f =>
    s!"ok use={b01 f.useFile} names={b01 (TaskTxt.replayNamesOk fixed f.lines)} | " ++ " ; ".intercalate (f.lines.map fun l =>
      s!"{l.addr} {l.size} {l.type.toNat} {hx l.name}")
  | .err e => "err " ++ us e
  | .oob t => "oob " ++ us t

def showPStatus : Trunc.PStatus → String
  | .eof => "eof" | .oob => "oob" | .badSize => "badsize" | .fuel => "fuel"

def perf (fixed : Bool) (bs : List UInt8) : String :=
  let r := Trunc.readPerfAll fixed bs
  s!"n={r.1.length} st={showPStatus r.2} | " ++
    " ; ".intercalate (r.1.map fun e => s!"{e.typ},{e.misc},{e.pid},{e.tid},{e.time}")

def infoOp (f n h : String) : String :=
  match parseHexBytes h with
  | some bs => info (f == "1") (n == "1") bs
  | none => "bad-op"

def taskOp (f n t h : String) : String :=
  match parseTids t, parseHexBytes h with
  | some tids, some bs => task (f == "1") (n == "1") tids bs
  | _, _ => "bad-op"

def mapOp (f n h : String) : String :=
  match parseHexBytes h with
  | some bs => map (f == "1") (n == "1") bs
  | none => "bad-op"

def symOp (f n m h : String) : String :=
  match parseHexBytes m, parseHexBytes h with
  | some mn, some bs => sym (f == "1") (n == "1") mn bs
  | _, _ => "bad-op"

def handle (ws : List String) : String :=
  match ws with
  | ["dat", f, sp, h] =>
    match parseSpecs sp, parseHexBytes h with
    | some tbl, some bs => dat (f == "1") (mkCtx tbl) bs
    | _, _ => "bad-op"
  | ["info", f, h] => infoOp f "0" h
  | ["info", f, n, h] => infoOp f n h
  | ["task", f, t, h] => taskOp f "0" t h
  | ["task", f, n, t, h] => taskOp f n t h
  | ["map", f, h] => mapOp f "0" h
  | ["map", f, n, h] => mapOp f n h
  | ["sym", f, m, h] => symOp f "0" m h
  | ["sym", f, n, m, h] => symOp f n m h
  | ["perf", f, h] =>
    match parseHexBytes h with
    | some bs => perf (f == "1") bs
    | none => "bad-op"
  | ["whole", k, h] =>
    match parseHexBytes h with
    | some bs => hx (if k == "info" then InfoFile.infoWhole bs else TextScan.wholeLines bs)
    | none => "bad-op"
  | _ => "bad-op"

def model : Model := { σ := Unit, init := (), step := fun _ ws => ((), handle ws) }

end Driver.C12
