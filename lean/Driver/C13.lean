import Driver.Proto
import Uft.Model.Demangle
/- C13 driver.
   dm <hex|->      -> result of the repaired model (all repairs)
   dmpre <hex|->   -> result of the model of the code as it is (no repair)
   dmx <6 x 0|1> <hex|->  -> result with the selected repairs (F10 F10b F10c F10d F10e F10g)
   output: <hex|->  the returned string | NULL | CRASH <kind> | FUEL
-/
namespace Driver.C13
open Uft.Demangle

def crashName : Crash → String
  | .oob => "oob" | .negPos => "negPos" | .nullDeref => "nullDeref" | .tableOob => "tableOob"
  | .intOverflow => "intOverflow" | .negSize => "negSize"

def showResult : Result → String
  | .str bs => hexOfBytes bs
  | .null => "NULL"
  | .crash k => "CRASH " ++ crashName k
  | .outOfFuel => "FUEL"

def parseMask (m : String) : Option Fixes :=
  match m.toList.map (· == '1') with
  | [a, b, c, d, e, f] => if m.toList.all (fun x => x == '0' || x == '1') then some ⟨a, b, c, d, e, f⟩ else none
  | _ => none

def runOn (fx : Fixes) (hex : String) : String :=
  match parseHexBytes hex with
  | some bs => if bs.contains 0 then "bad-op" else showResult (demangle fx bs.toArray)
  | none => "bad-op"

/-! ### run-time monitor of the per-function specifications proved in Lemmas/Demangle.lean
   (`spec <hex>`): every call of a grammar function is checked against its summary. -/

def delta : Fn → Nat
  | .expression | .unresolvedName | .baseUnresolvedName | .simpleId | .exprList | .exprListLoop
  | .exprLoop | .unresLoop => 1
  | _ => 0

def isLoop : Fn → Bool
  | .encLoop | .nestedLoop | .ulLoop | .typeLoop _ | .ftLoop _ | .argLoop | .exprListLoop | .exprLoop
  | .unresLoop => true
  | _ => false

def rank : Fn → Nat
  | .simpleId => 1
  | .baseUnresolvedName | .unresLoop => 2
  | .unresolvedName => 3
  | .expression => 4
  | .exprListLoop | .exprLoop => 5
  | .exprList => 6
  | .exprPrimary | .decltype | .vectorType | .functionType | .arrayType | .ptrToMember | .templateArgs
  | .ctorDtorName | .operatorName | .initializer | .localName | .nestedName | .specialName => 1
  | .unresolvedType => 2
  | .destructorName => 3
  | .unqualifiedName => 2
  | .name | .nestedLoop => 3
  | .typeLoop _ => 4
  | .type => 5
  | .ulLoop | .ftLoop _ | .encLoop | .templateArg => 6
  | .argLoop => 7
  | .encoding => 7

def fnName (f : Fn) : String := (toString (repr f)).replace "Uft.Demangle.Fn." ""

def specViolations (f : Fn) (st : St) (r : Int) (st' : St) : List String :=
  (if st'.pos + delta f < st.pos then ["lower"] else []) ++
  (if st'.pos < st.pos && !st'.expected then ["dec-without-expected"] else []) ++
  (if st.expected && !st'.expected then ["expected-reset"] else []) ++
  (if r ≥ 0 && !isLoop f && st'.pos ≤ st.pos then ["success-without-progress"] else []) ++
  (if r ≥ 0 && isLoop f && st'.pos < st.pos then ["loop-success-decrement"] else []) ++
  (if st'.len > st.len then ["len-grew"] else []) ++
  (if st'.pos > st'.len then ["pos>len"] else [])

/-- `run` with every call checked; violations are reported through `dbgTrace` (stderr). -/
def runChk : Nat → Fn → M Int
  | 0, _ => fun _ _ => .fuel
  | n + 1, f => fun e st =>
    let rec' : Fn → M Int := fun g e' st' =>
      let bad := st'.pos < st.pos || (st'.pos == st.pos && rank g ≥ rank f)
      if bad then
        dbgTrace s!"SPEC call {fnName f}@{st.pos} -> {fnName g}@{st'.pos}" fun _ => runChk n g e' st'
      else runChk n g e' st'
    match body rec' f e st with
    | .ok r st' =>
      let v := specViolations f st r st'
      if v.isEmpty then .ok r st'
      else dbgTrace s!"SPEC {fnName f} {v} pos {st.pos}->{st'.pos} len {st.len}->{st'.len} r={r}" fun _ => .ok r st'
    | x => x

def specRun (hex : String) : String :=
  match parseHexBytes hex with
  | some bs =>
    let s := bs.toArray
    if s.getD 0 0 == 95 && s.getD 1 0 == 90 then
      match runChk (8 * (s.size + 1)) .encoding { s := s, fx := Fixes.all } { pos := 0, len := s.size } with
      | .ok r st => s!"ok {r} {st.pos}"
      | .crash k => "CRASH " ++ crashName k
      | .fuel => "FUEL"
    else "skip"
  | none => "bad-op"

def handle (ws : List String) : String :=
  match ws with
  | ["dm", hex] => runOn Fixes.all hex
  | ["dmpre", hex] => runOn Fixes.none hex
  | ["spec", hex] => specRun hex
  | ["dmx", mask, hex] =>
    match parseMask mask with
    | some fx => runOn fx hex
    | none => "bad-op"
  | _ => "bad-op"

def model : Model := { σ := Unit, init := (), step := fun _ ws => ((), handle ws) }

end Driver.C13
