import Driver.Proto
import Uft.Model.Demangle
import Uft.Lemmas.DemangleMangle
/- C13 driver.
   dm <hex|->      -> result of the repaired model (all repairs)
   dmpre <hex|->   -> result of the model of the code as it is (no repair)
   dmx <6 x 0|1> <hex|->  -> result with the selected repairs (F10 F10b F10c F10d F10e F10g)
   output: <hex|->  the returned string | NULL | CRASH <kind> | FUEL
   cov <hex>       -> "ok": runs the repaired model and writes the production trace to stderr
                      (NAME / COV <fn> <c0> <c1> <type!=0> <templates!=0> / RET <fn> <ok>), used by the check
                      to report which grammar functions and branches the generated names exercise
   mg <fn|ctor|dtor|op> <k hex | op code hex | -> <params hex|-> <name hex> <scope hex>*
                   -> "<hex of mangle d> <hex of qualifiedName d>" for the `Decl` of the theorem
                      c13_mangle_demangle_partial (the Lean `mangle` is compared with the compilers)
-/
namespace Driver.C13
open Uft.Demangle

def crashName : Crash → String
  | .oob => "oob" | .negPos => "negPos" | .nullDeref => "nullDeref" | .tableOob => "tableOob"
  | .intOverflow => "intOverflow" | .negSize => "negSize"

def showResult : Result → String
  | .str bs => hexOfBytes bs
  | .null => "NULL"
  | .crash k => "CRASH " ++ crashName k
  | .outOfFuel => "FUEL"

def parseMask (m : String) : Option Fixes :=
  match m.toList.map (· == '1') with
  | [a, b, c, d, e, f, g, h, i] => if m.toList.all (fun x => x == '0' || x == '1') then some ⟨a, b, c, d, e, f, g, h, i⟩ else none
  | _ => none

def runOn (fx : Fixes) (hex : String) : String :=
  match parseHexBytes hex with
  | some bs => if bs.contains 0 then "bad-op" else showResult (demangle fx bs.toArray)
  | none => "bad-op"

/-! ### production trace (`cov`) -/

def fnName : Fn → String
  | .typeLoop _ => "typeLoop"
  | .ftLoop _ => "ftLoop"
  | f => ((toString (repr f)).replace "Uft.Demangle.Fn." "")

/-- `run` with every call of a grammar function logged to stderr -/
def runCov : Nat → Fn → M Int
  | 0, _ => fun _ _ => .fuel
  | n + 1, f => fun e st =>
    let c0 := if st.pos < st.len then (e.rd st.pos).getD 0 else 0
    let c1 := if st.pos + 1 < st.len then (e.rd (st.pos + 1)).getD 0 else 0
    let key := s!"COV {fnName f} {c0} {c1} {if st.type == 0 then 0 else 1} {if st.templates == 0 then 0 else 1}"
    dbgTrace key fun _ =>
      match body (runCov n) f e st with
      | .ok r st' => dbgTrace s!"RET {fnName f} {if r < 0 then 0 else 1}" fun _ => .ok r st'
      | x => x

def covRun (hex : String) : String :=
  match parseHexBytes hex with
  | some bs =>
    let s0 := bs.toArray
    let s := if globalPrefix.isPrefixOf bs then s0.extract 15 s0.size else s0
    if s.getD 0 0 == 95 && s.getD 1 0 == 90 then
      dbgTrace "NAME" fun _ =>
        let e : Env := { s := s, fx := Fixes.all }
        match runCov (fuelFor s) .encoding e { pos := 0, len := s.size } with
        | .ok r st =>
          if r ≥ 0 && st.level == 0 && st.pos < st.len && st.typeInfo then
            match runCov (fuelFor s) .name e st with
            | .ok _ _ => "ok"
            | _ => "ok"
          else "ok"
        | _ => "ok"
    else "skip"
  | none => "bad-op"

def mkLeaf (kind arg : String) : Option Leaf :=
  match kind, parseHexBytes arg with
  | "fn", _ => some .fn
  | "ctor", some [k] => some (.ctor k)
  | "dtor", some [k] => some (.dtor k)
  | "op", some [a, b] => (Uft.Gen.DemangleTables.ops.find? fun o => o.1 == a && o.2.1 == b).map Leaf.op
  | _, _ => none

def mangleCmd (kind arg params name : String) (scope : List String) : String :=
  match mkLeaf kind arg, parseHexBytes params, parseHexBytes name, scope.mapM parseHexBytes with
  | some leaf, some ps, some nm, some sc =>
    let d : Decl := { scope := sc, name := nm, leaf := leaf, params := ps }
    hexOfBytes (mangle d) ++ " " ++ hexOfBytes (qualifiedName d)
  | _, _, _, _ => "bad-op"

def handle (ws : List String) : String :=
  match ws with
  | ["dm", hex] => runOn Fixes.all hex
  | ["dmpre", hex] => runOn Fixes.none hex
  | ["cov", hex] => covRun hex
  | "mg" :: kind :: arg :: params :: name :: scope => mangleCmd kind arg params name scope
  | ["dmx", mask, hex] =>
    match parseMask mask with
    | some fx => runOn fx hex
    | none => "bad-op"
  | _ => "bad-op"

def model : Model := { σ := Unit, init := (), step := fun _ ws => ((), handle ws) }

end Driver.C13
