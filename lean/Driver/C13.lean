import Driver.Proto
import Uft.Model.Demangle
import Uft.Lemmas.DemangleMangle
/- C13 driver.
   dm <hex|->      -> result of the repaired model (all repairs)
   dmpre <hex|->   -> result of the model of the code as it is (no repair)
   dmx <6 x 0|1> <hex|->  -> result with the selected repairs (F10 F10b F10c F10d F10e F10g)
   output: <hex|->  the returned string | NULL | CRASH <kind> | FUEL
   mg <fn|ctor|dtor|op> <k hex | op code hex | -> <params hex|-> <name hex> <scope hex>*
                   -> "<hex of mangle d> <hex of qualifiedName d>" for the `Decl` of the theorem
                      c13_mangle_demangle_partial (the Lean `mangle` is compared with the compilers)
-/
namespace Driver.C13
open Uft.Demangle

def crashName : Crash → String
  | .oob => "oob" | .negPos => "negPos" | .nullDeref => "nullDeref" | .tableOob => "tableOob"
  | .intOverflow => "intOverflow" | .negSize => "negSize"

def showResult : Result → String
  | .str bs => hexOfBytes bs
  | .null => "NULL"
  | .crash k => "CRASH " ++ crashName k
  | .outOfFuel => "FUEL"

def parseMask (m : String) : Option Fixes :=
  match m.toList.map (· == '1') with
  | [a, b, c, d, e, f] => if m.toList.all (fun x => x == '0' || x == '1') then some ⟨a, b, c, d, e, f⟩ else none
  | _ => none

def runOn (fx : Fixes) (hex : String) : String :=
  match parseHexBytes hex with
  | some bs => if bs.contains 0 then "bad-op" else showResult (demangle fx bs.toArray)
  | none => "bad-op"

def mkLeaf (kind arg : String) : Option Leaf :=
  match kind, parseHexBytes arg with
  | "fn", _ => some .fn
  | "ctor", some [k] => some (.ctor k)
  | "dtor", some [k] => some (.dtor k)
  | "op", some [a, b] => (Uft.Gen.DemangleTables.ops.find? fun o => o.1 == a && o.2.1 == b).map Leaf.op
  | _, _ => none

def mangleCmd (kind arg params name : String) (scope : List String) : String :=
  match mkLeaf kind arg, parseHexBytes params, parseHexBytes name, scope.mapM parseHexBytes with
  | some leaf, some ps, some nm, some sc =>
    let d : Decl := { scope := sc, name := nm, leaf := leaf, params := ps }
    hexOfBytes (mangle d) ++ " " ++ hexOfBytes (qualifiedName d)
  | _, _, _, _ => "bad-op"

def handle (ws : List String) : String :=
  match ws with
  | ["dm", hex] => runOn Fixes.all hex
  | ["dmpre", hex] => runOn Fixes.none hex
  | "mg" :: kind :: arg :: params :: name :: scope => mangleCmd kind arg params name scope
  | ["dmx", mask, hex] =>
    match parseMask mask with
    | some fx => runOn fx hex
    | none => "bad-op"
  | _ => "bad-op"

def model : Model := { σ := Unit, init := (), step := fun _ ws => ((), handle ws) }

end Driver.C13
