import Driver.Proto
import Uft.Model.Demangle
/- C13 driver.
   dm <hex|->      -> result of the repaired model (fixed = true)
   dmpre <hex|->   -> result of the model of the code as it is (fixed = false)
   output: <hex|->  the returned string | NULL | CRASH <kind> | FUEL
-/
namespace Driver.C13
open Uft.Demangle

def crashName : Crash → String
  | .oob => "oob" | .negPos => "negPos" | .nullDeref => "nullDeref" | .tableOob => "tableOob"
  | .intOverflow => "intOverflow" | .negSize => "negSize"

def showResult : Result → String
  | .str bs => hexOfBytes bs
  | .null => "NULL"
  | .crash k => "CRASH " ++ crashName k
  | .outOfFuel => "FUEL"

def handle (ws : List String) : String :=
  match ws with
  | [cmd, hex] =>
    if cmd != "dm" && cmd != "dmpre" then "bad-op" else
    match parseHexBytes hex with
    | some bs =>
      if bs.contains 0 then "bad-op" else
      showResult (demangle (cmd == "dm") bs.toArray)
    | none => "bad-op"
  | _ => "bad-op"

def model : Model := { σ := Unit, init := (), step := fun _ ws => ((), handle ws) }

end Driver.C13
