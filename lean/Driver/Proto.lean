/- Line-protocol plumbing shared by all model drivers (core-only). -/
namespace Driver

/-- A model behind the line protocol: one output line per input line. -/
structure Model where
  σ : Type
  init : σ
  step : σ → List String → σ × String

def words (line : String) : List String :=
  (line.trimAscii.toString.splitOn " ").filter (· ≠ "")

def hexVal (c : Char) : Option Nat :=
  if '0' ≤ c ∧ c ≤ '9' then some (c.toNat - '0'.toNat)
  else if 'a' ≤ c ∧ c ≤ 'f' then some (c.toNat - 'a'.toNat + 10)
  else if 'A' ≤ c ∧ c ≤ 'F' then some (c.toNat - 'A'.toNat + 10)
  else none

def parseHexBytes (s : String) : Option (List UInt8) :=
  let rec go : List Char → List UInt8 → Option (List UInt8)
    | [], acc => some acc.reverse
    | [_], _ => none
    | a :: b :: r, acc =>
      match hexVal a, hexVal b with
      | some x, some y => go r (UInt8.ofNat (x * 16 + y) :: acc)
      | _, _ => none
  if s = "-" then some [] else go s.toList []

def hexDigit (n : Nat) : Char :=
  if n < 10 then Char.ofNat (n + '0'.toNat) else Char.ofNat (n - 10 + 'a'.toNat)

def hexOfBytes (bs : List UInt8) : String :=
  if bs.isEmpty then "-" else
  String.ofList (bs.flatMap fun b => [hexDigit (b.toNat / 16), hexDigit (b.toNat % 16)])

def parseHexNat (s : String) : Option Nat :=
  let s := if s.startsWith "0x" then (s.drop 2).toString else s
  if s.isEmpty then none else
  s.toList.foldl (fun acc c => match acc, hexVal c with
    | some a, some v => some (a * 16 + v)
    | _, _ => none) (some 0)

partial def loop (m : Model) (h : IO.FS.Stream) (out : IO.FS.Stream) (s : m.σ) : IO Unit := do
  let line ← h.getLine
  if line.isEmpty then return ()
  let ws := words line
  if ws.isEmpty || (ws.head!.startsWith "#") then
    loop m h out s
  else
    let (s', o) := m.step s ws
    out.putStrLn o
    loop m h out s'

end Driver
