import Driver.Proto
import Driver.Mcount
import Uft.Model.Script
/- C18 driver.

   Analysis time (one line in, one line out):
     RUN  <opt>… | <task 0 records> | <task 1 records> | …     -> callbacks of `uftrace script`
     SHOW <opt>… | …                                           -> lines of `uftrace replay --no-merge`
       opt:    depth=<n> modein=<0|1> thr=<n> showargs=<0|1> argsfixed=<0|1> exitaddr=<0|1>
               F=<fn,…> N=<fn,…> funcs=<fn,…> argtrig=<fn,…>      (function numbers; `-` = none)
               fix=<fn>:<e|s|l|f>,…   fix-up symbols: exec, setjmp, longjmp, fork     parent=<task>:<parent task>,…
       record: E:<time>:<depth>:<fn>:<payload>  |  X:<time>:<depth>:<fn>:<payload>
       output: B E:<tid>:<depth>:<time>:<fn>:<args> X:<tid>:<depth>:<time>:<dur>:<fn>:<args> … END
               (tid = index of the task; SHOW prints the same tokens without B / END)

   Record time (stateful, the ops of harness/h1_c18_driver.c):
     HRESET | HCFG k=v… (Driver.Mcount keys + fixed=<0|1> funcs=<fn,…>) | HTRIG <fn> item… |
     HFSIZE <fn> <n> | T <n> | TH <k> | E pg|cyg <fn> | X | END
       output of E / X: the script hooks that ran: `-` | E:<fn>:<depth>:<start> | X:<fn>:<depth>:<start>:<dur>
-/
namespace Driver.C18
open Uft.Script

def parseList (s : String) : List Nat :=
  if s = "-" || s = "" then [] else (s.splitOn ",").filterMap (·.toNat?)

/-- function numbers of the analysis-time lines: function `n` has model address `n + 1`, so that address 0
    — what a frame slot holds that no ENTRY has filled — is not a function; printed back as `n`, 0 as `none` -/
def parseFns (s : String) : List Nat := (parseList s).map (· + 1)

def parsePairs (s : String) : List (String × String) :=
  if s = "-" || s = "" then [] else
  (s.splitOn ",").filterMap fun w => match w.splitOn ":" with
    | [a, b] => some (a, b)
    | _ => none

def kindOf (s : String) : FixKind :=
  match s with
  | "e" => .exec
  | "s" => .setjmp
  | "l" => .longjmp
  | "f" => .fork
  | _ => .none

def applyOpt (c : Cfg × Nat) (item : String) : Cfg × Nat :=
  let (k, v) := Driver.Mcount.kv item
  let n := v.toNat?.getD 0
  match k with
  | "depth" => ({ c.1 with depth := n }, c.2)
  | "modein" => ({ c.1 with modeIn := n != 0 }, c.2)
  | "thr" => (c.1, n)
  | "showargs" => ({ c.1 with showArgs := n != 0 }, c.2)
  | "argsfixed" => ({ c.1 with argsFixed := n != 0 }, c.2)
  | "exitaddr" => ({ c.1 with exitAddrFixed := n != 0 }, c.2)
  | "F" =>
    let l := parseFns v
    let old := c.1.filt
    ({ c.1 with filt := fun a => if l.contains a then some true else old a }, c.2)
  | "N" =>
    let l := parseFns v
    let old := c.1.filt
    ({ c.1 with filt := fun a => if l.contains a then some false else old a }, c.2)
  | "funcs" => ({ c.1 with funcs := parseFns v }, c.2)
  | "fix" =>
    let l := (parsePairs v).filterMap fun (a, b) => a.toNat?.map fun n => (n + 1, kindOf b)
    ({ c.1 with fix := fun a => (l.lookup a).getD .none }, c.2)
  | "parent" =>
    let l := (parsePairs v).filterMap fun (a, b) => match a.toNat?, b.toNat? with
      | some x, some y => some (x, y)
      | _, _ => none
    ({ c.1 with parent := fun i => l.lookup i }, c.2)
  | "argtrig" =>
    let l := parseFns v
    ({ c.1 with argTrig := fun a => l.contains a }, c.2)
  | _ => c

def parseRec (tok : String) : Option Rec :=
  match tok.splitOn ":" with
  | [k, t, d, a, p] =>
    match t.toNat?, d.toNat?, a.toNat?, p.toNat? with
    | some t, some d, some a, some p =>
      if k = "E" then some { time := t, exit := false, depth := d, addr := a + 1, payload := p }
      else if k = "X" then some { time := t, exit := true, depth := d, addr := a + 1, payload := p }
      else none
    | _, _, _, _ => none
  | _ => none

def splitBar (ws : List String) : List (List String) :=
  ws.foldr (fun w acc => if w = "|" then [] :: acc else
    match acc with
    | [] => [[w]]
    | a :: r => (w :: a) :: r) [[]]

def showFn (a : Nat) : String := if a = 0 then "none" else toString (a - 1)

def showCtx (k : String) (withDur : Bool) (c : Ctx) : String :=
  if withDur then s!"{k}:{c.tid}:{c.depth}:{c.time}:{c.dur}:{showFn c.addr}:{c.args}"
  else s!"{k}:{c.tid}:{c.depth}:{c.time}:{showFn c.addr}:{c.args}"

def showCb : Cb → String
  | .begin => "B"
  | .end_ => "END"
  | .entry c => showCtx "E" false c
  | .exit c => showCtx "X" true c

def handle (cmd : String) (ws : List String) : String :=
  match splitBar ws with
  | opts :: tasks =>
    let (cfg, thr) := opts.foldl applyOpt (({} : Cfg), 0)
    let ts := tasks.map fun t => t.filterMap parseRec
    if (tasks.map List.length) != (ts.map List.length) then "bad-record" else
    let stream := readAll thr ts
    if cmd = "RUN" then " ".intercalate ((scriptRunX cfg stream).2.map showCb)
    else
      let l := (replayShownX cfg stream).2.map fun l => showCb l.toCb
      if l.isEmpty then "-" else " ".intercalate l
  | [] => "bad-op"

/-! record-time part -/
open Uft.Mcount in
structure HS where
  cfg : Uft.Mcount.Cfg := {}
  trigs : List (Nat × Trigger) := []
  sizes : List (Nat × Nat) := []
  fixed : Bool := true
  funcs : List Nat := []
  now : Nat := 1000
  cur : Nat := 0
  enabled : Option Bool := none                 -- the global mcount_enabled (none: not started)
  threads : List (Nat × St) := []               -- per-thread hook state
  stacks : List (Nat × List Bool) := []         -- per thread and open script call: did the hook take it

open Uft.Mcount in
def HS.fullCfg (d : HS) : Uft.Mcount.Cfg :=
  { d.cfg with trig := fun f => (d.trigs.lookup f).getD {}, fsize := fun f => (d.sizes.lookup f).getD 16 }

def setAssoc {α : Type} (l : List (Nat × α)) (k : Nat) (v : α) : List (Nat × α) :=
  (k, v) :: l.filter (·.1 != k)

open Uft.Mcount Uft.Script.Hook in
def hstep (d : HS) (ws : List String) : HS × String :=
  match ws with
  | ["HRESET"] => ({}, "ok")
  | "HCFG" :: items =>
    let d1 := items.foldl (fun (d : HS) it =>
      let (k, v) := Driver.Mcount.kv it
      if k = "fixed" then { d with fixed := v != "0" }
      else if k = "funcs" then { d with funcs := parseList v }
      else { d with cfg := Driver.Mcount.applyCfg d.cfg it }) d
    (d1, "ok")
  | "HTRIG" :: fn :: items =>
    match fn.toNat? with
    | some f => ({ d with trigs := (f, items.foldl Driver.Mcount.applyTrig {}) :: d.trigs }, "ok")
    | none => (d, "bad-op")
  | ["HFSIZE", fn, n] =>
    match fn.toNat?, n.toNat? with
    | some f, some n => ({ d with sizes := (f, n) :: d.sizes }, "ok")
    | _, _ => (d, "bad-op")
  | ["T", n] =>
    match n.toNat? with
    | some n => ({ d with now := n }, "ok")
    | none => (d, "bad-op")
  | ["TH", k] =>
    match k.toNat? with
    | some k => ({ d with cur := k }, "ok")
    | none => (d, "bad-op")
  | ["E", k, fn] =>
    match fn.toNat? with
    | some f =>
      let cfg := d.fullCfg
      let kind := if k == "cyg" then Kind.cyg else Kind.pg
      let en := d.enabled.getD cfg.enabled0
      -- a new thread: mtdp->enable_cached = mcount_enabled (mcount.c:489)
      let s0 := { (d.threads.lookup d.cur).getD { St.init cfg with enableCached := en } with enabled := en }
      let r := entry cfg kind s0 f d.now
      let log := logEntry d.funcs (entryHook cfg kind s0 f d.now)
      let stk := (d.stacks.lookup d.cur).getD []
      ({ d with enabled := some r.1.enabled, threads := setAssoc d.threads d.cur r.1,
                stacks := setAssoc d.stacks d.cur (r.2 :: stk) },
       showLog log)
    | none => (d, "bad-op")
  | ["X"] =>
    match (d.stacks.lookup d.cur).getD [] with
    | [] => (d, "bad-op")
    | took :: rest =>
      let cfg := d.fullCfg
      let en := d.enabled.getD cfg.enabled0
      let s0 := { (d.threads.lookup d.cur).getD (St.init cfg) with enabled := en }
      let log := if took then logExit d.funcs (exitHook d.fixed cfg s0 d.now) else []
      let s1 := if took then exit cfg s0 d.now else s0
      ({ d with enabled := some s1.enabled, threads := setAssoc d.threads d.cur s1,
                stacks := setAssoc d.stacks d.cur rest },
       showLog log)
  | ["END"] => (d, "end")
  | _ => (d, "bad-op")
where
  showLog (l : List Uft.Script.Hook.HookEv) : String :=
    if l.isEmpty then "-" else " ".intercalate (l.map fun
      | .entry c => s!"E:{c.addr}:{c.depth}:{c.start}"
      | .exit c => s!"X:{c.addr}:{c.depth}:{c.start}:{c.dur}")

def step (d : HS) (ws : List String) : HS × String :=
  match ws with
  | "RUN" :: rest => (d, handle "RUN" rest)
  | "SHOW" :: rest => (d, handle "SHOW" rest)
  | _ => hstep d ws

def model : Model := { σ := HS, init := {}, step := step }

end Driver.C18
