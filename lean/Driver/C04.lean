import Driver.C03
/- C04 shares the Shmem/Writers/Crash driver with C03 (see Driver/C03.lean for the protocol). -/
namespace Driver.C04
def model : Model := Driver.C03.model
end Driver.C04
