import Driver.Proto
import Uft.Model.DirGuard
/- C20 driver.
   cd <d> <old> <faults|-> | <tree tokens>      -> "ok=<0|1> | <canonical tree>"
   cdpre … (same, pre-fix code)
   live <tmp> <faults|-> | <tree> | <filled>    -> "<canonical tree>"
   trace <faults|-> <ev>,<ev>,… | <tree> | <filled 1> | <filled 2> …
     an execution path of a command (Model/DirGuard `stepEv`): c:<name> create_directory(name) (the
     model says whether it succeeds; the k-th successful one is then filled with <filled k>),
     r:<name> remove_directory(name), f:<name> mkstemp+unlink (a no-op on the tree)
     -> "res=<0|1 per c:> g=<guarded? 0|1> | <canonical tree>"
   tree tokens: F <name> <hex|->   L <name> <target>   D <name> … E
-/
namespace Driver.C20
open Uft.DirGuard

partial def parseEnts : List String → Option (Ents × List String)
  | "F" :: name :: hex :: rest =>
    match parseHexBytes hex, parseEnts rest with
    | some bs, some (es, r) => some (.cons name (.file bs) es, r)
    | _, _ => none
  | "L" :: name :: target :: rest =>
    match parseEnts rest with
    | some (es, r) => some (.cons name (.link target) es, r)
    | none => none
  | "D" :: name :: rest =>
    match parseEnts rest with
    | some (sub, "E" :: r) =>
      match parseEnts r with
      | some (es, r2) => some (.cons name (.dir sub) es, r2)
      | none => none
    | _ => none
  | rest => some (.nil, rest)

def insertSorted (name : String) (n : Node) : Ents → Ents
  | .nil => .cons name n .nil
  | .cons m x r => if name < m then .cons name n (.cons m x r) else .cons m x (insertSorted name n r)

mutual
  def sortNode : Node → Node
    | .file d => .file d
    | .link t => .link t
    | .dir es => .dir (sortEnts es)
  def sortEnts : Ents → Ents
    | .nil => .nil
    | .cons n x r => insertSorted n (sortNode x) (sortEnts r)
end

mutual
  def showNode (name : String) : Node → List String
    | .file d => ["F", name, hexOfBytes d]
    | .link t => ["L", name, t]
    | .dir es => ["D", name] ++ showEnts es ++ ["E"]
  def showEnts : Ents → List String
    | .nil => []
    | .cons n x r => showNode n x ++ showEnts r
end

def render (es : Ents) : String := " ".intercalate (showEnts (sortEnts es))

def parseSys : String → Option Sys
  | "stat" => some .stat | "unlink" => some .unlink | "rmdir" => some .rmdir
  | "rename" => some .rename | "mkdir" => some .mkdir | "fopen" => some .fopen
  | _ => none

def parseFaults (s : String) : Option (List (Sys × Nat)) :=
  if s = "-" then some [] else
  (s.splitOn ",").foldr (fun item acc =>
    match acc, item.splitOn ":" with
    | some l, [k, n] =>
      match parseSys k, n.toNat? with
      | some k, some n => some ((k, n) :: l)
      | _, _ => none
    | _, _ => none) (some [])

def splitBar (ws : List String) : List (List String) :=
  ws.foldr (fun w acc => if w = "|" then [] :: acc else
    match acc with
    | [] => [[w]]
    | a :: r => (w :: a) :: r) [[]]

structure TraceRun where
  st : Env × Ents
  fills : List Ents
  res : String := ""
  evs : List DEv := []
  bad : Bool := false

def traceStep (r : TraceRun) (t : String) : TraceRun :=
  match t.splitOn ":" with
  | ["c", n] =>
    let cr := createDirectory r.st.1 r.st.2 n (n ++ ".old")
    if cr.ok then
      let fl := r.fills.headD .nil
      match stepEv id (fun _ => fl) r.st (.createOk n) with
      | some st2 => { r with st := st2, fills := r.fills.drop 1, res := r.res ++ "1", evs := r.evs ++ [.createOk n] }
      | none => { r with bad := true }
    else
      match stepEv id (fun _ => .nil) r.st (.createFail n) with
      | some st2 => { r with st := st2, res := r.res ++ "0", evs := r.evs ++ [.createFail n] }
      | none => { r with bad := true }
  | ["r", n] =>
    match stepEv id (fun _ => .nil) r.st (.remove n) with
    | some st2 => { r with st := st2, evs := r.evs ++ [.remove n] }
    | none => { r with bad := true }
  | ["f", n] =>
    -- the harness does nothing for it; for the guard it counts only when the name is really free
    if (r.st.2.get n).isNone then { r with evs := r.evs ++ [.fresh n] } else r
  | _ => { r with bad := true }

def handleTrace (fl evs : String) (parts : List (List String)) : String :=
  match parts with
  | tree :: filled =>
    match parseFaults fl, parseEnts tree with
    | some faults, some (fs, []) =>
      let fills := filled.map fun f => match parseEnts f with | some (es, []) => es | _ => .nil
      let r := (evs.splitOn ",").foldl traceStep { st := ({ faults := faults }, fs), fills := fills }
      if r.bad then "bad-op" else
      s!"res={r.res} g={if guarded r.evs then 1 else 0} | {render r.st.2}"
    | _, _ => "bad-op"
  | [] => "bad-op"

def handle (ws : List String) : String :=
  match splitBar ws with
  | ["trace", fl, evs] :: parts => handleTrace fl evs parts
  | [[cmd, d, old, fl], tree] =>
    match parseFaults fl, parseEnts tree with
    | some faults, some (fs, []) =>
      let fixed := cmd != "cdpre"
      if cmd != "cd" && cmd != "cdpre" then "bad-op" else
      let r := createDirectoryG fixed { faults := faults } fs d old
      s!"ok={if r.ok then 1 else 0} | {render r.fs}"
    | _, _ => "bad-op"
  | [["live", tmp, fl], tree, filled] =>
    match parseFaults fl, parseEnts tree, parseEnts filled with
    | some faults, some (fs, []), some (fl, []) =>
      render (liveRun { faults := faults } fs tmp fl)
    | _, _, _ => "bad-op"
  | _ => "bad-op"

def model : Model := { σ := Unit, init := (), step := fun _ ws => ((), handle ws) }

end Driver.C20
