import Driver.Proto
import Uft.Model.Argbuf
import Uft.Model.MemRegion
/- C09 driver (model `Argbuf`).
   FIX <nullMarker 0|1> <bounds 0|1>                 -> ok
   FN <k> <spec> …                                    -> ok      spec = idx:fmt:size:ty:loc:sregs  (fmt one of diuxoscfSpet, sregs a.b.c or -)
   ADDR <k> <hexaddr>                                 -> ok
   FILL <hexbyte>                                     -> ok      (memory := constant)
   E <k> <machine tokens>   /   X <k> <machine tokens>
        -> res=<ok|toobig|oob> total=<n> hi=<n> pay=<hex|none> mem=<hex of [4, 2048) without trailing fill> otext=<hex>
      machine tokens: r=<h,…> x=<h,…> s=<h,…> sok=<0|1> rv=<h> fp=<h> st0=<h> str=<addr>:<hex|->;… obj=<addr>:<data>;… reg=<start>:<end>;…  (mapped readable regions)
   REC <time> <type> <depth> <hexaddr> <hex|none>     -> hex of recordBytes
   PARSE <k> <E|X> <hex>                              -> data=<hex> rest=<n> text=<hex>   |  fail
   DECODE <hex>                                       -> time:type:depth:addr:<hex|none> …  | fail
   check_mem_region / copy loop (model `MemRegion`), one thread:
   MR FIX <0|1>                                       -> ok      (0 = the code as it is, 1 = the repaired probe; resets the cache)
   MR SPACE <start>:<stop>:<r|n>:<p|h|s>;…            -> ok      (the address space is now this: lines of /proc/self/maps)
   MR MEM <fillhex> <addr>:<hex>;…|-                  -> ok      (memory contents)
   MR CHK <hexaddr>                                   -> chk=<0|1> now=<0|1> tidy=<0|1> n=<entries>   (check_mem_region alone; the cache is updated)
   MR STR <hexptr> <room>  /  MR OBJ <hexbase> <room> -> null | bad=<hex> | str=<hex|-> | fault=<hex> why=<pagecross|heapslack|stackslack|stale>
                                                         followed by " tidy=<0|1> n=<cache entries>"
   DUMPRAW <fixed 0|1> <size> <hex>                   -> v=<hex> wr=<bytes stored into the 8-byte temporary>
   option sources (the writer's and the reader's spec list of a function):
   SRC FIX <ret 0|1> <auto 0|1> <compat 0|1>         -> ok      (XFix; 0 0 0 = the code as it is)
   SRC AUTO <f> <A|R> <spec> …                        -> ok      (what the auto-args table / DWARF know about function f)
   SRC RESET                                          -> ok      (forget the auto table)
   SRC LISTS <nf> <item> …                            -> "f=<k> w=<lspec,…|-> r=<lspec,…|-> la=<0|1> lr=<0|1>" per function k < nf with an entry, joined by " | " ("-" if none)
   SRC INFO <item> …                                  -> args=<xitem;…|-> rets=<xitem;…|-> old=<0|1>
        item  = <T|A|R>/<tag>/<exact>/<auto-args>/<name has "retval">/<f.f.f|->/<spec;spec|->
        lspec = <spec>:<exact>      xitem = <T|A|R><tag>@<spec,spec|->
-/
namespace Driver.C09
open Uft.Argbuf

structure SrcSt where
  xf : XFix := XFix.none
  auto : List ((Nat × Bool) × List Spec) := []

structure DS where
  fx : Fix := Fix.none
  fns : List (Nat × List Spec) := []
  addrs : List (Nat × Nat) := []       -- addr ↦ k
  fill : Byte := 0
  mem : Mem := ⟨fun _ => 0, 0⟩
  mrFixed : Bool := false
  cache : Uft.MemRegion.Cache := {}
  space : Uft.MemRegion.Space := []
  cont : Uft.MemRegion.Contents := {}
  src : SrcSt := {}

def parseFmt : String → Option Fmt
  | "d" => some .auto | "i" => some .sint | "u" => some .uint | "x" => some .hex | "o" => some .oct
  | "s" => some .str | "c" => some .chr | "f" => some .flt | "S" => some .stdstr | "p" => some .ptr
  | "e" => some .enm | "t" => some .strct | _ => none

def parseSpec (s : String) : Option Spec :=
  match s.splitOn ":" with
  | [idx, fmt, size, ty, loc, sregs] =>
    match idx.toNat?, parseFmt fmt, size.toNat?, ty.toNat?, loc.toNat? with
    | some idx, some fmt, some size, some ty, some loc =>
      let rs := if sregs = "-" then some [] else
        (sregs.splitOn ".").foldr (fun x acc => match acc, x.toNat? with
          | some l, some n => some (n :: l) | _, _ => none) (some [])
      rs.map fun rs => { idx, fmt, size, ty, loc, sregs := rs }
    | _, _, _, _, _ => none
  | _ => none

def parseList {α : Type} (f : String → Option α) (s : String) (sep : String) : Option (List α) :=
  if s = "-" || s = "" then some [] else
  (s.splitOn sep).foldr (fun x acc => match acc, f x with
    | some l, some v => some (v :: l) | _, _ => none) (some [])

def parseMachine (ws : List String) : Option Machine :=
  ws.foldl (fun acc w =>
    match acc with
    | none => none
    | some (m : Machine) =>
      match w.splitOn "=" with
      | ["r", v] => (parseList parseHexNat v ",").map fun l => { m with regs := l }
      | ["x", v] => (parseList parseHexNat v ",").map fun l => { m with xmm := l }
      | ["s", v] => (parseList parseHexNat v ",").map fun l => { m with stack := l }
      | ["sok", v] => some { m with stackOk := v != "0" }
      | ["rv", v] => (parseHexNat v).map fun n => { m with retval := n }
      | ["fp", v] => (parseHexNat v).map fun n => { m with fpret := n }
      | ["st0", v] => (parseHexNat v).map fun n => { m with st0 := n }
      | ["str", v] =>
        (parseList (fun e => match e.splitOn ":" with
          | [a, h] => match parseHexNat a, parseHexBytes h with
            | some a, some bs => some (a, bs) | _, _ => none
          | _ => none) v ";").map fun l => { m with strs := l }
      | ["reg", v] =>
        (parseList (fun e => match e.splitOn ":" with
          | [a, d] => match parseHexNat a, parseHexNat d with
            | some a, some d => some (a, d) | _, _ => none
          | _ => none) v ";").map fun l => { m with regions := l }
      | ["obj", v] =>
        (parseList (fun e => match e.splitOn ":" with
          | [a, d] => match parseHexNat a, parseHexNat d with
            | some a, some d => some (a, d) | _, _ => none
          | _ => none) v ";").map fun l => { m with objs := l }
      | _ => none) (some {})

def hexs (bs : List Byte) : String := hexOfBytes bs

/-- bytes [4, 2048) without the trailing bytes equal to the fill byte -/
def memDump (m : Mem) (fill : Byte) : List Byte :=
  ((m.rd 4 2044).reverse.dropWhile (· == fill)).reverse

def call (s : DS) (isRet : Bool) (k : Nat) (mc : Machine) : DS × String :=
  let specs := sel isRet ((s.fns.lookup k).getD [])
  let vals := fetchAll s.fx mc isRet specs 0
  let st := packRun s.fx specs vals (St.init s.mem)
  let res := packArgs s.fx specs vals s.mem
  let (r, pay) := match res with
    | .ok p => ("ok", hexs p)
    | .error .oob => ("oob", if st.total > maxSize s.fx then "none" else hexs st.payload)
    | .error .tooBig => ("toobig", "none")
  let otext := renderAll isRet specs ((specs.zip vals).map fun p => obs s.fx p.1 p.2)
  ({ s with mem := st.mem },
   s!"res={r} total={st.total} hi={st.mem.hi} pay={pay} mem={hexs (memDump st.mem s.fill)} otext={hexs otext}")

def showRec (r : Rec) : String :=
  s!"{r.time}:{r.type}:{r.depth}:{r.addr}:" ++ (match r.data with | some d => hexs d | none => "none")

def step (s : DS) (ws : List String) : DS × String :=
  match ws with
  | ["FIX", a, b] => ({ s with fx := ⟨a != "0", b != "0"⟩ }, "ok")
  | "FN" :: k :: specs =>
    match k.toNat?, specs.foldr (fun x acc => match acc, parseSpec x with
        | some l, some v => some (v :: l) | _, _ => none) (some []) with
    | some k, some l => ({ s with fns := (k, l) :: s.fns.filter (·.1 != k) }, "ok")
    | _, _ => (s, "bad-op")
  | ["ADDR", k, a] =>
    match k.toNat?, parseHexNat a with
    | some k, some a => ({ s with addrs := (a, k) :: s.addrs }, "ok")
    | _, _ => (s, "bad-op")
  | ["FILL", b] =>
    match parseHexNat b with
    | some b => ({ s with fill := UInt8.ofNat b, mem := ⟨fun _ => UInt8.ofNat b, 0⟩ }, "ok")
    | none => (s, "bad-op")
  | "E" :: k :: mws =>
    match k.toNat?, parseMachine mws with
    | some k, some mc => call s false k mc
    | _, _ => (s, "bad-op")
  | "X" :: k :: mws =>
    match k.toNat?, parseMachine mws with
    | some k, some mc => call s true k mc
    | _, _ => (s, "bad-op")
  | ["REC", t, ty, d, a, p] =>
    match t.toNat?, ty.toNat?, d.toNat?, parseHexNat a with
    | some t, some ty, some d, some a =>
      let pl := if p = "none" then some none else (parseHexBytes p).map some
      match pl with
      | some pl => (s, hexs (recordBytes t ty d a pl))
      | none => (s, "bad-op")
    | _, _, _, _ => (s, "bad-op")
  | ["PARSE", k, dir, h] =>
    match k.toNat?, parseHexBytes h with
    | some k, some bs =>
      let isRet := dir == "X"
      let specs := sel isRet ((s.fns.lookup k).getD [])
      match readArgs specs bs with
      | some (data, rest) =>
        (s, s!"data={hexs data} rest={rest.length} text={hexs (renderAll isRet specs (decodeVals specs data))}")
      | none => (s, "fail")
    | _, _ => (s, "bad-op")
  | ["DECODE", h] =>
    match parseHexBytes h with
    | some bs =>
      let specOf := fun a => match s.addrs.lookup a with
        | some k => (s.fns.lookup k).getD []
        | none => []
      match decodeAll specOf bs.length bs with
      | some rs => (s, if rs.isEmpty then "-" else " ".intercalate (rs.map showRec))
      | none => (s, "fail")
    | none => (s, "bad-op")
  | _ => (s, "bad-op")

def hexOfNat (n : Nat) : String := String.mk (Nat.toDigits 16 n)

def parseMapping (e : String) : Option Uft.MemRegion.Mapping :=
  match e.splitOn ":" with
  | [a, b, r, k] =>
    match parseHexNat a, parseHexNat b with
    | some a, some b =>
      let kind := if k = "h" then Uft.MemRegion.Kind.heap else if k = "s" then Uft.MemRegion.Kind.stack else .plain
      some { start := a, stop := b, r := r == "r", kind := kind }
    | _, _ => none
  | _ => none

def showOutcome (o : Uft.MemRegion.Outcome) (c : Uft.MemRegion.Cache) (sp : Uft.MemRegion.Space) (p : Nat) : String :=
  match o with
  | .null => "null"
  | .bad a => s!"bad={hexOfNat a}"
  | .str bs => "str=" ++ (if bs.isEmpty then "-" else hexs bs)
  | .fault a => s!"fault={hexOfNat a} why={Uft.MemRegion.why c sp p}"

def stepMR (s : DS) (ws : List String) : DS × String :=
  match ws with
  | ["FIX", a] => ({ s with mrFixed := a != "0", cache := {} }, "ok")
  | ["SPACE", v] =>
    match parseList parseMapping v ";" with
    | some l => ({ s with space := l }, "ok")
    | none => (s, "bad-op")
  | ["MEM", f, v] =>
    match parseHexNat f, parseList (fun e => match e.splitOn ":" with
        | [a, h] => match parseHexNat a, parseHexBytes h with
          | some a, some bs => some (a, bs) | _, _ => none
        | _ => none) v ";" with
    | some f, some l => ({ s with cont := { chunks := l, fill := UInt8.ofNat f } }, "ok")
    | _, _ => (s, "bad-op")
  | ["CHK", p] =>
    match parseHexNat p with
    | some p =>
      let k := Uft.MemRegion.check s.mrFixed s.cache s.space p
      ({ s with cache := k.2 },
       s!"chk={if k.1 then 1 else 0} now={if Uft.MemRegion.readable s.space p then 1 else 0} tidy={if k.2.tidy then 1 else 0} n={k.2.regions.length}")
    | none => (s, "bad-op")
  | [op, p, room] =>
    match parseHexNat p, room.toNat? with
    | some p, some room =>
      if op = "STR" ∨ op = "OBJ" then
        let o := if op = "STR" then Uft.MemRegion.strCall s.mrFixed s.cache s.space s.cont.get p room
                 else Uft.MemRegion.objCall s.mrFixed s.cache s.space s.cont.get p room
        ({ s with cache := o.2 },
         showOutcome o.1 o.2 s.space p ++ s!" tidy={if o.2.tidy then 1 else 0} n={o.2.regions.length}")
      else (s, "bad-op")
    | _, _ => (s, "bad-op")
  | _ => (s, "bad-op")

def fmtLetter : Fmt → String
  | .auto => "d" | .sint => "i" | .uint => "u" | .hex => "x" | .oct => "o" | .str => "s" | .chr => "c"
  | .flt => "f" | .stdstr => "S" | .ptr => "p" | .enm => "e" | .strct => "t"

def showSpec (sp : Spec) : String :=
  s!"{sp.idx}:{fmtLetter sp.fmt}:{sp.size}:{sp.ty}:{sp.loc}:" ++
    (if sp.sregs.isEmpty then "-" else ".".intercalate (sp.sregs.map toString))

def showLSpec (o : LSpec) : String := showSpec o.sp ++ (if o.exact then ":1" else ":0")

def parseItem (w : String) : Option (Src × Item) :=
  match w.splitOn "/" with
  | [src, tag, ex, au, nr, fns, specs] =>
    let src? : Option Src := if src = "T" then some .trig else if src = "A" then some .arg else if src = "R" then some .ret else none
    match src?, tag.toNat?, parseList (fun x => x.toNat?) fns ".", parseList parseSpec specs ";" with
    | some src, some tag, some fns, some specs =>
      some (src, { tag := tag, fns := fns, exact := ex != "0", specs := specs, autoArgs := au != "0", nameRetval := nr != "0" })
    | _, _, _, _ => none
  | _ => none

def parseItems (ws : List String) : Option (List Item × List Item × List Item) :=
  ws.foldr (fun w acc => match acc, parseItem w with
    | some (t, a, r), some (.trig, it) => some (it :: t, a, r)
    | some (t, a, r), some (.arg, it) => some (t, it :: a, r)
    | some (t, a, r), some (.ret, it) => some (t, a, it :: r)
    | _, _ => none) (some ([], [], []))

def showXItems (pfx : String) (l : List Item) : List String :=
  l.map fun it => s!"{pfx}{it.tag}@" ++ (if it.specs.isEmpty then "-" else ",".intercalate (it.specs.map showSpec))

def SrcSt.autoFn (s : SrcSt) : Nat → Bool → List Spec := fun f b => (s.auto.lookup (f, b)).getD []

def stepSrc (s : SrcSt) (ws : List String) : SrcSt × String :=
  match ws with
  | ["FIX", a, b, c] => ({ s with xf := ⟨a != "0", b != "0", c != "0"⟩ }, "ok")
  | ["RESET"] => ({ s with auto := [] }, "ok")
  | "AUTO" :: f :: k :: specs =>
    match f.toNat?, specs.foldr (fun x acc => match acc, parseSpec x with
        | some l, some v => some (v :: l) | _, _ => none) (some []) with
    | some f, some l => ({ s with auto := ((f, k == "R"), l) :: s.auto.filter (fun e => e.1 != (f, k == "R")) }, "ok")
    | _, _ => (s, "bad-op")
  | "LISTS" :: nf :: items =>
    match nf.toNat?, parseItems items with
    | some nf, some (t, a, r) =>
      let outs := (List.range nf).filterMap fun f =>
        let w := writerList s.autoFn t a r f
        let rd := readerList s.autoFn s.xf t a r f
        if w.isEmpty && rd.isEmpty then none else
        let sh := fun (l : List LSpec) => if l.isEmpty then "-" else ",".intercalate (l.map showLSpec)
        let la := if layout false w == layout false rd then 1 else 0
        let lr := if layout true w == layout true rd then 1 else 0
        some s!"f={f} w={sh w} r={sh rd} la={la} lr={lr}"
      (s, if outs.isEmpty then "-" else " | ".intercalate outs)
    | _, _ => (s, "bad-op")
  | "INFO" :: items =>
    match parseItems items with
    | some (t, a, r) =>
      let as := showXItems "T" (extractArgs s.xf t) ++ showXItems "A" a
      let rs := showXItems "T" (extractRets s.xf t) ++ showXItems "R" r
      let sh := fun (l : List String) => if l.isEmpty then "-" else ";".intercalate l
      let old := if oldPass s.xf (infoArgs s.xf t a) (infoRets s.xf t r) then 1 else 0
      (s, s!"args={sh as} rets={sh rs} old={old}")
    | none => (s, "bad-op")
  | _ => (s, "bad-op")

def step' (s : DS) (ws : List String) : DS × String :=
  match ws with
  | "MR" :: r => stepMR s r
  | ["DUMPRAW", fx, sz, h] =>
    match sz.toNat?, parseHexBytes h with
    | some sz, some bs => let r := dumpRaw (fx != "0") sz bs; (s, s!"v={hexOfNat r.1} wr={r.2}")
    | _, _ => (s, "bad-op")
  | "SRC" :: r => let (x, o) := stepSrc s.src r; ({ s with src := x }, o)
  | _ => step s ws

def model : Model := { σ := DS, init := {}, step := step' }

end Driver.C09
