import Driver.Proto
import Driver.C20
namespace Driver

def models : List (String × Model) := [
  ("C20", C20.model)
]

def dispatch (args : List String) : IO UInt32 := do
  match args with
  | [name] =>
    match models.lookup name with
    | some m =>
      loop m (← IO.getStdin) (← IO.getStdout) m.init
      return 0
    | none => IO.eprintln s!"unknown model {name}"; return 2
  | _ => IO.eprintln "usage: uvmodel <model> < ops"; return 2

end Driver
