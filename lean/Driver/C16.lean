import Driver.Proto
import Uft.Model.Net
/- C16 driver (model `Net`).  One output line per input line.

   wv <sched> | <iov> <iov> …         writev_all   -> "res=<r> used=<n> out=<hex>"
   wa <sched> | <buf>                  write_all    -> same
   ra <n> | <seg> <seg> …              read_all     -> "ok got=<hex> rest=<hex>" | "fail"
   enc <msg>                           -> "<len>:<fnv> <hex (first 64 bytes)>"
   net <fixed 0|1> <order|-> | <client> | <client> …
        client = <segpattern> <msg> <msg> …     (socket id = position + 1)
        -> "status=<ok|fatal> | <len>:<fnv> … | <tree>"
   local <msg> …                       -> "<files>"   (local recording of the same buffers)
   perflabels <fixed 0|1> <cpu>:<0|1> …  per-cpu perf files in glob order (1 = has data) -> the numbers
                                       `uftrace dump` prints in its "reading perf-cpuN.dat" lines, or -

   sched   = comma list of w<n> | i (EINTR) | e (error), or -
   bytes   = hex | - (empty) | G<seed>.<len> (generated)
   msg     = N:<name> | D:<tid>:<bytes> | K:<cpu>:<bytes> | P:<cpu>:<bytes> | I:<hdr>:<bytes>
           | M:<name>:<bytes> | E | R:<bytes> (raw stream bytes)
   pattern = comma list of segment sizes, used cyclically (0 = interrupted read)
   tree    = D <hexname> F <hexname> <len>:<fnv> … E …   (sorted by name)
-/
namespace Driver.C16
open Uft.Net

def genBytes (seed len : Nat) : Bytes :=
  let rec go : Nat → Nat → List UInt8 → List UInt8
    | 0, _, acc => acc.reverse
    | n + 1, x, acc =>
      let x' := (x * 1103515245 + 12345) % 2147483648
      go n x' (UInt8.ofNat ((x' / 65536) % 256) :: acc)
  go len seed []

def parseBytes (s : String) : Option Bytes :=
  if s.startsWith "G" then
    match ((s.drop 1).toString.splitOn ".") with
    | [a, b] =>
      match a.toNat?, b.toNat? with
      | some seed, some len => some (genBytes seed len)
      | _, _ => none
    | _ => none
  else parseHexBytes s

def fnv (bs : Bytes) : UInt64 :=
  bs.foldl (fun h b => (h ^^^ b.toUInt64) * 0x100000001b3) 0xcbf29ce484222325

def hex64 (x : UInt64) : String :=
  String.ofList ((List.range 16).reverse.map fun i => hexDigit ((x.toNat / 16 ^ i) % 16))

def digest (bs : Bytes) : String := s!"{bs.length}:{hex64 (fnv bs)}"

def parseSched (s : String) : Option (List WOut) :=
  if s = "-" then some [] else
  (s.splitOn ",").foldr (fun item acc =>
    match acc with
    | none => none
    | some l =>
      if item = "i" then some (.eintr :: l)
      else if item = "e" then some (.err :: l)
      else if item.startsWith "w" then
        match (item.drop 1).toString.toNat? with
        | some n => some (.wrote n :: l)
        | none => none
      else none) (some [])

def showRes : WRes → String
  | .ok => "ok" | .err => "err" | .starved => "starved" | .badcount => "badcount"

inductive Item where
  | msg (m : Msg)
  | raw (bs : Bytes)

def parseItem (s : String) : Option Item :=
  match s.splitOn ":" with
  | ["E"] => some (.msg .end_)
  | ["N", n] => (parseBytes n).map fun b => .msg (.dirName b)
  | ["R", b] => (parseBytes b).map .raw
  | ["D", t, b] => match t.toNat?, parseBytes b with
    | some t, some b => some (.msg (.data t b)) | _, _ => none
  | ["K", t, b] => match t.toNat?, parseBytes b with
    | some t, some b => some (.msg (.kernel t b)) | _, _ => none
  | ["P", t, b] => match t.toNat?, parseBytes b with
    | some t, some b => some (.msg (.perf t b)) | _, _ => none
  | ["I", h, b] => match parseBytes h, parseBytes b with
    | some h, some b => some (.msg (.info h b)) | _, _ => none
  | ["M", n, b] => match parseBytes n, parseBytes b with
    | some n, some b => some (.msg (.file n b)) | _, _ => none
  | _ => none

def itemBytes : Item → Bytes
  | .msg m => encode true m
  | .raw b => b

def parseAll {β α : Type} (f : β → Option α) (ws : List β) : Option (List α) :=
  ws.foldr (fun w acc => match acc, f w with
    | some l, some x => some (x :: l)
    | _, _ => none) (some [])

/-- cut a stream by a cyclic size pattern; size 0 gives an empty segment -/
partial def cut (pat : List Nat) (bs : Bytes) : List Bytes :=
  if pat.isEmpty || pat.all (· == 0) then [bs] else
  let rec go (p : List Nat) (bs : Bytes) (acc : List Bytes) : List Bytes :=
    if bs.isEmpty then acc.reverse else
    match p with
    | [] => go pat bs acc
    | 0 :: p' => go p' bs ([] :: acc)
    | n :: p' => go p' (bs.drop n) (bs.take n :: acc)
  go pat bs []

def splitBar (ws : List String) : List (List String) :=
  ws.foldr (fun w acc => if w = "|" then [] :: acc else
    match acc with
    | [] => [[w]]
    | a :: r => (w :: a) :: r) [[]]

def insertSorted {α : Type} (k : Bytes) (v : α) : List (Bytes × α) → List (Bytes × α)
  | [] => [(k, v)]
  | (k', v') :: r =>
    if hexOfBytes k < hexOfBytes k' then (k, v) :: (k', v') :: r else (k', v') :: insertSorted k v r

def sortA {α : Type} (l : List (Bytes × α)) : List (Bytes × α) :=
  l.foldl (fun acc p => insertSorted p.1 p.2 acc) []

def showDir (d : Dir) : String :=
  " ".intercalate ((sortA d).map fun (f, c) => s!"F {hexOfBytes f} {digest c}")

def showTree (fs : List (Bytes × Dir)) : String :=
  " ".intercalate ((sortA fs).map fun (n, d) =>
    let inner := showDir d
    if inner.isEmpty then s!"D {hexOfBytes n} E" else s!"D {hexOfBytes n} {inner} E")

structure Conn where
  segs : List Bytes
  closed : Bool

def setAt {α : Type} : List α → Nat → α → List α
  | [], _, _ => []
  | _ :: r, 0, x => x :: r
  | a :: r, i + 1, x => a :: setAt r i x

def connEmpty (c : Conn) : Bool := c.closed || c.segs.all (·.isEmpty)

/-- one readable event on client `i` -/
def stepConn (fixed : Bool) (s : Server) (conns : List Conn) (i : Nat) : Option (Server × List Conn) :=
  match conns[i]? with
  | none => some (s, conns)
  | some c =>
    if connEmpty c then some (s, conns) else
    match recvRaw true fixed s (i + 1) c.segs with
    | .fatal => none
    | .ok s' rest closed => some (s', setAt conns i { segs := rest, closed := closed })

/-- returns (state, fatal?) — on a fatal error the state reached so far -/
partial def serve (fixed : Bool) (s : Server) (conns : List Conn) (order : List Nat) : Server × Bool :=
  match order with
  | i :: rest =>
    match stepConn fixed s conns i with
    | none => (s, true)
    | some (s', conns') => serve fixed s' conns' rest
  | [] =>
    -- drain in client order
    match (List.range conns.length).find? (fun i => match conns[i]? with
        | some c => !connEmpty c | none => false) with
    | none => (s, false)
    | some i =>
      match stepConn fixed s conns i with
      | none => (s, true)
      | some (s', conns') => serve fixed s' conns' []

def parseNats (s : String) : Option (List Nat) :=
  if s = "-" then some [] else parseAll (fun (w : String) => w.toNat?) (s.splitOn ",")

def handle (ws : List String) : String :=
  match splitBar ws with
  | [["wv", sc], iovs] =>
    match parseSched sc, parseAll parseBytes iovs with
    | some sched, some iovs =>
      let (r, out, left) := writevAll sched iovs
      s!"res={showRes r} used={sched.length - left.length} out={hexOfBytes out}"
    | _, _ => "bad-op"
  | [["wa", sc], [buf]] =>
    match parseSched sc, parseBytes buf with
    | some sched, some buf =>
      let (r, out, left) := writeAll sched buf
      s!"res={showRes r} used={sched.length - left.length} out={hexOfBytes out}"
    | _, _ => "bad-op"
  | [["ra", n], segs] =>
    match n.toNat?, parseAll parseBytes segs with
    | some n, some segs =>
      match readAll n segs with
      | none => "fail"
      | some (bs, rest) => s!"ok got={hexOfBytes bs} rest={hexOfBytes rest.flatten}"
    | _, _ => "bad-op"
  | [["enc", m]] =>
    match parseItem m with
    | some it => let b := itemBytes it; s!"{digest b} {hexOfBytes (b.take 64)}"
    | none => "bad-op"
  | ["perflabels" :: fx :: fs] =>
    let files := if fs = ["-"] then some [] else parseAll (fun (w : String) =>
      match w.splitOn ":" with
      | [a, b] => match a.toNat?, b.toNat? with
        | some c, some h => some (c, h != 0)
        | _, _ => none
      | _ => none) fs
    match files with
    | some files =>
      let l := dumpLabels (fx == "1") files
      if l.isEmpty then "-" else " ".intercalate (l.map toString)
    | none => "bad-op"
  | ["local" :: msgs] =>
    match parseAll parseItem msgs with
    | some items =>
      let ms := items.filterMap fun | .msg m => some m | _ => none
      showDir (ms.foldl localStep freshDir)
    | none => "bad-op"
  | ["net", fx, ord] :: clients =>
    match parseNats ord, parseAll (fun (c : List String) =>
        match c with
        | pat :: msgs =>
          match parseNats pat, parseAll parseItem msgs with
          | some p, some items => some (p, items)
          | _, _ => none
        | [] => none) clients with
    | some order, some cl =>
      let streams := cl.map fun (_, items) => (items.map itemBytes).flatten
      let conns := (cl.zip streams).map fun ((p, _), st) => ({ segs := cut p st, closed := false } : Conn)
      let (s, fatal) := serve (fx == "1") Server.init conns order
      let st := " ".intercalate (streams.map digest)
      s!"status={if fatal then "fatal" else "ok"} | {st} | {showTree s.fs}"
    | _, _ => "bad-op"
  | _ => "bad-op"

def model : Model := { σ := Unit, init := (), step := fun _ ws => ((), handle ws) }

end Driver.C16
