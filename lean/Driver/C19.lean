import Driver.Proto
import Uft.Model.PyTrace
/- C19 driver.
   <fixed 0|1> <NONE|SINGLE|NESTED> <regex|glob|simple> <UFTRACE_FILTER|-> <lib names a,b|-> | <ev> …
     ev = c:<name> call  r:<name> return  C:<name> c_call  R:<name> c_return
          X:<name> c_exception  o:<name> other event string
   -> "E<addr> X … | <count_in> <count_out> <libcall_count> | <addr>:<T|P>:<name> …"
   spec <fixed> <mode> <ptype> <filter|-> <libs|-> | <tree tokens>
     tree tokens: ( <p|c|x> <name> … )        -> "E<addr> X …"   (the documented selection)

   Pattern matching (libc strcmp/regexec/fnmatch in the C code) is done here for
   the subset the generator uses: regex = literals, `.`, postfix `*`, `^`, `$`
   (unanchored search); glob = literals, `*`, `?`.
-/
namespace Driver.C19
open Uft.PyTrace

def regexChars : List Char := ".?*+-^$|()[]{}".toList

inductive RAtom where
  | lit (c : Char)
  | any

def RAtom.ok : RAtom → Char → Bool
  | .lit a, c => a == c
  | .any, _ => true

partial def reHere : List (RAtom × Bool) → Bool → List Char → Bool
  | [], endA, s => if endA then s.isEmpty else true
  | (a, false) :: r, endA, s =>
    match s with
    | c :: t => a.ok c && reHere r endA t
    | [] => false
  | (a, true) :: r, endA, s =>
    reHere r endA s ||
      (match s with
       | c :: t => a.ok c && reHere ((a, true) :: r) endA t
       | [] => false)

def reAtoms : List Char → List (RAtom × Bool)
  | [] => []
  | c :: '*' :: r => ((if c == '.' then RAtom.any else RAtom.lit c), true) :: reAtoms r
  | c :: r => ((if c == '.' then RAtom.any else RAtom.lit c), false) :: reAtoms r

partial def reSearch (p : List (RAtom × Bool)) (endA : Bool) (s : List Char) : Bool :=
  reHere p endA s ||
    (match s with
     | _ :: t => reSearch p endA t
     | [] => false)

def regexMatch (pat : String) (s : String) : Bool :=
  let p := pat.toList
  let (startA, p) := match p with
    | '^' :: r => (true, r)
    | _ => (false, p)
  let (endA, p) := match p.reverse with
    | '$' :: r => (true, r.reverse)
    | _ => (false, p)
  if startA then reHere (reAtoms p) endA s.toList else reSearch (reAtoms p) endA s.toList

partial def globMatch : List Char → List Char → Bool
  | [], s => s.isEmpty
  | '*' :: r, s =>
    globMatch r s || (match s with | _ :: t => globMatch ('*' :: r) t | [] => false)
  | '?' :: r, _ :: t => globMatch r t
  | c :: r, d :: t => c == d && globMatch r t
  | _, _ => false

/-- `init_filters` on one entry of UFTRACE_FILTER -/
def mkFilter (ptype : String) (entry : String) : Filter String :=
  let (mode, pat) := if entry.startsWith "!" then (FMode.fout, (entry.drop 1).toString)
                     else (FMode.fin, entry)
  let isRe := pat.toList.any (fun c => regexChars.contains c)
  let ty := if isRe then ptype else "simple"
  let hit : String → Bool :=
    if ty == "glob" then fun n => globMatch pat.toList n.toList
    else if ty == "simple" then fun n => pat == n
    else fun n => regexMatch pat n
  { hit := hit, mode := mode }

def mkCfg (fixed mode ptype filt libs : String) : Option (Cfg String) :=
  let lm := match mode with
    | "NONE" => some LibMode.none
    | "SINGLE" => some LibMode.single
    | "NESTED" => some LibMode.nested
    | _ => none
  let libl := if libs == "-" then [] else libs.splitOn ","
  match lm with
  | none => none
  | some lm =>
    some { fixed := fixed == "1"
           filters := if filt == "-" then none else some ((filt.splitOn ";").map (mkFilter ptype))
           lmode := lm
           isLib := fun n => libl.contains n }

def parseEv (t : String) : Option (Ev String) :=
  let name := (t.drop 2).toString
  if name.isEmpty then none else
  match t.toList with
  | 'c' :: ':' :: _ => some ⟨.call, name⟩
  | 'r' :: ':' :: _ => some ⟨.ret, name⟩
  | 'C' :: ':' :: _ => some ⟨.ccall, name⟩
  | 'R' :: ':' :: _ => some ⟨.cret, name⟩
  | 'X' :: ':' :: _ => some ⟨.cexc, name⟩
  | 'o' :: ':' :: _ => some ⟨.other, name⟩
  | _ => none

def parseEvs (ts : List String) : Option (List (Ev String)) :=
  ts.foldr (fun t acc => match acc, parseEv t with
    | some l, some e => some (e :: l)
    | _, _ => none) (some [])

def showOut (syms : List String) (o : List (Out String)) : String :=
  String.join (o.map fun
    | .enter n => s!"E{addrOf syms n} "
    | .exit => "X ")

/-- tree tokens: `( k name kids… )` -/
partial def parseCalls : List String → Option (Calls String × List String)
  | "(" :: k :: name :: rest =>
    let kind := match k with
      | "p" => some CKind.py
      | "c" => some CKind.c
      | "x" => some CKind.cexc
      | _ => none
    match kind, parseCalls rest with
    | some kind, some (kids, ")" :: r) =>
      match parseCalls r with
      | some (sibs, r2) => some (.cons (.node name kind kids) sibs, r2)
      | none => none
    | _, _ => none
  | rest => some (.nil, rest)

def splitBar (ws : List String) : List String × List String :=
  (ws.takeWhile (· ≠ "|"), (ws.dropWhile (· ≠ "|")).drop 1)

def handle (ws : List String) : String :=
  match splitBar ws with
  | (["spec", fixed, mode, ptype, filt, libs], toks) =>
    match mkCfg fixed mode ptype filt libs, parseCalls toks with
    | some c, some (f, []) =>
      let syms := symsOf [] (eventsL f)
      (showOut syms (specCalls c false false 0 f)).trimAscii.toString
    | _, _ => "bad-op"
  | ([fixed, mode, ptype, filt, libs], toks) =>
    match mkCfg fixed mode ptype filt libs, parseEvs toks with
    | some c, some evs =>
      let r := run c St.init evs
      let syms := symsOf [] evs
      let symtab := " ".intercalate
        (syms.map fun n => s!"{addrOf syms n}:{if c.isLib n then "P" else "T"}:{n}")
      s!"{showOut syms r.2}| {r.1.cin} {r.1.cout} {r.1.lib} | {symtab}"
    | _, _ => "bad-op"
  | _ => "bad-op"

def model : Model := { σ := Unit, init := (), step := fun _ ws => ((), handle ws) }

end Driver.C19
