import Driver.Proto
import Uft.Model.PyTrace
import Uft.Model.PyHook
/- C19 driver.
   <fixed 0|1> <NONE|SINGLE|NESTED> <regex|glob|simple> <UFTRACE_FILTER|-> <lib names a,b|-> | <ev> …
     ev = c:<name> call  r:<name> return  C:<name> c_call  R:<name> c_return
          X:<name> c_exception  o:<name> other event string
   -> "E<addr> X … | <count_in> <count_out> <libcall_count> | <addr>:<T|P>:<name> …"
   spec <fixed> <mode> <ptype> <filter|-> <libs|-> | <tree tokens>
     tree tokens: ( <p|c|x> <name> … )        -> "E<addr> X …"   (the documented selection)

   hook <fixed> <guard 0|1> <pin 0|1> <below hex> <max-stack|-> <mode> <ptype> <filter|-> <libs|-> | <tok> …
     the tracer end to end (Model/PyHook.lean: first frame, symbol table, decision, libmcount's hooks)
     tok = <ev>@<fid>   an event whose frame argument is frame object <fid>; the clock reads
                        1000 + 10*i at the i-th event token
           new@<fid>    frame object <fid> is allocated now (same size class as the first frame)
           del@<fid>    the last reference outside the tracer to frame object <fid> is dropped
     -> "E<addr> X … | cin cout lib | <time>:<type>:<depth>:<addr> … | idx=<n> oob=<0|1> lone=<k> |
         <addr>:<T|P|?>:<name> … | <addr>=<name> …"      (hook calls | counters | records written |
         shadow stack | python.fake.sym | every recorded address resolved through that file)
     Frame addresses: object <fid> gets address fid+1, except that an object allocated while the
     block of the first frame is free gets that block (`laterFrameAddr`; LIFO free list of the
     allocator); the block of the first frame is freed by del@ unless pin = 1 (the tracer holds
     a reference).  After an out-of-bounds frame access (oob) the rest of the line is ignored.

   code <lib names|-> | <tok> …
     `convert_function_addr` over a history of code objects (Model/PyHook §6 `convertCode`):
     tok = a:<addr>=<name>  a code object of function <name> is allocated at <addr>
           f:<addr>         the code object at <addr> is freed
           e:<addr>         a `call` event whose frame's f_code is at <addr>
     -> "<name>:<symbol address>" per e: token ("-" when nothing lives there)
   launch <fixed 0|1> <abs 0|1> <cwd> <arg> <from>=<to>,… | <file> …
     the launcher (Model/PyHook §7): paths are slash-separated, the realpath table maps whole paths
     -> "<sys.path[0]> <main_dir> | <1|0 per file: program code?>"

   Pattern matching (libc strcmp/regexec/fnmatch in the C code) is done here for
   the subset the generator uses: regex = literals, `.`, postfix `*`, `^`, `$`
   (unanchored search); glob = literals, `*`, `?`.
-/
namespace Driver.C19
open Uft.PyTrace

def regexChars : List Char := ".?*+-^$|()[]{}".toList

inductive RAtom where
  | lit (c : Char)
  | any

def RAtom.ok : RAtom → Char → Bool
  | .lit a, c => a == c
  | .any, _ => true

partial def reHere : List (RAtom × Bool) → Bool → List Char → Bool
  | [], endA, s => if endA then s.isEmpty else true
  | (a, false) :: r, endA, s =>
    match s with
    | c :: t => a.ok c && reHere r endA t
    | [] => false
  | (a, true) :: r, endA, s =>
    reHere r endA s ||
      (match s with
       | c :: t => a.ok c && reHere ((a, true) :: r) endA t
       | [] => false)

def reAtoms : List Char → List (RAtom × Bool)
  | [] => []
  | c :: '*' :: r => ((if c == '.' then RAtom.any else RAtom.lit c), true) :: reAtoms r
  | c :: r => ((if c == '.' then RAtom.any else RAtom.lit c), false) :: reAtoms r

partial def reSearch (p : List (RAtom × Bool)) (endA : Bool) (s : List Char) : Bool :=
  reHere p endA s ||
    (match s with
     | _ :: t => reSearch p endA t
     | [] => false)

def regexMatch (pat : String) (s : String) : Bool :=
  let p := pat.toList
  let (startA, p) := match p with
    | '^' :: r => (true, r)
    | _ => (false, p)
  let (endA, p) := match p.reverse with
    | '$' :: r => (true, r.reverse)
    | _ => (false, p)
  if startA then reHere (reAtoms p) endA s.toList else reSearch (reAtoms p) endA s.toList

partial def globMatch : List Char → List Char → Bool
  | [], s => s.isEmpty
  | '*' :: r, s =>
    globMatch r s || (match s with | _ :: t => globMatch ('*' :: r) t | [] => false)
  | '?' :: r, _ :: t => globMatch r t
  | c :: r, d :: t => c == d && globMatch r t
  | _, _ => false

/-- `init_filters` on one entry of UFTRACE_FILTER -/
def mkFilter (ptype : String) (entry : String) : Filter String :=
  let (mode, pat) := if entry.startsWith "!" then (FMode.fout, (entry.drop 1).toString)
                     else (FMode.fin, entry)
  let isRe := pat.toList.any (fun c => regexChars.contains c)
  let ty := if isRe then ptype else "simple"
  let hit : String → Bool :=
    if ty == "glob" then fun n => globMatch pat.toList n.toList
    else if ty == "simple" then fun n => pat == n
    else fun n => regexMatch pat n
  { hit := hit, mode := mode }

def mkCfg (fixed mode ptype filt libs : String) : Option (Cfg String) :=
  let lm := match mode with
    | "NONE" => some LibMode.none
    | "SINGLE" => some LibMode.single
    | "NESTED" => some LibMode.nested
    | _ => none
  let libl := if libs == "-" then [] else libs.splitOn ","
  match lm with
  | none => none
  | some lm =>
    some { fixed := fixed == "1"
           filters := if filt == "-" then none else some ((filt.splitOn ";").map (mkFilter ptype))
           lmode := lm
           isLib := fun n => libl.contains n }

def parseEv (t : String) : Option (Ev String) :=
  let name := (t.drop 2).toString
  if name.isEmpty then none else
  match t.toList with
  | 'c' :: ':' :: _ => some ⟨.call, name⟩
  | 'r' :: ':' :: _ => some ⟨.ret, name⟩
  | 'C' :: ':' :: _ => some ⟨.ccall, name⟩
  | 'R' :: ':' :: _ => some ⟨.cret, name⟩
  | 'X' :: ':' :: _ => some ⟨.cexc, name⟩
  | 'o' :: ':' :: _ => some ⟨.other, name⟩
  | _ => none

def parseEvs (ts : List String) : Option (List (Ev String)) :=
  ts.foldr (fun t acc => match acc, parseEv t with
    | some l, some e => some (e :: l)
    | _, _ => none) (some [])

def showOut (syms : List String) (o : List (Out String)) : String :=
  String.join (o.map fun
    | .enter n => s!"E{addrOf syms n} "
    | .exit => "X ")

/-- tree tokens: `( k name kids… )` -/
partial def parseCalls : List String → Option (Calls String × List String)
  | "(" :: k :: name :: rest =>
    let kind := match k with
      | "p" => some CKind.py
      | "c" => some CKind.c
      | "x" => some CKind.cexc
      | _ => none
    match kind, parseCalls rest with
    | some kind, some (kids, ")" :: r) =>
      match parseCalls r with
      | some (sibs, r2) => some (.cons (.node name kind kids) sibs, r2)
      | none => none
    | _, _ => none
  | rest => some (.nil, rest)

def splitBar (ws : List String) : List String × List String :=
  (ws.takeWhile (· ≠ "|"), (ws.dropWhile (· ≠ "|")).drop 1)

def handle (ws : List String) : String :=
  match splitBar ws with
  | (["spec", fixed, mode, ptype, filt, libs], toks) =>
    match mkCfg fixed mode ptype filt libs, parseCalls toks with
    | some c, some (f, []) =>
      let syms := symsOf [] (eventsL f)
      (showOut syms (specCalls c false false 0 f)).trimAscii.toString
    | _, _ => "bad-op"
  | ([fixed, mode, ptype, filt, libs], toks) =>
    match mkCfg fixed mode ptype filt libs, parseEvs toks with
    | some c, some evs =>
      let r := run c St.init evs
      let syms := symsOf [] evs
      let symtab := " ".intercalate
        (syms.map fun n => s!"{addrOf syms n}:{if c.isLib n then "P" else "T"}:{n}")
      s!"{showOut syms r.2}| {r.1.cin} {r.1.cout} {r.1.lib} | {symtab}"
    | _, _ => "bad-op"
  | _ => "bad-op"

/-! ### `hook`: Model/PyHook.lean -/
open Uft.PyHook in
structure HRun where
  st : PSt String
  /-- fid ↦ address -/
  addrs : List (Nat × Nat) := []
  /-- the block of the first frame is on the allocator's free list -/
  avail : Bool := false
  calls : List String := []
  /-- exit hooks that arrive with `idx == 0` on a thread that has a shadow stack: the calls in
      which the code as found reads `rstack[-1]` -/
  lone : Nat := 0
  nev : Nat := 0
  bad : Bool := false

open Uft.PyHook in
def parseTok (t : String) : Option (String × Nat) :=
  match t.splitOn "@" with
  | [a, b] => b.toNat?.map fun n => (a, n)
  | _ => none

open Uft.PyHook in
def hookStep (c : PCfg String) (pin : Bool) (r : HRun) (t : String) : HRun :=
  if r.bad || r.st.hk.oob then r else
  match parseTok t with
  | none => { r with bad := true }
  | some ("new", fid) =>
    let fresh := fid + 1
    let a := match r.st.first with
      | some F => if r.avail then laterFrameAddr pin F fresh else fresh
      | none => fresh
    { r with addrs := (fid, a) :: r.addrs, avail := if a == fresh then r.avail else false }
  | some ("del", fid) =>
    match r.addrs.lookup fid, r.st.first with
    | some a, some F => if a == F then { r with avail := !pin } else r
    | _, _ => r
  | some (evs, fid) =>
    match parseEv evs, r.addrs.lookup fid with
    | some e, some a =>
      let now := 1000 + 10 * r.nev
      let ev : Ev (Node String) := ⟨e.kind, ⟨e.name, a, now, now⟩⟩
      let outs :=
        if skips c r.st.first a then []
        else
          let cv := convert c.cmp c.py.isLib r.st.tree r.st.shm e.name
          (stepOut (liftCfg c.py) r.st.py ev).map fun
            | .enter _ => s!"E{cv.2.2.addr}"
            | .exit => "X"
      let lone := if outs.contains "X" && r.st.hk.prepared && r.st.hk.m.idx == 0 then 1 else 0
      { r with st := pstep c r.st ev, calls := r.calls ++ outs, nev := r.nev + 1, lone := r.lone + lone }
    | _, _ => { r with bad := true }

open Uft.PyHook in
def showSymLine (l : SymLine String) : String :=
  s!"{l.addr}:{l.type}:{l.name.getD "__sym_end"}"

open Uft.PyHook in
def handleHook (fixed guard pin below maxst mode ptype filt libs : String) (toks : List String) : String :=
  match mkCfg fixed mode ptype filt libs, parseHexNat below with
  | some py, some bw =>
    let m : Uft.Mcount.Cfg := match maxst.toNat? with
      | some n => { maxStack := n }
      | none => {}
    let c : PCfg String :=
      { py := py, skipFirst := true, cmp := compare, hk := { m := m, guard := guard == "1", below := bw } }
    let r := toks.foldl (hookStep c (pin == "1")) { st := PSt.init c }
    if r.bad then "bad-op" else
    let recs := r.st.hk.m.out
    let file := symFile r.st.shm
    let addrs := (recs.filter (·.type == 0)).map (·.addr) |>.eraseDups
    let res := addrs.map fun a => s!"{a}={(resolve file a).getD "?"}"
    let oob := if r.st.hk.oob then 1 else 0
    s!"{" ".intercalate r.calls} | {r.st.py.cin} {r.st.py.cout} {r.st.py.lib} | " ++
      s!"{" ".intercalate (recs.map fun x => s!"{x.time}:{x.type}:{x.depth}:{x.addr}")} | " ++
      s!"idx={r.st.hk.m.idx} oob={oob} lone={r.lone} | {" ".intercalate (file.map showSymLine)} | {" ".intercalate res}"
  | _, _ => "bad-op"

structure CodeRun where
  heap : List (Nat × String) := []
  tree : Uft.PyHook.Tree String := .leaf
  shm : Uft.PyHook.Shm String := Uft.PyHook.Shm.empty
  out : List String := []
  bad : Bool := false

open Uft.PyHook in
def codeStep (isLib : String → Bool) (r : CodeRun) (t : String) : CodeRun :=
  match t.splitOn ":" with
  | ["a", rest] =>
    match rest.splitOn "=" with
    | [a, name] =>
      match a.toNat? with
      | some a => { r with heap := (a, name) :: r.heap.filter (fun x => x.1 != a) }
      | none => { r with bad := true }
    | _ => { r with bad := true }
  | ["f", a] =>
    match a.toNat? with
    | some a => { r with heap := r.heap.filter (fun x => x.1 != a) }
    | none => { r with bad := true }
  | ["e", a] =>
    match a.toNat? with
    | some a =>
      let ev : CEv String := { code := a, heap := fun x => r.heap.lookup x }
      let cv := convertCode compare isLib r.tree r.shm ev
      { r with tree := cv.1, shm := cv.2.1,
               out := r.out ++ [match cv.2.2 with | some s => s!"{s.name}:{s.addr}" | none => "-"] }
    | none => { r with bad := true }
  | _ => { r with bad := true }

def handleCode (libs : String) (toks : List String) : String :=
  let ls := if libs == "-" then [] else libs.splitOn ","
  let r := toks.foldl (codeStep (fun n => ls.contains n)) {}
  if r.bad then "bad-op" else " ".intercalate r.out

def pathOf (s : String) : List String := (s.splitOn "/").filter (· != "")
def showPath (p : List String) : String := "/" ++ "/".intercalate p

open Uft.PyHook in
def handleLaunch (fixed abs cwd arg tab : String) (files : List String) : String :=
  let table : List (List String × List String) :=
    if tab == "-" then [] else (tab.splitOn ",").filterMap fun kv =>
      match kv.splitOn "=" with
      | [a, b] => some (pathOf a, pathOf b)
      | _ => none
  let l : Launch := { arg := pathOf arg, isAbs := abs == "1", cwd := pathOf cwd,
                      real := fun p => (table.lookup p).getD p }
  let fx := fixed == "1"
  s!"{showPath (sysPath0 fx l)} {showPath (mainDir fx l)} | " ++
    " ".intercalate (files.map fun f => if isProgramFile fx l (pathOf f) then "1" else "0")

def handleAll (ws : List String) : String :=
  match splitBar ws with
  | (["hook", fixed, guard, pin, below, maxst, mode, ptype, filt, libs], toks) =>
    handleHook fixed guard pin below maxst mode ptype filt libs toks
  | (["code", libs], toks) => handleCode libs toks
  | (["launch", fixed, abs, cwd, arg, tab], files) => handleLaunch fixed abs cwd arg tab files
  | _ => handle ws

def model : Model := { σ := Unit, init := (), step := fun _ ws => ((), handleAll ws) }

end Driver.C19
