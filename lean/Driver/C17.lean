import Driver.Proto
import Uft.Model.Events
/- driver for the event model (C17); op set of harness/h1_c17_driver.c:
   CFG k=v …   TRIG <fn> item…   FSIZE <fn> <n>
   T n | RU a b | RU fail | SM a b c | CPU n | V k hex | TH k | AE id
   E pg|cyg <fn> [w=<probe>] | X [w=<probe>] | FLUSH | END -/
namespace Driver.C17
open Uft.Mcount Uft.Events

structure Thread where
  st : Option ESt := none
  stack : List Bool := []
  nout : Nat := 0

structure DS where
  base : Cfg := {}
  trigs : List (Nat × Trigger) := []
  sizes : List (Nat × Nat) := []
  reads : List (Nat × Nat) := []
  args : List (Nat × Nat) := []
  rets : List (Nat × Nat) := []
  watchCpu : Bool := false
  varSizes : List Nat := []
  fixArg : Bool := true
  fixVar : Bool := true
  fixIdx : Bool := true
  fixPair : Bool := true
  pagekb : Nat := 4
  now : Nat := 1000
  ru : Option (Nat × Nat) := some (0, 0)
  sm : Nat × Nat × Nat := (0, 0, 0)
  cpu : Nat := 0
  vars : List Nat := [0, 0, 0]         -- wv8, wv4, wv1 of the driver
  watched : List Nat := []             -- which of them are watched, in UFTRACE_WATCH order
  glob : List (Option Nat) := []
  globInit : Bool := false
  cur : Nat := 0
  threads : List Thread := [{}, {}, {}, {}]

def DS.cfg (d : DS) : ECfg :=
  { base := { d.base with trig := fun f => (d.trigs.lookup f).getD {}, fsize := fun f => (d.sizes.lookup f).getD 16 },
    read := fun f => (d.reads.lookup f).getD 0,
    argSize := fun f => d.args.lookup f,
    retSize := fun f => d.rets.lookup f,
    watchCpu := d.watchCpu, varSizes := d.varSizes,
    fixArg := d.fixArg, fixVar := d.fixVar, fixIdx := d.fixIdx, fixPair := d.fixPair }

def DS.watchedVals (d : DS) : List Nat := d.watched.map fun k => d.vars.getD k 0

def DS.obs (d : DS) (probe : Nat) : Obs :=
  { reads := fun bit =>
      if bit = 1 then some [d.sm.1 * d.pagekb, d.sm.2.1 * d.pagekb, d.sm.2.2 * d.pagekb]
      else if bit = 2 then d.ru.map fun p => [p.1, p.2]
      else none,
    cpu := d.cpu, vars := d.watchedVals, probe := probe }

def DS.thread (d : DS) : Thread := d.threads.getD d.cur {}

/-- the current thread's state; created (mcount_prepare) at its first hook -/
def DS.state (d : DS) : ESt :=
  let g := if d.globInit then d.glob else d.varSizes.map fun _ => none
  match d.thread.st with
  | some s => { s with glob := g }
  | none => ESt.init d.cfg d.watchedVals g

def DS.put (d : DS) (s : ESt) (stack : List Bool) (nout : Nat) : DS :=
  { d with threads := d.threads.set d.cur { st := some s, stack := stack, nout := nout },
           glob := s.glob, globInit := true }

def kv (s : String) : String × String :=
  match s.splitOn "=" with
  | [k, v] => (k, v)
  | _ => (s, "")

def applyCfg (d : DS) (item : String) : DS :=
  let (k, v) := kv item
  let n := v.toNat?.getD 0
  match k with
  | "maxstack" => { d with base := { d.base with maxStack := n } }
  | "depth" => { d with base := { d.base with depthOpt := n } }
  | "threshold" => { d with base := { d.base with threshold := n } }
  | "optin" => { d with base := { d.base with optIn := n != 0 } }
  | "locin" => { d with base := { d.base with locIn := n != 0 } }
  | "caller" => { d with base := { d.base with callerMode := n != 0 } }
  | "minsize" => { d with base := { d.base with minSize := n } }
  | "enabled" => { d with base := { d.base with enabled0 := n != 0 } }
  | "f7fixed" => { d with base := { d.base with f7fixed := n != 0 } }   -- default 1 (repair of F-C07-TRACEOFF-FLUSH)
  | "watchcpu" => { d with watchCpu := n != 0 }
  | "vars" =>   -- vars=0,1 : indices of the watched driver variables (sizes 8, 4, 1)
    let ks := (v.splitOn ",").filterMap (·.toNat?)
    { d with watched := ks, varSizes := ks.map fun k => [8, 4, 1].getD k 8 }
  | "fixarg" => { d with fixArg := n != 0 }
  | "fixvar" => { d with fixVar := n != 0 }
  | "fixidx" => { d with fixIdx := n != 0 }
  | "fixpair" => { d with fixPair := n != 0 }
  | "pagekb" => { d with pagekb := n }
  | _ => d

def applyTrig (t : Trigger) (item : String) : Trigger :=
  let (k, v) := kv item
  let n := v.toNat?.getD 0
  match k with
  | "filter" => { t with filter := some (v == "in") }
  | "depth" => { t with depth := some n }
  | "traceon" => { t with traceOn := true }
  | "traceoff" => { t with traceOff := true }
  | "time" => { t with time := some n }
  | "size" => { t with size := some n }
  | "trace" => { t with trace := true }
  | "caller" => { t with caller := true }
  | "finish" => { t with finish := true }
  | _ => t

def trigExtra (d : DS) (f : Nat) (item : String) : DS :=
  let (k, v) := kv item
  let n := v.toNat?.getD 0
  match k with
  | "read" => { d with reads := (f, n) :: d.reads }
  | "arg" => { d with args := (f, n) :: d.args }
  | "ret" => { d with rets := (f, n) :: d.rets }
  | _ => d

def showData (e : Ev) : String :=
  if e.id == EVENT_ID_WATCH_VAR then
    match e.data with
    | [k, v] => s!"{k}={v}"
    | _ => "?"
  else if e.data.isEmpty then "-" else ",".intercalate (e.data.map toString)

def showOut : Out → String
  | .record r p =>
    let t := match r.type with | 0 => "E" | 1 => "X" | 2 => "L" | _ => "V"
    s!"{t}:{r.depth % 1024}:{r.addr}:{r.time}" ++ (match p with | some n => s!":m{n}" | none => "")
  | .event e => s!"V:{e.id}:{e.time}:{e.dsize}:{showData e}"

def newRecs (nout : Nat) (s : ESt) : String × Nat :=
  let rs := s.out.drop nout
  ((if rs.isEmpty then "-" else " ".intercalate (rs.map showOut)), s.out.length)

def probeOf (ws : List String) : Nat :=
  match ws.find? (·.startsWith "w=") with
  | some w => ((w.drop 2).toString.toNat?).getD 0
  | none => 0

def setVar (l : List Nat) (k v : Nat) : List Nat :=
  let sz := [8, 4, 1].getD k 8
  l.set k (v % 2 ^ (8 * sz))

def step (d : DS) (ws : List String) : DS × String :=
  match ws with
  | ["RESET"] => ({}, "ok")
  | "CFG" :: items => (items.foldl applyCfg d, "ok")
  | "TRIG" :: fn :: items =>
    match fn.toNat? with
    | some f => (items.foldl (fun d it => trigExtra d f it) { d with trigs := (f, items.foldl applyTrig {}) :: d.trigs }, "ok")
    | none => (d, "bad-op")
  | ["FSIZE", fn, n] =>
    match fn.toNat?, n.toNat? with
    | some f, some n => ({ d with sizes := (f, n) :: d.sizes }, "ok")
    | _, _ => (d, "bad-op")
  | ["T", n] =>
    match n.toNat? with
    | some n => ({ d with now := n }, "ok")
    | none => (d, "bad-op")
  | ["RU", "fail"] => ({ d with ru := none }, "ok")
  | ["RU", a, b] =>
    match a.toNat?, b.toNat? with
    | some a, some b => ({ d with ru := some (a, b) }, "ok")
    | _, _ => (d, "bad-op")
  | ["SM", a, b, c] =>
    match a.toNat?, b.toNat?, c.toNat? with
    | some a, some b, some c => ({ d with sm := (a, b, c) }, "ok")
    | _, _, _ => (d, "bad-op")
  | ["CPU", n] =>
    match n.toNat? with
    | some n => ({ d with cpu := n }, "ok")
    | none => (d, "bad-op")
  | ["V", k, hex] =>
    match k.toNat?, parseHexNat hex with
    | some k, some v => ({ d with vars := setVar d.vars k v }, "ok")
    | _, _ => (d, "bad-op")
  | ["TH", k] =>
    match k.toNat? with
    | some k => (if k < 4 then { d with cur := k } else d, "ok")
    | none => (d, "bad-op")
  | "E" :: k :: fn :: rest =>
    match fn.toNat? with
    | some f =>
      let kind := if k == "cyg" then Kind.cyg else Kind.pg
      let th := d.thread
      let (s', took) := entryE d.cfg kind d.state f d.now (d.obs (probeOf rest))
      let (txt, n) := newRecs th.nout s'
      (d.put s' (took :: th.stack) n, s!"hij={if took && kind == .pg then 1 else 0} recs={txt}")
    | none => (d, "bad-op")
  | "X" :: rest =>
    let th := d.thread
    match th.stack with
    | [] => (d, "bad-op")
    | took :: stk =>
      let s' := if took then exitE d.cfg d.state d.now (d.obs (probeOf rest)) else d.state
      let (txt, n) := newRecs th.nout s'
      (d.put s' stk n, s!"recs={txt}")
  | ["AE", id] =>
    match id.toNat? with
    | some id =>
      let th := d.thread
      if th.st.isNone then (d, "ae=-1 recs=-") else
      let s' := asyncEvent d.state id d.now
      let (txt, n) := newRecs th.nout s'
      (d.put s' th.stack n, s!"ae=0 recs={txt}")
    | none => (d, "bad-op")
  | ["FLUSH"] =>
    let th := d.thread
    if th.st.isNone then (d, "flush recs=-") else
    let s' := flushTopE d.cfg d.state
    let (txt, n) := newRecs th.nout s'
    (d.put s' th.stack n, s!"flush recs={txt}")
  | ["END"] =>
    let th := d.thread
    if th.st.isNone then (d, "end nothread") else
    let s := d.state
    (d, s!"end idx={s.idx} ridx={s.recordIdx} pend={s.pend.length}")
  | _ => (d, "bad-op")

def model : Model := { σ := DS, init := {}, step := step }

end Driver.C17
