import Driver.Proto
import Uft.Model.Mcount
import Uft.Gen.Layout
/- driver for the libmcount hook model (C02, C05); see harness/h1_driver.c for the op set
   CFG k=v … (optional f7fixed=0|1, default 1 = the code with the repair of F-C07-TRACEOFF-FLUSH)   TRIG <fn> item…   FSIZE <fn> <n>   T n   E pg|cyg <fn>   X   FLUSH   END
   Filters × non-local exits (C05/C11; harness/h1_c11_driver.c in FX mode), one output line "[hij=b ]st=idx/ridx/in/out/depth/maxdepth/time/size/en recs=…":
   NLFIX lj pad    which of C05-LONGJMP-FILTER-LEAK / C05-EXC-PAD-FILTER are repaired (0 = as found)
   FE pg|plt|none <fn> <flush>   a call (from a landing pad if an exception is in flight)     FR   the innermost open call returns
   FT   __cxa_throw / __cxa_rethrow / _Unwind_Resume     FUW   the unwinder drops the innermost open call     FC   __cxa_begin_catch
   FSJ j <fn>   setjmp@plt and its first return     FLJ j <fn> <flush>   longjmp@plt and the second return of the setjmp -/
namespace Driver.Mcount
open Uft.Mcount

structure DS where
  cfg : Cfg := {}
  trigs : List (Nat × Trigger) := []
  sizes : List (Nat × Nat) := []
  st : Option St := none          -- created lazily at the first hook (after CFG/TRIG lines)
  now : Nat := 1000
  stack : List Bool := []         -- per open script call: did the hook take it
  nout : Nat := 0                 -- records already printed
  -- filters × non-local exits (FE/FR/FT/FUW/FC/FSJ/FLJ)
  nlfix : NLFix := {}
  inExc : Bool := false           -- mtdp->in_exception
  dead : List Bool := []          -- open calls the unwinder dropped whose entries are still on the shadow stack
  jbs : List (Nat × (JmpSave × List Bool)) := []

def DS.fullCfg (d : DS) : Cfg :=
  { d.cfg with trig := fun f => (d.trigs.lookup f).getD {}, fsize := fun f => (d.sizes.lookup f).getD 16 }

def DS.state (d : DS) : St := d.st.getD (St.init d.fullCfg)

def kv (s : String) : String × String :=
  match s.splitOn "=" with
  | [k, v] => (k, v)
  | _ => (s, "")

def applyCfg (c : Cfg) (item : String) : Cfg :=
  let (k, v) := kv item
  let n := v.toNat?.getD 0
  match k with
  | "maxstack" => { c with maxStack := n }
  | "depth" => { c with depthOpt := n }
  | "threshold" => { c with threshold := n }
  | "optin" => { c with optIn := n != 0 }
  | "locin" => { c with locIn := n != 0 }
  | "caller" => { c with callerMode := n != 0 }
  | "minsize" => { c with minSize := n }
  | "fast" => { c with fast := n != 0 }
  | "enabled" => { c with enabled0 := n != 0 }
  | "f4fixed" => { c with f4fixed := n != 0 }
  | "s4fixed" => { c with s4fixed := n != 0 }
  | "f7fixed" => { c with f7fixed := n != 0 }     -- default 1: the flush at the TRACE_OFF update (F-C07-TRACEOFF-FLUSH)
  | _ => c

def applyTrig (t : Trigger) (item : String) : Trigger :=
  let (k, v) := kv item
  let n := v.toNat?.getD 0
  match k with
  | "filter" => { t with filter := some (v == "in") }
  | "loc" => { t with loc := some (v == "in") }
  | "depth" => { t with depth := some n }
  | "traceon" => { t with traceOn := true }
  | "traceoff" => { t with traceOff := true }
  | "time" => { t with time := some n }
  | "size" => { t with size := some n }
  | "trace" => { t with trace := true }
  | "caller" => { t with caller := true }
  | "finish" => { t with finish := true }
  | _ => t

/-- records are rendered as a reader sees them: through the generated writer
    (`packWord`, from libmcount/record.c) and the generated reader (bit-fields of uftrace.h) -/
def showRec (r : Rec) : String :=
  let w := Uft.Gen.Layout.packWord r.type false r.depth r.addr
  let t := match Uft.Gen.Layout.unpackType w with | 0 => "E" | 1 => "X" | 2 => "L" | _ => "V"
  let a := Uft.Gen.Layout.unpackAddr w
  let name := if a = r.addr then s!"{a}" else s!"{r.addr}+{a - r.addr}"
  s!"{t}:{Uft.Gen.Layout.unpackDepth w}:{name}:{r.time}"

def newRecs (d : DS) (s : St) : String × Nat :=
  let rs := s.out.drop d.nout
  ((if rs.isEmpty then "-" else " ".intercalate (rs.map showRec)), s.out.length)

def showSt (s : St) : String :=
  let f := s.filt
  s!"st={s.idx}/{s.recordIdx}/{f.inCount}/{f.outCount}/{f.depth}/{f.maxDepth}/{f.time}/{f.size}/{if s.enabled then 1 else 0}"

def countTrue (l : List Bool) : Nat := (l.filter id).length

/-- the filters × non-local exits ops -/
def stepNL (d : DS) (ws : List String) : Option (DS × String) :=
  let cfg := d.fullCfg
  let fin (d' : DS) (s' : St) (pre : String) : DS × String :=
    let (txt, n) := newRecs d s'
    ({ d' with st := some s', nout := n }, s!"{pre}{showSt s'} recs={txt}")
  match ws with
  | ["NLFIX", a, b] => some ({ d with nlfix := { ljCounts := a == "1", padOrder := b == "1" } }, "ok")
  | ["FT"] => some (fin { d with inExc := true } d.state "")
  | ["FUW"] =>
    match d.stack with
    | [] => some (d, "bad-op")
    | t :: rest => some (fin { d with stack := rest, dead := t :: d.dead } d.state "")
  | ["FC"] =>
    if !d.inExc then some (fin d d.state "") else
    let s' := unwindExc cfg d.state (List.replicate (countTrue d.dead) d.now)
    some (fin { d with inExc := false, dead := [] } s' "")
  | ["FE", k, fn, fl] =>
    match fn.toNat? with
    | none => some (d, "bad-op")
    | some f =>
      if k == "none" then some (fin { d with stack := false :: d.stack } d.state "hij=0 ") else
      let ts := List.replicate (countTrue d.dead) d.now
      let r : St × Bool × Bool :=
        if d.inExc then
          (if k == "plt" then padEntryPlt cfg d.nlfix d.state f d.now (fl == "1") ts
           else padEntryPg cfg d.nlfix d.state f d.now ts)
        else
          (if k == "plt" then (let q := pltEntry cfg d.state f d.now (fl == "1"); (q.1, q.2, false))
           else (let q := entry cfg .pg d.state f d.now; (q.1, q.2, false)))
      let d1 := if r.2.2 then { d with inExc := false, dead := [] } else d
      some (fin { d1 with stack := r.2.1 :: d1.stack } r.1 s!"hij={if r.2.1 then 1 else 0} ")
  | ["FR"] =>
    match d.stack with
    | [] => some (d, "bad-op")
    | took :: rest =>
      let s' := if took then exit cfg d.state d.now else d.state
      some (fin { d with stack := rest } s' "")
  | ["FSJ", j, fn] =>
    match j.toNat?, fn.toNat? with
    | some j, some f =>
      let q := pltEntry cfg d.state f d.now false
      if !q.2 then some (fin d q.1 "") else
      let d1 := { d with jbs := (j, (jmpSave q.1, d.stack)) :: d.jbs.filter (fun p => p.1 != j) }
      some (fin d1 (exit cfg q.1 d.now) "")
    | _, _ => some (d, "bad-op")
  | ["FLJ", j, fn, fl] =>
    match j.toNat?, fn.toNat? with
    | some j, some f =>
      let q := pltEntry cfg d.state f d.now (fl == "1")
      match d.jbs.lookup j with
      | none => some (d, "bad-op")
      | some (sv, stk) =>
        if !q.2 then some (fin d q.1 "") else
        some (fin { d with stack := stk } (exit cfg (jmpRestore d.nlfix q.1 sv) d.now) "")
    | _, _ => some (d, "bad-op")
  | _ => none

def step (d : DS) (ws : List String) : DS × String :=
  match stepNL d ws with
  | some r => r
  | none =>
  match ws with
  | ["RESET"] => ({}, "ok")
  | "CFG" :: items => ({ d with cfg := items.foldl applyCfg d.cfg }, "ok")
  | "TRIG" :: fn :: items =>
    match fn.toNat? with
    | some f => ({ d with trigs := (f, items.foldl applyTrig {}) :: d.trigs }, "ok")
    | none => (d, "bad-op")
  | ["FSIZE", fn, n] =>
    match fn.toNat?, n.toNat? with
    | some f, some n => ({ d with sizes := (f, n) :: d.sizes }, "ok")
    | _, _ => (d, "bad-op")
  | ["T", n] =>
    match n.toNat? with
    | some n => ({ d with now := n }, "ok")
    | none => (d, "bad-op")
  | ["E", k, fn] =>
    match fn.toNat? with
    | some f =>
      let kind := if k == "cyg" then Kind.cyg else Kind.pg
      let (s', took) := entry d.fullCfg kind d.state f d.now
      let (txt, n) := newRecs d s'
      ({ d with st := some s', stack := took :: d.stack, nout := n },
       s!"hij={if took && kind == .pg then 1 else 0} recs={txt}")
    | none => (d, "bad-op")
  | ["X"] =>
    match d.stack with
    | [] => (d, "bad-op")
    | took :: rest =>
      let s' := if took then exit d.fullCfg d.state d.now else d.state
      let (txt, n) := newRecs d s'
      ({ d with st := some s', stack := rest, nout := n }, s!"recs={txt}")
  | ["FORK"] =>
    -- (the atfork child handler prepares thread data if there is none yet)
    let s' := forkChild d.state
    ({ d with st := some s', nout := 0 }, "forked recs=-")
  | ["FLUSH"] =>
    if d.st.isNone then (d, "recs=-") else          -- the handler does nothing without thread data
    let s' := flushTop d.state
    let (txt, n) := newRecs d s'
    ({ d with st := some s', nout := n }, s!"recs={txt}")
  | ["END"] =>
    if d.st.isNone then (d, "end nothread") else
    let s := d.state
    let f := s.filt
    (d, s!"end idx={s.idx} ridx={s.recordIdx} filt={f.inCount}/{f.outCount}/{f.depth}/{f.maxDepth}/{f.time}/{f.size} en={if s.enabled then 1 else 0}")
  | _ => (d, "bad-op")

def model : Model := { σ := DS, init := {}, step := step }

end Driver.Mcount
