import Driver.Proto
import Uft.Model.Mcount
import Uft.Gen.Layout
/- driver for the libmcount hook model (C02, C05); see harness/h1_driver.c for the op set
   CFG k=v … (optional f7fixed=0|1, default 1 = the code with the repair of F-C07-TRACEOFF-FLUSH)   TRIG <fn> item…   FSIZE <fn> <n>   T n   E pg|cyg <fn>   X   FLUSH   END -/
namespace Driver.Mcount
open Uft.Mcount

structure DS where
  cfg : Cfg := {}
  trigs : List (Nat × Trigger) := []
  sizes : List (Nat × Nat) := []
  st : Option St := none          -- created lazily at the first hook (after CFG/TRIG lines)
  now : Nat := 1000
  stack : List Bool := []         -- per open script call: did the hook take it
  nout : Nat := 0                 -- records already printed

def DS.fullCfg (d : DS) : Cfg :=
  { d.cfg with trig := fun f => (d.trigs.lookup f).getD {}, fsize := fun f => (d.sizes.lookup f).getD 16 }

def DS.state (d : DS) : St := d.st.getD (St.init d.fullCfg)

def kv (s : String) : String × String :=
  match s.splitOn "=" with
  | [k, v] => (k, v)
  | _ => (s, "")

def applyCfg (c : Cfg) (item : String) : Cfg :=
  let (k, v) := kv item
  let n := v.toNat?.getD 0
  match k with
  | "maxstack" => { c with maxStack := n }
  | "depth" => { c with depthOpt := n }
  | "threshold" => { c with threshold := n }
  | "optin" => { c with optIn := n != 0 }
  | "locin" => { c with locIn := n != 0 }
  | "caller" => { c with callerMode := n != 0 }
  | "minsize" => { c with minSize := n }
  | "fast" => { c with fast := n != 0 }
  | "enabled" => { c with enabled0 := n != 0 }
  | "f4fixed" => { c with f4fixed := n != 0 }
  | "s4fixed" => { c with s4fixed := n != 0 }
  | "f7fixed" => { c with f7fixed := n != 0 }     -- default 1: the flush at the TRACE_OFF update (F-C07-TRACEOFF-FLUSH)
  | _ => c

def applyTrig (t : Trigger) (item : String) : Trigger :=
  let (k, v) := kv item
  let n := v.toNat?.getD 0
  match k with
  | "filter" => { t with filter := some (v == "in") }
  | "loc" => { t with loc := some (v == "in") }
  | "depth" => { t with depth := some n }
  | "traceon" => { t with traceOn := true }
  | "traceoff" => { t with traceOff := true }
  | "time" => { t with time := some n }
  | "size" => { t with size := some n }
  | "trace" => { t with trace := true }
  | "caller" => { t with caller := true }
  | "finish" => { t with finish := true }
  | _ => t

/-- records are rendered as a reader sees them: through the generated writer
    (`packWord`, from libmcount/record.c) and the generated reader (bit-fields of uftrace.h) -/
def showRec (r : Rec) : String :=
  let w := Uft.Gen.Layout.packWord r.type false r.depth r.addr
  let t := match Uft.Gen.Layout.unpackType w with | 0 => "E" | 1 => "X" | 2 => "L" | _ => "V"
  let a := Uft.Gen.Layout.unpackAddr w
  let name := if a = r.addr then s!"{a}" else s!"{r.addr}+{a - r.addr}"
  s!"{t}:{Uft.Gen.Layout.unpackDepth w}:{name}:{r.time}"

def newRecs (d : DS) (s : St) : String × Nat :=
  let rs := s.out.drop d.nout
  ((if rs.isEmpty then "-" else " ".intercalate (rs.map showRec)), s.out.length)

def step (d : DS) (ws : List String) : DS × String :=
  match ws with
  | ["RESET"] => ({}, "ok")
  | "CFG" :: items => ({ d with cfg := items.foldl applyCfg d.cfg }, "ok")
  | "TRIG" :: fn :: items =>
    match fn.toNat? with
    | some f => ({ d with trigs := (f, items.foldl applyTrig {}) :: d.trigs }, "ok")
    | none => (d, "bad-op")
  | ["FSIZE", fn, n] =>
    match fn.toNat?, n.toNat? with
    | some f, some n => ({ d with sizes := (f, n) :: d.sizes }, "ok")
    | _, _ => (d, "bad-op")
  | ["T", n] =>
    match n.toNat? with
    | some n => ({ d with now := n }, "ok")
    | none => (d, "bad-op")
  | ["E", k, fn] =>
    match fn.toNat? with
    | some f =>
      let kind := if k == "cyg" then Kind.cyg else Kind.pg
      let (s', took) := entry d.fullCfg kind d.state f d.now
      let (txt, n) := newRecs d s'
      ({ d with st := some s', stack := took :: d.stack, nout := n },
       s!"hij={if took && kind == .pg then 1 else 0} recs={txt}")
    | none => (d, "bad-op")
  | ["X"] =>
    match d.stack with
    | [] => (d, "bad-op")
    | took :: rest =>
      let s' := if took then exit d.fullCfg d.state d.now else d.state
      let (txt, n) := newRecs d s'
      ({ d with st := some s', stack := rest, nout := n }, s!"recs={txt}")
  | ["FORK"] =>
    -- (the atfork child handler prepares thread data if there is none yet)
    let s' := forkChild d.state
    ({ d with st := some s', nout := 0 }, "forked recs=-")
  | ["FLUSH"] =>
    if d.st.isNone then (d, "recs=-") else          -- the handler does nothing without thread data
    let s' := flushTop d.state
    let (txt, n) := newRecs d s'
    ({ d with st := some s', nout := n }, s!"recs={txt}")
  | ["END"] =>
    if d.st.isNone then (d, "end nothread") else
    let s := d.state
    let f := s.filt
    (d, s!"end idx={s.idx} ridx={s.recordIdx} filt={f.inCount}/{f.outCount}/{f.depth}/{f.maxDepth}/{f.time}/{f.size} en={if s.enabled then 1 else 0}")
  | _ => (d, "bad-op")

def model : Model := { σ := DS, init := {}, step := step }

end Driver.Mcount
