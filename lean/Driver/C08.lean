import Driver.Proto
import Uft.Model.ReportExt
/- C08 driver (model `Report`).
   func <maxStack> <avgMode 0|1|2> <-s string|-> | <id:size …> | <task 0 records> | <task 1 records> …
        -> "rows <key,call,size,tsum,tavg,tmin,tmax,ssum,savg,smin,smax>;…"   (sorted, as printed)
           or "invalid-sort-key"
   funcpre …  -> the same before the repair of F-C08-DUP (a sort key given twice): "hang" or rows
   task <maxStack> <-s string|-> | | <task 0 records> | …
        -> same row format, key = task index
   diff <maxStack base>:<maxStack pair> <avgMode> <-s string|-> <column> <abs 0|1> | <id:size …> | base streams … | # | pair streams …
        -> "drows <base row>/<pair row>;…"
   nodes <maxStack> | | streams…   -> unsorted raw node table (name order), sum/rec unreduced
   funcx <maxStack> <avgMode> <-s string|-> <byName 0|1> | <addr:nameid:sym 0|1:size …> | streams…
        -> rows of the name-keyed report (key = name id); byName 1 = repaired recursion test (F-C08-SAMENAME)
   diffx <maxStack base>:<maxStack pair> <avgMode> <-s|-> <column> <abs 0|1> <percent 0|1> <byName 0|1>
         | <addr:nameid:sym:size …> | base streams … | # | pair streams …      -> drows, keys = name ids
   taskx <maxStack> <-s string|-> <tidFixed 0|1> | <tid of task 0> <tid of task 1> … | streams…
        -> rows, key = tid; tidFixed 1 = numeric tid order (repair of F-C08-TIDSORT)
   record token: <E|X|L|V>:<time>:<depth>:<function id>
-/
namespace Driver.C08
open Uft.Report

def splitBar (sep : String) (ws : List String) : List (List String) :=
  ws.foldr (fun w acc => if w = sep then [] :: acc else
    match acc with
    | [] => [[w]]
    | a :: r => (w :: a) :: r) [[]]

def parseRec (s : String) : Option Rec :=
  match s.splitOn ":" with
  | [t, time, depth, addr] =>
    let typ := if t = "E" then some 0 else if t = "X" then some 1 else if t = "L" then some 2
               else if t = "V" then some 3 else none
    match typ, time.toNat?, depth.toNat?, addr.toNat? with
    | some ty, some tm, some d, some a => some { time := tm % M64, typ := ty, depth := d, addr := a }
    | _, _, _, _ => none
  | _ => none

def parseStream (ws : List String) : Option (List Rec) :=
  ws.foldr (fun w acc => match parseRec w, acc with
    | some r, some l => some (r :: l)
    | _, _ => none) (some [])

def parseStreams (secs : List (List String)) : Option (List (List Rec)) :=
  secs.foldr (fun s acc => match parseStream s, acc with
    | some r, some l => some (r :: l)
    | _, _ => none) (some [])

def parseSizes (ws : List String) : Nat → Nat :=
  ws.foldl (fun f w => match w.splitOn ":" with
    | [k, v] => match k.toNat?, v.toNat? with
      | some k, some v => fun x => if x = k then v else f x
      | _, _ => f
    | _ => f) (fun _ => 0)

def insSorted (k : Nat) : List Nat → List Nat
  | [] => [k]
  | a :: r => if k < a then k :: a :: r else if k = a then a :: r else a :: insSorted k r

/-- every function id that can name a node: the record addresses and 0 (a never-entered slot) -/
def keysOf (streams : List (List Rec)) : List Nat :=
  streams.foldl (fun acc l => l.foldl (fun acc r => if r.typ = 3 then acc else insSorted r.addr acc) acc) [0]

def showRow (r : Row) : String :=
  s!"{r.key},{r.call},{r.size},{r.tsum},{r.tavg},{r.tmin},{r.tmax},{r.ssum},{r.savg},{r.smin},{r.smax}"

def optKeys (s : String) : Option String := if s = "-" then none else some s

/-- `<addr>:<name id>:<sym 0|1>:<size>` … -> the keying and the symbol sizes; an address that is
    not listed is unnamed (its own name, no symbol) -/
def parseTable (ws : List String) (byName : Bool) : Keying × (Nat → Option Nat) :=
  let ents : List (Nat × Nat × Bool × Nat) := ws.filterMap fun w =>
    match (w.splitOn ":").map String.toNat? with
    | [some a, some n, some s, some z] => some (a, n, s == 1, z)
    | _ => none
  let look (a : Nat) : Option (Nat × Bool × Nat) := (ents.find? (fun e => e.1 == a)).map (·.2)
  ({ name := fun a => match look a with | some e => e.1 | none => 1000000000 + a,
     sym := fun a => match look a with | some e => e.2.1 | none => false,
     byName := byName },
   fun a => match look a with | some e => if e.2.1 then some e.2.2 else none | none => none)

def funcRows (maxStack : Nat) (sizes : Nat → Nat) (streams : List (List Rec)) : List Row :=
  nameRows (reportNodes false maxStack streams) sizes (keysOf streams)

def handle (ws : List String) : String :=
  match splitBar "|" ws with
  | ["func", ms, avg, sk] :: sizes :: secs =>
    match ms.toNat?, avg.toNat?, parseStreams secs with
    | some ms, some avg, some streams =>
      match setupSortG true (convertSortKeys (optKeys sk) avg) with
      | none => "invalid-sort-key"
      | some chain =>
        match sortByChainG chain (funcRows ms (parseSizes sizes) streams) with
        | none => "hang"
        | some rows => "rows " ++ ";".intercalate (rows.map showRow)
    | _, _, _ => "bad-op"
  | ["funcpre", ms, avg, sk] :: sizes :: secs =>
    match ms.toNat?, avg.toNat?, parseStreams secs with
    | some ms, some avg, some streams =>
      match setupSortG false (convertSortKeys (optKeys sk) avg) with
      | none => "invalid-sort-key"
      | some chain =>
        match sortByChainG chain (funcRows ms (parseSizes sizes) streams) with
        | none => "hang"
        | some rows => "rows " ++ ";".intercalate (rows.map showRow)
    | _, _, _ => "bad-op"
  | ["task", ms, sk] :: _ :: secs =>
    match ms.toNat?, parseStreams secs with
    | some ms, some streams =>
      let names := ((optKeys sk).getD "total").splitOn ","
      let cmps := names.map taskCmp
      if cmps.any (·.isNone) then "invalid-sort-key" else
      let rows := nameRows (reportNodes true ms streams) (fun _ => 0) (List.range streams.length)
      "rows " ++ ";".intercalate ((sortRows (cmpChain (cmps.filterMap id)) rows).map showRow)
    | _, _ => "bad-op"
  | ["diff", ms, avg, sk, col, ab] :: sizes :: secs =>
    let bsecs := secs.takeWhile (· ≠ ["#"])
    let psecs := (secs.dropWhile (· ≠ ["#"])).drop 1
    let msl := (ms.splitOn ":").map String.toNat?
    match msl, avg.toNat?, col.toNat?, parseStreams bsecs, parseStreams psecs with
    | [some ms, some msp], some avg, some col, some bs, some ps =>
      match setupDiff (convertSortKeys (optKeys sk) avg) with
      | none => "invalid-sort-key"
      | some keys =>
        let sz := parseSizes sizes
        let rows := diffByKeys keys col (ab = "1") (funcRows ms sz bs) (funcRows msp sz ps)
        "drows " ++ ";".intercalate (rows.map fun d => showRow d.base ++ "/" ++ showRow d.pair)
    | _, _, _, _, _ => "bad-op"
  | ["nodes", ms] :: _ :: secs =>
    match ms.toNat?, parseStreams secs with
    | some ms, some streams =>
      let ns := reportNodes false ms streams
      "nodes " ++ ";".intercalate (((keysOf streams).filter (fun k => (ns k).call > 0)).map fun k =>
        let n := ns k
        s!"{k},{n.call},{n.total.sum},{n.total.recs},{n.total.min},{n.total.max},{n.self.sum},{n.self.min},{n.self.max}")
    | _, _ => "bad-op"
  | ["funcx", ms, avg, sk, bn] :: tab :: secs =>
    match ms.toNat?, avg.toNat?, parseStreams secs with
    | some ms, some avg, some streams =>
      match setupSortG true (convertSortKeys (optKeys sk) avg) with
      | none => "invalid-sort-key"
      | some chain =>
        let (ky, sz) := parseTable tab (bn = "1")
        match sortByChainG chain (keyedRows ky sz ms streams (keysOf streams)) with
        | none => "hang"
        | some rows => "rows " ++ ";".intercalate (rows.map showRow)
    | _, _, _ => "bad-op"
  | ["diffx", ms, avg, sk, col, ab, pc, bn] :: tab :: secs =>
    let bsecs := secs.takeWhile (· ≠ ["#"])
    let psecs := (secs.dropWhile (· ≠ ["#"])).drop 1
    let msl := (ms.splitOn ":").map String.toNat?
    match msl, avg.toNat?, col.toNat?, parseStreams bsecs, parseStreams psecs with
    | [some ms, some msp], some avg, some col, some bs, some ps =>
      match setupDiff (convertSortKeys (optKeys sk) avg) with
      | none => "invalid-sort-key"
      | some keys =>
        let (ky, sz) := parseTable tab (bn = "1")
        let rows := diffByKeysP (dedupKeys keys) col (ab = "1") (pc = "1")
          (keyedRows ky sz ms bs (keysOf bs)) (keyedRows ky sz msp ps (keysOf ps))
        "drows " ++ ";".intercalate (rows.map fun d => showRow d.base ++ "/" ++ showRow d.pair)
    | _, _, _, _, _ => "bad-op"
  | ["taskx", ms, sk, tf] :: tidws :: secs =>
    match ms.toNat?, parseStreams secs with
    | some ms, some streams =>
      let tids := tidws.filterMap String.toNat?
      let names := ((optKeys sk).getD "total").splitOn ","
      match sortTaskRows (tf = "1") names (taskRows tids (reportNodes true ms streams)) with
      | none => "invalid-sort-key"
      | some rows => "rows " ++ ";".intercalate (rows.map showRow)
    | _, _ => "bad-op"
  | _ => "bad-op"

def model : Model := { σ := Unit, init := (), step := fun _ ws => ((), handle ws) }

end Driver.C08
