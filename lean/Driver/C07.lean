import Driver.Proto
import Uft.Model.Fstack
/- C07 driver (model Fstack).
   RESET
   CFG depth=N threshold=N optin=0|1 locin=0|1 caller=0|1 enabled=0|1 rstart=N rstop=N nolibcall=0|1 nomerge=0|1 pltfixed=0|1
   TRIG <fn> filter=in|out loc=in|out depth=N time=N trace caller traceon traceoff hide plt
   RUN <cmd> <rec>…      cmd: replay report graph dump script dumpraw la (look-ahead only) spec specstrict
       (pltfixed=0: replay/script as they were before the repair of finding F-C07-NOLIBCALL)
       rec = E|X|V|L:<depth>:<fn>:<time>   -> the shown records in the same format, or "-"
-/
namespace Driver.C07
open Uft.Mcount (Rec Trigger Call Calls)
open Uft.Fstack

structure DS where
  cfg : RCfg := {}
  trigs : List (Nat × Trigger) := []
  hides : List Nat := []
  plts : List Nat := []

def DS.full (d : DS) : RCfg :=
  { d.cfg with trig := fun f => (d.trigs.lookup f).getD {}, hide := fun f => d.hides.contains f,
               plt := fun f => d.plts.contains f }

def kv (s : String) : String × String :=
  match s.splitOn "=" with
  | [k, v] => (k, v)
  | _ => (s, "")

def applyCfg (c : RCfg) (item : String) : RCfg :=
  let (k, v) := kv item
  let n := v.toNat?.getD 0
  match k with
  | "depth" => { c with depthOpt := n }
  | "threshold" => { c with threshold := n }
  | "optin" => { c with optIn := n != 0 }
  | "locin" => { c with locIn := n != 0 }
  | "caller" => { c with callerMode := n != 0 }
  | "enabled" => { c with enabled0 := n != 0 }
  | "rstart" => { c with rangeStart := n }
  | "rstop" => { c with rangeStop := n }
  | "nolibcall" => { c with noLibcall := n != 0 }
  | "nomerge" => { c with noMerge := n != 0 }
  | "pltfixed" => { c with pltFixed := n != 0 }
  | _ => c

def applyTrig (t : Trigger) (item : String) : Trigger :=
  let (k, v) := kv item
  let n := v.toNat?.getD 0
  match k with
  | "filter" => { t with filter := some (v == "in") }
  | "loc" => { t with loc := some (v == "in") }
  | "depth" => { t with depth := some n }
  | "traceon" => { t with traceOn := true }
  | "traceoff" => { t with traceOff := true }
  | "time" => { t with time := some n }
  | "trace" => { t with trace := true }
  | "caller" => { t with caller := true }
  | _ => t

def parseRec (s : String) : Option Rec :=
  match s.splitOn ":" with
  | [t, d, f, tm] =>
    let ty := match t with | "E" => some 0 | "X" => some 1 | "V" => some 2 | "L" => some 3 | _ => none
    match ty, d.toNat?, f.toNat?, tm.toNat? with
    | some ty, some d, some f, some tm => some { time := tm, type := ty, depth := d, addr := f }
    | _, _, _, _ => none
  | _ => none

def showRec (r : Rec) : String :=
  let t := match r.type with | 0 => "E" | 1 => "X" | 2 => "V" | _ => "L"
  s!"{t}:{r.depth}:{r.addr}:{r.time}"

def showRecs (rs : List Rec) : String :=
  if rs.isEmpty then "-" else " ".intercalate (rs.map showRec)

/-- rebuild the forest from a well-nested ENTRY/EXIT stream: stack of (fn, t0, children so far, reversed) -/
def revCalls : List Call → Calls → Calls
  | [], acc => acc
  | x :: r, acc => revCalls r (.cons x acc)

def toForest : List Rec → List (Nat × Nat × List Call) → List Call → Option Calls
  | [], [], top => some (revCalls top .nil)
  | [], _ :: _, _ => none
  | r :: rest, stk, top =>
    if r.type = 0 then toForest rest ((r.addr, r.time, top) :: stk) []
    else if r.type = 1 then
      match stk with
      | (f, t0, outer) :: stk' =>
        if f = r.addr then toForest rest stk' (Call.node f t0 r.time (revCalls top .nil) :: outer) else none
      | [] => none
    else none

def run (c : RCfg) (cmd : String) (rs : List Rec) : String :=
  match cmd with
  | "replay" => showRecs (cmdOut c .replay rs)
  | "report" => showRecs (cmdOut c .report rs)
  | "graph" => showRecs (cmdOut c .graph rs)
  | "dump" => showRecs (cmdOut c .dump rs)
  | "script" => showRecs (cmdOut c .script rs)
  | "dumpraw" => showRecs (outDumpRaw c rs)
  | "la" => showRecs (lookahead c rs)
  | "spec" => match toForest rs [] [] with | some cs => showRecs (spec c false cs) | none => "not-a-forest"
  | "specstrict" => match toForest rs [] [] with | some cs => showRecs (spec c true cs) | none => "not-a-forest"
  | _ => "bad-op"

def showTagged (rs : List (Nat × Rec)) : String :=
  if rs.isEmpty then "-" else " ".intercalate (rs.map fun p => s!"{p.1}/{showRec p.2}")

def splitBar (ws : List String) : List (List String) :=
  ws.foldr (fun w acc => if w = "|" then [] :: acc else
    match acc with
    | [] => [[w]]
    | a :: r => (w :: a) :: r) [[]]

/-- RUNM <cmd> <recs of task 0> | <recs of task 1> | …  -> "<task>/<rec> …" -/
def runMulti (c : RCfg) (cmd : String) (files : List (List Rec)) : String :=
  match cmd with
  | "replay" => showTagged (cmdOutM c .replay files)
  | "report" => showTagged (cmdOutM c .report files)
  | "graph" => showTagged (cmdOutM c .graph files)
  | "dump" => showTagged (cmdOutM c .dump files)
  | "script" => showTagged (cmdOutM c .script files)
  | "dumpraw" => showTagged (dumpRawM c c.enabled0 0 files)
  | _ => "bad-op"

def step (d : DS) (ws : List String) : DS × String :=
  match ws with
  | ["RESET"] => ({}, "ok")
  | "CFG" :: items => ({ d with cfg := items.foldl applyCfg d.cfg }, "ok")
  | "TRIG" :: fn :: items =>
    match fn.toNat? with
    | some f =>
      ({ d with trigs := (f, items.foldl applyTrig {}) :: d.trigs,
                hides := if items.contains "hide" then f :: d.hides else d.hides,
                plts := if items.contains "plt" then f :: d.plts else d.plts }, "ok")
    | none => (d, "bad-op")
  | "RUNM" :: cmd :: recs =>
    match (splitBar recs).mapM (fun f => f.mapM parseRec) with
    | some files => (d, runMulti d.full cmd files)
    | none => (d, "bad-op")
  | "RUN" :: cmd :: recs =>
    match recs.mapM parseRec with
    | some rs => (d, run d.full cmd rs)
    | none => (d, "bad-op")
  | _ => (d, "bad-op")

def model : Model := { σ := DS, init := {}, step := step }

end Driver.C07
