import Driver.Proto
import Uft.Model.Pattern
import Uft.Model.Patch
/- C14 driver (strings are hex-encoded, "-" = empty, "~" = absent; numbers decimal or 0x-hex).

   pl <defmod> <lib> <soname|~> <patchstr> <nsyms> <sym>… <npat> <bits over syms>…
        -> "n=<k> <name>:<module>:<+|->… | <verdicts: one of + - 0 per symbol> | mod=<0|1>"
   pf <ty> <minsize> <symsize> <start> <addr> <tramp> <codehex>     -> "rc=<int> <codehex>"
   fixed <0|1> [<0|1>]  selects the unpatch code that `uf` and `flow` model from here on: first flag =
                        unpatch_func (0 = the code as it is, 1 = repaired: finding C14-UNPATCH-ANY-CALL),
                        second flag = unpatch_fentry_func (0 = as it is, 1 = repaired: finding
                        C14-UNPATCH-ENDBR; when absent it keeps its value); default 1 1            -> "ok"
   uf <ty> <addr> <size> <loc|~> <codehex> [<start> <maplen> <textlo> <texthi> <tramp> <fentry> <mcount>
        {P <name> <addr> <size>}…]                                   -> "rc=<int> <codehex>"
        (<loc> = the only __mcount_loc entry; the bsearch over it is `findLoc`;
         short form: start 0, the whole image is the code segment, no trampoline, no PLT symbols)
   flow <defmod> <patchstr> <minsize> <fentryaddr> <mcountaddr>
      | <lib> <ty> <start> <textaddr> <textsize> <setupfails> <npages> <initperms> <codehex>
          S <name> <addr> <size> <1 func|0 other|P plt> <bits over patterns> … L <loc> <bits over patterns> …
      | …
        -> "<mod> | <mod> | … | stats <total> <failed> <skipped> <nomatch>"
           mod = "tramp=<hex> tsize=<n> mid=<perms> post=<perms> <codehex>"
   dt <fixed 0|1> <sect|~> <fallback> {<name> <lg 0|1> <first 9 bytes hex>}…       -> "<type name>"
   perms: one char per page of the module's region (npages + 1 pages from `start`):
          x = r-x, W = rwx, w = rw-, r = r--, - = none
-/
namespace Driver.C14
open Uft.Pattern Uft.Patch

def str (h : String) : Option String :=
  if h = "~" then none else
  (parseHexBytes h).map fun bs => String.ofList (bs.map fun b => Char.ofNat b.toNat)

def hexStr (s : String) : String := hexOfBytes (s.toList.map fun c => UInt8.ofNat c.toNat)

def num (s : String) : Option Nat := if s.startsWith "0x" then parseHexNat s else s.toNat?

def parseTy : String → Option DynType
  | "none" => some .none | "pg" => some .pg | "fentry" => some .fentry
  | "fentry-nop" => some .fentryNop | "xray" => some .xray | "fpatchable" => some .patchable
  | _ => none

def bitAt (bits : String) (i : Nat) : Bool := bits.toList.getD i '0' == '1'

def showVerdict : Option Bool → Char
  | none => '0' | some true => '+' | some false => '-'

def showPatt (p : Patt) : String :=
  s!"{hexStr p.name}:{hexStr p.module}:{if p.positive then "+" else "-"}"

def splitBar (ws : List String) : List (List String) :=
  ws.foldr (fun w acc => if w = "|" then [] :: acc else
    match acc with
    | [] => [[w]]
    | a :: r => (w :: a) :: r) [[]]

def handlePl (ws : List String) : String :=
  match ws with
  | dm :: lib :: so :: ps :: ns :: rest =>
    match str dm, str lib, str ps, ns.toNat? with
    | some dm, some lib, some ps, some ns =>
      let so := str so
      let syms := (rest.take ns).filterMap str
      match rest.drop ns with
      | np :: bits =>
        if syms.length ≠ ns || np.toNat? ≠ some bits.length then "bad-op" else
        let pl := parsePatternList ps dm
        -- opaque match relation as data: pattern index × symbol
        let M : Nat → String → Bool := fun j s =>
          match syms.idxOf? s with
          | some i => bitAt (bits.getD j "") i
          | none => false
        let vs := syms.map fun s => showVerdict (decidePatch M pl lib so s)
        let pd := " ".intercalate (pl.map showPatt)
        s!"n={pl.length} {pd} | {String.ofList vs} | mod={if matchPatternModule pl lib none then 1 else 0}"
      | _ => "bad-op"
    | _, _, _, _ => "bad-op"
  | _ => "bad-op"

def showRes (r : Code × Res) : String := s!"rc={r.2.toInt} {hexOfBytes r.1}"

def handlePf : List String → String
  | [ty, ms, ss, st, a, tr, code] =>
    match parseTy ty, num ms, num ss, num st, num a, num tr, parseHexBytes code with
    | some ty, some ms, some ss, some st, some a, some tr, some code =>
      showRes (patchFunc ty ms ss code st a tr)
    | _, _, _, _, _, _, _ => "bad-op"
  | _ => "bad-op"

def parsePlt : List String → List Sym → Option (List Sym)
  | [], acc => some acc.reverse
  | "P" :: n :: a :: sz :: rest, acc =>
    match str n, num a, num sz with
    | some n, some a, some sz =>
      parsePlt rest ({ name := n, addr := a, size := sz, isFunc := false, isPlt := true } :: acc)
    | _, _, _ => none
  | _, _ => none

/-- bsearch(sym, mcount_loc, 1, …, cmp_loc) over the single entry -/
def ufLoc (a sz : Nat) (loc : String) : Option Nat :=
  if loc = "~" then none else
  match num loc with
  | some l => findLoc [l] { name := "f", addr := a, size := sz, isFunc := true }
  | none => none

def handleUf (fixed : Bool × Bool) : List String → String
  | [ty, a, sz, loc, code] =>
    match parseTy ty, num a, num sz, parseHexBytes code with
    | some ty, some a, some sz, some code =>
      let cfg : Cfg := { ty := ty, minSize := 0, start := 0, tramp := 0, locs := [], fixed := fixed.1,
                         skipEndbr := fixed.2, mapLen := code.length, textLo := 0, textHi := code.length }
      showRes (unpatchFuncG cfg code a (ufLoc a sz loc))
    | _, _, _, _ => "bad-op"
  | ty :: a :: sz :: loc :: code :: st :: ml :: tlo :: thi :: tr :: fe :: mc :: plt =>
    match parseTy ty, num a, parseHexBytes code, parsePlt plt [], num sz with
    | some ty, some a, some code, some plt, some sz =>
      match num st, num ml, num tlo, num thi, num tr, num fe, num mc with
      | some st, some ml, some tlo, some thi, some tr, some fe, some mc =>
        let cfg : Cfg := { ty := ty, minSize := 0, start := st, tramp := tr, locs := [], fixed := fixed.1,
                           skipEndbr := fixed.2, mapLen := ml, textLo := tlo, textHi := thi, symtab := plt, entryFuncs := [fe, mc] }
        showRes (unpatchFuncG cfg code a (ufLoc a sz loc))
      | _, _, _, _, _, _, _ => "bad-op"
    | _, _, _, _, _ => "bad-op"
  | _ => "bad-op"

def permOfChar : Char → Perm
  | 'x' => ⟨true, false, true⟩ | 'W' => ⟨true, true, true⟩ | 'w' => ⟨true, true, false⟩
  | 'r' => ⟨true, false, false⟩ | _ => ⟨false, false, false⟩

def charOfPerm (p : Perm) : Char :=
  match p.r, p.w, p.x with
  | true, false, true => 'x' | true, true, true => 'W' | true, true, false => 'w'
  | true, false, false => 'r' | false, false, false => '-' | _, _, _ => '?'

/-- S/L records of a module: symbols, locs, and (name ↦ bits over patterns) -/
def parseRecs : List String → List Sym → List Nat → List (String × String) →
    Option (List Sym × List Nat × List (String × String))
  | [], ss, ls, mt => some (ss.reverse, ls.reverse, mt)
  | "S" :: n :: a :: sz :: f :: bits :: rest, ss, ls, mt =>
    match str n, num a, num sz with
    | some n, some a, some sz =>
      parseRecs rest ({ name := n, addr := a, size := sz, isFunc := f == "1", isPlt := f == "P" } :: ss) ls
        ((n, bits) :: mt)
    | _, _, _ => none
  | "L" :: l :: bits :: rest, ss, ls, mt =>
    match num l with
    | some l => parseRecs rest ss (l :: ls) (("<" ++ toHex l ++ ">", bits) :: mt)
    | none => none
  | _, _, _, _ => none

structure ModIn where
  m : Module
  npages : Nat
  perms : String
  mt : List (String × String)

def parseMod (fixed : Bool × Bool) (mcount : Nat) : List String → Option ModIn
  | lib :: ty :: st :: ta :: ts :: sf :: np :: perms :: code :: recs =>
    match str lib, parseTy ty, num st, num ta, num ts, num np, parseHexBytes code,
          parseRecs recs [] [] [] with
    | some lib, some ty, some st, some ta, some ts, some np, some code, some (ss, ls, mt) =>
      some { m := { libname := lib, ty := ty, start := st, textAddr := ta, textSize := ts,
                    code := code, syms := ss, locs := ls, setupFails := sf == "1",
                    mapLen := np * 4096, unpatchFixed := fixed.1, unpatchEndbr := fixed.2,
                    mcountAddr := mcount },
             npages := np, perms := perms, mt := mt }
    | _, _, _, _, _, _, _, _ => none
  | _ => none

def permsOf (pg : Pages) (start npages : Nat) : String :=
  String.ofList ((List.range (npages + 1)).map fun i => charOfPerm (pg (start / 4096 + i)))

def handleFlow (fixed : Bool × Bool) (ws : List String) : String :=
  match splitBar ws with
  | [dm, ps, ms, fa, mc] :: mods =>
    match str dm, str ps, num ms, num fa, num mc >>= fun mc => mods.mapM (parseMod fixed mc) with
    | some dm, some ps, some ms, some fa, some mods =>
      let pl := parsePatternList ps dm
      let mt := mods.flatMap (·.mt)
      let M : Nat → String → Bool := fun j s =>
        match mt.lookup s with
        | some bits => bitAt bits j
        | none => false
      let verdict : Module → String → Option Bool := fun m s => decidePatch M pl m.libname none s
      let pg0 : Pages := fun n =>
        match mods.find? (fun mi => mi.m.start / 4096 ≤ n && n ≤ mi.m.start / 4096 + mi.npages) with
        | some mi => permOfChar (mi.perms.toList.getD (n - mi.m.start / 4096) '-')
        | none => ⟨false, false, false⟩
      let w0 : World := { mods := mods.map (·.m), pages := pg0, stats := {} }
      let w1 := doDynamicUpdate fa ms verdict w0
      let w2 := dynamicUpdate fa ms verdict w0
      let outs := (w2.mods.zip mods).map fun (m, mi) =>
        s!"tramp=0x{toHex m.trampoline} tsize={m.textSize} mid={permsOf w1.pages mi.m.start mi.npages} post={permsOf w2.pages mi.m.start mi.npages} {hexOfBytes m.code}"
      let st := w2.stats
      " | ".intercalate outs ++ s!" | stats {st.total} {st.failed} {st.skipped} {st.noMatch}"
    | _, _, _, _, _ => "bad-op"
  | _ => "bad-op"

def showTy : DynType → String
  | .none => "none" | .pg => "pg" | .fentry => "fentry" | .fentryNop => "fentry-nop"
  | .xray => "xray" | .patchable => "fpatchable"

/-- each symbol's first 9 bytes are laid out back to back: symbol i at 16*i -/
def parseDSyms : List String → Nat → Code → List DSym → Option (Code × List DSym)
  | [], _, c, ss => some (c, ss.reverse)
  | n :: lg :: bs :: rest, i, c, ss =>
    match str n, parseHexBytes bs with
    | some n, some bs =>
      let chunk := (bs ++ List.replicate 16 0).take 16
      parseDSyms rest (i + 1) (c ++ chunk) ({ name := n, addr := 16 * i, lg := lg == "1" } :: ss)
    | _, _ => none
  | _, _, _, _ => none

def handleDt : List String → String
  | fx :: sect :: fb :: recs =>
    match parseTy fb, parseDSyms recs 0 [] [] with
    | some fb, some (c, ss) =>
      showTy (detectTypeG (fx == "1") (if sect = "~" then none else parseTy sect) c ss fb)
    | _, _ => "bad-op"
  | _ => "bad-op"

def handle (fixed : Bool × Bool) : List String → String
  | "pl" :: r => handlePl r
  | "pf" :: r => handlePf r
  | "uf" :: r => handleUf fixed r
  | "flow" :: r => handleFlow fixed r
  | "dt" :: r => handleDt r
  | _ => "bad-op"

/-- state: which unpatch_func / unpatch_fentry_func is modelled (`fixed <0|1> [<0|1>]` switches) -/
def model : Model :=
  { σ := Bool × Bool, init := (true, true),
    step := fun fx ws =>
      match ws with
      | ["fixed", b] => ((b == "1", fx.2), "ok")
      | ["fixed", b, e] => ((b == "1", e == "1"), "ok")
      | _ => (fx, handle fx ws) }

end Driver.C14
