import Driver.Dispatch
def main (args : List String) : IO UInt32 := Driver.dispatch args
