import Uft.Lemmas.FstackSpec
/- C07 helper lemmas, part 4: the replay loop (print_graph_rstack with the fstack_skip
   look-ahead and leaf folding) over the eager trace of a forest shows `specCalls` too. -/
set_option linter.unusedSimpArgs false
set_option linter.unusedVariables false
namespace Uft.Fstack
open Uft.Mcount (Rec Trigger Call Calls evCall evCalls)

structure Good (s : FS) : Prop where
  scSet : s.scSet = true
  en : s.enabled = true
  ds : s.dispSet = true

/-- `s1` is `s` after fstack_entry pushed `fr` (whatever it did to filter.depth / display depth) -/
structure Entered (s s1 : FS) (fr : Fr) : Prop where
  inC : s1.inCount = (if fr.filtered then s.inCount + 1 else s.inCount)
  outC : s1.outCount = (if !fr.filtered && fr.notrace then s.outCount + 1 else s.outCount)
  stack : s1.stack = fr :: s.stack
  sc : s1.sc = s.sc + 1
  good : Good s1
  orig : fr.origDepth = s.depth

theorem entered_of_entry (c : RCfg) (hq : Quiet c) (s : FS) (hg : Good s) (r : Rec) (ht : r.type = 0) :
    Entered s (fsEntry c (account s r) r.addr).1 (entryFr c (account s r) r.addr) ∧
    (fsEntry c (account s r) r.addr).2 = (visit c (envOf s) r.addr).1 ∧
    envOf (fsEntry c (account s r) r.addr).1 = (visit c (envOf s) r.addr).2 ∧
    (fsEntry c (account s r) r.addr).1.dispDepth = s.dispDepth ∧
    (entryFr c (account s r) r.addr).norecord = !(visit c (envOf s) r.addr).1 := by
  obtain ⟨a1, a2, a3, a4, a5, a6, a7, a8, a9⟩ := account_fields s r hg.scSet (by omega)
  obtain ⟨e1, e2, e3, e4, e5, e6, e7, e8⟩ := entry_visit c hq (account s r) (by rw [a7, hg.en]) r.addr
  rw [envOf_account] at e1 e2 e3 e4 e6 e7 e8
  simp only [a9, hg.ds, Bool.true_or, Bool.not_true, Bool.and_false, Bool.false_eq_true, ↓reduceIte, a8] at e6 e7
  have hin := fsEntry_inCount c (account s r) r.addr
  have hout := fsEntry_outCount c (account s r) r.addr
  have hstk := fsEntry_stack c (account s r) r.addr
  have hsc := fsEntry_sc c (account s r) r.addr
  rw [a3] at hin
  rw [a4] at hout
  rw [a6] at hstk
  rw [a1, a2] at hsc
  simp only [ht, ↓reduceIte] at hsc
  refine ⟨⟨hin, hout, hstk, hsc.1, ⟨hsc.2, e5, e6⟩, by simp [entryFr, a5]⟩, e1, ?_, e7, e8⟩
  simp only [envOf] at e2 e3 e4 ⊢
  rw [e2, e3, e4]

theorem entered_updEntry (s s1 : FS) (fr : Fr) (h : Entered s s1 fr) : Entered s (updEntry s1) fr :=
  ⟨h.inC, h.outC, h.stack, h.sc, ⟨h.good.scSet, h.good.en, h.good.ds⟩, h.orig⟩

def setDisp (s : FS) (n : Nat) : FS := { s with dispDepth := n }

theorem setDisp_self (s : FS) : setDisp s s.dispDepth = s := by cases s; rfl
theorem setDisp_succ (s : FS) : setDisp s (s.dispDepth + 1) = updEntry s := rfl

theorem exit_of_entered (c : RCfg) (s s1 : FS) (fr : Fr) (h : Entered s s1 fr) (hg : Good s) (r : Rec)
    (ht : r.type = 1) :
    fsExit c (account s1 r) = setDisp s s1.dispDepth ∧
    exitStep c (account s1 r) r false =
      (if fr.norecord then (setDisp s s1.dispDepth, [])
       else (setDisp s (s1.dispDepth - 1), [shown r (s1.dispDepth - 1)])) := by
  obtain ⟨a1, a2, a3, a4, a5, a6, a7, a8, a9⟩ := account_fields s1 r h.good.scSet (by omega)
  have htop : topFr c (account s1 r) = fr := by simp [topFr, a6, h.stack]
  have hx : fsExit c (account s1 r) = setDisp s s1.dispDepth := by
    apply fs_ext <;> simp [setDisp, fsExit, topFr, a6, h.stack, a3, a4, a1, a2, a7, a8, a9, h.inC, h.outC, h.sc,
      h.good.en, h.good.ds, h.orig, ht, hg.scSet, hg.en, hg.ds]
    · cases fr.filtered <;> simp
    · cases fr.filtered <;> cases fr.notrace <;> simp
  refine ⟨hx, ?_⟩
  unfold exitStep
  rw [htop, a7, h.good.en]
  cases hn : fr.norecord with
  | true => simp [hx]
  | false =>
    simp only [Bool.not_true, Bool.or_self, Bool.false_eq_true, ↓reduceIte]
    refine Prod.ext ?_ ?_
    · apply fs_ext <;> simp [setDisp, fsExit, topFr, updExit, a6, h.stack, a3, a4, a1, a2, a7, a8, a9, h.inC, h.outC, h.sc,
        h.good.en, h.good.ds, h.orig, ht, hg.scSet, hg.en, hg.ds]
      · cases fr.filtered <;> simp
      · cases fr.filtered <;> cases fr.notrace <;> simp
    · simp [updExit, a9, h.good.ds, a8]

/-- fstack_check_skip never skips an ENTRY that fstack_entry would accept -/
theorem checkSkip_sound (c : RCfg) (hq : Quiet c) (s : FS) (r : Rec) (ht : r.type = 0)
    (h : checkSkip c s r = true) : (visit c (envOf s) r.addr).1 = false := by
  have hoff := (hq r.addr).2
  have hon := (hq r.addr).1
  simp only [checkSkip, ht, Nat.zero_ne_one, ↓reduceIte, hoff, hon, Bool.or_false, Bool.false_or, decide_true,
    Bool.true_and, isIn] at h
  unfold visit envOf
  dsimp only
  by_cases h1 : s.outCount > 0
  · simp [h1]
  · simp only [h1, ↓reduceIte] at h ⊢
    by_cases h2 : (c.trig r.addr).filter = some false
    · simp [h2]
    · simp only [h2, ↓reduceIte] at h ⊢
      by_cases h2b : (c.trig r.addr).filter = some true
      · simp only [h2b, BEq.rfl, Bool.not_true, Bool.false_and, Bool.false_eq_true, ↓reduceIte] at h ⊢
        by_cases h4 : locReject c (c.trig r.addr) = true
        · simp [h4]
        · simp only [h4, Bool.false_eq_true, ↓reduceIte]
          cases hd : (c.trig r.addr).depth with
          | some v => simp [hd] at h
          | none =>
            simp only [hd, Option.isSome_none, Bool.false_eq_true, ↓reduceIte, Option.getD_none] at h ⊢
            simp only [Bool.or_eq_true, decide_eq_true_eq] at h
            rcases h with h | h <;> simp [h]
      · have hb : ((c.trig r.addr).filter == some true) = false := by simpa using h2b
        simp only [hb, Bool.not_false, Bool.true_and, Bool.false_eq_true, ↓reduceIte] at h ⊢
        by_cases h3 : c.optIn = true ∧ s.inCount = 0
        · simp [h3]
        · have h3b : (c.optIn && decide (s.inCount = 0)) = false := by
            cases ho : c.optIn <;> simp_all
          simp only [h3b, Bool.false_eq_true, ↓reduceIte]
          by_cases h4 : locReject c (c.trig r.addr) = true
          · simp [h4]
          · simp only [h4, Bool.false_eq_true, ↓reduceIte]
            have hloc : (c.trig r.addr).loc.isNone = true → c.locIn = false := by
              intro hl
              cases hl2 : (c.trig r.addr).loc with
              | none => simpa [locReject, hl2] using h4
              | some v => simp [hl2] at hl
            by_cases hA : ((c.trig r.addr).loc.isNone && (c.optIn || c.locIn) && decide (s.inCount = 0)) = true
            · exfalso
              simp only [Bool.and_eq_true, Bool.or_eq_true, decide_eq_true_eq] at hA
              have := hloc hA.1.1
              rcases hA.1.2 with ho | hl
              · exact h3 ⟨ho, hA.2⟩
              · rw [this] at hl; exact absurd hl (by decide)
            · simp only [hA, Bool.false_eq_true, ↓reduceIte] at h
              cases hd : (c.trig r.addr).depth with
              | some v => simp [hd] at h
              | none =>
                simp only [hd, Option.isSome_none, Bool.false_eq_true, ↓reduceIte, Option.getD_none] at h ⊢
                simp only [Bool.or_eq_true, decide_eq_true_eq] at h
                rcases h with h | h <;> simp [h]

/-! ### the replay machine -/

def runBst (c : RCfg) : RS → List Rec → RS × List Rec
  | s, [] => (s, [])
  | s, r :: rest => ((runBst c (stepB c s r).1 rest).1, (stepB c s r).2 ++ (runBst c (stepB c s r).1 rest).2)

def flushPend (s : RS) : List Rec :=
  match s.pend with
  | some (e, d) => [shown e d]
  | none => []

theorem runB_eq (c : RCfg) (s : RS) (rs : List Rec) :
    runB c s rs = (runBst c s rs).2 ++ flushPend (runBst c s rs).1 := by
  induction rs generalizing s with
  | nil =>
    simp only [runB, runBst, flushPend, List.nil_append]
    cases s.pend with
    | none => rfl
    | some p => cases p; rfl
  | cons r rest ih => simp [runB, runBst, ih, List.append_assoc]

theorem runBst_append (c : RCfg) (s : RS) (a b : List Rec) :
    runBst c s (a ++ b) =
      ((runBst c (runBst c s a).1 b).1, (runBst c s a).2 ++ (runBst c (runBst c s a).1 b).2) := by
  induction a generalizing s with
  | nil => simp [runBst]
  | cons r rest ih => simp [runBst, ih, List.append_assoc]

theorem runBst_cons (c : RCfg) (s : RS) (r : Rec) (rs : List Rec) :
    runBst c s (r :: rs) = ((runBst c (stepB c s r).1 rs).1, (stepB c s r).2 ++ (runBst c (stepB c s r).1 rs).2) := rfl

theorem runBst_nil (c : RCfg) (s : RS) : runBst c s [] = (s, []) := rfl

theorem isPlt_false (c : RCfg) (hnl : c.noLibcall = false) (r : Rec) : isPlt c r = false := by
  simp [isPlt, hnl]

theorem stepBmain_entry (c : RCfg) (hnl : c.noLibcall = false) (s : FS) (r : Rec) (ht : r.type = 0) :
    stepBmain c s r =
      (if !(fsEntry c (account s r) r.addr).2 then (⟨(fsEntry c (account s r) r.addr).1, none⟩, [])
       else if c.noMerge then
         (⟨updEntry (fsEntry c (account s r) r.addr).1, none⟩, [shown r (fsEntry c (account s r) r.addr).1.dispDepth])
       else (⟨(fsEntry c (account s r) r.addr).1, some (r, (fsEntry c (account s r) r.addr).1.dispDepth)⟩, [])) := by
  simp only [stepBmain, isPlt_false c hnl, Bool.false_eq_true, ↓reduceIte, ht]

theorem stepBmain_exit (c : RCfg) (hnl : c.noLibcall = false) (s : FS) (r : Rec) (ht : r.type = 1) :
    stepBmain c s r = (⟨(exitStep c (account s r) r false).1, none⟩, (exitStep c (account s r) r false).2) := by
  simp only [stepBmain, isPlt_false c hnl, Bool.false_eq_true, ↓reduceIte, ht]
  rw [if_neg (by decide : ¬ (1 : Nat) = 0)]

theorem stepB_pend_deeper (c : RCfg) (hnl : c.noLibcall = false) (s : FS) (e : Rec) (dd : Nat) (r : Rec)
    (hd : e.depth < r.depth) (ht : r.type ≤ 1) :
    stepB c ⟨s, some (e, dd)⟩ r =
      (if checkSkip c s r then
         (if !(if r.type = 0 then (fsEntry c (account s r) r.addr).1 else fsExit c (account s r)).enabled then
            (⟨updEntry (if r.type = 0 then (fsEntry c (account s r) r.addr).1 else fsExit c (account s r)), none⟩,
             [shown e dd])
          else (⟨if r.type = 0 then (fsEntry c (account s r) r.addr).1 else fsExit c (account s r), some (e, dd)⟩, []))
       else ((stepBmain c (updEntry s) r).1, shown e dd :: (stepBmain c (updEntry s) r).2)) := by
  have h1 : ¬ r.depth ≤ e.depth := by omega
  have h3 : ¬ r.type = 3 := by omega
  simp only [stepB, h1, ↓reduceIte, h3, isPlt_false c hnl, Bool.false_and, Bool.false_or]
  by_cases hk : checkSkip c s r = true
  · simp only [hk, ↓reduceIte]
    by_cases h0 : r.type = 0
    · simp [h0]
    · have h1' : r.type = 1 := by omega
      simp [h0, h1']
  · simp [hk]

theorem stepB_pend_leaf (c : RCfg) (s : FS) (e : Rec) (dd : Nat) (r : Rec) (hd : r.depth = e.depth)
    (ht : r.type = 1) :
    stepB c ⟨s, some (e, dd)⟩ r = (⟨fsExit c (account s r), none⟩, [shown e dd, shown r dd]) := by
  simp [stepB, hd, ht]

def B1 (c : RCfg) (evs : Nat → List Rec) (sp : Env → Nat → List Rec) : Prop :=
  ∀ d s, Good s → runBst c ⟨s, none⟩ (evs d) = (⟨s, none⟩, sp (envOf s) s.dispDepth)

def B2 (c : RCfg) (evs : Nat → List Rec) (sp : Env → Nat → List Rec) : Prop :=
  ∀ d s e dd, Good s → e.depth < d → s.dispDepth = dd →
    (runBst c ⟨s, some (e, dd)⟩ (evs d) = (⟨s, some (e, dd)⟩, []) ∧ sp (envOf s) (dd + 1) = []) ∨
    runBst c ⟨s, some (e, dd)⟩ (evs d) = (⟨updEntry s, none⟩, shown e dd :: sp (envOf s) (dd + 1))

theorem good_updEntry (s : FS) (h : Good s) : Good (updEntry s) := ⟨h.scSet, h.en, h.ds⟩

mutual
theorem both_call (c : RCfg) (hq : Quiet c) (hnl : c.noLibcall = false) : ∀ (x : Call),
    B1 c (fun d => evCall d x) (fun E d => specCall c E d x) ∧
    B2 c (fun d => evCall d x) (fun E d => specCall c E d x)
  | .node f t0 t1 kids => by
    obtain ⟨k1, k2⟩ := both_calls c hq hnl kids
    -- facts about the ENTRY / EXIT of this call from a good state
    have key : ∀ (d : Nat) (s : FS), Good s →
        ∃ (p1 : FS) (fr : Fr), p1 = (fsEntry c (account s { time := t0, type := 0, depth := d, addr := f }) f).1 ∧
          Entered s p1 fr ∧
          (fsEntry c (account s { time := t0, type := 0, depth := d, addr := f }) f).2 = (visit c (envOf s) f).1 ∧
          envOf p1 = (visit c (envOf s) f).2 ∧ p1.dispDepth = s.dispDepth ∧ fr.norecord = !(visit c (envOf s) f).1 := by
      intro d s hg
      obtain ⟨h1, h2, h3, h4, h5⟩ := entered_of_entry c hq s hg { time := t0, type := 0, depth := d, addr := f } rfl
      exact ⟨_, _, rfl, h1, h2, h3, h4, h5⟩
    have hB1 : B1 c (fun d => evCall d (.node f t0 t1 kids)) (fun E d => specCall c E d (.node f t0 t1 kids)) := by
      intro d s hg
      obtain ⟨p1, fr, hp1, hE, hp2, henv, hdd, hnr⟩ := key d s hg
      have hX := exit_of_entered c s p1 fr hE hg { time := t1, type := 1, depth := d, addr := f } rfl
      have hXu := exit_of_entered c s (updEntry p1) fr (entered_updEntry s p1 fr hE) hg
        { time := t1, type := 1, depth := d, addr := f } rfl
      simp only [evCall, runBst_append, List.singleton_append, runBst_cons, runBst_nil, specCall]
      have hEs : stepB c ⟨s, none⟩ { time := t0, type := 0, depth := d, addr := f } =
          stepBmain c s { time := t0, type := 0, depth := d, addr := f } := rfl
      rw [hEs, stepBmain_entry c hnl s _ rfl, ← hp1, hp2]
      cases hv : (visit c (envOf s) f).1 with
      | false =>
        rw [hv] at hnr
        simp only [Bool.not_false, ↓reduceIte]
        rw [k1 (d + 1) p1 hE.good]
        simp only
        have : stepB c ⟨p1, none⟩ { time := t1, type := 1, depth := d, addr := f } =
            stepBmain c p1 { time := t1, type := 1, depth := d, addr := f } := rfl
        rw [this, stepBmain_exit c hnl p1 _ rfl, hX.2, hnr]
        simp only [Bool.not_false, ↓reduceIte, hdd, setDisp_self, henv, hv, Bool.false_eq_true,
          List.nil_append, List.append_nil]
      | true =>
        rw [hv] at hnr
        simp only [Bool.not_true, Bool.false_eq_true, ↓reduceIte]
        have hXmain : ∀ q : FS, stepB c ⟨q, none⟩ { time := t1, type := 1, depth := d, addr := f } =
            stepBmain c q { time := t1, type := 1, depth := d, addr := f } := fun _ => rfl
        have hfin : (exitStep c (account (updEntry p1) { time := t1, type := 1, depth := d, addr := f })
            { time := t1, type := 1, depth := d, addr := f } false) =
            (s, [shown { time := t1, type := 1, depth := d, addr := f } s.dispDepth]) := by
          rw [hXu.2, hnr]
          have : (updEntry p1).dispDepth = s.dispDepth + 1 := by simp [updEntry, hdd]
          simp only [Bool.not_true, Bool.false_eq_true, ↓reduceIte, this, Nat.add_sub_cancel, setDisp_self]
        cases hm : c.noMerge with
        | true =>
          simp only [↓reduceIte]
          rw [k1 (d + 1) (updEntry p1) (good_updEntry p1 hE.good)]
          simp only
          rw [hXmain, stepBmain_exit c hnl _ _ rfl, hfin]
          have he : envOf (updEntry p1) = (visit c (envOf s) f).2 := henv
          have hd1 : (updEntry p1).dispDepth = s.dispDepth + 1 := by simp [updEntry, hdd]
          rw [he, hd1]
          simp [hdd, shown]
        | false =>
          simp only [Bool.false_eq_true, ↓reduceIte]
          rcases k2 (d + 1) p1 { time := t0, type := 0, depth := d, addr := f } s.dispDepth hE.good
            (by simp) hdd with ⟨hst, hnil⟩ | hfl
          · rw [hdd, hst]
            simp only
            rw [stepB_pend_leaf c p1 { time := t0, type := 0, depth := d, addr := f } s.dispDepth
              { time := t1, type := 1, depth := d, addr := f } rfl rfl, hX.1, hdd, setDisp_self]
            rw [henv] at hnil
            simp [hnil, shown]
          · rw [hdd, hfl]
            simp only
            rw [hXmain, stepBmain_exit c hnl _ _ rfl, hfin]
            simp [henv, shown]
    refine ⟨hB1, ?_⟩
    intro d s e dd hg hlt hsd
    obtain ⟨p1, fr, hp1, hE, hp2, henv, hdd, hnr⟩ := key d s hg
    have hXu := exit_of_entered c s (updEntry p1) fr (entered_updEntry s p1 fr hE) hg
      { time := t1, type := 1, depth := d, addr := f } rfl
    have hX := exit_of_entered c s p1 fr hE hg { time := t1, type := 1, depth := d, addr := f } rfl
    by_cases hk : checkSkip c s { time := t0, type := 0, depth := d, addr := f } = true
    · -- the ENTRY is skipped by fstack_skip: it is one fstack_entry rejects
      have hv : (visit c (envOf s) f).1 = false := checkSkip_sound c hq s _ rfl hk
      rw [hv] at hnr
      have hspec : ∀ n, specCall c (envOf s) n (.node f t0 t1 kids) = specCalls c (visit c (envOf s) f).2 n kids := by
        intro n; simp [specCall, hv]
      have hEstep : stepB c ⟨s, some (e, dd)⟩ { time := t0, type := 0, depth := d, addr := f } =
          (⟨p1, some (e, dd)⟩, []) := by
        rw [stepB_pend_deeper c hnl s e dd _ hlt (by simp), hk]
        simp only [↓reduceIte, ← hp1, hE.good.en, Bool.not_true, Bool.false_eq_true]
      have hexitU : (exitStep c (account (updEntry p1) { time := t1, type := 1, depth := d, addr := f })
          { time := t1, type := 1, depth := d, addr := f } false) = (updEntry s, []) := by
        rw [hXu.2, hnr]
        have : (updEntry p1).dispDepth = s.dispDepth + 1 := by simp [updEntry, hdd]
        simp only [Bool.not_false, ↓reduceIte, this, setDisp_succ]
      simp only [evCall, runBst_append, List.singleton_append, runBst_cons, runBst_nil, hEstep, hspec]
      rcases k2 (d + 1) p1 e dd hE.good (by omega) (by rw [hdd, hsd]) with ⟨hst, hnil⟩ | hfl
      · rw [hst]
        simp only
        rw [henv] at hnil
        rw [stepB_pend_deeper c hnl p1 e dd _ hlt (by simp)]
        by_cases hk2 : checkSkip c p1 { time := t1, type := 1, depth := d, addr := f } = true
        · left
          simp only [hk2, ↓reduceIte]
          rw [if_neg (by decide : ¬ (1 : Nat) = 0), hX.1, hdd, setDisp_self, hg.en]
          simp [hnil]
        · right
          simp only [hk2, Bool.false_eq_true, ↓reduceIte]
          rw [stepBmain_exit c hnl _ _ rfl, hexitU]
          simp [hnil]
      · right
        rw [hfl]
        simp only
        have : stepB c ⟨updEntry p1, none⟩ { time := t1, type := 1, depth := d, addr := f } =
            stepBmain c (updEntry p1) { time := t1, type := 1, depth := d, addr := f } := rfl
        rw [this, stepBmain_exit c hnl _ _ rfl, hexitU, henv]
        simp
    · -- the ENTRY is not skipped: the pending line is printed and the main loop takes over
      right
      have h1 := hB1 d (updEntry s) (good_updEntry s hg)
      simp only [evCall, List.singleton_append, List.cons_append, List.nil_append, runBst_cons] at h1 ⊢
      rw [stepB_pend_deeper c hnl s e dd _ hlt (by simp)]
      simp only [hk, Bool.false_eq_true, ↓reduceIte]
      have hm : stepB c ⟨updEntry s, none⟩ { time := t0, type := 0, depth := d, addr := f } =
          stepBmain c (updEntry s) { time := t0, type := 0, depth := d, addr := f } := rfl
      rw [hm] at h1
      have h2 := congrArg Prod.fst h1
      have h3 := congrArg Prod.snd h1
      simp only at h2 h3
      refine Prod.ext h2 ?_
      simp only [List.cons_append]
      rw [h3]
      simp [updEntry, envOf, hsd]
theorem both_calls (c : RCfg) (hq : Quiet c) (hnl : c.noLibcall = false) : ∀ (xs : Calls),
    B1 c (fun d => evCalls d xs) (fun E d => specCalls c E d xs) ∧
    B2 c (fun d => evCalls d xs) (fun E d => specCalls c E d xs)
  | .nil => by
    refine ⟨fun d s hg => rfl, fun d s e dd hg hlt hsd => Or.inl ⟨rfl, rfl⟩⟩
  | .cons x rest => by
    obtain ⟨x1, x2⟩ := both_call c hq hnl x
    obtain ⟨r1, r2⟩ := both_calls c hq hnl rest
    refine ⟨?_, ?_⟩
    · intro d s hg
      simp only [evCalls, runBst_append, specCalls]
      rw [x1 d s hg]
      simp only
      rw [r1 d s hg]
    · intro d s e dd hg hlt hsd
      simp only [evCalls, runBst_append, specCalls]
      rcases x2 d s e dd hg hlt hsd with ⟨hst, hnil⟩ | hfl
      · rw [hst]
        simp only
        rcases r2 d s e dd hg hlt hsd with ⟨hst2, hnil2⟩ | hfl2
        · left; rw [hst2]; simp [hnil, hnil2]
        · right; rw [hfl2]; simp [hnil]
      · right
        rw [hfl]
        simp only
        rw [r1 d (updEntry s) (good_updEntry s hg)]
        simp [updEntry, envOf, hsd]
end

end Uft.Fstack
