import Uft.Lemmas.FstackSpec
/- C07 helper lemmas, part 4: the replay loop (print_graph_rstack with the fstack_skip
   look-ahead and leaf folding) over the eager trace of a forest shows `specCalls` too. -/
set_option linter.unusedSimpArgs false
set_option linter.unusedVariables false
namespace Uft.Fstack
open Uft.Mcount (Rec Trigger Call Calls evCall evCalls)

structure Good (s : FS) : Prop where
  scSet : s.scSet = true
  en : s.enabled = true
  ds : s.dispSet = true

/-- `s1` is `s` after fstack_entry pushed `fr` (whatever it did to filter.depth / display depth) -/
structure Entered (s s1 : FS) (fr : Fr) : Prop where
  inC : s1.inCount = (if fr.filtered then s.inCount + 1 else s.inCount)
  outC : s1.outCount = (if !fr.filtered && fr.notrace then s.outCount + 1 else s.outCount)
  stack : s1.stack = fr :: s.stack
  sc : s1.sc = s.sc + 1
  good : Good s1
  orig : fr.origDepth = s.depth

theorem entered_of_entry (c : RCfg) (hq : Quiet c) (s : FS) (hg : Good s) (r : Rec) (ht : r.type = 0) :
    Entered s (fsEntry c (account s r) r.addr).1 (entryFr c (account s r) r.addr) ∧
    (fsEntry c (account s r) r.addr).2 = (visit c (envOf s) r.addr).1 ∧
    envOf (fsEntry c (account s r) r.addr).1 = (visit c (envOf s) r.addr).2 ∧
    (fsEntry c (account s r) r.addr).1.dispDepth = s.dispDepth ∧
    (entryFr c (account s r) r.addr).norecord = !(visit c (envOf s) r.addr).1 := by
  obtain ⟨a1, a2, a3, a4, a5, a6, a7, a8, a9⟩ := account_fields s r hg.scSet (by omega)
  obtain ⟨e1, e2, e3, e4, e5, e6, e7, e8⟩ := entry_visit c hq (account s r) (by rw [a7, hg.en]) r.addr
  rw [envOf_account] at e1 e2 e3 e4 e6 e7 e8
  simp only [a9, hg.ds, Bool.true_or, Bool.not_true, Bool.and_false, Bool.false_eq_true, ↓reduceIte, a8] at e6 e7
  have hin := fsEntry_inCount c (account s r) r.addr
  have hout := fsEntry_outCount c (account s r) r.addr
  have hstk := fsEntry_stack c (account s r) r.addr
  have hsc := fsEntry_sc c (account s r) r.addr
  rw [a3] at hin
  rw [a4] at hout
  rw [a6] at hstk
  rw [a1, a2] at hsc
  simp only [ht, ↓reduceIte] at hsc
  refine ⟨⟨hin, hout, hstk, hsc.1, ⟨hsc.2, e5, e6⟩, by simp [entryFr, a5]⟩, e1, ?_, e7, e8⟩
  simp only [envOf] at e2 e3 e4 ⊢
  rw [e2, e3, e4]

theorem entered_updEntry (s s1 : FS) (fr : Fr) (h : Entered s s1 fr) : Entered s (updEntry s1) fr :=
  ⟨h.inC, h.outC, h.stack, h.sc, ⟨h.good.scSet, h.good.en, h.good.ds⟩, h.orig⟩

theorem exit_of_entered (c : RCfg) (s s1 : FS) (fr : Fr) (h : Entered s s1 fr) (hg : Good s) (r : Rec)
    (ht : r.type = 1) :
    fsExit c (account s1 r) = { s with dispDepth := s1.dispDepth } ∧
    exitStep c (account s1 r) r false =
      (if fr.norecord then ({ s with dispDepth := s1.dispDepth }, [])
       else ({ s with dispDepth := s1.dispDepth - 1 }, [shown r (s1.dispDepth - 1)])) := by
  obtain ⟨a1, a2, a3, a4, a5, a6, a7, a8, a9⟩ := account_fields s1 r h.good.scSet (by omega)
  have htop : topFr c (account s1 r) = fr := by simp [topFr, a6, h.stack]
  have hx : fsExit c (account s1 r) = { s with dispDepth := s1.dispDepth } := by
    apply fs_ext <;> simp [fsExit, topFr, a6, h.stack, a3, a4, a1, a2, a7, a8, a9, h.inC, h.outC, h.sc,
      h.good.en, h.good.ds, h.orig, ht, hg.scSet, hg.en, hg.ds]
    · cases fr.filtered <;> simp
    · cases fr.filtered <;> cases fr.notrace <;> simp
  refine ⟨hx, ?_⟩
  unfold exitStep
  rw [htop, a7, h.good.en]
  cases hn : fr.norecord with
  | true => simp [hx]
  | false =>
    simp only [Bool.not_true, Bool.or_self, Bool.false_eq_true, ↓reduceIte]
    refine Prod.ext ?_ ?_
    · apply fs_ext <;> simp [fsExit, topFr, updExit, a6, h.stack, a3, a4, a1, a2, a7, a8, a9, h.inC, h.outC, h.sc,
        h.good.en, h.good.ds, h.orig, ht, hg.scSet, hg.en, hg.ds]
      · cases fr.filtered <;> simp
      · cases fr.filtered <;> cases fr.notrace <;> simp
    · simp [updExit, a9, h.good.ds, a8]

/-- fstack_check_skip never skips an ENTRY that fstack_entry would accept -/
theorem checkSkip_sound (c : RCfg) (hq : Quiet c) (s : FS) (r : Rec) (ht : r.type = 0)
    (h : checkSkip c s r = true) : (visit c (envOf s) r.addr).1 = false := by
  have hoff := (hq r.addr).2
  have hon := (hq r.addr).1
  simp only [checkSkip, ht, Nat.zero_ne_one, ↓reduceIte, hoff, hon, Bool.or_false, Bool.false_or, decide_true,
    Bool.true_and, isIn] at h
  unfold visit envOf
  dsimp only
  by_cases h1 : s.outCount > 0
  · simp [h1]
  · simp only [h1, ↓reduceIte] at h ⊢
    by_cases h2 : (c.trig r.addr).filter = some false
    · simp [h2]
    · simp only [h2, ↓reduceIte] at h ⊢
      by_cases h2b : (c.trig r.addr).filter = some true
      · simp only [h2b, BEq.rfl, Bool.not_true, Bool.false_and, Bool.false_eq_true, ↓reduceIte] at h ⊢
        by_cases h4 : locReject c (c.trig r.addr) = true
        · simp [h4]
        · simp only [h4, Bool.false_eq_true, ↓reduceIte]
          cases hd : (c.trig r.addr).depth with
          | some v => simp [hd] at h
          | none =>
            simp only [hd, Option.isSome_none, Bool.false_eq_true, ↓reduceIte, Option.getD_none] at h ⊢
            simp only [Bool.or_eq_true, decide_eq_true_eq] at h
            rcases h with h | h <;> simp [h]
      · have hb : ((c.trig r.addr).filter == some true) = false := by simpa using h2b
        simp only [hb, Bool.not_false, Bool.true_and, Bool.false_eq_true, ↓reduceIte] at h ⊢
        by_cases h3 : c.optIn = true ∧ s.inCount = 0
        · simp [h3]
        · have h3b : (c.optIn && decide (s.inCount = 0)) = false := by
            cases ho : c.optIn <;> simp_all
          simp only [h3b, Bool.false_eq_true, ↓reduceIte]
          by_cases h4 : locReject c (c.trig r.addr) = true
          · simp [h4]
          · simp only [h4, Bool.false_eq_true, ↓reduceIte]
            have hloc : (c.trig r.addr).loc.isNone = true → c.locIn = false := by
              intro hl
              cases hl2 : (c.trig r.addr).loc with
              | none => simpa [locReject, hl2] using h4
              | some v => simp [hl2] at hl
            by_cases hA : ((c.trig r.addr).loc.isNone && (c.optIn || c.locIn) && decide (s.inCount = 0)) = true
            · exfalso
              simp only [Bool.and_eq_true, Bool.or_eq_true, decide_eq_true_eq] at hA
              have := hloc hA.1.1
              rcases hA.1.2 with ho | hl
              · exact h3 ⟨ho, hA.2⟩
              · rw [this] at hl; exact absurd hl (by decide)
            · simp only [hA, Bool.false_eq_true, ↓reduceIte] at h
              cases hd : (c.trig r.addr).depth with
              | some v => simp [hd] at h
              | none =>
                simp only [hd, Option.isSome_none, Bool.false_eq_true, ↓reduceIte, Option.getD_none] at h ⊢
                simp only [Bool.or_eq_true, decide_eq_true_eq] at h
                rcases h with h | h <;> simp [h]

end Uft.Fstack
