/-
C05 / C02 — the definitions generated from libmcount/mcount.c by translators/c2lean.py
(`Uft.Gen.McountC.mcount_save_filter`, `mcount_entry_filter_check`, `mcount_exit_filter_record_prefix`)
compute what the hand-written hook model `Uft/Model/Mcount.lean` (`saveFilt`, `entryFilterCheck`,
`exitFilterRecord`) computes on the per-thread filter state.

Mapping (`FiltRel`): `mtdp->filter.*` is the model's `Filt` record (`in_count` / `out_count` are C `int`, `Nat`
in the model); `mcount_enabled` is `St.enabled`; the options `mcount_depth`, `mcount_triggers->filter_count`,
`->loc_count` are `Cfg.depthOpt`, `optIn`, `locIn` (`CfgRel`); the rstack slot's saved filter values and flags
are a model `Frame` (`FrameRel`).

Abstractions of the hand model, explicit as hypotheses:
  * `uftrace_match_filter` on `mcount_triggers->root` leaves in `*tr` an encoding (`TrEnc`) of the model's
    `Trigger` value `cfg.trig addr` — pattern matching is not modelled;
  * `mcount_check_rstack` (stack overflow check, with its own flush) is the model's `checkRstack`: the theorems
    are stated for the case that it reports no overflow and relate the state after it;
  * `max_depth` / the depth counters are `unsigned short` in C: a `depth=` trigger value is assumed to be below
    2^31 only in so far as the model itself does (it is a `Nat` there and an `int` in `tr->depth`);
  * the model counts in `Nat`: the exit side is equivalent where the decremented counter is positive.
`mcount_entry_filter_check_eq` relates the filter state, `mcount_enabled` and the returned `filter_result`; it does
not depend on the model's `f7fixed` flag (the flush of finding F-C07-TRACEOFF-FLUSH writes records, not filter
state).  `mcount_entry_filter_check_calls` pins down the opaque calls the code makes: `record_trace_data` on the
callers' top frame exactly under the condition of the model's `traceOffFlush` with `f7fixed = true`
(`entryFilterCheck_flush`), which is the code after the repair of that finding.
-/
import Uft.Model.Mcount
import Uft.Gen.McountC
import Uft.Lemmas.CommonGenEq
namespace Uft.McountGenEq
open Uft.Mcount Uft.Gen.C Uft.GenEq
open Uft.Gen.McountC (Oracles W_uftrace_match_filter mcount_save_filter mcount_entry_filter_check
  mcount_exit_filter_record_prefix filter_restore_from_rstack mcount_get_filter_mode mcount_get_loc_mode)
/-- the generated field structure (the model's own state record is `Uft.Mcount.St`) -/
abbrev GSt := Uft.Gen.McountC.St

/-! ### bit masks: a flag tested under a mask that contains it -/

theorem and_mask_ne (F m b : Nat) (h : m &&& b = b) : ((F &&& m != 0) && (F &&& b != 0)) = (F &&& b != 0) := by
  by_cases hb : F &&& b = 0
  · simp [hb]
  · have : F &&& m ≠ 0 := by
      intro hm
      apply hb
      have : (F &&& m) &&& b = F &&& b := by rw [Nat.and_assoc, h]
      rw [← this, hm]; simp
    simp [hb, this]

/-! ### model-side normal forms -/

/-- the value of an optional trigger parameter (0 when there is none) -/
def optVal : Option Nat → Nat
  | some d => d
  | none => 0

theorem getD_eq (o : Option Nat) (x : Nat) : o.getD x = if o.isSome then optVal o else x := by
  cases o <;> simp [optVal]

theorem matchFilt_eq (t : Trigger) (f : Filt) :
    matchFilt t f = if t.filter.isSome then
        { f with inCount := if t.filter == some true then f.inCount + 1 else f.inCount
                 outCount := if t.filter == some true then f.outCount else f.outCount + 1
                 depth := 0 }
      else f := by
  unfold matchFilt; rcases t.filter with _ | _ | _ <;> simp

theorem earlyOut_eq (cfg : Cfg) (t : Trigger) (f : Filt) :
    earlyOut cfg t f = ((!t.filter.isSome && cfg.optIn && decide (f.inCount = 0)) ||
      (if t.loc.isSome then (t.loc == some false) else cfg.locIn)) := by
  unfold earlyOut; rcases t.filter with _ | _ <;> rcases t.loc with _ | _ | _ <;> simp

theorem trigFilt_eq (t : Trigger) (f : Filt) :
    trigFilt t f = { f with depth := if t.depth.isSome then 0 else f.depth
                            maxDepth := if t.depth.isSome then optVal t.depth else f.maxDepth
                            time := if t.time.isSome then optVal t.time else f.time
                            size := if t.size.isSome then optVal t.size else f.size } := by
  unfold trigFilt; rcases t.depth with _ | _ <;> rcases t.time with _ | _ <;> rcases t.size with _ | _ <;>
    simp [optVal]

theorem depthLimit_eq (cfg : Cfg) (t : Trigger) (f : Filt) :
    depthLimit cfg t f = if t.depth.isSome then optVal t.depth
      else if f.maxDepth = noMaxDepth then cfg.depthOpt else f.maxDepth := by
  unfold depthLimit; rcases t.depth with _ | _ <;> simp [optVal]

/-! ### the mapping -/

/-- `*tr` after uftrace_match_filter encodes the model's trigger value (numerals: TRIGGER_FL_FILTER, _LOC, _DEPTH,
    _TRACE_ON, _TRACE_OFF, _TIME_FILTER, _SIZE_FILTER; FILTER_MODE_IN = 1, FILTER_MODE_OUT = 2) -/
structure TrEnc (t : Trigger) (w : W_uftrace_match_filter) : Prop where
  filter : ((w.tr_flags &&& 2) != 0) = t.filter.isSome
  fmodeIn : t.filter.isSome → (w.tr_fmode == 1) = (t.filter == some true)
  fmodeOut : t.filter.isSome → (w.tr_fmode == 2) = !(t.filter == some true)
  loc : ((w.tr_flags &&& 262144) != 0) = t.loc.isSome
  lmode : t.loc.isSome → (w.tr_lmode == 2) = (t.loc == some false)
  depthF : ((w.tr_flags &&& 1) != 0) = t.depth.isSome
  depthV : t.depth.isSome → w.tr_depth = ((optVal t.depth : Nat) : Int)
  traceOn : ((w.tr_flags &&& 16) != 0) = t.traceOn
  traceOff : ((w.tr_flags &&& 32) != 0) = t.traceOff
  timeF : ((w.tr_flags &&& 1024) != 0) = t.time.isSome
  timeV : t.time.isSome → w.tr_time = optVal t.time
  sizeF : ((w.tr_flags &&& 524288) != 0) = t.size.isSome
  sizeV : t.size.isSome → w.tr_size = optVal t.size

/-- `mtdp->filter` holds the model's `Filt` -/
structure FiltRel (f : Filt) (s : GSt) : Prop where
  inC : s.mtdp_filter_in_count = (f.inCount : Int)
  outC : s.mtdp_filter_out_count = (f.outCount : Int)
  depth : s.mtdp_filter_depth = f.depth
  maxDepth : s.mtdp_filter_max_depth = f.maxDepth
  time : s.mtdp_filter_time = f.time
  size : s.mtdp_filter_size = f.size
  svDepth : s.mtdp_filter_saved_depth = f.svDepth
  svMaxDepth : s.mtdp_filter_saved_max_depth = f.svMaxDepth
  svTime : s.mtdp_filter_saved_time = f.svTime
  svSize : s.mtdp_filter_saved_size = f.svSize

theorem filtRel_iff (f : Filt) (s : GSt) : FiltRel f s ↔
    (s.mtdp_filter_in_count = (f.inCount : Int) ∧ s.mtdp_filter_out_count = (f.outCount : Int) ∧
     s.mtdp_filter_depth = f.depth ∧ s.mtdp_filter_max_depth = f.maxDepth ∧ s.mtdp_filter_time = f.time ∧
     s.mtdp_filter_size = f.size ∧ s.mtdp_filter_saved_depth = f.svDepth ∧
     s.mtdp_filter_saved_max_depth = f.svMaxDepth ∧ s.mtdp_filter_saved_time = f.svTime ∧
     s.mtdp_filter_saved_size = f.svSize) :=
  ⟨fun ⟨a, b, c, d, e, g, h, i, j, k⟩ => ⟨a, b, c, d, e, g, h, i, j, k⟩,
   fun ⟨a, b, c, d, e, g, h, i, j, k⟩ => ⟨a, b, c, d, e, g, h, i, j, k⟩⟩

/-- the option values the hooks read -/
structure CfgRel (cfg : Cfg) (s : GSt) : Prop where
  depthOpt : s.mcount_depth = (cfg.depthOpt : Int)
  optIn : decide (s.mcount_triggers_filter_count > 0) = cfg.optIn
  locIn : decide (s.mcount_triggers_loc_count > 0) = cfg.locIn
  threshold : s.mcount_threshold = cfg.threshold

/-- the rstack slot holds the model frame: saved filter values and the three flags the exit hook tests first
    (numerals: MCOUNT_FL_FILTERED = 16, MCOUNT_FL_NOTRACE = 8, MCOUNT_FL_RECOVER = 256) -/
structure FrameRel (fr : Frame) (s : GSt) : Prop where
  sDepth : s.rstack_filter_depth = fr.sDepth
  sMaxDepth : s.rstack_filter_max_depth = fr.sMaxDepth
  sTime : s.rstack_filter_time = fr.sTime
  sSize : s.rstack_filter_size = fr.sSize
  filtered : ((s.rstack_flags &&& 16) != 0) = fr.filtered
  notrace : ((s.rstack_flags &&& 8) != 0) = fr.notrace

/-! ### mcount_save_filter -/

theorem mcount_save_filter_eq (o : Oracles) (mtdp : Ptr) (s : GSt) (f : Filt) (hr : FiltRel f s) :
    FiltRel (saveFilt f) (mcount_save_filter o mtdp s) := by
  obtain ⟨h1, h2, h3, h4, h5, h6, h7, h8, h9, h10⟩ := hr
  unfold mcount_save_filter saveFilt
  simp only [Id.run, pure]
  constructor <;> simp [*]

/-- … and nothing but the four saved_* locations changes -/
theorem mcount_save_filter_frame (o : Oracles) (mtdp : Ptr) (s : GSt) :
    mcount_save_filter o mtdp s =
      { s with mtdp_filter_saved_depth := s.mtdp_filter_depth
               mtdp_filter_saved_max_depth := s.mtdp_filter_max_depth
               mtdp_filter_saved_time := s.mtdp_filter_time
               mtdp_filter_saved_size := s.mtdp_filter_size } := by
  unfold mcount_save_filter
  rfl

/-! ### mcount_entry_filter_check -/

/-- the model's result on the filter state, `mcount_enabled` and the verdict, for the regular (not
    DISABLE_MCOUNT_FILTER) build once mcount_check_rstack has reported no overflow: `entryFilterCheck` without its
    first line.  `entryFilterCheck_core` below shows this is what `entryFilterCheck` computes. -/
def efc (cfg : Cfg) (f : Filt) (en : Bool) (addr : Nat) : FR × Filt × Bool :=
  let f0 := saveFilt f
  if f0.outCount > 0 then (.out, f0, en) else
  let tr := cfg.trig addr
  let f1 := matchFilt tr f0
  if earlyOut cfg tr f0 then (.out, f1, en) else
  let f3 := trigFilt tr f1
  let en' := trigEnabled tr en
  if f3.depth ≥ depthLimit cfg tr f0 then (.out, f3, en') else (.in_, { f3 with depth := f3.depth + 1 }, en')

theorem entryFilterCheck_core (cfg : Cfg) (ms : Uft.Mcount.St) (addr : Nat) (hfast : cfg.fast = false)
    (hov : (checkRstack cfg ms).1 = false) :
    (entryFilterCheck cfg ms addr).1 = (efc cfg (checkRstack cfg ms).2.filt (checkRstack cfg ms).2.enabled addr).1 ∧
    (entryFilterCheck cfg ms addr).2.1.filt = (efc cfg (checkRstack cfg ms).2.filt (checkRstack cfg ms).2.enabled addr).2.1 ∧
    (entryFilterCheck cfg ms addr).2.1.enabled = (efc cfg (checkRstack cfg ms).2.filt (checkRstack cfg ms).2.enabled addr).2.2 := by
  unfold entryFilterCheck efc
  simp only [hov, hfast, Bool.false_eq_true, ↓reduceIte]
  split
  · simp
  · split
    · simp
    · split <;> simp

/-- the `filter_result` codes (FILTER_RSTACK = -1, FILTER_OUT = 0, FILTER_IN = 1 in the generated file) -/
def frCode : FR → Int
  | .rstack => -1
  | .out => 0
  | .in_ => 1

/-- assumptions on the opaque callees of mcount_entry_filter_check -/
structure EntryEnv (cfg : Cfg) (o : Oracles) (mtdp tr : Ptr) (child : Nat) : Prop where
  noOverflow : (o.mcount_check_rstack "mcount_entry_filter_check:1" mtdp {}).1 = false
  trig : ∀ p w, TrEnc (cfg.trig child) (o.uftrace_match_filter "mcount_entry_filter_check:2" child p tr w).2

/-- **mcount_entry_filter_check.**  For every option set, trigger table, filter state and function address: on a
    state whose `mtdp->filter` holds the model's `Filt` the generated function returns the code of the model's
    verdict and leaves the model's new `Filt` and `mcount_enabled`.  (Caveat of the translation, listed in the
    head of the generated file: `tr->depth` is stored into the `unsigned short` `max_depth` without the
    truncation C performs for values above 65535; the model has no such truncation either.) -/
theorem mcount_entry_filter_check_eq (cfg : Cfg) (o : Oracles) (mtdp tr : Ptr) (child : Nat) (s : GSt) (f : Filt)
    (en : Bool) (hr : FiltRel f s) (hc : CfgRel cfg s) (hen : s.mcount_enabled = en)
    (he : EntryEnv cfg o mtdp tr child) :
    (mcount_entry_filter_check o mtdp child tr s).2 = frCode (efc cfg f en child).1 ∧
    FiltRel (efc cfg f en child).2.1 (mcount_entry_filter_check o mtdp child tr s).1 ∧
    (mcount_entry_filter_check o mtdp child tr s).1.mcount_enabled = (efc cfg f en child).2.2 := by
  obtain ⟨h1, h2, h3, h4, h5, h6, h7, h8, h9, h10⟩ := hr
  obtain ⟨c1, c2, c3, c4⟩ := hc
  obtain ⟨e1, e2⟩ := he
  have e2' := e2 (Ptr.fld s.mcount_triggers "root")
    { tr_depth := s.tr_depth, tr_flags := s.tr_flags, tr_fmode := s.tr_fmode, tr_lmode := s.tr_lmode,
      tr_size := s.tr_size, tr_time := s.tr_time }
  generalize hw : (o.uftrace_match_filter "mcount_entry_filter_check:2" child (Ptr.fld s.mcount_triggers "root") tr
    { tr_depth := s.tr_depth, tr_flags := s.tr_flags, tr_fmode := s.tr_fmode, tr_lmode := s.tr_lmode,
      tr_size := s.tr_size, tr_time := s.tr_time }).2 = w at e2'
  obtain ⟨t1, t2, t2', t3, t4, t5, t6, t7, t8, t9, t10, t11, t12⟩ := e2'
  -- FLAGS_TO_CHECK contains each of the five flags tested under it
  have m1 := and_mask_ne w.tr_flags 525361 1 (by decide)
  have m2 := and_mask_ne w.tr_flags 525361 16 (by decide)
  have m3 := and_mask_ne w.tr_flags 525361 32 (by decide)
  have m4 := and_mask_ne w.tr_flags 525361 1024 (by decide)
  have m5 := and_mask_ne w.tr_flags 525361 524288 (by decide)
  rw [t5] at m1; rw [t7] at m2; rw [t8] at m3; rw [t9] at m4; rw [t11] at m5
  generalize hres : mcount_entry_filter_check o mtdp child tr s = r
  unfold mcount_entry_filter_check mcount_save_filter mcount_get_filter_mode mcount_get_loc_mode at hres
  simp only [Id.run, pure, e1, hw, m1, m2, m3, m4, m5, t1, t3, t5, t7, t8, t9, t11, Bool.false_eq_true, ↓reduceIte] at hres
  simp only [h1, h2, h3, h4, h5, h6, c1, c2, c3, hen] at hres
  repeat' ((replace hres := ite_eq_elim hres; rcases hres with ⟨hc, hres⟩ | ⟨hc, hres⟩) <;>
    (try simp only [t2 hc, t2' hc] at hres) <;> (try simp only [t4 hc] at hres))
  all_goals subst hres
  all_goals (
    simp only [efc, saveFilt, matchFilt_eq, earlyOut_eq, trigFilt_eq, depthLimit_eq, trigEnabled, noMaxDepth,
      Uft.Gen.Consts.FILTER_NO_MAX_DEPTH, frCode, filtRel_iff]
    grind)


/-- the model's condition for the flush at the TRACE_OFF update: both early returns passed, the trigger switches
    tracing off, and tracing is on at that point (after the TRACE_ON update) -/
def flushCond (cfg : Cfg) (f : Filt) (en : Bool) (addr : Nat) : Bool :=
  !decide ((saveFilt f).outCount > 0) && !earlyOut cfg (cfg.trig addr) (saveFilt f) &&
    (cfg.trig addr).traceOff && ((cfg.trig addr).traceOn || en)

/-- `flushCond` is when the model's `entryFilterCheck` (after the repair, `f7fixed = true`) writes the pending
    records of the callers -/
theorem entryFilterCheck_flush (cfg : Cfg) (ms : Uft.Mcount.St) (addr : Nat) (hfast : cfg.fast = false)
    (hfix : cfg.f7fixed = true) (hov : (checkRstack cfg ms).1 = false) :
    (entryFilterCheck cfg ms addr).2.1.out =
      if flushCond cfg (checkRstack cfg ms).2.filt (checkRstack cfg ms).2.enabled addr
      then (checkRstack cfg ms).2.out ++ (recordTrace (checkRstack cfg ms).2.frames).2
      else (checkRstack cfg ms).2.out := by
  unfold entryFilterCheck flushCond
  simp only [hov, hfast, Bool.false_eq_true, ↓reduceIte]
  split
  · simp [*]
  · split
    · simp [*]
    · split <;> simp [*, traceOffFlush_out]

/-- **the opaque calls of mcount_entry_filter_check**: mcount_check_rstack once; then record_trace_data on the
    callers' top frame `&mtdp->rstack[mtdp->idx - 1]` exactly when the model flushes (`flushCond`) and there is a
    caller (`mtdp->idx > 0`); nothing else that is logged. -/
theorem mcount_entry_filter_check_calls (cfg : Cfg) (o : Oracles) (mtdp tr : Ptr) (child : Nat) (s : GSt)
    (f : Filt) (en : Bool) (hr : FiltRel f s) (hc : CfgRel cfg s) (hen : s.mcount_enabled = en)
    (he : EntryEnv cfg o mtdp tr child) :
    (mcount_entry_filter_check o mtdp child tr s).1.calls =
      s.calls ++ [{ fn := "mcount_check_rstack", site := "mcount_entry_filter_check:1", ints := [], ptrs := [mtdp] }] ++
        (if flushCond cfg f en child = true ∧ s.mtdp_idx > 0 then
          [{ fn := "record_trace_data", site := "mcount_entry_filter_check:3", ints := [],
             ptrs := [mtdp, Ptr.idx s.mtdp_rstack (s.mtdp_idx - 1), Ptr.null] }] else []) ∧
    (mcount_entry_filter_check o mtdp child tr s).1.aborted = s.aborted := by
  obtain ⟨h1, h2, h3, h4, h5, h6, h7, h8, h9, h10⟩ := hr
  obtain ⟨c1, c2, c3, c4⟩ := hc
  obtain ⟨e1, e2⟩ := he
  have e2' := e2 (Ptr.fld s.mcount_triggers "root")
    { tr_depth := s.tr_depth, tr_flags := s.tr_flags, tr_fmode := s.tr_fmode, tr_lmode := s.tr_lmode,
      tr_size := s.tr_size, tr_time := s.tr_time }
  generalize hw : (o.uftrace_match_filter "mcount_entry_filter_check:2" child (Ptr.fld s.mcount_triggers "root") tr
    { tr_depth := s.tr_depth, tr_flags := s.tr_flags, tr_fmode := s.tr_fmode, tr_lmode := s.tr_lmode,
      tr_size := s.tr_size, tr_time := s.tr_time }).2 = w at e2'
  obtain ⟨t1, t2, t2', t3, t4, t5, t6, t7, t8, t9, t10, t11, t12⟩ := e2'
  have m2 := and_mask_ne w.tr_flags 525361 16 (by decide)
  have m3 := and_mask_ne w.tr_flags 525361 32 (by decide)
  rw [t7] at m2; rw [t8] at m3
  generalize hres : mcount_entry_filter_check o mtdp child tr s = r
  unfold mcount_entry_filter_check mcount_save_filter mcount_get_filter_mode mcount_get_loc_mode at hres
  simp only [Id.run, pure, e1, hw, m2, m3, t1, t3, t7, t8, Bool.false_eq_true, ↓reduceIte] at hres
  simp only [h1, h2, c2, c3, hen] at hres
  repeat' ((replace hres := ite_eq_elim hres; rcases hres with ⟨hc, hres⟩ | ⟨hc, hres⟩) <;>
    (try simp only [t2 hc, t2' hc] at hres) <;> (try simp only [t4 hc] at hres))
  all_goals subst hres
  all_goals (
    simp only [flushCond, saveFilt, earlyOut_eq]
    grind)

/-- with an overflowing return stack (`mcount_check_rstack` true) the function returns FILTER_RSTACK and leaves
    the filter state alone, like the first line of the model's `entryFilterCheck` -/
theorem mcount_entry_filter_check_overflow (o : Oracles) (mtdp tr : Ptr) (child : Nat) (s : GSt)
    (hov : (o.mcount_check_rstack "mcount_entry_filter_check:1" mtdp {}).1 = true) :
    (mcount_entry_filter_check o mtdp child tr s).2 = frCode .rstack ∧
    (mcount_entry_filter_check o mtdp child tr s).1 =
      { s with calls := s.calls ++ [{ fn := "mcount_check_rstack", site := "mcount_entry_filter_check:1",
                                       ints := [], ptrs := [mtdp] }] } := by
  unfold mcount_entry_filter_check
  simp [Id.run, hov, frCode, pure]

/-! ### mcount_exit_filter_record: the part up to filter_restore_from_rstack -/

/-- the model's filter state after the exit hook: counters of the frame's own filter hit undone, the values
    saved in the frame restored -/
def exitFilt (fr : Frame) (f : Filt) : Filt :=
  { f with inCount := if fr.filtered then f.inCount - 1 else f.inCount
           outCount := if !fr.filtered && fr.notrace then f.outCount - 1 else f.outCount
           depth := fr.sDepth, maxDepth := fr.sMaxDepth, time := fr.sTime, size := fr.sSize }

theorem exitFilterRecord_filt (cfg : Cfg) (ms : Uft.Mcount.St) (fr : Frame) (rest : List Frame)
    (hfast : cfg.fast = false) (hfr : ms.frames = fr :: rest) :
    (exitFilterRecord cfg ms).filt = exitFilt fr ms.filt := by
  unfold exitFilterRecord exitFilt
  simp only [hfr, hfast, Bool.false_eq_true, ↓reduceIte]
  repeat' split
  all_goals rfl

/-- **mcount_exit_filter_record, filter part.**  On a state whose `mtdp->filter` holds the model's `Filt` and
    whose rstack slot holds the model's top frame, the generated prefix of mcount_exit_filter_record (everything up
    to and including filter_restore_from_rstack) leaves the `Filt` of the model's `exitFilterRecord`. -/
theorem mcount_exit_filter_record_prefix_eq (o : Oracles) (mtdp rstack retval : Ptr) (s : GSt) (f : Filt)
    (fr : Frame) (hr : FiltRel f s) (hf : FrameRel fr s)
    (hin : fr.filtered = true → 0 < f.inCount)
    (hout : fr.filtered = false → fr.notrace = true → 0 < f.outCount) :
    FiltRel (exitFilt fr f) (mcount_exit_filter_record_prefix o mtdp rstack retval s) := by
  obtain ⟨h1, h2, h3, h4, h5, h6, h7, h8, h9, h10⟩ := hr
  obtain ⟨g1, g2, g3, g4, g5, g6⟩ := hf
  have m1 := and_mask_ne s.rstack_flags 280 16 (by decide)
  have m2 := and_mask_ne s.rstack_flags 280 8 (by decide)
  unfold mcount_exit_filter_record_prefix filter_restore_from_rstack exitFilt
  simp only [Id.run, pure]
  cases hfl : fr.filtered <;> cases hnt : fr.notrace <;>
    (simp [hfl, hnt] at hin hout g5 g6 m1 m2; constructor <;> simp [*] <;> omega)


/-! ### the hypotheses can be met: for every trigger table there are opaque callees as assumed -/

/-- an encoding of a `Trigger` value in `*tr` -/
def encW (t : Trigger) : W_uftrace_match_filter :=
  { tr_flags := (if t.filter.isSome then 2 else 0) ||| (if t.loc.isSome then 262144 else 0) |||
                (if t.depth.isSome then 1 else 0) ||| (if t.traceOn then 16 else 0) |||
                (if t.traceOff then 32 else 0) ||| (if t.time.isSome then 1024 else 0) |||
                (if t.size.isSome then 524288 else 0)
    tr_fmode := match t.filter with | some true => 1 | some false => 2 | none => 0
    tr_lmode := match t.loc with | some true => 1 | some false => 2 | none => 0
    tr_depth := (optVal t.depth : Nat)
    tr_time := optVal t.time
    tr_size := optVal t.size }

theorem trEnc_encW (t : Trigger) : TrEnc t (encW t) := by
  obtain ⟨f, l, d, on, off, tm, sz, _, _, _⟩ := t
  rcases f with _ | _ | _ <;> rcases l with _ | _ | _ <;> rcases d with _ | d <;> rcases tm with _ | tm <;>
    rcases sz with _ | sz <;> cases on <;> cases off <;> constructor <;> simp [encW, optVal]

/-- opaque callees that behave as `EntryEnv` assumes, for the trigger table of `cfg` -/
def demoOracles (cfg : Cfg) : Oracles :=
  { mcount_check_rstack := fun _ _ w => (false, w)
    record_trace_data := fun _ _ _ _ => 0
    mcount_rstack_rehook := fun _ _ => ()
    uftrace_match_filter := fun _ a _ _ _ => (Ptr.null, encW (cfg.trig a)) }

theorem entryEnv_demo (cfg : Cfg) (mtdp tr : Ptr) (child : Nat) : EntryEnv cfg (demoOracles cfg) mtdp tr child :=
  ⟨rfl, fun _ _ => trEnc_encW _⟩

end Uft.McountGenEq
