import Uft.Lemmas.Demangle
/-!
# C13 — summaries of the grammar functions

`Post f e st r st'` is the summary of grammar function `f` started in `st`.  It is
proved for `run n f` by induction on the fuel `n`, for every fuel
`n ≥ need f e st = 8 * (strlen - pos) + rank f + 1`; the same induction therefore
shows that the fuel never runs out (termination with an explicit bound).
-/
namespace Uft.Demangle
open Uft.Gen.DemangleTables

/-- functions that may leave `pos` one *below* their entry position (when
    `dd_simple_id` fails it executes `dd->pos--`) -/
def delta : Fn → Nat
  | .expression | .unresolvedName | .baseUnresolvedName | .simpleId | .exprList | .exprListLoop
  | .exprLoop | .unresLoop => 1
  | _ => 0

/-- order of the calls that can happen at the caller's entry position -/
def rank : Fn → Nat
  | .simpleId => 1
  | .baseUnresolvedName | .unresLoop => 2
  | .unresolvedName => 3
  | .expression => 4
  | .exprListLoop | .exprLoop => 5
  | .exprList => 6
  | .exprPrimary | .decltype | .vectorType | .functionType | .arrayType | .ptrToMember | .templateArgs
  | .ctorDtorName | .operatorName | .initializer | .localName | .nestedName | .specialName => 1
  | .unresolvedType => 2
  | .destructorName => 3
  | .unqualifiedName => 2
  | .name | .nestedLoop => 3
  | .typeLoop _ => 4
  | .type => 5
  | .ulLoop | .ftLoop _ | .encLoop | .templateArg => 6
  | .argLoop => 7
  | .encoding => 7

/-- progress made by a successful call -/
def Prog : Fn → Nat → Int → Nat → Prop
  | .typeLoop ret, p, r, p' => 0 ≤ r → p < p' ∨ r = ret
  | .encLoop, _, _, _ | .nestedLoop, _, _, _ | .ulLoop, _, _, _ | .ftLoop _, _, _, _ | .argLoop, _, _, _
  | .exprListLoop, _, _, _ | .exprLoop, _, _, _ | .unresLoop, _, _, _ => True
  | _, p, r, p' => 0 ≤ r → p < p'

/-- function-specific extras -/
def Extra : Fn → Env → St → St → Prop
  | .vectorType, e, st, st' =>
    e.rd st.pos = some 68 → e.rd (st.pos + 1) = some 118 → st.pos + 2 ≤ st.len → st.pos < st'.pos
  | _, _, _, _ => True

def Post (f : Fn) (e : Env) (st : St) (r : Int) (st' : St) : Prop :=
  st'.len ≤ e.n ∧ st'.pos ≤ e.n ∧ Stop e st'.len ∧ st'.len ≤ st.len ∧ exN st ≤ exN st' ∧
  st.pos ≤ st'.pos + delta f * exN st' ∧ Prog f st.pos r st'.pos ∧ Extra f e st st'

/-- fuel that suffices for `f` started in `st` -/
def need (f : Fn) (e : Env) (st : St) : Nat := 8 * (e.n - st.pos) + rank f + 1

def RecOK (rec : Fn → M Int) (B : Nat) : Prop :=
  ∀ (g : Fn) (e : Env) (st : St), e.fx = Fixes.all → st.len ≤ e.n → st.pos ≤ e.n → Stop e st.len →
    need g e st ≤ B → Tri e st (rec g) (Post g e st)

theorem s_rec {rec : Fn → M Int} {B : Nat} {e : Env} {st : St} {Q : Int → St → Prop} (hrec : RecOK rec B) (g : Fn)
    (hfx : e.fx = Fixes.all) (hl : st.len ≤ e.n) (hp : st.pos ≤ e.n) (hs : Stop e st.len) (hn : need g e st ≤ B)
    (h : ∀ r st', Post g e st r st' → Q r st') : Tri e st (rec g) Q :=
  tri_mono (hrec g e st hfx hl hp hs hn) h

attribute [local irreducible] M.bind M.pure peek curr consumeN consume posBack ddDebug debugConsume eof getSt getEnv
  getFixes modifySt incLevel decLevel incType decType appendBytes appendSeparator rdAt number qualifier seqId sourceName
  templateParam functionParam callOffset discriminator abiTag substitution

macro_rules | `(tactic| wp1) => `(tactic|
  (apply s_rec (by assumption) _ (by assumption) (by assumption) (by assumption) (by assumption)
      (by simp only [need, rank]; omega);
   intro r st' hpost;
   simp only [Post, delta, Prog, Extra, Nat.zero_mul, Nat.one_mul, Nat.add_zero] at hpost;
   obtain ⟨_, _, _, _, _, _, _, _⟩ := hpost;
   have := exN_le st'))

macro "spec_close" : tactic => `(tactic|
  all_goals (simp only [Post, delta, Prog, Extra, Nat.zero_mul, Nat.one_mul, Nat.add_zero];
             refine ⟨?_, ?_, ?_, ?_, ?_, ?_, ?_, ?_⟩ <;> first | assumption | trivial | fin))

section specs
variable {rec : Fn → M Int} {B : Nat} {e : Env} {st : St}

theorem spec_ptrToMember (hrec : RecOK rec B) (hfx : e.fx = Fixes.all) (hl : st.len ≤ e.n) (hp : st.pos ≤ e.n)
    (hs : Stop e st.len) (hn : need .ptrToMember e st ≤ B + 1) :
    Tri e st (bPtrToMember rec) (Post .ptrToMember e st) := by
  simp only [need, rank] at hn
  have := exN_le st
  unfold bPtrToMember
  wp
  spec_close

end specs

end Uft.Demangle
