import Uft.Lemmas.Demangle
/-!
# C13 — summaries of the grammar functions

`Post f e st r st'` is the summary of grammar function `f` started in `st`.  It is
proved for `run n f` by induction on the fuel `n`, for every fuel
`n ≥ need f e st = 8 * (strlen - pos) + rank f + 1`; the same induction therefore
shows that the fuel never runs out (termination with an explicit bound).
-/
namespace Uft.Demangle
open Uft.Gen.DemangleTables

/-- functions that may leave `pos` one *below* their entry position (when
    `dd_simple_id` fails it executes `dd->pos--`) -/
def delta : Fn → Nat
  | .expression | .unresolvedName | .baseUnresolvedName | .simpleId | .exprList | .exprListLoop
  | .exprLoop | .unresLoop => 1
  | _ => 0

/-- order of the calls that can happen at the caller's entry position -/
def rank : Fn → Nat
  | .simpleId => 1
  | .baseUnresolvedName | .unresLoop => 2
  | .unresolvedName => 3
  | .expression => 4
  | .exprListLoop | .exprLoop => 5
  | .exprList => 6
  | .exprPrimary | .decltype | .vectorType | .functionType | .arrayType | .ptrToMember | .templateArgs
  | .ctorDtorName | .operatorName | .initializer | .localName | .nestedName | .specialName => 1
  | .unresolvedType => 2
  | .destructorName => 3
  | .unqualifiedName => 2
  | .name | .nestedLoop => 3
  | .typeLoop _ => 4
  | .type => 5
  | .ulLoop | .ftLoop _ | .encLoop | .templateArg => 6
  | .argLoop => 7
  | .encoding => 7

/-- progress made by a successful call -/
def Prog : Fn → Nat → Int → Nat → Prop
  | .typeLoop ret, p, r, p' => 0 ≤ r → p < p' ∨ r = ret
  | .encLoop, _, _, _ | .nestedLoop, _, _, _ | .ulLoop, _, _, _ | .ftLoop _, _, _, _ | .argLoop, _, _, _
  | .exprListLoop, _, _, _ | .exprLoop, _, _, _ | .unresLoop, _, _, _ | .exprList, _, _, _ => True
  | _, p, r, p' => 0 ≤ r → p < p'

/-- function-specific extras -/
def Extra : Fn → Env → St → St → Prop
  | .vectorType, e, st, st' =>
    e.rd st.pos = some 68 → e.rd (st.pos + 1) = some 118 → st.pos + 2 ≤ st.len → st.pos < st'.pos
  | _, _, _, _ => True

def Post (f : Fn) (e : Env) (st : St) (r : Int) (st' : St) : Prop :=
  st'.len ≤ e.n ∧ st'.pos ≤ e.n ∧ Stop e st'.len ∧ st'.len ≤ st.len ∧ exN st ≤ exN st' ∧
  st.pos ≤ st'.pos + delta f * exN st' ∧ Prog f st.pos r st'.pos ∧ Extra f e st st'

/-- fuel that suffices for `f` started in `st` -/
def need (f : Fn) (e : Env) (st : St) : Nat := 8 * (e.n - st.pos) + rank f + 1

def RecOK (rec : Fn → M Int) (B : Nat) : Prop :=
  ∀ (g : Fn) (e : Env) (st : St), e.fx = Fixes.all → st.len ≤ e.n → st.pos ≤ e.n → Stop e st.len →
    need g e st ≤ B → delta g ≤ st.pos → Tri e st (rec g) (Post g e st)

theorem s_rec {rec : Fn → M Int} {B : Nat} {e : Env} {st : St} {Q : Int → St → Prop} (hrec : RecOK rec B) (g : Fn)
    (hfx : e.fx = Fixes.all) (hl : st.len ≤ e.n) (hp : st.pos ≤ e.n) (hs : Stop e st.len) (hn : need g e st ≤ B)
    (hd : delta g ≤ st.pos)
    (h : ∀ r st', Post g e st r st' → Q r st') : Tri e st (rec g) Q :=
  tri_mono (hrec g e st hfx hl hp hs hn hd) h

attribute [local irreducible] M.bind M.pure peek curr consumeN consume posBack ddDebug debugConsume eof getSt getEnv
  getFixes modifySt incLevel decLevel incType decType appendBytes appendSeparator rdAt number qualifier seqId sourceName
  templateParam functionParam callOffset discriminator abiTag substitution

macro_rules | `(tactic| wp1) => `(tactic|
  (apply s_rec (by assumption) _ (by assumption) (by assumption) (by assumption) (by assumption)
      (by simp only [need, rank]; omega) (by simp only [delta]; omega);
   intro r st' hpost;
   simp only [Post, delta, Prog, Extra, Nat.zero_mul, Nat.one_mul, Nat.add_zero] at hpost;
   obtain ⟨_, _, _, _, _, _, _, _⟩ := hpost;
   have := exN_le st'))

macro "spec_close" : tactic => `(tactic|
  all_goals (simp only [Post, delta, Prog, Extra, Nat.zero_mul, Nat.one_mul, Nat.add_zero];
             refine ⟨?_, ?_, ?_, ?_, ?_, ?_, ?_, ?_⟩ <;> first | assumption | trivial | fin))

section specs
variable {rec : Fn → M Int} {B : Nat} {e : Env} {st : St}

theorem spec_ptrToMember (hrec : RecOK rec B) (hfx : e.fx = Fixes.all) (hl : st.len ≤ e.n) (hp : st.pos ≤ e.n)
    (hs : Stop e st.len) (hn : need .ptrToMember e st ≤ B + 1) (hd : delta .ptrToMember ≤ st.pos) :
    Tri e st (bPtrToMember rec) (Post .ptrToMember e st) := by
  simp only [need, rank] at hn
  simp only [delta] at hd
  have := exN_le st
  unfold bPtrToMember
  wp
  spec_close

theorem spec_arrayType (hrec : RecOK rec B) (hfx : e.fx = Fixes.all) (hl : st.len ≤ e.n) (hp : st.pos ≤ e.n)
    (hs : Stop e st.len) (hn : need .arrayType e st ≤ B + 1) (hd : delta .arrayType ≤ st.pos) :
    Tri e st (bArrayType rec) (Post .arrayType e st) := by
  simp only [need, rank] at hn
  simp only [delta] at hd
  have := exN_le st
  unfold bArrayType
  wp
  spec_close

theorem spec_decltype (hrec : RecOK rec B) (hfx : e.fx = Fixes.all) (hl : st.len ≤ e.n) (hp : st.pos ≤ e.n)
    (hs : Stop e st.len) (hn : need .decltype e st ≤ B + 1) (hd : delta .decltype ≤ st.pos) :
    Tri e st (bDecltype rec) (Post .decltype e st) := by
  simp only [need, rank] at hn
  simp only [delta] at hd
  have := exN_le st
  unfold bDecltype
  wp
  spec_close

theorem spec_templateArgs (hrec : RecOK rec B) (hfx : e.fx = Fixes.all) (hl : st.len ≤ e.n) (hp : st.pos ≤ e.n)
    (hs : Stop e st.len) (hn : need .templateArgs e st ≤ B + 1) (hd : delta .templateArgs ≤ st.pos) :
    Tri e st (bTemplateArgs rec) (Post .templateArgs e st) := by
  simp only [need, rank] at hn
  simp only [delta] at hd
  have := exN_le st
  unfold bTemplateArgs
  wp
  spec_close

theorem spec_argLoop (hrec : RecOK rec B) (hfx : e.fx = Fixes.all) (hl : st.len ≤ e.n) (hp : st.pos ≤ e.n)
    (hs : Stop e st.len) (hn : need .argLoop e st ≤ B + 1) (hd : delta .argLoop ≤ st.pos) :
    Tri e st (bArgLoop rec) (Post .argLoop e st) := by
  simp only [need, rank] at hn
  simp only [delta] at hd
  have := exN_le st
  unfold bArgLoop
  wp
  spec_close

theorem spec_templateArg (hrec : RecOK rec B) (hfx : e.fx = Fixes.all) (hl : st.len ≤ e.n) (hp : st.pos ≤ e.n)
    (hs : Stop e st.len) (hn : need .templateArg e st ≤ B + 1) (hd : delta .templateArg ≤ st.pos) :
    Tri e st (bTemplateArg rec) (Post .templateArg e st) := by
  simp only [need, rank] at hn
  simp only [delta] at hd
  have := exN_le st
  unfold bTemplateArg
  wp
  spec_close

theorem spec_exprLoop (hrec : RecOK rec B) (hfx : e.fx = Fixes.all) (hl : st.len ≤ e.n) (hp : st.pos ≤ e.n)
    (hs : Stop e st.len) (hn : need .exprLoop e st ≤ B + 1) (hd : delta .exprLoop ≤ st.pos) :
    Tri e st (bExprLoop rec) (Post .exprLoop e st) := by
  simp only [need, rank] at hn
  simp only [delta] at hd
  have := exN_le st
  unfold bExprLoop
  wp
  spec_close

theorem spec_initializer (hrec : RecOK rec B) (hfx : e.fx = Fixes.all) (hl : st.len ≤ e.n) (hp : st.pos ≤ e.n)
    (hs : Stop e st.len) (hn : need .initializer e st ≤ B + 1) (hd : delta .initializer ≤ st.pos) :
    Tri e st (bInitializer rec) (Post .initializer e st) := by
  simp only [need, rank] at hn
  simp only [delta] at hd
  have := exN_le st
  unfold bInitializer
  wp
  spec_close

theorem spec_exprPrimary (hrec : RecOK rec B) (hfx : e.fx = Fixes.all) (hl : st.len ≤ e.n) (hp : st.pos ≤ e.n)
    (hs : Stop e st.len) (hn : need .exprPrimary e st ≤ B + 1) (hd : delta .exprPrimary ≤ st.pos) :
    Tri e st (bExprPrimary rec) (Post .exprPrimary e st) := by
  simp only [need, rank] at hn
  simp only [delta] at hd
  have := exN_le st
  unfold bExprPrimary
  wp
  spec_close

theorem spec_exprListLoop (hrec : RecOK rec B) (hfx : e.fx = Fixes.all) (hl : st.len ≤ e.n) (hp : st.pos ≤ e.n)
    (hs : Stop e st.len) (hn : need .exprListLoop e st ≤ B + 1) (hd : delta .exprListLoop ≤ st.pos) :
    Tri e st (bExprListLoop rec) (Post .exprListLoop e st) := by
  simp only [need, rank] at hn
  simp only [delta] at hd
  have := exN_le st
  unfold bExprListLoop
  wp
  spec_close

theorem spec_exprList (hrec : RecOK rec B) (hfx : e.fx = Fixes.all) (hl : st.len ≤ e.n) (hp : st.pos ≤ e.n)
    (hs : Stop e st.len) (hn : need .exprList e st ≤ B + 1) (hd : delta .exprList ≤ st.pos) :
    Tri e st (bExprList rec) (Post .exprList e st) := by
  simp only [need, rank] at hn
  simp only [delta] at hd
  have := exN_le st
  unfold bExprList
  wp
  spec_close

theorem spec_simpleId (hrec : RecOK rec B) (hfx : e.fx = Fixes.all) (hl : st.len ≤ e.n) (hp : st.pos ≤ e.n)
    (hs : Stop e st.len) (hn : need .simpleId e st ≤ B + 1) (hd : delta .simpleId ≤ st.pos) :
    Tri e st (bSimpleId rec) (Post .simpleId e st) := by
  simp only [need, rank] at hn
  simp only [delta] at hd
  have := exN_le st
  unfold bSimpleId
  wp
  spec_close

theorem spec_unresolvedType (hrec : RecOK rec B) (hfx : e.fx = Fixes.all) (hl : st.len ≤ e.n) (hp : st.pos ≤ e.n)
    (hs : Stop e st.len) (hn : need .unresolvedType e st ≤ B + 1) (hd : delta .unresolvedType ≤ st.pos) :
    Tri e st (bUnresolvedType rec) (Post .unresolvedType e st) := by
  simp only [need, rank] at hn
  simp only [delta] at hd
  have := exN_le st
  unfold bUnresolvedType
  wp
  spec_close

theorem spec_destructorName (hrec : RecOK rec B) (hfx : e.fx = Fixes.all) (hl : st.len ≤ e.n) (hp : st.pos ≤ e.n)
    (hs : Stop e st.len) (hn : need .destructorName e st ≤ B + 1) (hd : delta .destructorName ≤ st.pos) :
    Tri e st (bDestructorName rec) (Post .destructorName e st) := by
  simp only [need, rank] at hn
  simp only [delta] at hd
  have := exN_le st
  unfold bDestructorName
  wp
  spec_close

theorem spec_baseUnresolvedName (hrec : RecOK rec B) (hfx : e.fx = Fixes.all) (hl : st.len ≤ e.n) (hp : st.pos ≤ e.n)
    (hs : Stop e st.len) (hn : need .baseUnresolvedName e st ≤ B + 1) (hd : delta .baseUnresolvedName ≤ st.pos) :
    Tri e st (bBaseUnresolvedName rec) (Post .baseUnresolvedName e st) := by
  simp only [need, rank] at hn
  simp only [delta] at hd
  have := exN_le st
  unfold bBaseUnresolvedName
  wp
  spec_close

theorem spec_unresLoop (hrec : RecOK rec B) (hfx : e.fx = Fixes.all) (hl : st.len ≤ e.n) (hp : st.pos ≤ e.n)
    (hs : Stop e st.len) (hn : need .unresLoop e st ≤ B + 1) (hd : delta .unresLoop ≤ st.pos) :
    Tri e st (bUnresLoop rec) (Post .unresLoop e st) := by
  simp only [need, rank] at hn
  simp only [delta] at hd
  have := exN_le st
  unfold bUnresLoop
  wp
  spec_close

theorem spec_functionType (hrec : RecOK rec B) (hfx : e.fx = Fixes.all) (hl : st.len ≤ e.n) (hp : st.pos ≤ e.n)
    (hs : Stop e st.len) (hn : need .functionType e st ≤ B + 1) (hd : delta .functionType ≤ st.pos) :
    Tri e st (bFunctionType rec) (Post .functionType e st) := by
  simp only [need, rank] at hn
  simp only [delta] at hd
  have := exN_le st
  unfold bFunctionType
  wp
  spec_close

theorem spec_type (hrec : RecOK rec B) (hfx : e.fx = Fixes.all) (hl : st.len ≤ e.n) (hp : st.pos ≤ e.n)
    (hs : Stop e st.len) (hn : need .type e st ≤ B + 1) (hd : delta .type ≤ st.pos) :
    Tri e st (bType rec) (Post .type e st) := by
  simp only [need, rank] at hn
  simp only [delta] at hd
  have := exN_le st
  unfold bType
  wp
  spec_close

theorem spec_operatorName (hrec : RecOK rec B) (hfx : e.fx = Fixes.all) (hl : st.len ≤ e.n) (hp : st.pos ≤ e.n)
    (hs : Stop e st.len) (hn : need .operatorName e st ≤ B + 1) (hd : delta .operatorName ≤ st.pos) :
    Tri e st (bOperatorName rec) (Post .operatorName e st) := by
  simp only [need, rank] at hn
  simp only [delta] at hd
  have := exN_le st
  unfold bOperatorName
  wp
  spec_close

theorem spec_ulLoop (hrec : RecOK rec B) (hfx : e.fx = Fixes.all) (hl : st.len ≤ e.n) (hp : st.pos ≤ e.n)
    (hs : Stop e st.len) (hn : need .ulLoop e st ≤ B + 1) (hd : delta .ulLoop ≤ st.pos) :
    Tri e st (bUlLoop rec) (Post .ulLoop e st) := by
  simp only [need, rank] at hn
  simp only [delta] at hd
  have := exN_le st
  unfold bUlLoop
  wp
  spec_close

theorem spec_nestedName (hrec : RecOK rec B) (hfx : e.fx = Fixes.all) (hl : st.len ≤ e.n) (hp : st.pos ≤ e.n)
    (hs : Stop e st.len) (hn : need .nestedName e st ≤ B + 1) (hd : delta .nestedName ≤ st.pos) :
    Tri e st (bNestedName rec) (Post .nestedName e st) := by
  simp only [need, rank] at hn
  simp only [delta] at hd
  have := exN_le st
  unfold bNestedName
  wp
  spec_close

theorem spec_localName (hrec : RecOK rec B) (hfx : e.fx = Fixes.all) (hl : st.len ≤ e.n) (hp : st.pos ≤ e.n)
    (hs : Stop e st.len) (hn : need .localName e st ≤ B + 1) (hd : delta .localName ≤ st.pos) :
    Tri e st (bLocalName rec) (Post .localName e st) := by
  simp only [need, rank] at hn
  simp only [delta] at hd
  have := exN_le st
  unfold bLocalName
  wp
  spec_close

theorem spec_name (hrec : RecOK rec B) (hfx : e.fx = Fixes.all) (hl : st.len ≤ e.n) (hp : st.pos ≤ e.n)
    (hs : Stop e st.len) (hn : need .name e st ≤ B + 1) (hd : delta .name ≤ st.pos) :
    Tri e st (bName rec) (Post .name e st) := by
  simp only [need, rank] at hn
  simp only [delta] at hd
  have := exN_le st
  unfold bName
  wp
  spec_close

theorem spec_encLoop (hrec : RecOK rec B) (hfx : e.fx = Fixes.all) (hl : st.len ≤ e.n) (hp : st.pos ≤ e.n)
    (hs : Stop e st.len) (hn : need .encLoop e st ≤ B + 1) (hd : delta .encLoop ≤ st.pos) :
    Tri e st (bEncLoop rec) (Post .encLoop e st) := by
  simp only [need, rank] at hn
  simp only [delta] at hd
  have := exN_le st
  unfold bEncLoop
  wp
  spec_close

end specs

end Uft.Demangle
