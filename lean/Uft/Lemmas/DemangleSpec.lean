import Uft.Lemmas.Demangle
/-!
# C13 — summaries of the grammar functions

`Post f e st r st'` is the summary of grammar function `f` started in `st`.  It is
proved for `run n f` by induction on the fuel `n`, for every fuel
`n` with `8 * strlen + rank f + 1 ≤ n + 8 * pos`, i.e. `n ≥ 8 * (strlen - pos) + rank f + 1`; the same induction therefore
shows that the fuel never runs out (termination with an explicit bound).
-/
namespace Uft.Demangle
open Uft.Gen.DemangleTables

/-- functions that may leave `pos` one *below* their entry position (when
    `dd_simple_id` fails it executes `dd->pos--`) -/
def delta : Fn → Nat
  | .expression | .unresolvedName | .baseUnresolvedName | .simpleId | .exprList | .exprListLoop
  | .exprLoop | .unresLoop => 1
  | _ => 0

/-- order of the calls that can happen at the caller's entry position -/
def rank : Fn → Nat
  | .simpleId => 1
  | .baseUnresolvedName | .unresLoop => 2
  | .unresolvedName => 3
  | .expression => 4
  | .exprListLoop | .exprLoop => 5
  | .exprList => 6
  | .exprPrimary | .decltype | .vectorType | .functionType | .arrayType | .ptrToMember | .templateArgs
  | .ctorDtorName | .operatorName | .initializer | .localName | .nestedName | .specialName => 1
  | .unresolvedType => 2
  | .destructorName => 3
  | .unqualifiedName => 2
  | .name | .nestedLoop => 3
  | .typeLoop _ => 4
  | .type => 5
  | .ulLoop | .ftLoop _ | .encLoop | .templateArg => 6
  | .argLoop => 7
  | .encoding => 7

/-- progress made by a successful call -/
def Prog : Fn → Nat → Int → Nat → Prop
  | .typeLoop ret, p, r, p' => 0 ≤ r → p < p' ∨ r = ret
  | .encLoop, _, _, _ | .nestedLoop, _, _, _ | .ulLoop, _, _, _ | .ftLoop _, _, _, _ | .argLoop, _, _, _
  | .exprListLoop, _, _, _ | .exprLoop, _, _, _ | .unresLoop, _, _, _ | .exprList, _, _, _ => True
  | _, p, r, p' => 0 ≤ r → p < p'

/-- function-specific extras -/
def Extra : Fn → Env → St → St → Prop
  | .vectorType, e, st, st' =>
    e.rd st.pos = some 68 → e.rd (st.pos + 1) = some 118 → st.pos + 2 ≤ st.len → st.pos < st'.pos
  | _, _, _, _ => True

def Post (f : Fn) (e : Env) (st : St) (r : Int) (st' : St) : Prop :=
  st'.len ≤ e.n ∧ st'.pos ≤ e.n ∧ Stop e st'.len ∧ st'.len ≤ st.len ∧ exN st ≤ exN st' ∧
  st.pos ≤ st'.pos + delta f * exN st' ∧ Prog f st.pos r st'.pos ∧ Extra f e st st'

/-- `Need f e st B`: budget `B` suffices for `f` started in `st` (additive form of
    `8 * (strlen - pos) + rank f + 1 ≤ B`, without subtraction) -/
def Need (f : Fn) (e : Env) (st : St) (B : Nat) : Prop := 8 * e.n + rank f + 1 ≤ B + 8 * st.pos

def RecOK (rec : Fn → M Int) (B : Nat) : Prop :=
  ∀ (g : Fn) (e : Env) (st : St), e.fx = Fixes.all → st.len ≤ e.n → st.pos ≤ e.n → Stop e st.len →
    Need g e st B → delta g ≤ st.pos → Tri e st (rec g) (Post g e st)

theorem s_rec {rec : Fn → M Int} {B : Nat} {e : Env} {st : St} {Q : Int → St → Prop} (hrec : RecOK rec B) (g : Fn)
    (hfx : e.fx = Fixes.all) (hl : st.len ≤ e.n) (hp : st.pos ≤ e.n) (hs : Stop e st.len) (hn : Need g e st B)
    (hd : delta g ≤ st.pos)
    (h : ∀ r st', Post g e st r st' → Q r st') : Tri e st (rec g) Q :=
  tri_mono (hrec g e st hfx hl hp hs hn hd) h

attribute [local irreducible] M.bind M.pure peek curr consumeN consume posBack ddDebug debugConsume eof getSt getEnv
  getFixes modifySt incLevel decLevel incType decType appendBytes appendSeparator rdAt number qualifier seqId sourceName
  templateParam functionParam callOffset discriminator abiTag substitution

theorem s_getFixes {e : Env} {st : St} {Q : Fixes → St → Prop} (hfx : e.fx = Fixes.all) (h : Q Fixes.all st) :
    Tri e st getFixes Q := by
  apply tri_getFixes
  rw [hfx]
  exact h

macro_rules | `(tactic| wp1) => `(tactic| first | (apply s_getFixes (by assumption); try simp only [Fixes.all, Bool.not_true, Bool.and_false, Bool.false_eq_true, ↓reduceIte, Bool.true_and, Bool.and_true, Bool.and_self]) | fail)
macro "rec_step" : tactic => `(tactic|
  (apply s_rec (by assumption) _ (by assumption) (by assumption) (by assumption) (by assumption)
      (by simp only [Need, rank]; omega) (by simp only [delta]; omega)
   intro r st' hpost
   simp only [Post, delta, Prog, Extra, Nat.zero_mul, Nat.one_mul, Nat.add_zero] at hpost
   obtain ⟨_, _, _, _, _, _, _, _⟩ := hpost
   have := exN_le st'))
macro_rules | `(tactic| wp1) => `(tactic| first | rec_step | fail)
theorem toNat_eq_lit {c : UInt8} {n : Nat} (h : c.toNat = n) (hn : n < 256) : c = UInt8.ofNat n := by
  rw [u8_eq_iff, h]
  simp [UInt8.toNat_ofNat, Nat.mod_eq_of_lt hn]

/-- `dd_vector_type` called from dd_type: the two chars are known to be "Dv" -/
theorem s_rec_vector {rec : Fn → M Int} {B : Nat} {e : Env} {st : St} {Q : Int → St → Prop} (hrec : RecOK rec B)
    (c0 c1 : UInt8) (h0 : st.pos ≤ st.len → e.rd st.pos = some c0) (hc0 : c0.toNat = 68)
    (h1 : st.pos + 1 ≤ st.len → e.rd (st.pos + 1) = some c1) (hc1 : c1.toNat = 118) (hlt : st.pos + 1 < st.len)
    (hfx : e.fx = Fixes.all) (hl : st.len ≤ e.n) (hp : st.pos ≤ e.n) (hs : Stop e st.len)
    (hn : Need .vectorType e st B)
    (h : ∀ r st', st'.len ≤ e.n → st'.pos ≤ e.n → Stop e st'.len → st'.len ≤ st.len → exN st ≤ exN st' →
      st.pos < st'.pos → exN st' ≤ 1 → Q r st') : Tri e st (rec .vectorType) Q := by
  apply s_rec hrec .vectorType hfx hl hp hs hn (by simp [delta])
  intro r st' hpost
  simp only [Post, delta, Prog, Extra, Nat.zero_mul, Nat.add_zero] at hpost
  obtain ⟨p1, p2, p3, p4, p5, _, _, p8⟩ := hpost
  have e0 : c0 = 68 := toNat_eq_lit (n := 68) hc0 (by omega)
  have e1 : c1 = 118 := toNat_eq_lit (n := 118) hc1 (by omega)
  subst e0 e1
  exact h r st' p1 p2 p3 p4 p5 (p8 (h0 (by omega)) (h1 (by omega)) (by omega)) (exN_le _)

macro "vec_step" : tactic => `(tactic|
  (refine s_rec_vector (by assumption) ?c0 ?c1 ?h0 ?hc0 ?h1 ?hc1 ?hlt (by assumption) (by assumption) (by assumption)
      (by assumption) ?hn ?k
   case h0 => assumption
   case hc0 => omega
   case h1 => assumption
   case hc1 => omega
   case hlt => omega
   case hn => (simp only [Need, rank]; omega)
   case' k => intros))
macro_rules | `(tactic| wp1) => `(tactic| first | vec_step | fail)
macro "cut_len" : tactic => `(tactic|
  (refine s_cutLen ?c ?hrd ?hc' ?hc (by assumption) (by assumption) ?k
   case hrd => assumption
   case hc' => assumption
   case hc => omega
   case' k => intros))
macro_rules | `(tactic| wp1) => `(tactic| first | cut_len | fail)
macro_rules | `(tactic| wp1) => `(tactic| first | (apply s_setPos _ (by omega) (by assumption) (by assumption); intros) | fail)

/-- helper-piece rules are added to this tactic -/
syntax "wq_helper" : tactic
macro_rules | `(tactic| wq_helper) => `(tactic| fail)

theorem tri_use {α} {e : Env} {st : St} {m : M α} {P Q : α → St → Prop} (h : Tri e st m P)
    (k : ∀ r st', P r st' → Q r st') : Tri e st m Q := tri_mono h k

/-- one step of symbolic execution; the frequent structural rules come first -/
syntax "wq1" : tactic
macro_rules | `(tactic| wq1) => `(tactic| first
  | apply tri_pure
  | (apply s_eof_if <;> intros <;> try (exfalso; omega -splitDisjunctions -splitNatSub))
  | (apply s_debugConsume_if _ (by decide) (by assumption) (by assumption) (by assumption) (by fin) <;> intros)
  | apply tri_bind
  | (apply tri_ite; (case' hT => (intro _; norm_last)); (case' hF => (intro _; norm_neg)))
  | (apply s_curr (by assumption) (by assumption); intros)
  | (apply s_peek _ (by assumption) (by assumption); intros)
  | (apply s_consume (by assumption) (by assumption) (by assumption) <;> intros <;> try (exfalso; omega -splitDisjunctions -splitNatSub))
  | (apply s_consumeN _ (by assumption) (by assumption) (by assumption); (case' hFail => (intros; try (exfalso; omega))); (case' hOk => (intros; try (exfalso; omega -splitDisjunctions))))
  | (apply s_neutral incLevel (by assumption) (by assumption) (by assumption); intros)
  | (apply s_neutral decLevel (by assumption) (by assumption) (by assumption); intros)
  | (apply s_neutral incType (by assumption) (by assumption) (by assumption); intros)
  | (apply s_neutral decType (by assumption) (by assumption) (by assumption); intros)
  | (apply s_neutral (appendBytes _) (by assumption) (by assumption) (by assumption); intros)
  | (apply s_neutral (appendSeparator _) (by assumption) (by assumption) (by assumption); intros)
  | vec_step
  | rec_step
  | apply tri_getSt
  | apply tri_getEnv
  | (apply s_getFixes (by assumption); try simp only [Fixes.all, Bool.not_true, Bool.and_false, Bool.false_eq_true, ↓reduceIte, Bool.true_and, Bool.and_true, Bool.and_self])
  | (apply s_number (by assumption) (by assumption) (by assumption); intros)
  | (apply s_sourceName (by assumption) (by assumption) (by assumption) (by assumption); intros)
  | (apply s_substitution (by assumption) (by assumption) (by assumption) (by assumption); intros)
  | (apply s_templateParam (by assumption) (by assumption) (by assumption); intros)
  | qual_prog
  | (apply s_qualifier (by assumption) (by assumption) (by assumption); intros)
  | (apply s_functionParam (by assumption) (by assumption) (by assumption); intros)
  | (apply s_callOffset (by assumption) (by assumption) (by assumption); intros)
  | (apply s_discriminator (by assumption) (by assumption) (by assumption); intros)
  | (apply s_abiTag (by assumption) (by assumption) (by assumption) (by assumption); intros)
  | (apply s_seqId (by assumption) (by assumption) (by assumption); intros)
  | (apply s_ddDebug _ (by assumption) (by assumption) (by assumption) (by fin); intros)
  | (apply s_modifySt _ (by intro st; exact ⟨rfl, rfl, rfl⟩) (by assumption) (by assumption) (by assumption); intros)
  | (apply s_setPos _ (by omega) (by assumption) (by assumption); intros)
  | cut_len
  | wq_helper
  | (simp only [Bool.not_true, Bool.not_false, Bool.false_eq_true, ↓reduceIte])
  | split
  | (dsimp only))

macro "wq" : tactic => `(tactic| (repeat' wq1))

macro "spec_close" : tactic => `(tactic|
  all_goals (simp only [Post, delta, Prog, Extra, Nat.zero_mul, Nat.one_mul, Nat.add_zero, eq_self, or_true, true_or,
               implies_true];
             refine ⟨?_, ?_, ?_, ?_, ?_, ?_, ?_, ?_⟩ <;> first | assumption | trivial | fin))

section specs
variable {rec : Fn → M Int} {B : Nat} {e : Env} {st : St}

theorem spec_ptrToMember (hrec : RecOK rec B) (hfx : e.fx = Fixes.all) (hl : st.len ≤ e.n) (hp : st.pos ≤ e.n)
    (hs : Stop e st.len) (hn : Need .ptrToMember e st (B + 1)) (hd : delta .ptrToMember ≤ st.pos) :
    Tri e st (bPtrToMember rec) (Post .ptrToMember e st) := by
  simp only [Need, rank] at hn
  simp only [delta] at hd
  have := exN_le st
  unfold bPtrToMember
  wq
  spec_close

theorem spec_arrayType (hrec : RecOK rec B) (hfx : e.fx = Fixes.all) (hl : st.len ≤ e.n) (hp : st.pos ≤ e.n)
    (hs : Stop e st.len) (hn : Need .arrayType e st (B + 1)) (hd : delta .arrayType ≤ st.pos) :
    Tri e st (bArrayType rec) (Post .arrayType e st) := by
  simp only [Need, rank] at hn
  simp only [delta] at hd
  have := exN_le st
  unfold bArrayType
  wq
  spec_close

theorem spec_decltype (hrec : RecOK rec B) (hfx : e.fx = Fixes.all) (hl : st.len ≤ e.n) (hp : st.pos ≤ e.n)
    (hs : Stop e st.len) (hn : Need .decltype e st (B + 1)) (hd : delta .decltype ≤ st.pos) :
    Tri e st (bDecltype rec) (Post .decltype e st) := by
  simp only [Need, rank] at hn
  simp only [delta] at hd
  have := exN_le st
  unfold bDecltype
  wq
  spec_close

theorem spec_templateArgs (hrec : RecOK rec B) (hfx : e.fx = Fixes.all) (hl : st.len ≤ e.n) (hp : st.pos ≤ e.n)
    (hs : Stop e st.len) (hn : Need .templateArgs e st (B + 1)) (hd : delta .templateArgs ≤ st.pos) :
    Tri e st (bTemplateArgs rec) (Post .templateArgs e st) := by
  simp only [Need, rank] at hn
  simp only [delta] at hd
  have := exN_le st
  unfold bTemplateArgs
  wq
  spec_close

theorem spec_argLoop (hrec : RecOK rec B) (hfx : e.fx = Fixes.all) (hl : st.len ≤ e.n) (hp : st.pos ≤ e.n)
    (hs : Stop e st.len) (hn : Need .argLoop e st (B + 1)) (hd : delta .argLoop ≤ st.pos) :
    Tri e st (bArgLoop rec) (Post .argLoop e st) := by
  simp only [Need, rank] at hn
  simp only [delta] at hd
  have := exN_le st
  unfold bArgLoop
  wq
  spec_close

theorem spec_templateArg (hrec : RecOK rec B) (hfx : e.fx = Fixes.all) (hl : st.len ≤ e.n) (hp : st.pos ≤ e.n)
    (hs : Stop e st.len) (hn : Need .templateArg e st (B + 1)) (hd : delta .templateArg ≤ st.pos) :
    Tri e st (bTemplateArg rec) (Post .templateArg e st) := by
  simp only [Need, rank] at hn
  simp only [delta] at hd
  have := exN_le st
  unfold bTemplateArg
  wq
  spec_close

theorem spec_exprLoop (hrec : RecOK rec B) (hfx : e.fx = Fixes.all) (hl : st.len ≤ e.n) (hp : st.pos ≤ e.n)
    (hs : Stop e st.len) (hn : Need .exprLoop e st (B + 1)) (hd : delta .exprLoop ≤ st.pos) :
    Tri e st (bExprLoop rec) (Post .exprLoop e st) := by
  simp only [Need, rank] at hn
  simp only [delta] at hd
  have := exN_le st
  unfold bExprLoop
  wq
  spec_close

theorem spec_initializer (hrec : RecOK rec B) (hfx : e.fx = Fixes.all) (hl : st.len ≤ e.n) (hp : st.pos ≤ e.n)
    (hs : Stop e st.len) (hn : Need .initializer e st (B + 1)) (hd : delta .initializer ≤ st.pos) :
    Tri e st (bInitializer rec) (Post .initializer e st) := by
  simp only [Need, rank] at hn
  simp only [delta] at hd
  have := exN_le st
  unfold bInitializer
  wq
  spec_close

theorem spec_exprPrimary (hrec : RecOK rec B) (hfx : e.fx = Fixes.all) (hl : st.len ≤ e.n) (hp : st.pos ≤ e.n)
    (hs : Stop e st.len) (hn : Need .exprPrimary e st (B + 1)) (hd : delta .exprPrimary ≤ st.pos) :
    Tri e st (bExprPrimary rec) (Post .exprPrimary e st) := by
  simp only [Need, rank] at hn
  simp only [delta] at hd
  have := exN_le st
  unfold bExprPrimary
  wq
  spec_close

theorem spec_exprListLoop (hrec : RecOK rec B) (hfx : e.fx = Fixes.all) (hl : st.len ≤ e.n) (hp : st.pos ≤ e.n)
    (hs : Stop e st.len) (hn : Need .exprListLoop e st (B + 1)) (hd : delta .exprListLoop ≤ st.pos) :
    Tri e st (bExprListLoop rec) (Post .exprListLoop e st) := by
  simp only [Need, rank] at hn
  simp only [delta] at hd
  have := exN_le st
  unfold bExprListLoop
  wq
  spec_close

theorem spec_exprList (hrec : RecOK rec B) (hfx : e.fx = Fixes.all) (hl : st.len ≤ e.n) (hp : st.pos ≤ e.n)
    (hs : Stop e st.len) (hn : Need .exprList e st (B + 1)) (hd : delta .exprList ≤ st.pos) :
    Tri e st (bExprList rec) (Post .exprList e st) := by
  simp only [Need, rank] at hn
  simp only [delta] at hd
  have := exN_le st
  unfold bExprList
  wq
  spec_close

theorem spec_simpleId (hrec : RecOK rec B) (hfx : e.fx = Fixes.all) (hl : st.len ≤ e.n) (hp : st.pos ≤ e.n)
    (hs : Stop e st.len) (hn : Need .simpleId e st (B + 1)) (hd : delta .simpleId ≤ st.pos) :
    Tri e st (bSimpleId rec) (Post .simpleId e st) := by
  simp only [Need, rank] at hn
  simp only [delta] at hd
  have := exN_le st
  unfold bSimpleId
  wq
  spec_close

theorem spec_unresolvedType (hrec : RecOK rec B) (hfx : e.fx = Fixes.all) (hl : st.len ≤ e.n) (hp : st.pos ≤ e.n)
    (hs : Stop e st.len) (hn : Need .unresolvedType e st (B + 1)) (hd : delta .unresolvedType ≤ st.pos) :
    Tri e st (bUnresolvedType rec) (Post .unresolvedType e st) := by
  simp only [Need, rank] at hn
  simp only [delta] at hd
  have := exN_le st
  unfold bUnresolvedType
  wq
  spec_close

theorem spec_destructorName (hrec : RecOK rec B) (hfx : e.fx = Fixes.all) (hl : st.len ≤ e.n) (hp : st.pos ≤ e.n)
    (hs : Stop e st.len) (hn : Need .destructorName e st (B + 1)) (hd : delta .destructorName ≤ st.pos) :
    Tri e st (bDestructorName rec) (Post .destructorName e st) := by
  simp only [Need, rank] at hn
  simp only [delta] at hd
  have := exN_le st
  unfold bDestructorName
  wq
  spec_close

theorem spec_baseUnresolvedName (hrec : RecOK rec B) (hfx : e.fx = Fixes.all) (hl : st.len ≤ e.n) (hp : st.pos ≤ e.n)
    (hs : Stop e st.len) (hn : Need .baseUnresolvedName e st (B + 1)) (hd : delta .baseUnresolvedName ≤ st.pos) :
    Tri e st (bBaseUnresolvedName rec) (Post .baseUnresolvedName e st) := by
  simp only [Need, rank] at hn
  simp only [delta] at hd
  have := exN_le st
  unfold bBaseUnresolvedName
  wq
  spec_close

theorem spec_unresLoop (hrec : RecOK rec B) (hfx : e.fx = Fixes.all) (hl : st.len ≤ e.n) (hp : st.pos ≤ e.n)
    (hs : Stop e st.len) (hn : Need .unresLoop e st (B + 1)) (hd : delta .unresLoop ≤ st.pos) :
    Tri e st (bUnresLoop rec) (Post .unresLoop e st) := by
  simp only [Need, rank] at hn
  simp only [delta] at hd
  have := exN_le st
  unfold bUnresLoop
  wq
  spec_close

theorem spec_functionType (hrec : RecOK rec B) (hfx : e.fx = Fixes.all) (hl : st.len ≤ e.n) (hp : st.pos ≤ e.n)
    (hs : Stop e st.len) (hn : Need .functionType e st (B + 1)) (hd : delta .functionType ≤ st.pos) :
    Tri e st (bFunctionType rec) (Post .functionType e st) := by
  simp only [Need, rank] at hn
  simp only [delta] at hd
  have := exN_le st
  unfold bFunctionType
  wq
  spec_close

theorem spec_type (hrec : RecOK rec B) (hfx : e.fx = Fixes.all) (hl : st.len ≤ e.n) (hp : st.pos ≤ e.n)
    (hs : Stop e st.len) (hn : Need .type e st (B + 1)) (hd : delta .type ≤ st.pos) :
    Tri e st (bType rec) (Post .type e st) := by
  simp only [Need, rank] at hn
  simp only [delta] at hd
  have := exN_le st
  unfold bType
  wq
  spec_close

theorem spec_operatorName (hrec : RecOK rec B) (hfx : e.fx = Fixes.all) (hl : st.len ≤ e.n) (hp : st.pos ≤ e.n)
    (hs : Stop e st.len) (hn : Need .operatorName e st (B + 1)) (hd : delta .operatorName ≤ st.pos) :
    Tri e st (bOperatorName rec) (Post .operatorName e st) := by
  simp only [Need, rank] at hn
  simp only [delta] at hd
  have := exN_le st
  unfold bOperatorName
  wq
  spec_close

theorem spec_ulLoop (hrec : RecOK rec B) (hfx : e.fx = Fixes.all) (hl : st.len ≤ e.n) (hp : st.pos ≤ e.n)
    (hs : Stop e st.len) (hn : Need .ulLoop e st (B + 1)) (hd : delta .ulLoop ≤ st.pos) :
    Tri e st (bUlLoop rec) (Post .ulLoop e st) := by
  simp only [Need, rank] at hn
  simp only [delta] at hd
  have := exN_le st
  unfold bUlLoop
  wq
  spec_close

theorem spec_nestedName (hrec : RecOK rec B) (hfx : e.fx = Fixes.all) (hl : st.len ≤ e.n) (hp : st.pos ≤ e.n)
    (hs : Stop e st.len) (hn : Need .nestedName e st (B + 1)) (hd : delta .nestedName ≤ st.pos) :
    Tri e st (bNestedName rec) (Post .nestedName e st) := by
  simp only [Need, rank] at hn
  simp only [delta] at hd
  have := exN_le st
  unfold bNestedName
  wq
  spec_close

theorem spec_localName (hrec : RecOK rec B) (hfx : e.fx = Fixes.all) (hl : st.len ≤ e.n) (hp : st.pos ≤ e.n)
    (hs : Stop e st.len) (hn : Need .localName e st (B + 1)) (hd : delta .localName ≤ st.pos) :
    Tri e st (bLocalName rec) (Post .localName e st) := by
  simp only [Need, rank] at hn
  simp only [delta] at hd
  have := exN_le st
  unfold bLocalName
  wq
  spec_close

theorem spec_name (hrec : RecOK rec B) (hfx : e.fx = Fixes.all) (hl : st.len ≤ e.n) (hp : st.pos ≤ e.n)
    (hs : Stop e st.len) (hn : Need .name e st (B + 1)) (hd : delta .name ≤ st.pos) :
    Tri e st (bName rec) (Post .name e st) := by
  simp only [Need, rank] at hn
  simp only [delta] at hd
  have := exN_le st
  unfold bName
  wq
  spec_close

theorem spec_encLoop (hrec : RecOK rec B) (hfx : e.fx = Fixes.all) (hl : st.len ≤ e.n) (hp : st.pos ≤ e.n)
    (hs : Stop e st.len) (hn : Need .encLoop e st (B + 1)) (hd : delta .encLoop ≤ st.pos) :
    Tri e st (bEncLoop rec) (Post .encLoop e st) := by
  simp only [Need, rank] at hn
  simp only [delta] at hd
  have := exN_le st
  unfold bEncLoop
  wq
  spec_close

theorem spec_nestedLoop (hrec : RecOK rec B) (hfx : e.fx = Fixes.all) (hl : st.len ≤ e.n) (hp : st.pos ≤ e.n)
    (hs : Stop e st.len) (hn : Need .nestedLoop e st (B + 1)) (hd : delta .nestedLoop ≤ st.pos) :
    Tri e st (bNestedLoop rec) (Post .nestedLoop e st) := by
  simp only [Need, rank] at hn
  simp only [delta] at hd
  have := exN_le st
  unfold bNestedLoop
  wq
  spec_close


/-- summary of a helper piece of a grammar function (relative to its own entry state) -/
def PostG (d : Nat) (pr : Bool) (e : Env) (st : St) (r : Int) (st' : St) : Prop :=
  st'.len ≤ e.n ∧ st'.pos ≤ e.n ∧ Stop e st'.len ∧ st'.len ≤ st.len ∧ exN st ≤ exN st' ∧
  st.pos ≤ st'.pos + d * exN st' ∧ (pr = true → 0 ≤ r → st.pos < st'.pos)

macro "post_close" : tactic => `(tactic|
  all_goals (simp only [Post, PostG, delta, Prog, Extra, Nat.zero_mul, Nat.one_mul, Nat.add_zero, or_true, true_or,
               implies_true, forall_const, Bool.false_eq_true, false_implies, true_implies];
             refine ⟨?_, ?_, ?_, ?_, ?_, ?_, ?_⟩ <;> first | assumption | trivial | fin))

theorem spec_unresSrTail (hrec : RecOK rec B) (hfx : e.fx = Fixes.all) (hl : st.len ≤ e.n) (hp : st.pos ≤ e.n)
    (hs : Stop e st.len) (hn : 8 * e.n + 3 ≤ B + 8 * st.pos) (hd : 1 ≤ st.pos) :
    Tri e st (bUnresSrTail rec) (PostG 1 false e st) := by
  have := exN_le st
  unfold bUnresSrTail
  wq
  post_close

macro "use_helper " t:term : tactic => `(tactic|
  (apply tri_use ($t)
   intro r st' hpost
   simp only [PostG, Post, delta, Prog, Extra, Nat.zero_mul, Nat.one_mul, Nat.add_zero, forall_const, Bool.false_eq_true,
     false_implies, true_implies] at hpost
   obtain ⟨_, _, _, _, _, _, _⟩ := hpost
   have := exN_le st'))

macro_rules | `(tactic| wq_helper) => `(tactic| first | use_helper (spec_unresSrTail (by assumption) (by assumption)
    (by assumption) (by assumption) (by assumption) (by omega) (by omega)) | fail)

theorem spec_unresAfterGs (hrec : RecOK rec B) (hfx : e.fx = Fixes.all) (hl : st.len ≤ e.n) (hp : st.pos ≤ e.n)
    (hs : Stop e st.len) (hn : 8 * e.n + 4 ≤ B + 1 + 8 * st.pos) (hd : 1 ≤ st.pos) (c0 c1 : UInt8)
    (h1 : c1.toNat = 0 ∨ (st.pos + 1 ≤ st.len ∧ (c1.toNat = 46 ∨ c1.toNat = 64)) ∨ st.pos + 1 < st.len) :
    Tri e st (bUnresAfterGs rec c0 c1) (PostG 1 true e st) := by
  have := exN_le st
  unfold bUnresAfterGs
  wq
  post_close

macro_rules | `(tactic| wq_helper) => `(tactic| first | use_helper (spec_unresAfterGs (by assumption) (by assumption)
    (by assumption) (by assumption) (by assumption) (by omega) (by omega) _ _ (by assumption)) | fail)

theorem spec_unresolvedName (hrec : RecOK rec B) (hfx : e.fx = Fixes.all) (hl : st.len ≤ e.n) (hp : st.pos ≤ e.n)
    (hs : Stop e st.len) (hn : Need .unresolvedName e st (B + 1)) (hd : delta .unresolvedName ≤ st.pos) :
    Tri e st (bUnresolvedName rec) (Post .unresolvedName e st) := by
  simp only [Need, rank] at hn
  simp only [delta] at hd
  have := exN_le st
  unfold bUnresolvedName
  wq
  spec_close

theorem spec_typeT (hrec : RecOK rec B) (hfx : e.fx = Fixes.all) (hl : st.len ≤ e.n) (hp : st.pos ≤ e.n)
    (hs : Stop e st.len) (hn : 8 * e.n + 5 ≤ B + 1 + 8 * st.pos) (hlt : st.pos < st.len) (ret : Int) :
    Tri e st (bTypeT rec ret) (Post (.typeLoop ret) e st) := by
  have := exN_le st
  unfold bTypeT
  wq
  spec_close

theorem spec_typeD (hrec : RecOK rec B) (hfx : e.fx = Fixes.all) (hl : st.len ≤ e.n) (hp : st.pos ≤ e.n)
    (hs : Stop e st.len) (hn : 8 * e.n + 5 ≤ B + 1 + 8 * st.pos) (hlt : st.pos < st.len) (ret : Int)
    (c0 : UInt8) (h0 : st.pos ≤ st.len → e.rd st.pos = some c0) (hc0 : c0.toNat = 68 % 2 ^ 8) :
    Tri e st (bTypeD rec ret) (Post (.typeLoop ret) e st) := by
  have := exN_le st
  unfold bTypeD
  wq
  spec_close

theorem spec_typeS (hrec : RecOK rec B) (hfx : e.fx = Fixes.all) (hl : st.len ≤ e.n) (hp : st.pos ≤ e.n)
    (hs : Stop e st.len) (hn : 8 * e.n + 5 ≤ B + 1 + 8 * st.pos) (hlt : st.pos < st.len) (ret : Int) :
    Tri e st (bTypeS rec) (Post (.typeLoop ret) e st) := by
  have := exN_le st
  unfold bTypeS
  wq
  spec_close

theorem spec_typeU (hrec : RecOK rec B) (hfx : e.fx = Fixes.all) (hl : st.len ≤ e.n) (hp : st.pos ≤ e.n)
    (hs : Stop e st.len) (hn : 8 * e.n + 5 ≤ B + 1 + 8 * st.pos) (hlt : st.pos < st.len) (ret : Int) :
    Tri e st (bTypeU rec) (Post (.typeLoop ret) e st) := by
  have := exN_le st
  unfold bTypeU
  wq
  spec_close

macro_rules | `(tactic| wq_helper) => `(tactic| first | (exact spec_typeT (by assumption) (by assumption) (by assumption) (by assumption) (by assumption) (by omega) (by omega) _) | fail)
macro_rules | `(tactic| wq_helper) => `(tactic| first | (exact spec_typeS (by assumption) (by assumption) (by assumption) (by assumption) (by assumption) (by omega) (by omega) _) | fail)
macro_rules | `(tactic| wq_helper) => `(tactic| first | (exact spec_typeU (by assumption) (by assumption) (by assumption) (by assumption) (by assumption) (by omega) (by omega) _) | fail)
macro_rules | `(tactic| wq_helper) => `(tactic| first | (exact spec_typeD (by assumption) (by assumption) (by assumption) (by assumption) (by assumption) (by omega) (by omega) _ _ (by assumption) (by assumption)) | fail)



theorem spec_typeLoop (ret : Int) (hrec : RecOK rec B) (hfx : e.fx = Fixes.all) (hl : st.len ≤ e.n) (hp : st.pos ≤ e.n)
    (hs : Stop e st.len) (hn : Need (.typeLoop ret) e st (B + 1)) (hd : delta (.typeLoop ret) ≤ st.pos) :
    Tri e st (bTypeLoop rec ret) (Post (.typeLoop ret) e st) := by
  simp only [Need, rank] at hn
  simp only [delta] at hd
  have := exN_le st
  unfold bTypeLoop
  wq
  spec_close

end specs

end Uft.Demangle
