import Uft.Lemmas.Demangle
/-!
# C13 — summaries of the grammar functions

`Post f e st r st'` is the summary of grammar function `f` started in `st`.  It is
proved for `run n f` by induction on the fuel `n`, for every fuel
`n` with `8 * strlen + rank f + 1 ≤ n + 8 * pos`, i.e. `n ≥ 8 * (strlen - pos) + rank f + 1`; the same induction therefore
shows that the fuel never runs out (termination with an explicit bound).
-/
namespace Uft.Demangle
open Uft.Gen.DemangleTables

/-- functions that may leave `pos` one *below* their entry position (when
    `dd_simple_id` fails it executes `dd->pos--`) -/
def delta : Fn → Nat
  | .expression | .unresolvedName | .baseUnresolvedName | .simpleId | .exprList | .exprListLoop
  | .exprLoop | .unresLoop => 1
  | _ => 0

/-- order of the calls that can happen at the caller's entry position -/
def rank : Fn → Nat
  | .simpleId => 1
  | .baseUnresolvedName | .unresLoop => 2
  | .unresolvedName => 3
  | .expression => 4
  | .exprListLoop | .exprLoop => 5
  | .exprList => 6
  | .exprPrimary | .decltype | .vectorType | .functionType | .arrayType | .ptrToMember | .templateArgs
  | .ctorDtorName | .operatorName | .initializer | .localName | .nestedName | .specialName => 1
  | .unresolvedType => 2
  | .destructorName => 3
  | .unqualifiedName => 2
  | .name | .nestedLoop => 3
  | .typeLoop _ => 4
  | .type => 5
  | .ulLoop | .ftLoop _ | .encLoop | .templateArg => 6
  | .argLoop => 7
  | .encoding => 7

/-- progress made by a successful call -/
def Prog : Fn → Nat → Int → Nat → Prop
  | .typeLoop ret, p, r, p' => 0 ≤ r → p < p' ∨ r = ret
  | .encLoop, _, _, _ | .nestedLoop, _, _, _ | .ulLoop, _, _, _ | .ftLoop _, _, _, _ | .argLoop, _, _, _
  | .exprListLoop, _, _, _ | .exprLoop, _, _, _ | .unresLoop, _, _, _ | .exprList, _, _, _ => True
  | _, p, r, p' => 0 ≤ r → p < p'

/-- function-specific extras -/
def Extra : Fn → Env → St → St → Prop
  | .vectorType, e, st, st' =>
    e.rd st.pos = some 68 → e.rd (st.pos + 1) = some 118 → st.pos + 2 ≤ st.len → st.pos < st'.pos
  | _, _, _, _ => True

def Post (f : Fn) (e : Env) (st : St) (r : Int) (st' : St) : Prop :=
  st'.len ≤ e.n ∧ st'.pos ≤ e.n ∧ Stop e st'.len ∧ st'.len ≤ st.len ∧ exN st ≤ exN st' ∧
  st.pos ≤ st'.pos + delta f * exN st' ∧ Prog f st.pos r st'.pos ∧ Extra f e st st'

/-- `Need f e st B`: budget `B` suffices for `f` started in `st` (additive form of
    `8 * (strlen - pos) + rank f + 1 ≤ B`, without subtraction) -/
def Need (f : Fn) (e : Env) (st : St) (B : Nat) : Prop := 8 * e.n + rank f + 1 ≤ B + 8 * st.pos

def RecOK (rec : Fn → M Int) (B : Nat) : Prop :=
  ∀ (g : Fn) (e : Env) (st : St), e.fx = Fixes.all → st.len ≤ e.n → st.pos ≤ e.n → Stop e st.len →
    Need g e st B → delta g ≤ st.pos → Tri e st (rec g) (Post g e st)

theorem s_rec {rec : Fn → M Int} {B : Nat} {e : Env} {st : St} {Q : Int → St → Prop} (hrec : RecOK rec B) (g : Fn)
    (hfx : e.fx = Fixes.all) (hl : st.len ≤ e.n) (hp : st.pos ≤ e.n) (hs : Stop e st.len) (hn : Need g e st B)
    (hd : delta g ≤ st.pos)
    (h : ∀ r st', Post g e st r st' → Q r st') : Tri e st (rec g) Q :=
  tri_mono (hrec g e st hfx hl hp hs hn hd) h

attribute [local irreducible] M.bind M.pure peek curr consumeN consume posBack ddDebug debugConsume eof getSt getEnv
  getFixes modifySt incLevel decLevel incType decType appendBytes appendSeparator rdAt number qualifier seqId sourceName
  templateParam functionParam callOffset discriminator abiTag substitution findUnary hexSkip

macro "rec_step" : tactic => `(tactic|
  (apply s_rec (by assumption) _ (by assumption) (by assumption) (by assumption) (by assumption)
      (by simp only [Need, rank]; omega) (by simp only [delta]; omega)
   intro r st' hpost
   simp only [Post, delta, Prog, Extra, Nat.zero_mul, Nat.one_mul, Nat.add_zero] at hpost
   obtain ⟨_, _, _, _, _, _, _, _⟩ := hpost
   have := exN_le st'))
macro_rules | `(tactic| wp1) => `(tactic| first | rec_step | fail)
/-- `dd->pos = old_pos` -/
theorem s_setPos {e : Env} {st : St} {Q : Unit → St → Prop} (p : Nat) (hp' : p ≤ e.n) (hl : st.len ≤ e.n) (hs : Stop e st.len)
    (h : ∀ st', st'.pos = p → st'.len = st.len → st'.len ≤ e.n → st'.pos ≤ e.n → Stop e st'.len →
          exN st' = exN st → Q () st') : Tri e st (modifySt fun st => { st with pos := p }) Q :=
  tri_modifySt (h { st with pos := p } rfl rfl hl hp' hs rfl)

/-- `dd->len = dd->pos` when the current char is `.` or `@` -/
theorem s_cutLen {e : Env} {st : St} {Q : Unit → St → Prop} (c : UInt8) (hrd : st.pos ≤ st.len → e.rd st.pos = some c)
    (hc' : c.toNat = 0 ∨ (st.pos ≤ st.len ∧ (c.toNat = 46 ∨ c.toNat = 64)) ∨ st.pos < st.len)
    (hc : c.toNat = 46 ∨ c.toNat = 64)
    (hl : st.len ≤ e.n) (hp : st.pos ≤ e.n)
    (h : ∀ st', st'.pos = st.pos → st'.len ≤ st.len → st'.len ≤ e.n → st'.pos ≤ e.n → Stop e st'.len →
          exN st' = exN st → Q () st') : Tri e st (modifySt fun st => { st with len := st.pos }) Q := by
  have hle : st.pos ≤ st.len := by omega
  have hr := hrd hle
  have hstop : Stop e st.pos := by
    rcases hc with hc | hc
    · have : c = 46 := by rw [u8_eq_iff]; simpa using hc
      subst this
      exact Or.inr (Or.inl hr)
    · have : c = 64 := by rw [u8_eq_iff]; simpa using hc
      subst this
      exact Or.inr (Or.inr hr)
  exact tri_modifySt (h { st with len := st.pos } rfl hle hp hp hstop rfl)

theorem toNat_eq_lit {c : UInt8} {n : Nat} (h : c.toNat = n) (hn : n < 256) : c = UInt8.ofNat n := by
  rw [u8_eq_iff, h]
  simp [UInt8.toNat_ofNat, Nat.mod_eq_of_lt hn]

/-- `dd_vector_type` called from dd_type: the two chars are known to be "Dv" -/
theorem s_rec_vector {rec : Fn → M Int} {B : Nat} {e : Env} {st : St} {Q : Int → St → Prop} (hrec : RecOK rec B)
    (c0 c1 : UInt8) (h0 : st.pos ≤ st.len → e.rd st.pos = some c0) (hc0 : c0.toNat = 68)
    (h1 : st.pos + 1 ≤ st.len → e.rd (st.pos + 1) = some c1) (hc1 : c1.toNat = 118) (hlt : st.pos + 1 < st.len)
    (hfx : e.fx = Fixes.all) (hl : st.len ≤ e.n) (hp : st.pos ≤ e.n) (hs : Stop e st.len)
    (hn : Need .vectorType e st B)
    (h : ∀ r st', st'.len ≤ e.n → st'.pos ≤ e.n → Stop e st'.len → st'.len ≤ st.len → exN st ≤ exN st' →
      st.pos < st'.pos → exN st' ≤ 1 → Q r st') : Tri e st (rec .vectorType) Q := by
  apply s_rec hrec .vectorType hfx hl hp hs hn (by simp [delta])
  intro r st' hpost
  simp only [Post, delta, Prog, Extra, Nat.zero_mul, Nat.add_zero] at hpost
  obtain ⟨p1, p2, p3, p4, p5, _, _, p8⟩ := hpost
  have e0 : c0 = 68 := toNat_eq_lit (n := 68) hc0 (by omega)
  have e1 : c1 = 118 := toNat_eq_lit (n := 118) hc1 (by omega)
  subst e0 e1
  exact h r st' p1 p2 p3 p4 p5 (p8 (h0 (by omega)) (h1 (by omega)) (by omega)) (exN_le _)

macro "vec_step" : tactic => `(tactic|
  (refine s_rec_vector (by assumption) ?c0 ?c1 ?h0 ?hc0 ?h1 ?hc1 ?hlt (by assumption) (by assumption) (by assumption)
      (by assumption) ?hn ?k
   case h0 => assumption
   case hc0 => omega
   case h1 => assumption
   case hc1 => omega
   case hlt => omega
   case hn => (simp only [Need, rank]; omega)
   case' k => intros))
macro_rules | `(tactic| wp1) => `(tactic| first | vec_step | fail)
macro "cut_len" : tactic => `(tactic|
  (refine s_cutLen ?c ?hrd ?hc' ?hc (by assumption) (by assumption) ?k
   case hrd => assumption
   case hc' => assumption
   case hc => omega
   case' k => intros))
macro_rules | `(tactic| wp1) => `(tactic| first | cut_len | fail)
macro_rules | `(tactic| wp1) => `(tactic| first | (apply s_setPos _ (by omega) (by assumption) (by assumption); intros) | fail)

/-! ### dd_expression -/

/-- the bytes of `u` are at index `i` -/
def MatchAt (e : Env) (u : List UInt8) (i : Nat) : Prop := ∀ j (h : j < u.length), e.rd (i + j) = some u[j]

theorem t_matchAt_spec {e : Env} {st : St} : ∀ (cs : List UInt8) (i : Nat), (∀ c ∈ cs, c.toNat ≠ 0) → i ≤ e.n →
    Tri e st (matchAt cs i) (fun b st' => st' = st ∧ (b = true → MatchAt e cs i)) := by
  intro cs
  induction cs with
  | nil => intro i _ _; exact tri_pure ⟨rfl, fun _ j h => by simp at h⟩
  | cons c cs ih =>
    intro i hnz hi
    unfold matchAt
    apply tri_bind
    apply tri_rdAt _ hi
    intro b hb
    apply tri_ite
    · intro _; exact tri_pure ⟨rfl, by simp⟩
    · intro hbc
      have hbc : b = c := by simpa using hbc
      subst hbc
      have := rd_lt hb (hnz b (List.mem_cons_self))
      refine tri_mono (ih (i + 1) (fun c hc => hnz c (List.mem_cons_of_mem _ hc)) (by omega)) ?_
      intro r st' ⟨h1, h2⟩
      refine ⟨h1, fun hr j hj => ?_⟩
      cases j with
      | zero => simpa using hb
      | succ j =>
        have := h2 hr j (by simpa using hj)
        simpa [Nat.add_assoc, Nat.add_comm 1 j] using this

theorem t_findUnary {e : Env} {st : St} (exp : Nat) (hexp : exp ≤ e.n) : ∀ (l : List (List UInt8)),
    (∀ u ∈ l, ∀ c ∈ u, c.toNat ≠ 0) →
    Tri e st (findUnary exp l) (fun r st' => st' = st ∧ ∀ k, r = some k → ∃ u, u ∈ l ∧ k = u.length ∧ MatchAt e u exp) := by
  intro l
  induction l with
  | nil => intro _; unfold findUnary; exact tri_pure ⟨rfl, by simp⟩
  | cons u l ih =>
    intro hnz
    unfold findUnary
    apply tri_bind
    refine tri_mono (t_matchAt_spec u exp (hnz u List.mem_cons_self) hexp) ?_
    intro b st' ⟨h1, h2⟩
    rw [h1]
    apply tri_ite
    · intro hb
      refine tri_pure ⟨rfl, ?_⟩
      intro k hk
      cases hk
      exact ⟨u, List.mem_cons_self, rfl, h2 hb⟩
    · intro _
      refine tri_mono (ih (fun u hu => hnz u (List.mem_cons_of_mem _ hu))) ?_
      intro r st'' ⟨h3, h4⟩
      refine ⟨h3, fun k hk => ?_⟩
      obtain ⟨u', hu', hk', hm⟩ := h4 k hk
      exact ⟨u', List.mem_cons_of_mem _ hu', hk', hm⟩

theorem unary_facts : ∀ u ∈ unaryOpsFx Fixes.all, 2 ≤ u.length ∧ u.head? ≠ some 103 ∧
    ∀ c ∈ u, c.toNat ≠ 0 ∧ c.toNat ≠ 46 ∧ c.toNat ≠ 64 := by decide

/-- a matched run of non-stop bytes starting at `p ≤ len` lies inside `len` -/
theorem match_in_len {e : Env} {l : Nat} (hs : Stop e l) : ∀ (u : List UInt8) (p : Nat),
    (∀ c ∈ u, c.toNat ≠ 0 ∧ c.toNat ≠ 46 ∧ c.toNat ≠ 64) → MatchAt e u p → p ≤ l → p + u.length ≤ l := by
  intro u
  induction u with
  | nil => intro p _ _ h; simpa using h
  | cons c u ih =>
    intro p hns hm hp
    have h0 := hm 0 (by simp)
    simp only [Nat.add_zero, List.getElem_cons_zero] at h0
    obtain ⟨n0, n1, n2⟩ := hns c List.mem_cons_self
    have hlt := stop_strict hs h0 hp n0 n1 n2
    have := ih (p + 1) (fun c hc => hns c (List.mem_cons_of_mem _ hc)) (fun j hj => by
      have := hm (j + 1) (by simpa using hj)
      simpa [Nat.add_assoc, Nat.add_comm 1 j] using this) (by omega)
    simp only [List.length_cons]
    omega

/-- the loop over `unary_ops[]` in dd_expression: a match implies that the operator lies inside the
    name (and that no "gs" was skipped: no unary operator starts with 'g') -/
theorem s_findUnary {e : Env} {st : St} {Q : Option Nat → St → Prop} (exp : Nat) (hl : st.len ≤ e.n) (hp : st.pos ≤ e.n)
    (hs : Stop e st.len) (hple : st.pos ≤ st.len)
    (hexp : exp = st.pos ∨ (exp + 2 = st.pos ∧ e.rd exp = some 103))
    (hN : Q none st) (hS : ∀ k, 2 ≤ k → exp = st.pos → st.pos + k ≤ st.len → Q (some k) st) :
    Tri e st (findUnary exp (unaryOpsFx Fixes.all)) Q := by
  refine tri_mono (t_findUnary exp (by omega) (unaryOpsFx Fixes.all) (fun u hu c hc => ((unary_facts u hu).2.2 c hc).1)) ?_
  intro r st' ⟨h1, h2⟩
  rw [h1]
  cases r with
  | none => exact hN
  | some k =>
    obtain ⟨u, hu, hk, hm⟩ := h2 k rfl
    obtain ⟨f1, f2, f3⟩ := unary_facts u hu
    rcases hexp with hexp | ⟨hexp, hg⟩
    · subst hexp
      have := match_in_len hs u _ f3 hm hple
      exact hS k (by omega) rfl (by omega)
    · exfalso
      have h0 := hm 0 (by omega)
      simp only [Nat.add_zero] at h0
      rw [hg] at h0
      cases u with
      | nil => simp at f1
      | cons c u =>
        simp only [List.getElem_cons_zero, Option.some.injEq] at h0
        subst h0
        simp at f2

theorem ops_facts : ∀ o ∈ ops, o.2.1.toNat ≠ 0 ∧ o.2.1.toNat ≠ 46 ∧ o.2.1.toNat ≠ 64 := by decide

theorem ops_c1_nonstop {c0 c1 : UInt8} (h : (ops.any fun o => o.1 == c0 && o.2.1 == c1) = true) :
    c1.toNat ≠ 0 ∧ c1.toNat ≠ 46 ∧ c1.toNat ≠ 64 := by
  rw [List.any_eq_true] at h
  obtain ⟨o, ho, h⟩ := h
  simp only [Bool.and_eq_true, beq_iff_eq] at h
  rw [← h.2]
  exact ops_facts o ho

/-- helper-piece rules are added to this tactic -/
syntax "wq_helper" : tactic
macro_rules | `(tactic| wq_helper) => `(tactic| fail)

theorem tri_use {α} {e : Env} {st : St} {m : M α} {P Q : α → St → Prop} (h : Tri e st m P)
    (k : ∀ r st', P r st' → Q r st') : Tri e st m Q := tri_mono h k

/-- one step of symbolic execution; the frequent structural rules come first -/
syntax "wq1" : tactic
macro_rules | `(tactic| wq1) => `(tactic| first
  | apply tri_pure
  | (apply s_eof_if <;> intros <;> try (exfalso; omega -splitDisjunctions -splitNatSub))
  | (apply s_debugConsume_if _ (by decide) (by assumption) (by assumption) (by assumption) (by fin) <;> intros)
  | apply tri_bind
  | (apply tri_ite; (case' hT => (intro _; norm_last; try (rename_i hops; have := ops_c1_nonstop hops.1))); (case' hF => (intro _; norm_neg)))
  | (apply s_curr (by assumption) (by assumption); intros)
  | (apply s_peek _ (by assumption) (by assumption); intros)
  | (apply s_consume (by assumption) (by assumption) (by assumption) <;> intros <;> try (exfalso; omega -splitDisjunctions -splitNatSub))
  | (apply s_consumeN _ (by assumption) (by assumption) (by assumption); (case' hFail => (intros; try (exfalso; omega))); (case' hOk => (intros; try (exfalso; omega -splitDisjunctions))))
  | (apply s_neutral incLevel (by assumption) (by assumption) (by assumption); intros)
  | (apply s_neutral decLevel (by assumption) (by assumption) (by assumption); intros)
  | (apply s_neutral incType (by assumption) (by assumption) (by assumption); intros)
  | (apply s_neutral decType (by assumption) (by assumption) (by assumption); intros)
  | (apply s_neutral (appendBytes _) (by assumption) (by assumption) (by assumption); intros)
  | (apply s_neutral (appendSeparator _) (by assumption) (by assumption) (by assumption); intros)
  | vec_step
  | rec_step
  | apply tri_getSt
  | apply tri_getEnv
  | (apply s_getFixes (by assumption); try simp only [Fixes.all, Bool.not_true, Bool.and_false, Bool.false_eq_true, ↓reduceIte, Bool.true_and, Bool.and_true, Bool.and_self])
  | (apply s_number (by assumption) (by assumption) (by assumption); intros)
  | (apply s_sourceName (by assumption) (by assumption) (by assumption) (by assumption); intros)
  | (apply s_substitution (by assumption) (by assumption) (by assumption) (by assumption); intros)
  | (apply s_templateParam (by assumption) (by assumption) (by assumption); intros)
  | qual_prog
  | (apply s_qualifier (by assumption) (by assumption) (by assumption); intros)
  | (apply s_functionParam (by assumption) (by assumption) (by assumption); intros)
  | (apply s_callOffset (by assumption) (by assumption) (by assumption); intros)
  | (apply s_discriminator (by assumption) (by assumption) (by assumption) (by assumption); intros)
  | (apply s_hexSkip (by assumption) (by assumption) (by assumption); intros)
  | (apply s_abiTag (by assumption) (by assumption) (by assumption) (by assumption); intros)
  | (apply s_seqId (by assumption) (by assumption) (by assumption); intros)
  | (apply s_ddDebug _ (by assumption) (by assumption) (by assumption) (by fin); intros)
  | (apply s_modifySt _ (by intro st; exact ⟨rfl, rfl, rfl⟩) (by assumption) (by assumption) (by assumption); intros)
  | (apply s_setPos _ (by omega) (by assumption) (by assumption); intros)
  | cut_len
  | wq_helper
  | (simp only [Bool.not_true, Bool.not_false, Bool.false_eq_true, ↓reduceIte])
  | split
  | (dsimp only))

macro "wq" : tactic => `(tactic| (repeat' wq1))

macro "spec_close" : tactic => `(tactic|
  all_goals (simp only [Post, delta, Prog, Extra, Nat.zero_mul, Nat.one_mul, Nat.add_zero, eq_self, or_true, true_or,
               implies_true];
             refine ⟨?_, ?_, ?_, ?_, ?_, ?_, ?_, ?_⟩ <;> first | assumption | trivial | fin))

section specs
variable {rec : Fn → M Int} {B : Nat} {e : Env} {st : St}

theorem spec_ptrToMember (hrec : RecOK rec B) (hfx : e.fx = Fixes.all) (hl : st.len ≤ e.n) (hp : st.pos ≤ e.n)
    (hs : Stop e st.len) (hn : Need .ptrToMember e st (B + 1)) (hd : delta .ptrToMember ≤ st.pos) :
    Tri e st (bPtrToMember rec) (Post .ptrToMember e st) := by
  simp only [Need, rank] at hn
  simp only [delta] at hd
  have := exN_le st
  unfold bPtrToMember
  wq
  spec_close

theorem spec_arrayType (hrec : RecOK rec B) (hfx : e.fx = Fixes.all) (hl : st.len ≤ e.n) (hp : st.pos ≤ e.n)
    (hs : Stop e st.len) (hn : Need .arrayType e st (B + 1)) (hd : delta .arrayType ≤ st.pos) :
    Tri e st (bArrayType rec) (Post .arrayType e st) := by
  simp only [Need, rank] at hn
  simp only [delta] at hd
  have := exN_le st
  unfold bArrayType
  wq
  spec_close

theorem spec_decltype (hrec : RecOK rec B) (hfx : e.fx = Fixes.all) (hl : st.len ≤ e.n) (hp : st.pos ≤ e.n)
    (hs : Stop e st.len) (hn : Need .decltype e st (B + 1)) (hd : delta .decltype ≤ st.pos) :
    Tri e st (bDecltype rec) (Post .decltype e st) := by
  simp only [Need, rank] at hn
  simp only [delta] at hd
  have := exN_le st
  unfold bDecltype
  wq
  spec_close

theorem spec_templateArgs (hrec : RecOK rec B) (hfx : e.fx = Fixes.all) (hl : st.len ≤ e.n) (hp : st.pos ≤ e.n)
    (hs : Stop e st.len) (hn : Need .templateArgs e st (B + 1)) (hd : delta .templateArgs ≤ st.pos) :
    Tri e st (bTemplateArgs rec) (Post .templateArgs e st) := by
  simp only [Need, rank] at hn
  simp only [delta] at hd
  have := exN_le st
  unfold bTemplateArgs
  wq
  spec_close

theorem spec_argLoop (hrec : RecOK rec B) (hfx : e.fx = Fixes.all) (hl : st.len ≤ e.n) (hp : st.pos ≤ e.n)
    (hs : Stop e st.len) (hn : Need .argLoop e st (B + 1)) (hd : delta .argLoop ≤ st.pos) :
    Tri e st (bArgLoop rec) (Post .argLoop e st) := by
  simp only [Need, rank] at hn
  simp only [delta] at hd
  have := exN_le st
  unfold bArgLoop
  wq
  spec_close

theorem spec_templateArg (hrec : RecOK rec B) (hfx : e.fx = Fixes.all) (hl : st.len ≤ e.n) (hp : st.pos ≤ e.n)
    (hs : Stop e st.len) (hn : Need .templateArg e st (B + 1)) (hd : delta .templateArg ≤ st.pos) :
    Tri e st (bTemplateArg rec) (Post .templateArg e st) := by
  simp only [Need, rank] at hn
  simp only [delta] at hd
  have := exN_le st
  unfold bTemplateArg
  wq
  spec_close

theorem spec_exprLoop (hrec : RecOK rec B) (hfx : e.fx = Fixes.all) (hl : st.len ≤ e.n) (hp : st.pos ≤ e.n)
    (hs : Stop e st.len) (hn : Need .exprLoop e st (B + 1)) (hd : delta .exprLoop ≤ st.pos) :
    Tri e st (bExprLoop rec) (Post .exprLoop e st) := by
  simp only [Need, rank] at hn
  simp only [delta] at hd
  have := exN_le st
  unfold bExprLoop
  wq
  spec_close

theorem spec_initializer (hrec : RecOK rec B) (hfx : e.fx = Fixes.all) (hl : st.len ≤ e.n) (hp : st.pos ≤ e.n)
    (hs : Stop e st.len) (hn : Need .initializer e st (B + 1)) (hd : delta .initializer ≤ st.pos) :
    Tri e st (bInitializer rec) (Post .initializer e st) := by
  simp only [Need, rank] at hn
  simp only [delta] at hd
  have := exN_le st
  unfold bInitializer
  wq
  spec_close

theorem spec_exprPrimary (hrec : RecOK rec B) (hfx : e.fx = Fixes.all) (hl : st.len ≤ e.n) (hp : st.pos ≤ e.n)
    (hs : Stop e st.len) (hn : Need .exprPrimary e st (B + 1)) (hd : delta .exprPrimary ≤ st.pos) :
    Tri e st (bExprPrimary rec) (Post .exprPrimary e st) := by
  simp only [Need, rank] at hn
  simp only [delta] at hd
  have := exN_le st
  unfold bExprPrimary
  wq
  spec_close

theorem spec_exprListLoop (hrec : RecOK rec B) (hfx : e.fx = Fixes.all) (hl : st.len ≤ e.n) (hp : st.pos ≤ e.n)
    (hs : Stop e st.len) (hn : Need .exprListLoop e st (B + 1)) (hd : delta .exprListLoop ≤ st.pos) :
    Tri e st (bExprListLoop rec) (Post .exprListLoop e st) := by
  simp only [Need, rank] at hn
  simp only [delta] at hd
  have := exN_le st
  unfold bExprListLoop
  wq
  spec_close

theorem spec_exprList (hrec : RecOK rec B) (hfx : e.fx = Fixes.all) (hl : st.len ≤ e.n) (hp : st.pos ≤ e.n)
    (hs : Stop e st.len) (hn : Need .exprList e st (B + 1)) (hd : delta .exprList ≤ st.pos) :
    Tri e st (bExprList rec) (Post .exprList e st) := by
  simp only [Need, rank] at hn
  simp only [delta] at hd
  have := exN_le st
  unfold bExprList
  wq
  spec_close

theorem spec_simpleId (hrec : RecOK rec B) (hfx : e.fx = Fixes.all) (hl : st.len ≤ e.n) (hp : st.pos ≤ e.n)
    (hs : Stop e st.len) (hn : Need .simpleId e st (B + 1)) (hd : delta .simpleId ≤ st.pos) :
    Tri e st (bSimpleId rec) (Post .simpleId e st) := by
  simp only [Need, rank] at hn
  simp only [delta] at hd
  have := exN_le st
  unfold bSimpleId
  wq
  spec_close

theorem spec_unresolvedType (hrec : RecOK rec B) (hfx : e.fx = Fixes.all) (hl : st.len ≤ e.n) (hp : st.pos ≤ e.n)
    (hs : Stop e st.len) (hn : Need .unresolvedType e st (B + 1)) (hd : delta .unresolvedType ≤ st.pos) :
    Tri e st (bUnresolvedType rec) (Post .unresolvedType e st) := by
  simp only [Need, rank] at hn
  simp only [delta] at hd
  have := exN_le st
  unfold bUnresolvedType
  wq
  spec_close

theorem spec_destructorName (hrec : RecOK rec B) (hfx : e.fx = Fixes.all) (hl : st.len ≤ e.n) (hp : st.pos ≤ e.n)
    (hs : Stop e st.len) (hn : Need .destructorName e st (B + 1)) (hd : delta .destructorName ≤ st.pos) :
    Tri e st (bDestructorName rec) (Post .destructorName e st) := by
  simp only [Need, rank] at hn
  simp only [delta] at hd
  have := exN_le st
  unfold bDestructorName
  wq
  spec_close

theorem spec_baseUnresolvedName (hrec : RecOK rec B) (hfx : e.fx = Fixes.all) (hl : st.len ≤ e.n) (hp : st.pos ≤ e.n)
    (hs : Stop e st.len) (hn : Need .baseUnresolvedName e st (B + 1)) (hd : delta .baseUnresolvedName ≤ st.pos) :
    Tri e st (bBaseUnresolvedName rec) (Post .baseUnresolvedName e st) := by
  simp only [Need, rank] at hn
  simp only [delta] at hd
  have := exN_le st
  unfold bBaseUnresolvedName
  wq
  spec_close

theorem spec_unresLoop (hrec : RecOK rec B) (hfx : e.fx = Fixes.all) (hl : st.len ≤ e.n) (hp : st.pos ≤ e.n)
    (hs : Stop e st.len) (hn : Need .unresLoop e st (B + 1)) (hd : delta .unresLoop ≤ st.pos) :
    Tri e st (bUnresLoop rec) (Post .unresLoop e st) := by
  simp only [Need, rank] at hn
  simp only [delta] at hd
  have := exN_le st
  unfold bUnresLoop
  wq
  spec_close

theorem spec_functionType (hrec : RecOK rec B) (hfx : e.fx = Fixes.all) (hl : st.len ≤ e.n) (hp : st.pos ≤ e.n)
    (hs : Stop e st.len) (hn : Need .functionType e st (B + 1)) (hd : delta .functionType ≤ st.pos) :
    Tri e st (bFunctionType rec) (Post .functionType e st) := by
  simp only [Need, rank] at hn
  simp only [delta] at hd
  have := exN_le st
  unfold bFunctionType
  wq
  spec_close

theorem spec_type (hrec : RecOK rec B) (hfx : e.fx = Fixes.all) (hl : st.len ≤ e.n) (hp : st.pos ≤ e.n)
    (hs : Stop e st.len) (hn : Need .type e st (B + 1)) (hd : delta .type ≤ st.pos) :
    Tri e st (bType rec) (Post .type e st) := by
  simp only [Need, rank] at hn
  simp only [delta] at hd
  have := exN_le st
  unfold bType
  wq
  spec_close

theorem spec_operatorName (hrec : RecOK rec B) (hfx : e.fx = Fixes.all) (hl : st.len ≤ e.n) (hp : st.pos ≤ e.n)
    (hs : Stop e st.len) (hn : Need .operatorName e st (B + 1)) (hd : delta .operatorName ≤ st.pos) :
    Tri e st (bOperatorName rec) (Post .operatorName e st) := by
  simp only [Need, rank] at hn
  simp only [delta] at hd
  have := exN_le st
  unfold bOperatorName
  wq
  spec_close

theorem spec_ulLoop (hrec : RecOK rec B) (hfx : e.fx = Fixes.all) (hl : st.len ≤ e.n) (hp : st.pos ≤ e.n)
    (hs : Stop e st.len) (hn : Need .ulLoop e st (B + 1)) (hd : delta .ulLoop ≤ st.pos) :
    Tri e st (bUlLoop rec) (Post .ulLoop e st) := by
  simp only [Need, rank] at hn
  simp only [delta] at hd
  have := exN_le st
  unfold bUlLoop
  wq
  spec_close

theorem spec_nestedName (hrec : RecOK rec B) (hfx : e.fx = Fixes.all) (hl : st.len ≤ e.n) (hp : st.pos ≤ e.n)
    (hs : Stop e st.len) (hn : Need .nestedName e st (B + 1)) (hd : delta .nestedName ≤ st.pos) :
    Tri e st (bNestedName rec) (Post .nestedName e st) := by
  simp only [Need, rank] at hn
  simp only [delta] at hd
  have := exN_le st
  unfold bNestedName
  wq
  spec_close

theorem spec_localName (hrec : RecOK rec B) (hfx : e.fx = Fixes.all) (hl : st.len ≤ e.n) (hp : st.pos ≤ e.n)
    (hs : Stop e st.len) (hn : Need .localName e st (B + 1)) (hd : delta .localName ≤ st.pos) :
    Tri e st (bLocalName rec) (Post .localName e st) := by
  simp only [Need, rank] at hn
  simp only [delta] at hd
  have := exN_le st
  unfold bLocalName
  wq
  spec_close

theorem spec_name (hrec : RecOK rec B) (hfx : e.fx = Fixes.all) (hl : st.len ≤ e.n) (hp : st.pos ≤ e.n)
    (hs : Stop e st.len) (hn : Need .name e st (B + 1)) (hd : delta .name ≤ st.pos) :
    Tri e st (bName rec) (Post .name e st) := by
  simp only [Need, rank] at hn
  simp only [delta] at hd
  have := exN_le st
  unfold bName
  wq
  spec_close

theorem spec_encLoop (hrec : RecOK rec B) (hfx : e.fx = Fixes.all) (hl : st.len ≤ e.n) (hp : st.pos ≤ e.n)
    (hs : Stop e st.len) (hn : Need .encLoop e st (B + 1)) (hd : delta .encLoop ≤ st.pos) :
    Tri e st (bEncLoop rec) (Post .encLoop e st) := by
  simp only [Need, rank] at hn
  simp only [delta] at hd
  have := exN_le st
  unfold bEncLoop
  wq
  spec_close

theorem spec_nestedLoop (hrec : RecOK rec B) (hfx : e.fx = Fixes.all) (hl : st.len ≤ e.n) (hp : st.pos ≤ e.n)
    (hs : Stop e st.len) (hn : Need .nestedLoop e st (B + 1)) (hd : delta .nestedLoop ≤ st.pos) :
    Tri e st (bNestedLoop rec) (Post .nestedLoop e st) := by
  simp only [Need, rank] at hn
  simp only [delta] at hd
  have := exN_le st
  unfold bNestedLoop
  wq
  spec_close


/-- summary of a helper piece of a grammar function (relative to its own entry state) -/
def PostG (d : Nat) (pr : Bool) (e : Env) (st : St) (r : Int) (st' : St) : Prop :=
  st'.len ≤ e.n ∧ st'.pos ≤ e.n ∧ Stop e st'.len ∧ st'.len ≤ st.len ∧ exN st ≤ exN st' ∧
  st.pos ≤ st'.pos + d * exN st' ∧ (pr = true → 0 ≤ r → st.pos < st'.pos)

macro "post_close" : tactic => `(tactic|
  all_goals (simp only [Post, PostG, delta, Prog, Extra, Nat.zero_mul, Nat.one_mul, Nat.add_zero, or_true, true_or,
               implies_true, forall_const, Bool.false_eq_true, false_implies, true_implies];
             refine ⟨?_, ?_, ?_, ?_, ?_, ?_, ?_⟩ <;> first | assumption | trivial | fin))

theorem spec_unresSrTail (hrec : RecOK rec B) (hfx : e.fx = Fixes.all) (hl : st.len ≤ e.n) (hp : st.pos ≤ e.n)
    (hs : Stop e st.len) (hn : 8 * e.n + 3 ≤ B + 8 * st.pos) (hd : 1 ≤ st.pos) :
    Tri e st (bUnresSrTail rec) (PostG 1 false e st) := by
  have := exN_le st
  unfold bUnresSrTail
  wq
  post_close

attribute [local irreducible] bUnresSrTail

macro "use_helper " t:term : tactic => `(tactic|
  (apply tri_use ($t)
   intro r st' hpost
   simp only [PostG, Post, delta, Prog, Extra, Nat.zero_mul, Nat.one_mul, Nat.add_zero, forall_const, Bool.false_eq_true,
     false_implies, true_implies] at hpost
   obtain ⟨_, _, _, _, _, _, _⟩ := hpost
   have := exN_le st'))

macro_rules | `(tactic| wq_helper) => `(tactic| first | use_helper (spec_unresSrTail (by assumption) (by assumption)
    (by assumption) (by assumption) (by assumption) (by omega) (by omega)) | fail)

theorem spec_unresAfterGs (hrec : RecOK rec B) (hfx : e.fx = Fixes.all) (hl : st.len ≤ e.n) (hp : st.pos ≤ e.n)
    (hs : Stop e st.len) (hn : 8 * e.n + 4 ≤ B + 1 + 8 * st.pos) (hd : 1 ≤ st.pos) (c0 c1 : UInt8)
    (h1 : c1.toNat = 0 ∨ (st.pos + 1 ≤ st.len ∧ (c1.toNat = 46 ∨ c1.toNat = 64)) ∨ st.pos + 1 < st.len) :
    Tri e st (bUnresAfterGs rec c0 c1) (PostG 1 true e st) := by
  have := exN_le st
  unfold bUnresAfterGs
  wq
  post_close

attribute [local irreducible] bUnresAfterGs

macro_rules | `(tactic| wq_helper) => `(tactic| first | use_helper (spec_unresAfterGs (by assumption) (by assumption)
    (by assumption) (by assumption) (by assumption) (by omega) (by omega) _ _ (by assumption)) | fail)

theorem spec_unresolvedName (hrec : RecOK rec B) (hfx : e.fx = Fixes.all) (hl : st.len ≤ e.n) (hp : st.pos ≤ e.n)
    (hs : Stop e st.len) (hn : Need .unresolvedName e st (B + 1)) (hd : delta .unresolvedName ≤ st.pos) :
    Tri e st (bUnresolvedName rec) (Post .unresolvedName e st) := by
  simp only [Need, rank] at hn
  simp only [delta] at hd
  have := exN_le st
  unfold bUnresolvedName
  wq
  spec_close

theorem spec_typeT (hrec : RecOK rec B) (hfx : e.fx = Fixes.all) (hl : st.len ≤ e.n) (hp : st.pos ≤ e.n)
    (hs : Stop e st.len) (hn : 8 * e.n + 5 ≤ B + 1 + 8 * st.pos) (hlt : st.pos < st.len) (ret : Int) :
    Tri e st (bTypeT rec ret) (Post (.typeLoop ret) e st) := by
  have := exN_le st
  unfold bTypeT
  wq
  spec_close

attribute [local irreducible] bTypeT

theorem spec_typeD (hrec : RecOK rec B) (hfx : e.fx = Fixes.all) (hl : st.len ≤ e.n) (hp : st.pos ≤ e.n)
    (hs : Stop e st.len) (hn : 8 * e.n + 5 ≤ B + 1 + 8 * st.pos) (hlt : st.pos < st.len) (ret : Int)
    (c0 : UInt8) (h0 : st.pos ≤ st.len → e.rd st.pos = some c0) (hc0 : c0.toNat = 68 % 2 ^ 8) :
    Tri e st (bTypeD rec ret) (Post (.typeLoop ret) e st) := by
  have := exN_le st
  unfold bTypeD
  wq
  spec_close

attribute [local irreducible] bTypeD

theorem spec_typeS (hrec : RecOK rec B) (hfx : e.fx = Fixes.all) (hl : st.len ≤ e.n) (hp : st.pos ≤ e.n)
    (hs : Stop e st.len) (hn : 8 * e.n + 5 ≤ B + 1 + 8 * st.pos) (hlt : st.pos < st.len) (ret : Int) :
    Tri e st (bTypeS rec) (Post (.typeLoop ret) e st) := by
  have := exN_le st
  unfold bTypeS
  wq
  spec_close

attribute [local irreducible] bTypeS

theorem spec_typeU (hrec : RecOK rec B) (hfx : e.fx = Fixes.all) (hl : st.len ≤ e.n) (hp : st.pos ≤ e.n)
    (hs : Stop e st.len) (hn : 8 * e.n + 5 ≤ B + 1 + 8 * st.pos) (hlt : st.pos < st.len) (ret : Int) :
    Tri e st (bTypeU rec) (Post (.typeLoop ret) e st) := by
  have := exN_le st
  unfold bTypeU
  wq
  spec_close

attribute [local irreducible] bTypeU

macro_rules | `(tactic| wq_helper) => `(tactic| first | (exact spec_typeT (by assumption) (by assumption) (by assumption) (by assumption) (by assumption) (by omega) (by omega) _) | fail)
macro_rules | `(tactic| wq_helper) => `(tactic| first | (exact spec_typeS (by assumption) (by assumption) (by assumption) (by assumption) (by assumption) (by omega) (by omega) _) | fail)
macro_rules | `(tactic| wq_helper) => `(tactic| first | (exact spec_typeU (by assumption) (by assumption) (by assumption) (by assumption) (by assumption) (by omega) (by omega) _) | fail)
macro_rules | `(tactic| wq_helper) => `(tactic| first | (exact spec_typeD (by assumption) (by assumption) (by assumption) (by assumption) (by assumption) (by omega) (by omega) _ _ (by assumption) (by assumption)) | fail)



theorem spec_typeLoop (ret : Int) (hrec : RecOK rec B) (hfx : e.fx = Fixes.all) (hl : st.len ≤ e.n) (hp : st.pos ≤ e.n)
    (hs : Stop e st.len) (hn : Need (.typeLoop ret) e st (B + 1)) (hd : delta (.typeLoop ret) ≤ st.pos) :
    Tri e st (bTypeLoop rec ret) (Post (.typeLoop ret) e st) := by
  simp only [Need, rank] at hn
  simp only [delta] at hd
  have := exN_le st
  unfold bTypeLoop
  wq
  spec_close

theorem tri_crash_absurd {α} {e : Env} {st : St} {k : Crash} {Q : α → St → Prop} (h : False) : Tri e st (crash k) Q :=
  h.elim

/-- F10b repaired: for a char of `T_type` the name index is in range -/
theorem tTypeName_absurd {c1 : UInt8}
    (h : ¬c1.toNat = 0 % 2 ^ 8 ∧ (c1.toNat = 86 % 2 ^ 8 ∨ c1.toNat = 84 % 2 ^ 8 ∨ c1.toNat = 73 % 2 ^ 8 ∨
      c1.toNat = 83 % 2 ^ 8 ∨ c1.toNat = 70 % 2 ^ 8 ∨ c1.toNat = 74 % 2 ^ 8))
    (heq : tTypeName[(List.findIdx? (fun x => x == c1) tType).getD tType.length]? = none) : False := by
  obtain ⟨_, h⟩ := h
  rcases h with h | h | h | h | h | h
  · have := toNat_eq_lit (n := 86) h (by omega); subst this; revert heq; decide
  · have := toNat_eq_lit (n := 84) h (by omega); subst this; revert heq; decide
  · have := toNat_eq_lit (n := 73) h (by omega); subst this; revert heq; decide
  · have := toNat_eq_lit (n := 83) h (by omega); subst this; revert heq; decide
  · have := toNat_eq_lit (n := 70) h (by omega); subst this; revert heq; decide
  · have := toNat_eq_lit (n := 74) h (by omega); subst this; revert heq; decide

macro_rules | `(tactic| wq_helper) => `(tactic| first | (apply tri_crash_absurd; exact tTypeName_absurd (by assumption) (by assumption)) | fail)

theorem spec_specialT (hrec : RecOK rec B) (hfx : e.fx = Fixes.all) (hl : st.len ≤ e.n) (hp : st.pos ≤ e.n)
    (hs : Stop e st.len) (hn : 8 * e.n + 2 ≤ B + 1 + 8 * st.pos) (hlt : st.pos < st.len) (c1 : UInt8)
    (h1 : c1.toNat = 0 ∨ (st.pos + 1 ≤ st.len ∧ (c1.toNat = 46 ∨ c1.toNat = 64)) ∨ st.pos + 1 < st.len) :
    Tri e st (bSpecialT rec c1) (Post .specialName e st) := by
  have := exN_le st
  unfold bSpecialT
  wq
  spec_close

attribute [local irreducible] bSpecialT

theorem spec_specialG (hrec : RecOK rec B) (hfx : e.fx = Fixes.all) (hl : st.len ≤ e.n) (hp : st.pos ≤ e.n)
    (hs : Stop e st.len) (hn : 8 * e.n + 2 ≤ B + 1 + 8 * st.pos) (hlt : st.pos < st.len) (c1 : UInt8)
    (h1 : c1.toNat = 0 ∨ (st.pos + 1 ≤ st.len ∧ (c1.toNat = 46 ∨ c1.toNat = 64)) ∨ st.pos + 1 < st.len) :
    Tri e st (bSpecialG rec c1) (Post .specialName e st) := by
  have := exN_le st
  unfold bSpecialG
  wq
  spec_close

attribute [local irreducible] bSpecialG

macro_rules | `(tactic| wq_helper) => `(tactic| first | (exact spec_specialT (by assumption) (by assumption) (by assumption) (by assumption) (by assumption) (by omega) (by omega) _ (by assumption)) | fail)
macro_rules | `(tactic| wq_helper) => `(tactic| first | (exact spec_specialG (by assumption) (by assumption) (by assumption) (by assumption) (by assumption) (by omega) (by omega) _ (by assumption)) | fail)

theorem spec_specialName (hrec : RecOK rec B) (hfx : e.fx = Fixes.all) (hl : st.len ≤ e.n) (hp : st.pos ≤ e.n)
    (hs : Stop e st.len) (hn : Need .specialName e st (B + 1)) (hd : delta .specialName ≤ st.pos) :
    Tri e st (bSpecialName rec) (Post .specialName e st) := by
  simp only [Need, rank] at hn
  simp only [delta] at hd
  have := exN_le st
  unfold bSpecialName
  wq
  spec_close

theorem spec_vectorType (hrec : RecOK rec B) (hfx : e.fx = Fixes.all) (hl : st.len ≤ e.n) (hp : st.pos ≤ e.n)
    (hs : Stop e st.len) (hn : Need .vectorType e st (B + 1)) (hd : delta .vectorType ≤ st.pos) :
    Tri e st (bVectorType rec) (Post .vectorType e st) := by
  simp only [Need, rank] at hn
  simp only [delta] at hd
  have := exN_le st
  unfold bVectorType
  wq
  all_goals (simp only [Post, delta, Prog, Extra, Nat.zero_mul, Nat.one_mul, Nat.add_zero]
             refine ⟨?_, ?_, ?_, ?_, ?_, ?_, ?_, ?_⟩ <;>
               first | assumption | trivial | fin | (intro h1 h2 h3; simp_all; subst_vars; simp at *))

theorem spec_ftLoop (c : UInt8) (hrec : RecOK rec B) (hfx : e.fx = Fixes.all) (hl : st.len ≤ e.n) (hp : st.pos ≤ e.n)
    (hs : Stop e st.len) (hn : Need (.ftLoop c) e st (B + 1)) (hd : delta (.ftLoop c) ≤ st.pos) :
    Tri e st (bFtLoop rec c) (Post (.ftLoop c) e st) := by
  simp only [Need, rank] at hn
  simp only [delta] at hd
  have := exN_le st
  unfold bFtLoop
  wq
  spec_close

theorem spec_ctorDtorName (hrec : RecOK rec B) (hfx : e.fx = Fixes.all) (hl : st.len ≤ e.n) (hp : st.pos ≤ e.n)
    (hs : Stop e st.len) (hn : Need .ctorDtorName e st (B + 1)) (hd : delta .ctorDtorName ≤ st.pos) :
    Tri e st (bCtorDtorName rec) (Post .ctorDtorName e st) := by
  simp only [Need, rank] at hn
  simp only [delta] at hd
  have := exN_le st
  unfold bCtorDtorName
  wq
  spec_close

theorem spec_unqualifiedName (hrec : RecOK rec B) (hfx : e.fx = Fixes.all) (hl : st.len ≤ e.n) (hp : st.pos ≤ e.n)
    (hs : Stop e st.len) (hn : Need .unqualifiedName e st (B + 1)) (hd : delta .unqualifiedName ≤ st.pos) :
    Tri e st (bUnqualifiedName rec) (Post .unqualifiedName e st) := by
  simp only [Need, rank] at hn
  simp only [delta] at hd
  have := exN_le st
  unfold bUnqualifiedName
  wq
  spec_close

theorem spec_encoding (hrec : RecOK rec B) (hfx : e.fx = Fixes.all) (hl : st.len ≤ e.n) (hp : st.pos ≤ e.n)
    (hs : Stop e st.len) (hn : Need .encoding e st (B + 1)) (hd : delta .encoding ≤ st.pos) :
    Tri e st (bEncoding rec) (Post .encoding e st) := by
  simp only [Need, rank] at hn
  simp only [delta] at hd
  have := exN_le st
  unfold bEncoding
  wq
  spec_close

theorem spec_exprC (hrec : RecOK rec B) (hfx : e.fx = Fixes.all) (hl : st.len ≤ e.n) (hp : st.pos ≤ e.n)
    (hs : Stop e st.len) (hn : 8 * e.n + 5 ≤ B + 1 + 8 * st.pos) (hd : 1 ≤ st.pos) (c0 c1 : UInt8)
    (h1 : c1.toNat = 0 ∨ (st.pos + 1 ≤ st.len ∧ (c1.toNat = 46 ∨ c1.toNat = 64)) ∨ st.pos + 1 < st.len) :
    Tri e st (bExprC rec c0 c1) (PostG 1 true e st) := by
  have := exN_le st
  unfold bExprC
  wq
  post_close

attribute [local irreducible] bExprC

macro_rules | `(tactic| wq_helper) => `(tactic| first | use_helper (spec_exprC (by assumption) (by assumption) (by assumption) (by assumption) (by assumption) (by omega) (by omega) _ _ (by assumption)) | fail)

theorem spec_exprB (hrec : RecOK rec B) (hfx : e.fx = Fixes.all) (hl : st.len ≤ e.n) (hp : st.pos ≤ e.n)
    (hs : Stop e st.len) (hn : 8 * e.n + 5 ≤ B + 1 + 8 * st.pos) (hd : 1 ≤ st.pos) (c0 c1 : UInt8)
    (h1 : c1.toNat = 0 ∨ (st.pos + 1 ≤ st.len ∧ (c1.toNat = 46 ∨ c1.toNat = 64)) ∨ st.pos + 1 < st.len) :
    Tri e st (bExprB rec c0 c1) (PostG 1 true e st) := by
  have := exN_le st
  unfold bExprB
  wq
  post_close

attribute [local irreducible] bExprB

macro_rules | `(tactic| wq_helper) => `(tactic| first | use_helper (spec_exprB (by assumption) (by assumption) (by assumption) (by assumption) (by assumption) (by omega) (by omega) _ _ (by assumption)) | fail)

macro "unary_step" : tactic => `(tactic|
  (refine s_findUnary _ (by assumption) (by assumption) (by assumption) ?hple ?hexp ?hN ?hS
   case hple => omega
   case hexp => assumption
   case' hN => skip
   case' hS => intros))
macro_rules | `(tactic| wq_helper) => `(tactic| first | unary_step | fail)

theorem spec_exprA (hrec : RecOK rec B) (hfx : e.fx = Fixes.all) (hl : st.len ≤ e.n) (hp : st.pos ≤ e.n)
    (hs : Stop e st.len) (hn : 8 * e.n + 5 ≤ B + 1 + 8 * st.pos) (hd : 1 ≤ st.pos) (exp : Nat) (c0 c1 : UInt8)
    (hple : st.pos ≤ st.len)
    (hexp : exp = st.pos ∨ (exp + 2 = st.pos ∧ e.rd exp = some 103))
    (h1 : c1.toNat = 0 ∨ (st.pos + 1 ≤ st.len ∧ (c1.toNat = 46 ∨ c1.toNat = 64)) ∨ st.pos + 1 < st.len) :
    Tri e st (bExprA rec exp c0 c1) (PostG 1 true e st) := by
  have := exN_le st
  unfold bExprA
  wq
  post_close

attribute [local irreducible] bExprA

theorem gs_fact {e : Env} {st : St} (c : UInt8) (h : st.pos + 0 ≤ st.len → e.rd (st.pos + 0) = some c)
    (hc : c.toNat = 103) (hle : st.pos ≤ st.len) : e.rd st.pos = some 103 := by
  have := toNat_eq_lit (n := 103) hc (by omega)
  subst this
  exact h (by omega)

macro_rules | `(tactic| wq_helper) => `(tactic| first | use_helper (spec_exprA (by assumption) (by assumption) (by assumption) (by assumption) (by assumption) (by omega) (by omega) _ _ _ (by omega) (by first | (left; omega) | (right; exact ⟨by omega, gs_fact _ (by assumption) (by omega) (by omega)⟩)) (by assumption)) | fail)

theorem spec_expression (hrec : RecOK rec B) (hfx : e.fx = Fixes.all) (hl : st.len ≤ e.n) (hp : st.pos ≤ e.n)
    (hs : Stop e st.len) (hn : Need .expression e st (B + 1)) (hd : delta .expression ≤ st.pos) :
    Tri e st (bExpression rec) (Post .expression e st) := by
  simp only [Need, rank] at hn
  simp only [delta] at hd
  have := exN_le st
  unfold bExpression
  wq
  spec_close


/-- every grammar function body satisfies its summary if the recursive calls do (with one unit less fuel) -/
theorem body_spec (hrec : RecOK rec B) (f : Fn) (hfx : e.fx = Fixes.all) (hl : st.len ≤ e.n) (hp : st.pos ≤ e.n)
    (hs : Stop e st.len) (hn : Need f e st (B + 1)) (hd : delta f ≤ st.pos) :
    Tri e st (body rec f) (Post f e st) := by
  cases f with
  | encoding => exact spec_encoding hrec hfx hl hp hs hn hd
  | encLoop => exact spec_encLoop hrec hfx hl hp hs hn hd
  | name => exact spec_name hrec hfx hl hp hs hn hd
  | localName => exact spec_localName hrec hfx hl hp hs hn hd
  | nestedName => exact spec_nestedName hrec hfx hl hp hs hn hd
  | nestedLoop => exact spec_nestedLoop hrec hfx hl hp hs hn hd
  | unqualifiedName => exact spec_unqualifiedName hrec hfx hl hp hs hn hd
  | ulLoop => exact spec_ulLoop hrec hfx hl hp hs hn hd
  | operatorName => exact spec_operatorName hrec hfx hl hp hs hn hd
  | ctorDtorName => exact spec_ctorDtorName hrec hfx hl hp hs hn hd
  | type => exact spec_type hrec hfx hl hp hs hn hd
  | typeLoop ret => exact spec_typeLoop ret hrec hfx hl hp hs hn hd
  | functionType => exact spec_functionType hrec hfx hl hp hs hn hd
  | ftLoop c => exact spec_ftLoop c hrec hfx hl hp hs hn hd
  | arrayType => exact spec_arrayType hrec hfx hl hp hs hn hd
  | ptrToMember => exact spec_ptrToMember hrec hfx hl hp hs hn hd
  | decltype => exact spec_decltype hrec hfx hl hp hs hn hd
  | vectorType => exact spec_vectorType hrec hfx hl hp hs hn hd
  | templateArgs => exact spec_templateArgs hrec hfx hl hp hs hn hd
  | argLoop => exact spec_argLoop hrec hfx hl hp hs hn hd
  | templateArg => exact spec_templateArg hrec hfx hl hp hs hn hd
  | expression => exact spec_expression hrec hfx hl hp hs hn hd
  | exprPrimary => exact spec_exprPrimary hrec hfx hl hp hs hn hd
  | exprList => exact spec_exprList hrec hfx hl hp hs hn hd
  | exprListLoop => exact spec_exprListLoop hrec hfx hl hp hs hn hd
  | initializer => exact spec_initializer hrec hfx hl hp hs hn hd
  | exprLoop => exact spec_exprLoop hrec hfx hl hp hs hn hd
  | unresolvedName => exact spec_unresolvedName hrec hfx hl hp hs hn hd
  | unresLoop => exact spec_unresLoop hrec hfx hl hp hs hn hd
  | baseUnresolvedName => exact spec_baseUnresolvedName hrec hfx hl hp hs hn hd
  | destructorName => exact spec_destructorName hrec hfx hl hp hs hn hd
  | unresolvedType => exact spec_unresolvedType hrec hfx hl hp hs hn hd
  | simpleId => exact spec_simpleId hrec hfx hl hp hs hn hd
  | specialName => exact spec_specialName hrec hfx hl hp hs hn hd

end specs

/-- **Main lemma**: with fuel `n`, every grammar function whose budget fits (`Need f e st n`) returns normally
    and satisfies its summary `Post` — no crash, no out-of-fuel. -/
theorem run_spec : ∀ n, RecOK (run n) n
  | 0 => by
    intro g e st _ _ hp _ hn _
    exfalso
    simp only [Need] at hn
    omega
  | n + 1 => by
    intro g e st hfx hl hp hs hn hd
    exact body_spec (run_spec n) g hfx hl hp hs hn hd

end Uft.Demangle
