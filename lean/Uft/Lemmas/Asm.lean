import Uft.Model.Asm
/- read-over-write lemmas and call splitting for the stub proofs (Props/C01) -/
namespace Uft.Asm

@[simp] theorem gpr_setR (m : M) (r x : Reg) (v : Nat) :
    (setR m r v).gpr x = if x = r then v else m.gpr x := rfl
@[simp] theorem gpr_setM (m : M) (a v : Nat) (x : Reg) : (setM m a v).gpr x = m.gpr x := rfl
@[simp] theorem gpr_setX (m : M) (i lo hi : Nat) (x : Reg) : (setX m i lo hi).gpr x = m.gpr x := rfl
@[simp] theorem mem_setR (m : M) (r : Reg) (v a : Nat) : (setR m r v).mem a = m.mem a := rfl
@[simp] theorem mem_setX (m : M) (i lo hi a : Nat) : (setX m i lo hi).mem a = m.mem a := rfl
theorem mem_setM_eq (m : M) (a b v : Nat) (h : b = a) : (setM m a v).mem b = v := by simp [setM, h]
theorem mem_setM_ne (m : M) (a b v : Nat) (h : b ≠ a) : (setM m a v).mem b = m.mem b := by simp [setM, h]
@[simp] theorem xlo_setR (m : M) (r : Reg) (v i : Nat) : (setR m r v).xlo i = m.xlo i := rfl
@[simp] theorem xhi_setR (m : M) (r : Reg) (v i : Nat) : (setR m r v).xhi i = m.xhi i := rfl
@[simp] theorem xlo_setM (m : M) (a v i : Nat) : (setM m a v).xlo i = m.xlo i := rfl
@[simp] theorem xhi_setM (m : M) (a v i : Nat) : (setM m a v).xhi i = m.xhi i := rfl
@[simp] theorem xlo_setX (m : M) (i lo hi j : Nat) : (setX m i lo hi).xlo j = if j = i then lo else m.xlo j := rfl
@[simp] theorem xhi_setX (m : M) (i lo hi j : Nat) : (setX m i lo hi).xhi j = if j = i then hi else m.xhi j := rfl
@[simp] theorem rip_setR (m : M) (r : Reg) (v : Nat) : (setR m r v).rip = m.rip := rfl
@[simp] theorem rip_setM (m : M) (a v : Nat) : (setM m a v).rip = m.rip := rfl
@[simp] theorem rip_setX (m : M) (i lo hi : Nat) : (setX m i lo hi).rip = m.rip := rfl

theorem align16_bounds (x : Nat) : align16 x ≤ x ∧ x < align16 x + 16 := by
  unfold align16; omega

theorem exec_append (env : Env) (a b : List Instr) (m : M) :
    exec env (a ++ b) m = exec env b (exec env a m) := by
  simp [exec, List.foldl_append]

theorem exec_cons (env : Env) (i : Instr) (l : List Instr) (m : M) :
    exec env (i :: l) m = exec env l (step env m i) := rfl

@[simp] theorem exec_nil (env : Env) (m : M) : exec env [] m = m := rfl

end Uft.Asm
