import Uft.Model.Symtab
/- Helper lemmas for C10: the midpoint loop finds a containing symbol in a well-formed table. -/
namespace Uft.Symtab

theorem addrfind_zero_iff (a : Nat) (s : Sym) : addrfind a s = 0 ↔ s.contains a := by
  unfold addrfind Sym.contains
  split
  · simp_all
  · split <;> simp_all

theorem addrfind_neg_iff (a : Nat) (s : Sym) : addrfind a s < 0 ↔ a < s.addr := by
  unfold addrfind
  split
  · rename_i h; constructor
    · intro h'; simp at h'
    · intro h'; omega
  · split
    · rename_i h1 h2; simp; omega
    · rename_i h1 h2; simp; omega

theorem addrfind_pos_iff (a : Nat) (s : Sym) : addrfind a s > 0 ↔ s.addr ≤ a ∧ s.stop ≤ a := by
  unfold addrfind
  split
  · rename_i h; constructor
    · intro h'; simp at h'
    · intro h'; omega
  · split
    · rename_i h1 h2; simp; omega
    · rename_i h1 h2; simp; omega

/-- Soundness of the loop for any comparator and any table: what it returns is an
    element on which the comparator says "equal". -/
theorem bsearchLoop_some {α : Type} (cmp : α → Int) (t : List α) :
    ∀ (fuel l u : Nat) (p : α), bsearchLoop cmp t fuel l u = some p → p ∈ t ∧ cmp p = 0 := by
  intro fuel
  induction fuel with
  | zero => intro l u p h; simp [bsearchLoop] at h
  | succ n ih =>
    intro l u p h
    simp only [bsearchLoop] at h
    split at h
    · split at h
      · simp at h
      · rename_i q hq
        split at h
        · exact ih _ _ _ h
        · split at h
          · exact ih _ _ _ h
          · simp only [Option.some.injEq] at h
            subst h
            exact ⟨List.mem_of_getElem? hq, by omega⟩
    · simp at h

theorem bsearch_some {α : Type} (cmp : α → Int) (t : List α) (p : α)
    (h : bsearch cmp t = some p) : p ∈ t ∧ cmp p = 0 :=
  bsearchLoop_some cmp t _ _ _ p h

/-- Completeness on a well-formed table: if every containing entry has its index in
    `[l, u)`, the loop returns `none` only when no entry contains `a`. -/
theorem bsearchLoop_none (t : List Sym) (hwf : WellFormed t) (a : Nat) :
    ∀ (fuel l u : Nat), u ≤ t.length → u - l ≤ fuel →
      (∀ (i : Nat) (s : Sym), t[i]? = some s → s.contains a → l ≤ i ∧ i < u) →
      bsearchLoop (addrfind a) t fuel l u = none → ∀ s ∈ t, ¬ s.contains a := by
  intro fuel
  induction fuel with
  | zero =>
    intro l u _ hf hinv _ s hs hc
    obtain ⟨i, hi⟩ := List.mem_iff_getElem?.mp hs
    have := hinv i s hi hc
    omega
  | succ n ih =>
    intro l u hu hf hinv h s hs hc
    simp only [bsearchLoop] at h
    split at h
    · rename_i hlu
      have hidx : (l + u) / 2 < t.length := by omega
      split at h
      · rename_i hnone
        rw [List.getElem?_eq_none_iff] at hnone
        omega
      · rename_i q hq
        have hqi : t[(l + u) / 2] = q := by
          have := List.getElem?_eq_some_iff.mp hq
          obtain ⟨_, h2⟩ := this
          exact h2
        have hpw := List.pairwise_iff_getElem.mp hwf
        split at h
        · -- cmp < 0 : a < q.addr, everything from idx on starts after a
          rename_i hneg
          have hlt : a < q.addr := (addrfind_neg_iff a q).mp hneg
          refine ih l ((l + u) / 2) (by omega) (by omega) ?_ h s hs hc
          intro i s' hi' hc'
          have hb := hinv i s' hi' hc'
          refine ⟨hb.1, ?_⟩
          obtain ⟨hil, hie⟩ := List.getElem?_eq_some_iff.mp hi'
          by_cases hge : i < (l + u) / 2
          · exact hge
          · exfalso
            by_cases heq : i = (l + u) / 2
            · subst heq
              rw [hqi] at hie; subst hie
              unfold Sym.contains at hc'; omega
            · have hc2 := hpw ((l + u) / 2) i hidx hil (by omega)
              rw [hqi, hie] at hc2
              unfold Compat at hc2
              unfold Sym.contains at hc'; omega
        · split at h
          · -- cmp > 0 : q starts at or before a and ends at or before a
            rename_i _ hpos
            have hge := (addrfind_pos_iff a q).mp hpos
            refine ih ((l + u) / 2 + 1) u hu (by omega) ?_ h s hs hc
            intro i s' hi' hc'
            have hb := hinv i s' hi' hc'
            refine ⟨?_, hb.2⟩
            obtain ⟨hil, hie⟩ := List.getElem?_eq_some_iff.mp hi'
            by_cases hgt : (l + u) / 2 < i
            · omega
            · exfalso
              by_cases heq : i = (l + u) / 2
              · subst heq
                rw [hqi] at hie; subst hie
                unfold Sym.contains at hc'; omega
              · have hc2 := hpw i ((l + u) / 2) hil hidx (by omega)
                rw [hqi, hie] at hc2
                unfold Compat at hc2
                unfold Sym.contains at hc'
                omega
          · simp at h
    · rename_i hlu
      obtain ⟨i, hi⟩ := List.mem_iff_getElem?.mp hs
      have := hinv i s hi hc
      omega

theorem bsearch_none (t : List Sym) (hwf : WellFormed t) (a : Nat)
    (h : bsearch (addrfind a) t = none) : ∀ s ∈ t, ¬ s.contains a := by
  refine bsearchLoop_none t hwf a t.length 0 t.length (Nat.le_refl _) (by omega) ?_ h
  intro i s hi _
  obtain ⟨hil, _⟩ := List.getElem?_eq_some_iff.mp hi
  omega

/-- In a well-formed table all entries containing `a` cover the same range. -/
theorem wf_same_range (t : List Sym) (hwf : WellFormed t) (a : Nat) (s₁ s₂ : Sym)
    (h₁ : s₁ ∈ t) (h₂ : s₂ ∈ t) (c₁ : s₁.contains a) (c₂ : s₂.contains a) :
    s₁.addr = s₂.addr ∧ s₁.stop = s₂.stop := by
  obtain ⟨i, hi, ei⟩ := List.mem_iff_getElem.mp h₁
  obtain ⟨j, hj, ej⟩ := List.mem_iff_getElem.mp h₂
  have hpw := List.pairwise_iff_getElem.mp hwf
  unfold Sym.contains at c₁ c₂
  by_cases hij : i < j
  · have := hpw i j hi hj hij
    rw [ei, ej] at this
    unfold Compat at this; omega
  · by_cases hji : j < i
    · have := hpw j i hj hi hji
      rw [ei, ej] at this
      unfold Compat at this; omega
    · have : i = j := by omega
      subst this
      rw [ei] at ej; subst ej; exact ⟨rfl, rfl⟩

/-- any two entries of a well-formed table are equal or related by `Compat` one way round -/
theorem wf_pair (t : List Sym) (hwf : WellFormed t) (x y : Sym) (hx : x ∈ t) (hy : y ∈ t) :
    x = y ∨ Compat x y ∨ Compat y x := by
  obtain ⟨i, hi, ei⟩ := List.mem_iff_getElem.mp hx
  obtain ⟨j, hj, ej⟩ := List.mem_iff_getElem.mp hy
  have hpw := List.pairwise_iff_getElem.mp hwf
  by_cases hij : i < j
  · have := hpw i j hi hj hij
    rw [ei, ej] at this
    exact Or.inr (Or.inl this)
  · by_cases hji : j < i
    · have := hpw j i hj hi hji
      rw [ei, ej] at this
      exact Or.inr (Or.inr this)
    · have : i = j := by omega
      subst this
      rw [ei] at ej
      exact Or.inl ej


theorem dropSymEnd_some {o : Option Sym} {s : Sym} (h : dropSymEnd o = some s) :
    o = some s ∧ isSymbolEnd s.name = false := by
  unfold dropSymEnd at h
  split at h
  · split at h
    · simp at h
    · simp only [Option.some.injEq] at h; subst h; simp_all
  · simp at h

end Uft.Symtab
