import Uft.Model.InfoFile
import Uft.Model.TaskTxt
/-
C12 — helper lemmas for the text-file parser models: with the proposed fixes no parser ever
returns `oob`, for any byte string.
-/
namespace Uft.TextScan

@[simp] theorem isOob_ok {α : Type} (a : α) : (PR.ok a).isOob = false := rfl
@[simp] theorem isOob_err {α : Type} (e : String) : (PR.err e : PR α).isOob = false := rfl
@[simp] theorem isOob_oob {α : Type} (e : String) : (PR.oob e : PR α).isOob = true := rfl

theorem bind_eq {α β : Type} (x : PR α) (f : α → PR β) : (x >>= f) = PR.bind x f := rfl

theorem pure_eq {α : Type} (a : α) : (pure a : PR α) = PR.ok a := rfl

theorem isOob_bind {α β : Type} {x : PR α} {f : α → PR β} (hx : x.isOob = false)
    (hf : ∀ a, (f a).isOob = false) : (PR.bind x f).isOob = false := by
  cases x with
  | ok a => exact hf a
  | err e => rfl
  | oob t => simp at hx

theorem dropWhile_le {α : Type} (p : α → Bool) (l : List α) : (l.dropWhile p).length ≤ l.length := by
  induction l with
  | nil => simp
  | cons a r ih =>
    simp only [List.dropWhile]
    split
    · simp; omega
    · simp

theorem takeWhile_le {α : Type} (p : α → Bool) (l : List α) : (l.takeWhile p).length ≤ l.length := by
  induction l with
  | nil => simp
  | cons a r ih =>
    simp only [List.takeWhile]
    split
    · simp; omega
    · simp

/-- a `%s` destination is large enough for whatever a string of `n` bytes can put there -/
def dirSafe (n : Nat) : Dir → Prop
  | .str cap (some w) => w + 1 ≤ cap
  | .str cap none => n + 1 ≤ cap
  | _ => True

theorem dirSafe_mono {n m : Nat} {d : Dir} (h : dirSafe n d) (hm : m ≤ n) : dirSafe m d := by
  cases d with
  | str cap w =>
    cases w with
    | none => simp only [dirSafe] at h ⊢; omega
    | some w => exact h
  | _ => trivial

theorem skipWs_le (s : Bytes) : (skipWs s).length ≤ s.length := by
  unfold skipWs
  exact dropWhile_le _ _

theorem sign_le (s : Bytes) : (sign s).2.length ≤ s.length := by
  unfold sign
  split <;> simp

theorem strip0x_le (s : Bytes) : (strip0x s).length ≤ s.length := by
  unfold strip0x
  split
  · split <;> simp
  · exact Nat.le_refl _

theorem takeWidth_le (w : Option Nat) (t : Bytes) : (takeWidth w t).length ≤ t.length := by
  cases w <;> simp [takeWidth]
  omega

theorem takeWidth_some_le (w : Nat) (t : Bytes) : (takeWidth (some w) t).length ≤ w := by
  simp [takeWidth]
  omega

theorem runFmt_safe (fmt : List Dir) (s : Bytes) (acc : List Val)
    (h : ∀ d ∈ fmt, dirSafe s.length d) : (runFmt fmt s acc).isOob = false := by
  induction fmt generalizing s acc with
  | nil => simp [runFmt]
  | cons d fmt ih =>
    have hd : dirSafe s.length d := h d (by simp)
    have hrest : ∀ (s' : Bytes), s'.length ≤ s.length → ∀ x ∈ fmt, dirSafe s'.length x :=
      fun s' hs x hx => dirSafe_mono (h x (by simp [hx])) hs
    cases d with
    | ws =>
      simp only [runFmt]
      exact ih _ _ (hrest _ (skipWs_le s))
    | lit c =>
      simp only [runFmt]
      cases s with
      | nil => rfl
      | cons x r =>
        simp only
        split
        · exact ih _ _ (hrest _ (by simp))
        · rfl
    | dec =>
      simp only [runFmt]
      split
      · rfl
      · split
        · rfl
        · apply ih
          apply hrest
          have h1 := skipWs_le s
          have h2 := sign_le (skipWs s)
          have h3 := dropWhile_le isDigit (sign (skipWs s)).2
          omega
    | hex =>
      simp only [runFmt]
      split
      · rfl
      · split
        · rfl
        · apply ih
          apply hrest
          have h1 := skipWs_le s
          have h2 := sign_le (skipWs s)
          have h3 := strip0x_le (sign (skipWs s)).2
          have h4 := dropWhile_le isHex (strip0x (sign (skipWs s)).2)
          omega
    | skipHex =>
      simp only [runFmt]
      split
      · rfl
      · split
        · rfl
        · apply ih
          apply hrest
          have h1 := skipWs_le s
          have h2 := sign_le (skipWs s)
          have h3 := strip0x_le (sign (skipWs s)).2
          have h4 := dropWhile_le isHex (strip0x (sign (skipWs s)).2)
          omega
    | skipDec =>
      simp only [runFmt]
      split
      · rfl
      · split
        · rfl
        · apply ih
          apply hrest
          have h1 := skipWs_le s
          have h2 := sign_le (skipWs s)
          have h3 := dropWhile_le isDigit (sign (skipWs s)).2
          omega
    | skipNot c =>
      simp only [runFmt]
      cases s with
      | nil => rfl
      | cons x r =>
        simp only
        split
        · rfl
        · apply ih
          apply hrest
          exact dropWhile_le _ _
    | str cap w =>
      simp only [runFmt]
      split
      · rfl
      · have h1 := skipWs_le s
        have h2 : ((skipWs s).takeWhile (fun c => !isSpace c)).length ≤ (skipWs s).length :=
          takeWhile_le _ _
        have h3 := takeWidth_le w ((skipWs s).takeWhile (fun c => !isSpace c))
        split
        · rename_i hbig
          exfalso
          cases w with
          | none => simp only [dirSafe] at hd; omega
          | some w =>
            simp only [dirSafe] at hd
            have := takeWidth_some_le w ((skipWs s).takeWhile (fun c => !isSpace c))
            omega
        · apply ih
          apply hrest
          simp
          omega

/-- `fgets(buf, cap, ..)` stores at most `cap - 1` bytes -/
theorem fgetsAux_le (n : Nat) (s : Bytes) : (fgetsAux n s).1.length ≤ n := by
  induction n generalizing s with
  | zero => simp [fgetsAux]
  | succ n ih =>
    cases s with
    | nil => simp [fgetsAux]
    | cons c r =>
      simp only [fgetsAux]
      split
      · simp
      · simp; exact ih r

theorem fgets_le {cap : Nat} {s l r : Bytes} (h : fgets cap s = some (l, r)) :
    l.length ≤ cap - 1 := by
  unfold fgets at h
  split at h
  · simp at h
  · simp only [Option.some.injEq] at h
    have := fgetsAux_le (cap - 1) s
    rw [h] at this
    exact this

theorem cstr_le (s : Bytes) : (cstr s).length ≤ s.length := takeWhile_le _ _

end Uft.TextScan

namespace Uft.TextScan

theorem isOob_bind' {α β : Type} {x : PR α} {f : α → PR β} (hx : x.isOob = false)
    (hf : ∀ a, (f a).isOob = false) : (x >>= f).isOob = false := isOob_bind hx hf

/-- the loop never returns `oob` when its body never does on the lines the source can deliver -/
theorem lineLoop_safe {σ : Type} {get : Bytes → Option (Bytes × Bytes)} {step : σ → Bytes → PR (σ × Bool)}
    (Q : Bytes → Prop) (hget : ∀ s l r, get s = some (l, r) → Q l)
    (hstep : ∀ st l, Q l → (step st l).isOob = false) (n : Nat) (s : Bytes) (st : σ) :
    (lineLoop get step n s st).isOob = false := by
  induction n generalizing s st with
  | zero => simp [lineLoop]
  | succ n ih =>
    unfold lineLoop
    cases h : get s with
    | none => rfl
    | some p =>
      obtain ⟨l, r⟩ := p
      simp only
      have := hstep st l (hget s l r h)
      cases hs : step st l with
      | ok q =>
        obtain ⟨st1, c⟩ := q
        cases c with
        | true => exact ih r st1
        | false => rfl
      | err e => rfl
      | oob t => rw [hs] at this; simp at this

/-- an invariant of the loop body is an invariant of the loop -/
theorem lineLoop_inv {σ : Type} {get : Bytes → Option (Bytes × Bytes)} {step : σ → Bytes → PR (σ × Bool)}
    (P : σ → Prop) (hstep : ∀ st l st1 c, P st → step st l = .ok (st1, c) → P st1)
    (n : Nat) (s : Bytes) (st st' : σ) (h : lineLoop get step n s st = .ok st') (hp : P st) : P st' := by
  induction n generalizing s st with
  | zero =>
    simp only [lineLoop, PR.ok.injEq] at h
    rw [← h]; exact hp
  | succ n ih =>
    unfold lineLoop at h
    cases hg : get s with
    | none =>
      rw [hg] at h
      simp only [PR.ok.injEq] at h
      rw [← h]; exact hp
    | some p =>
      obtain ⟨l, r⟩ := p
      rw [hg] at h
      simp only at h
      cases hs : step st l with
      | ok q =>
        obtain ⟨st1, c⟩ := q
        rw [hs] at h
        have hp1 := hstep st l st1 c hp hs
        cases c with
        | true => exact ih r st1 h hp1
        | false =>
          simp only [PR.ok.injEq] at h
          rw [← h]; exact hp1
      | err e => rw [hs] at h; simp at h
      | oob t => rw [hs] at h; simp at h

theorem lits_safe (n : Nat) (s : String) : ∀ d ∈ lits s, dirSafe n d := by
  intro d hd
  simp only [lits, List.mem_map] at hd
  obtain ⟨c, _, rfl⟩ := hd
  trivial

end Uft.TextScan

namespace Uft.InfoFile
open Uft.TextScan

theorem copyInfoStr_safe (s : Bytes) : (copyInfoStr true s).isOob = false := by
  unfold copyInfoStr
  split <;> simp

theorem bufLine_safe (nl : Bool) (s : Bytes) : (bufLine nl s).isOob = false := by
  unfold bufLine
  split <;> simp

theorem gLine_safe (nl : Bool) (s : Bytes) : (gLine nl s).isOob = false := by
  unfold gLine
  split <;> simp

theorem readKV_safe (nl : Bool) (key : String) (i : Info) (s : Bytes) : (readKV true nl key i s).isOob = false := by
  unfold readKV
  apply isOob_bind' (bufLine_safe nl s)
  intro ⟨l, r⟩
  simp only
  split
  · rfl
  · apply isOob_bind' (copyInfoStr_safe _)
    intro v
    rfl

theorem scanLines_safe (max : Nat) (t : Bytes) : (scanLines max t).isOob = false := by
  unfold scanLines
  have h : (runFmt (lits "lines=" ++ [Dir.dec, Dir.ws]) t []).isOob = false := by
    apply runFmt_safe
    intro d hd
    simp only [List.mem_append, List.mem_cons, List.not_mem_nil, or_false] at hd
    rcases hd with hd | rfl | rfl
    · exact lits_safe _ _ d hd
    · trivial
    · trivial
  cases hr : runFmt (lits "lines=" ++ [Dir.dec, Dir.ws]) t [] with
  | ok x =>
    simp only
    split
    · rfl
    · split
      · split <;> rfl
      · rfl
  | err e => rfl
  | oob tg => rw [hr] at h; simp at h

theorem sectionLoop_safe (nl : Bool) (pre : String) (keys : List String) (n : Nat) (i : Info) (s : Bytes) :
    (sectionLoop true nl pre keys n i s).isOob = false := by
  induction n generalizing i s with
  | zero => simp [sectionLoop]
  | succ n ih =>
    unfold sectionLoop
    apply isOob_bind' (bufLine_safe nl s)
    intro ⟨l, r⟩
    simp only
    split
    · rfl
    · split
      · apply isOob_bind' (copyInfoStr_safe _)
        intro v
        exact ih _ _
      · exact ih _ _

theorem readSection_safe (nl : Bool) (pre : String) (max : Nat) (keys : List String) (i : Info) (s : Bytes) :
    (readSection true nl pre max keys i s).isOob = false := by
  unfold readSection
  apply isOob_bind' (bufLine_safe nl s)
  intro ⟨l, r⟩
  simp only
  split
  · rfl
  · apply isOob_bind' (scanLines_safe _ _)
    intro n
    exact sectionLoop_safe nl _ _ _ _ _

theorem tidsLoop_safe (cap n : Nat) (cur tstr : Bytes) (acc : List Int) :
    (tidsLoop true cap n cur tstr acc).isOob = false := by
  induction n generalizing cur tstr acc with
  | zero => simp [tidsLoop]
  | succ n ih =>
    unfold tidsLoop
    split
    · rfl
    · simp only
      split
      · simp
      · split
        · split
          · exact ih _ _ _
          · rfl
        · rfl

theorem taskLoop_safe (nl : Bool) (n : Nat) (i : Info) (s : Bytes) : (taskLoop true nl n i s).isOob = false := by
  induction n generalizing i s with
  | zero => simp [taskLoop]
  | succ n ih =>
    unfold taskLoop
    apply isOob_bind' (gLine_safe nl s)
    intro ⟨l, r⟩
    simp only
    split
    · rfl
    · split
      · exact ih _ _
      · split
        · split
          · rfl
          · apply isOob_bind' (tidsLoop_safe _ _ _ _ _)
            intro tids
            split
            · rfl
            · exact ih _ _
        · rfl

theorem readTaskinfo_safe (nl : Bool) (i : Info) (s : Bytes) : (readTaskinfo true nl i s).isOob = false := by
  unfold readTaskinfo
  apply isOob_bind' (gLine_safe nl s)
  intro ⟨l, r⟩
  simp only
  split
  · rfl
  · apply isOob_bind' (scanLines_safe _ _)
    intro n
    exact taskLoop_safe nl _ _ _

theorem argLoop_safe (nl : Bool) (n : Nat) (i : Info) (s : Bytes) : (argLoop true nl n i s).isOob = false := by
  induction n generalizing i s with
  | zero => simp [argLoop]
  | succ n ih =>
    unfold argLoop
    apply isOob_bind' (gLine_safe nl s)
    intro ⟨l, r⟩
    simp only
    split
    · apply isOob_bind' (copyInfoStr_safe _)
      intro v
      exact ih _ _
    · split
      · exact ih _ _
      · rfl

theorem readArgSpec_safe (nl : Bool) (i : Info) (s : Bytes) : (readArgSpec true nl i s).isOob = false := by
  unfold readArgSpec
  apply isOob_bind' (gLine_safe nl s)
  intro ⟨l, r⟩
  simp only
  split
  · rfl
  · split
    · apply isOob_bind' (copyInfoStr_safe _)
      intro v
      rfl
    · apply isOob_bind' (scanLines_safe _ _)
      intro n
      exact argLoop_safe nl _ _ _

theorem readPrefixOnly_safe (nl : Bool) (key : String) (i : Info) (s : Bytes) :
    (readPrefixOnly nl key i s).isOob = false := by
  unfold readPrefixOnly
  apply isOob_bind' (bufLine_safe nl s)
  intro ⟨l, r⟩
  simp only
  split <;> rfl

theorem readExitStatus_safe (nl : Bool) (i : Info) (s : Bytes) : (readExitStatus nl i s).isOob = false := by
  unfold readExitStatus
  apply isOob_bind' (bufLine_safe nl s)
  intro ⟨l, r⟩
  simp only
  split
  · rfl
  · split <;> rfl

theorem readRecordDate_safe (nl : Bool) (i : Info) (s : Bytes) : (readRecordDate true nl i s).isOob = false := by
  unfold readRecordDate
  apply isOob_bind' (readKV_safe nl _ _ _)
  intro ⟨i1, r1⟩
  exact readKV_safe nl _ _ _

theorem readPatternType_safe (nl : Bool) (i : Info) (s : Bytes) : (readPatternType nl i s).isOob = false := by
  unfold readPatternType
  apply isOob_bind' (bufLine_safe nl s)
  intro ⟨l, r⟩
  simp only
  split <;> rfl

theorem handler_safe (nl : Bool) (bit : Nat) (i : Info) (s : Bytes) : (handler true nl bit i s).isOob = false := by
  unfold handler
  split
  · exact readKV_safe nl _ _ _
  · rfl
  · exact readExitStatus_safe nl _ _
  · exact readKV_safe nl _ _ _
  · exact readSection_safe nl _ _ _ _ _
  · exact readKV_safe nl _ _ _
  · exact readSection_safe nl _ _ _ _ _
  · exact readTaskinfo_safe nl _ _
  · exact readSection_safe nl _ _ _ _ _
  · exact readPrefixOnly_safe nl _ _ _
  · exact readArgSpec_safe nl _ _
  · exact readRecordDate_safe nl _ _
  · exact readPatternType_safe nl _ _
  · exact readKV_safe nl _ _ _
  · exact readKV_safe nl _ _ _
  · rfl

theorem readHandlers_safe (nl : Bool) (mask : Nat) (bits : List Nat) (i : Info) (s : Bytes) :
    (readHandlers true nl mask bits i s).isOob = false := by
  induction bits generalizing i s with
  | nil => simp [readHandlers]
  | cons bit rest ih =>
    unfold readHandlers
    split
    · exact ih _ _
    · have := handler_safe nl bit i s
      cases hh : handler true nl bit i s with
      | ok p => exact ih _ _
      | err e => rfl
      | oob t => rw [hh] at this; simp at this

theorem parseInfo_safe (nl : Bool) (s : Bytes) : (parseInfo true nl s).isOob = false := by
  unfold parseInfo
  cases hp : parseHdr s with
  | ok p =>
    simp only
    have := readHandlers_safe nl p.1.infoMask (List.range 15) {} p.2
    cases hh : readHandlers true nl p.1.infoMask (List.range 15) {} p.2 with
    | ok i => rfl
    | err e => rfl
    | oob t => rw [hh] at this; simp at this
  | err e => rfl
  | oob t =>
    unfold parseHdr at hp
    split at hp
    · simp at hp
    · simp only at hp
      split at hp
      · simp at hp
      · split at hp
        · simp at hp
        · split at hp <;> simp at hp

end Uft.InfoFile

namespace Uft.TaskTxt
open Uft.TextScan

theorem fmtTs_safe (n : Nat) : ∀ d ∈ fmtTs, dirSafe n d := by
  intro d hd
  simp only [fmtTs, List.mem_append, List.mem_cons, List.not_mem_nil, or_false] at hd
  rcases hd with hd | rfl | rfl | rfl
  · exact lits_safe _ _ d hd
  all_goals trivial

theorem fmtTask_safe (n : Nat) : ∀ d ∈ fmtTask, dirSafe n d := by
  intro d hd
  simp only [fmtTask, List.mem_append, List.mem_cons, List.not_mem_nil, or_false] at hd
  rcases hd with ((((hd | rfl) | hd) | rfl | rfl) | hd) | rfl
  · exact fmtTs_safe _ d hd
  · trivial
  · exact lits_safe _ _ d hd
  · trivial
  · trivial
  · exact lits_safe _ _ d hd
  · trivial

theorem fmtFork_safe (n : Nat) : ∀ d ∈ fmtFork, dirSafe n d := by
  intro d hd
  simp only [fmtFork, List.mem_append, List.mem_cons, List.not_mem_nil, or_false] at hd
  rcases hd with ((((hd | rfl) | hd) | rfl | rfl) | hd) | rfl
  · exact fmtTs_safe _ d hd
  · trivial
  · exact lits_safe _ _ d hd
  · trivial
  · trivial
  · exact lits_safe _ _ d hd
  · trivial

theorem sidDir_safe (n : Nat) : dirSafe n (sidDir true) := by
  simp [sidDir, dirSafe]

theorem fmtSess_safe (n : Nat) : ∀ d ∈ fmtSess true, dirSafe n d := by
  intro d hd
  simp only [fmtSess, List.mem_append, List.mem_cons, List.not_mem_nil, or_false] at hd
  rcases hd with ((((hd | rfl | rfl) | hd) | rfl | rfl) | hd) | rfl
  · exact fmtTs_safe _ d hd
  · trivial
  · trivial
  · exact lits_safe _ _ d hd
  · trivial
  · trivial
  · exact lits_safe _ _ d hd
  · exact sidDir_safe n

theorem fmtDlop_safe (n : Nat) : ∀ d ∈ fmtDlop true, dirSafe n d := by
  intro d hd
  simp only [fmtDlop, List.mem_append, List.mem_cons, List.not_mem_nil, or_false] at hd
  rcases hd with ((((((hd | rfl) | hd) | rfl | rfl) | hd) | rfl | rfl) | hd) | rfl
  · exact fmtTs_safe _ d hd
  · trivial
  · exact lits_safe _ _ d hd
  · trivial
  · trivial
  · exact lits_safe _ _ d hd
  · exact sidDir_safe n
  · trivial
  · exact lits_safe _ _ d hd
  · trivial

theorem quoted_safe (key : String) (l : Bytes) : (quoted true key l).isOob = false := by
  unfold quoted
  split
  · rfl
  · split <;> simp

theorem parseLine_safe (l : Bytes) : (parseLine true l).isOob = false := by
  unfold parseLine
  simp only
  split
  · rfl
  · split
    · simp
    · split
      · have := runFmt_safe fmtTask (l.drop 5) [] (fmtTask_safe _)
        split
        · rfl
        · rfl
        · rfl
        · rename_i h; rw [h] at this; simp at this
      · split
        · have := runFmt_safe fmtFork (l.drop 5) [] (fmtFork_safe _)
          split
          · rfl
          · rfl
          · rfl
          · rename_i h; rw [h] at this; simp at this
        · split
          · have := runFmt_safe (fmtSess true) (l.drop 5) [] (fmtSess_safe _)
            split
            · have hq := quoted_safe "exename=" l
              split
              · rfl
              · rfl
              · rename_i h; rw [h] at hq; simp at hq
            · rfl
            · rfl
            · rename_i h; rw [h] at this; simp at this
          · have := runFmt_safe (fmtDlop true) (l.drop 5) [] (fmtDlop_safe _)
            split
            · have hq := quoted_safe "libname=" l
              split
              · rfl
              · rfl
              · rename_i h; rw [h] at hq; simp at hq
            · rfl
            · rfl
            · rename_i h; rw [h] at this; simp at this

theorem taskStep_safe (acc : List Item) (l : Bytes) : (taskStep true acc l).isOob = false := by
  unfold taskStep
  have := parseLine_safe (cstr l)
  split
  · rfl
  · rfl
  · rfl
  · rename_i h; rw [h] at this; simp at this

theorem parseLines_safe (nl : Bool) (n : Nat) (s : Bytes) :
    (parseLines true nl n s).isOob = false := by
  unfold parseLines
  have := lineLoop_safe (get := getLineG nl) (step := taskStep true) (fun _ => True)
    (fun _ _ _ _ => trivial) (fun st l _ => taskStep_safe st l) n s []
  split
  · rfl
  · rfl
  · rename_i h; rw [h] at this; simp at this

theorem parseTaskTxt_safe (nl : Bool) (s : Bytes) : (parseTaskTxt true nl s).isOob = false :=
  parseLines_safe _ _ _

theorem chromeHeader_safe (items : List Item) (tids : List Int) :
    (chromeHeader true items tids).isOob = false := by
  induction tids with
  | nil => simp [chromeHeader]
  | cons t r ih =>
    unfold chromeHeader
    split
    · cases h : chromeHeader true items r with
      | ok l => rfl
      | err e => rfl
      | oob x => rw [h] at ih; simp at ih
    · simp only [↓reduceIte]
      exact ih

end Uft.TaskTxt

namespace Uft.TaskTxt
open Uft.TextScan

theorem fmtMap_safe {n : Nat} (h : n ≤ 4095) : ∀ d ∈ fmtMap true, dirSafe n d := by
  intro d hd
  simp only [fmtMap, List.mem_cons, List.not_mem_nil, or_false] at hd
  rcases hd with rfl | rfl | rfl | rfl | rfl | rfl | rfl | rfl | rfl | rfl | rfl | rfl | rfl |
    rfl | rfl | rfl | rfl
  all_goals (first | trivial | (simp only [↓reduceIte, dirSafe]; omega))

theorem mapLine_safe {l : Bytes} (h : l.length ≤ 4095) (m : Maps) : (mapLine true l m).isOob = false := by
  unfold mapLine
  have := runFmt_safe (fmtMap true) l [] (fmtMap_safe h)
  split
  · split
    · split
      · split <;> rfl
      · split
        · split <;> rfl
        · rfl
    · rfl
  · rfl
  · rename_i hh; rw [hh] at this; simp at this

theorem mapStep_safe {l : Bytes} (h : l.length ≤ 4095) (m : Maps) : (mapStep true m l).isOob = false := by
  unfold mapStep
  have hl : (cstr l).length ≤ 4095 := by
    have := cstr_le l
    omega
  have := mapLine_safe hl m
  split
  · rfl
  · rfl
  · rename_i hh; rw [hh] at this; simp at this

theorem getMapLineG_le {nl : Bool} {s l r : Bytes} (h : getMapLineG nl s = some (l, r)) :
    l.length ≤ 4095 := by
  unfold getMapLineG nlGate at h
  split at h
  · rename_i l0 r0 hf
    split at h
    · simp at h
    · simp only [Option.some.injEq, Prod.mk.injEq] at h
      have := fgets_le hf
      rw [← h.1]
      omega
  · simp at h

theorem mapLines_safe (nl : Bool) (n : Nat) (s : Bytes) (m : Maps) : (mapLines true nl n s m).isOob = false :=
  lineLoop_safe (fun l => l.length ≤ 4095) (fun _ _ _ h => getMapLineG_le h)
    (fun st _ hl => mapStep_safe hl st) n s m

theorem parseMap_safe (nl : Bool) (s : Bytes) : (parseMap true nl s).isOob = false := mapLines_safe _ _ _ _

theorem hdrValue_safe (v : Bytes) : (hdrValue true v).isOob = false := by
  unfold hdrValue
  split <;> simp

theorem checkStep_safe (h : SymHdr) (l0 : Bytes) : (checkStep true h l0).isOob = false := by
  unfold checkStep
  simp only
  split
  · rfl
  · split
    · rfl
    · split
      · have := hdrValue_safe ((cstr l0).drop 13)
        split
        · rfl
        · rfl
        · rename_i hh; rw [hh] at this; simp at this
      · split
        · have := hdrValue_safe (((cstr l0).drop 12).take 40)
          split
          · rfl
          · rfl
          · rename_i hh; rw [hh] at this; simp at this
        · rfl

theorem checkLoop_safe (nl : Bool) (n : Nat) (s : Bytes) (h : SymHdr) : (checkLoop true nl n s h).isOob = false :=
  lineLoop_safe (fun _ => True) (fun _ _ _ _ => trivial) (fun st l _ => checkStep_safe st l) n s h

theorem symTail_safe (a z : Nat) (ty : UInt8) (p : Bytes) : (symTail a z ty p).isOob = false := by
  unfold symTail
  split <;> rfl

theorem symLine_safe (l : Bytes) : (symLine true l).isOob = false := by
  unfold symLine
  simp only
  split
  · simp
  · split
    · split
      · simp
      · exact symTail_safe _ _ _ _
      · rfl
    · exact symTail_safe _ _ _ _
  · rfl

theorem symStep_safe (acc : List SymLine) (l0 : Bytes) : (symStep true acc l0).isOob = false := by
  unfold symStep
  simp only
  split
  · rfl
  · have := symLine_safe (cstr l0)
    split
    · rfl
    · rfl
    · rfl
    · rename_i hh; rw [hh] at this; simp at this

theorem symLines_safe (nl : Bool) (n : Nat) (s : Bytes) : (symLines true nl n s).isOob = false := by
  unfold symLines
  have := lineLoop_safe (get := getLineG nl) (step := symStep true) (fun _ => True)
    (fun _ _ _ _ => trivial) (fun st l _ => symStep_safe st l) n s []
  split
  · rfl
  · rfl
  · rename_i h; rw [h] at this; simp at this

theorem parseSym_safe (nl : Bool) (modname s : Bytes) : (parseSym true nl modname s).isOob = false := by
  unfold parseSym
  have h1 := checkLoop_safe nl (s.length + 1) s {}
  unfold checkSymFile
  split
  · split
    · rfl
    · have h2 := symLines_safe nl (s.length + 1) s
      split
      · rfl
      · rfl
      · rename_i hh; rw [hh] at h2; simp at h2
  · rfl
  · rename_i hh; rw [hh] at h1; simp at h1

end Uft.TaskTxt

namespace Uft.TaskTxt
open Uft.TextScan

theorem guessKernelBase_ge (a : Nat) : 0x40000000 ≤ guessKernelBase a := by
  unfold guessKernelBase
  repeat' split
  all_goals omega

theorem mapLine_kb {fixed : Bool} {l : Bytes} {m m' : Maps} (h : mapLine fixed l m = .ok m')
    (hk : 0x40000000 ≤ m.kernelBase) : 0x40000000 ≤ m'.kernelBase := by
  unfold mapLine at h
  split at h
  · split at h
    · split at h
      · split at h
        · simp only [PR.ok.injEq] at h
          rw [← h]
          exact guessKernelBase_ge _
        · simp only [PR.ok.injEq] at h
          rw [← h]; exact hk
      · split at h
        · split at h <;> (simp only [PR.ok.injEq] at h; rw [← h]; exact hk)
        · simp only [PR.ok.injEq] at h
          rw [← h]; exact hk
    · simp only [PR.ok.injEq] at h
      rw [← h]; exact hk
  · simp at h
  · simp at h

theorem mapLines_kb {fixed nl : Bool} (n : Nat) {s : Bytes} {m m' : Maps}
    (h : mapLines fixed nl n s m = .ok m') (hk : 0x40000000 ≤ m.kernelBase) :
    0x40000000 ≤ m'.kernelBase := by
  refine lineLoop_inv (fun m => 0x40000000 ≤ m.kernelBase) ?_ n s m m' h hk
  intro st l st1 c hp hs
  unfold mapStep at hs
  split at hs
  · rename_i m1 hm
    simp only [PR.ok.injEq, Prod.mk.injEq] at hs
    rw [← hs.1]
    exact mapLine_kb hm hp
  · simp at hs
  · simp at hs

end Uft.TaskTxt
