import Uft.Model.InfoFile
import Uft.Model.TaskTxt
/-
C12 — helper lemmas for the text-file parser models: with the proposed fixes no parser ever
returns `oob`, for any byte string.
-/
namespace Uft.TextScan

@[simp] theorem isOob_ok {α : Type} (a : α) : (PR.ok a).isOob = false := rfl
@[simp] theorem isOob_err {α : Type} (e : String) : (PR.err e : PR α).isOob = false := rfl
@[simp] theorem isOob_oob {α : Type} (e : String) : (PR.oob e : PR α).isOob = true := rfl

theorem bind_eq {α β : Type} (x : PR α) (f : α → PR β) : (x >>= f) = PR.bind x f := rfl

theorem pure_eq {α : Type} (a : α) : (pure a : PR α) = PR.ok a := rfl

theorem isOob_bind {α β : Type} {x : PR α} {f : α → PR β} (hx : x.isOob = false)
    (hf : ∀ a, (f a).isOob = false) : (PR.bind x f).isOob = false := by
  cases x with
  | ok a => exact hf a
  | err e => rfl
  | oob t => simp at hx

theorem dropWhile_le {α : Type} (p : α → Bool) (l : List α) : (l.dropWhile p).length ≤ l.length := by
  induction l with
  | nil => simp
  | cons a r ih =>
    simp only [List.dropWhile]
    split
    · simp; omega
    · simp

theorem takeWhile_le {α : Type} (p : α → Bool) (l : List α) : (l.takeWhile p).length ≤ l.length := by
  induction l with
  | nil => simp
  | cons a r ih =>
    simp only [List.takeWhile]
    split
    · simp; omega
    · simp

/-- a `%s` destination is large enough for whatever a string of `n` bytes can put there -/
def dirSafe (n : Nat) : Dir → Prop
  | .str cap (some w) => w + 1 ≤ cap
  | .str cap none => n + 1 ≤ cap
  | _ => True

theorem dirSafe_mono {n m : Nat} {d : Dir} (h : dirSafe n d) (hm : m ≤ n) : dirSafe m d := by
  cases d with
  | str cap w =>
    cases w with
    | none => simp only [dirSafe] at h ⊢; omega
    | some w => exact h
  | _ => trivial

theorem skipWs_le (s : Bytes) : (skipWs s).length ≤ s.length := by
  unfold skipWs
  exact dropWhile_le _ _

theorem sign_le (s : Bytes) : (sign s).2.length ≤ s.length := by
  unfold sign
  split <;> simp

theorem strip0x_le (s : Bytes) : (strip0x s).length ≤ s.length := by
  unfold strip0x
  split
  · split <;> simp
  · exact Nat.le_refl _

theorem takeWidth_le (w : Option Nat) (t : Bytes) : (takeWidth w t).length ≤ t.length := by
  cases w <;> simp [takeWidth]
  omega

theorem takeWidth_some_le (w : Nat) (t : Bytes) : (takeWidth (some w) t).length ≤ w := by
  simp [takeWidth]
  omega

theorem runFmt_safe (fmt : List Dir) (s : Bytes) (acc : List Val)
    (h : ∀ d ∈ fmt, dirSafe s.length d) : (runFmt fmt s acc).isOob = false := by
  induction fmt generalizing s acc with
  | nil => simp [runFmt]
  | cons d fmt ih =>
    have hd : dirSafe s.length d := h d (by simp)
    have hrest : ∀ (s' : Bytes), s'.length ≤ s.length → ∀ x ∈ fmt, dirSafe s'.length x :=
      fun s' hs x hx => dirSafe_mono (h x (by simp [hx])) hs
    cases d with
    | ws =>
      simp only [runFmt]
      exact ih _ _ (hrest _ (skipWs_le s))
    | lit c =>
      simp only [runFmt]
      cases s with
      | nil => rfl
      | cons x r =>
        simp only
        split
        · exact ih _ _ (hrest _ (by simp))
        · rfl
    | dec =>
      simp only [runFmt]
      split
      · rfl
      · split
        · rfl
        · apply ih
          apply hrest
          have h1 := skipWs_le s
          have h2 := sign_le (skipWs s)
          have h3 := dropWhile_le isDigit (sign (skipWs s)).2
          omega
    | hex =>
      simp only [runFmt]
      split
      · rfl
      · split
        · rfl
        · apply ih
          apply hrest
          have h1 := skipWs_le s
          have h2 := sign_le (skipWs s)
          have h3 := strip0x_le (sign (skipWs s)).2
          have h4 := dropWhile_le isHex (strip0x (sign (skipWs s)).2)
          omega
    | skipHex =>
      simp only [runFmt]
      split
      · rfl
      · split
        · rfl
        · apply ih
          apply hrest
          have h1 := skipWs_le s
          have h2 := sign_le (skipWs s)
          have h3 := strip0x_le (sign (skipWs s)).2
          have h4 := dropWhile_le isHex (strip0x (sign (skipWs s)).2)
          omega
    | skipDec =>
      simp only [runFmt]
      split
      · rfl
      · split
        · rfl
        · apply ih
          apply hrest
          have h1 := skipWs_le s
          have h2 := sign_le (skipWs s)
          have h3 := dropWhile_le isDigit (sign (skipWs s)).2
          omega
    | skipNot c =>
      simp only [runFmt]
      cases s with
      | nil => rfl
      | cons x r =>
        simp only
        split
        · rfl
        · apply ih
          apply hrest
          exact dropWhile_le _ _
    | str cap w =>
      simp only [runFmt]
      split
      · rfl
      · have h1 := skipWs_le s
        have h2 : ((skipWs s).takeWhile (fun c => !isSpace c)).length ≤ (skipWs s).length :=
          takeWhile_le _ _
        have h3 := takeWidth_le w ((skipWs s).takeWhile (fun c => !isSpace c))
        split
        · rename_i hbig
          exfalso
          cases w with
          | none => simp only [dirSafe] at hd; omega
          | some w =>
            simp only [dirSafe] at hd
            have := takeWidth_some_le w ((skipWs s).takeWhile (fun c => !isSpace c))
            omega
        · apply ih
          apply hrest
          simp
          omega

/-- `fgets(buf, cap, ..)` stores at most `cap - 1` bytes -/
theorem fgetsAux_le (n : Nat) (s : Bytes) : (fgetsAux n s).1.length ≤ n := by
  induction n generalizing s with
  | zero => simp [fgetsAux]
  | succ n ih =>
    cases s with
    | nil => simp [fgetsAux]
    | cons c r =>
      simp only [fgetsAux]
      split
      · simp
      · simp; exact ih r

theorem fgets_le {cap : Nat} {s l r : Bytes} (h : fgets cap s = some (l, r)) :
    l.length ≤ cap - 1 := by
  unfold fgets at h
  split at h
  · simp at h
  · simp only [Option.some.injEq] at h
    have := fgetsAux_le (cap - 1) s
    rw [h] at this
    exact this

theorem cstr_le (s : Bytes) : (cstr s).length ≤ s.length := takeWhile_le _ _

end Uft.TextScan

namespace Uft.TextScan

theorem isOob_bind' {α β : Type} {x : PR α} {f : α → PR β} (hx : x.isOob = false)
    (hf : ∀ a, (f a).isOob = false) : (x >>= f).isOob = false := isOob_bind hx hf

theorem lits_safe (n : Nat) (s : String) : ∀ d ∈ lits s, dirSafe n d := by
  intro d hd
  simp only [lits, List.mem_map] at hd
  obtain ⟨c, _, rfl⟩ := hd
  trivial

end Uft.TextScan

namespace Uft.InfoFile
open Uft.TextScan

theorem copyInfoStr_safe (s : Bytes) : (copyInfoStr true s).isOob = false := by
  unfold copyInfoStr
  split <;> simp

theorem bufLine_safe (s : Bytes) : (bufLine s).isOob = false := by
  unfold bufLine
  split <;> simp

theorem gLine_safe (s : Bytes) : (gLine s).isOob = false := by
  unfold gLine
  split <;> simp

theorem readKV_safe (key : String) (i : Info) (s : Bytes) : (readKV true key i s).isOob = false := by
  unfold readKV
  apply isOob_bind' (bufLine_safe s)
  intro ⟨l, r⟩
  simp only
  split
  · rfl
  · apply isOob_bind' (copyInfoStr_safe _)
    intro v
    rfl

theorem scanLines_safe (max : Nat) (t : Bytes) : (scanLines max t).isOob = false := by
  unfold scanLines
  have h : (runFmt (lits "lines=" ++ [Dir.dec, Dir.ws]) t []).isOob = false := by
    apply runFmt_safe
    intro d hd
    simp only [List.mem_append, List.mem_cons, List.not_mem_nil, or_false] at hd
    rcases hd with hd | rfl | rfl
    · exact lits_safe _ _ d hd
    · trivial
    · trivial
  cases hr : runFmt (lits "lines=" ++ [Dir.dec, Dir.ws]) t [] with
  | ok x =>
    simp only
    split
    · rfl
    · split
      · split <;> rfl
      · rfl
  | err e => rfl
  | oob tg => rw [hr] at h; simp at h

theorem sectionLoop_safe (pre : String) (keys : List String) (n : Nat) (i : Info) (s : Bytes) :
    (sectionLoop true pre keys n i s).isOob = false := by
  induction n generalizing i s with
  | zero => simp [sectionLoop]
  | succ n ih =>
    unfold sectionLoop
    apply isOob_bind' (bufLine_safe s)
    intro ⟨l, r⟩
    simp only
    split
    · rfl
    · split
      · apply isOob_bind' (copyInfoStr_safe _)
        intro v
        exact ih _ _
      · exact ih _ _

theorem readSection_safe (pre : String) (max : Nat) (keys : List String) (i : Info) (s : Bytes) :
    (readSection true pre max keys i s).isOob = false := by
  unfold readSection
  apply isOob_bind' (bufLine_safe s)
  intro ⟨l, r⟩
  simp only
  split
  · rfl
  · apply isOob_bind' (scanLines_safe _ _)
    intro n
    exact sectionLoop_safe _ _ _ _ _

theorem tidsLoop_safe (cap n : Nat) (cur tstr : Bytes) (acc : List Int) :
    (tidsLoop true cap n cur tstr acc).isOob = false := by
  induction n generalizing cur tstr acc with
  | zero => simp [tidsLoop]
  | succ n ih =>
    unfold tidsLoop
    split
    · rfl
    · simp only
      split
      · simp
      · split
        · split
          · exact ih _ _ _
          · rfl
        · rfl

theorem taskLoop_safe (n : Nat) (i : Info) (s : Bytes) : (taskLoop true n i s).isOob = false := by
  induction n generalizing i s with
  | zero => simp [taskLoop]
  | succ n ih =>
    unfold taskLoop
    apply isOob_bind' (gLine_safe s)
    intro ⟨l, r⟩
    simp only
    split
    · rfl
    · split
      · exact ih _ _
      · split
        · split
          · rfl
          · apply isOob_bind' (tidsLoop_safe _ _ _ _ _)
            intro tids
            split
            · rfl
            · exact ih _ _
        · rfl

theorem readTaskinfo_safe (i : Info) (s : Bytes) : (readTaskinfo true i s).isOob = false := by
  unfold readTaskinfo
  apply isOob_bind' (gLine_safe s)
  intro ⟨l, r⟩
  simp only
  split
  · rfl
  · apply isOob_bind' (scanLines_safe _ _)
    intro n
    exact taskLoop_safe _ _ _

theorem argLoop_safe (n : Nat) (i : Info) (s : Bytes) : (argLoop true n i s).isOob = false := by
  induction n generalizing i s with
  | zero => simp [argLoop]
  | succ n ih =>
    unfold argLoop
    apply isOob_bind' (gLine_safe s)
    intro ⟨l, r⟩
    simp only
    split
    · apply isOob_bind' (copyInfoStr_safe _)
      intro v
      exact ih _ _
    · split
      · exact ih _ _
      · rfl

theorem readArgSpec_safe (i : Info) (s : Bytes) : (readArgSpec true i s).isOob = false := by
  unfold readArgSpec
  apply isOob_bind' (gLine_safe s)
  intro ⟨l, r⟩
  simp only
  split
  · rfl
  · split
    · apply isOob_bind' (copyInfoStr_safe _)
      intro v
      rfl
    · apply isOob_bind' (scanLines_safe _ _)
      intro n
      exact argLoop_safe _ _ _

theorem readPrefixOnly_safe (key : String) (i : Info) (s : Bytes) :
    (readPrefixOnly key i s).isOob = false := by
  unfold readPrefixOnly
  apply isOob_bind' (bufLine_safe s)
  intro ⟨l, r⟩
  simp only
  split <;> rfl

theorem readExitStatus_safe (i : Info) (s : Bytes) : (readExitStatus i s).isOob = false := by
  unfold readExitStatus
  apply isOob_bind' (bufLine_safe s)
  intro ⟨l, r⟩
  simp only
  split
  · rfl
  · split <;> rfl

theorem readRecordDate_safe (i : Info) (s : Bytes) : (readRecordDate true i s).isOob = false := by
  unfold readRecordDate
  apply isOob_bind' (readKV_safe _ _ _)
  intro ⟨i1, r1⟩
  exact readKV_safe _ _ _

theorem readPatternType_safe (i : Info) (s : Bytes) : (readPatternType i s).isOob = false := by
  unfold readPatternType
  apply isOob_bind' (bufLine_safe s)
  intro ⟨l, r⟩
  simp only
  split <;> rfl

theorem handler_safe (bit : Nat) (i : Info) (s : Bytes) : (handler true bit i s).isOob = false := by
  unfold handler
  split
  · exact readKV_safe _ _ _
  · rfl
  · exact readExitStatus_safe _ _
  · exact readKV_safe _ _ _
  · exact readSection_safe _ _ _ _ _
  · exact readKV_safe _ _ _
  · exact readSection_safe _ _ _ _ _
  · exact readTaskinfo_safe _ _
  · exact readSection_safe _ _ _ _ _
  · exact readPrefixOnly_safe _ _ _
  · exact readArgSpec_safe _ _
  · exact readRecordDate_safe _ _
  · exact readPatternType_safe _ _
  · exact readKV_safe _ _ _
  · exact readKV_safe _ _ _
  · rfl

theorem readHandlers_safe (mask : Nat) (bits : List Nat) (i : Info) (s : Bytes) :
    (readHandlers true mask bits i s).isOob = false := by
  induction bits generalizing i s with
  | nil => simp [readHandlers]
  | cons bit rest ih =>
    unfold readHandlers
    split
    · exact ih _ _
    · have := handler_safe bit i s
      cases hh : handler true bit i s with
      | ok p => exact ih _ _
      | err e => rfl
      | oob t => rw [hh] at this; simp at this

theorem parseInfo_safe (s : Bytes) : (parseInfo true s).isOob = false := by
  unfold parseInfo
  cases hp : parseHdr s with
  | ok p =>
    simp only
    have := readHandlers_safe p.1.infoMask (List.range 15) {} p.2
    cases hh : readHandlers true p.1.infoMask (List.range 15) {} p.2 with
    | ok i => rfl
    | err e => rfl
    | oob t => rw [hh] at this; simp at this
  | err e => rfl
  | oob t =>
    unfold parseHdr at hp
    split at hp
    · simp at hp
    · simp only at hp
      split at hp
      · simp at hp
      · split at hp
        · simp at hp
        · split at hp <;> simp at hp

end Uft.InfoFile
