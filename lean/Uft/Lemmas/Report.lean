/- C08 helper lemmas: the reader's stack machine on well-nested record streams. -/
import Uft.Model.Report
namespace Uft.Report
open Uft.Mcount (Call Calls)

theorem runT_append (t : Task) (a b : List Rec) :
    runT t (a ++ b) = ((runT (runT t a).1 b).1, (runT t a).2 ++ (runT (runT t a).1 b).2) := by
  induction a generalizing t with
  | nil => simp [runT]
  | cons r rs ih => simp [runT, ih, List.append_assoc]

@[simp] theorem slot?_natCast (stk : List Fs) (n : Nat) : slot? stk (n : Int) = stk[n]? := by
  have h : ¬ ((n : Int) < 0) := by omega
  simp [slot?, h]

theorem acctInit_ready (t : Task) (r : Rec)
    (hf : t.fset = true ∨ (t.sc = 0 ∧ r.depth = 0 ∧ r.typ = 0)) :
    acctInit t r = { t with fset := true } := by
  cases t with
  | mk sc usc fset lost stk tsLast lastTime =>
    rcases hf with h | ⟨h1, h2, h3⟩
    · simp only at h; subst h; simp [acctInit]
    · simp only at h1; subst h1
      cases fset <;> simp [acctInit, depthCount, h2, h3, initSlots]

/-- the reader after an ENTRY record taken at stack depth `n` -/
def entryTask (t : Task) (n : Nat) (r : Rec) : Task :=
  { t with fset := true, sc := (n : Int) + 1, usc := t.usc + 1,
           stk := t.stk.set n { addr := r.addr, total := r.time, child := 0, valid := true },
           tsLast := r.time, lastTime := r.time }

theorem stepF_entry (t : Task) (n : Nat) (r : Rec) (hs : t.sc = n) (hl : t.lost = false)
    (hf : t.fset = true ∨ (n = 0 ∧ r.depth = 0)) (hty : r.typ = 0) (hn : n < t.stk.length) :
    stepF t r = (entryTask t n r, []) := by
  unfold entryTask
  have hi : acctInit t r = { t with fset := true } := by
    apply acctInit_ready
    rcases hf with h | ⟨h1, h2⟩
    · exact Or.inl h
    · exact Or.inr ⟨by rw [hs, h1]; rfl, h2, hty⟩
  have hget : t.stk[n]? = some t.stk[n] := List.getElem?_eq_getElem hn
  simp [stepF, consume, account, hty, hi, hl, acctResync, acctEntry, hs, hget, updCount]

def Fs.addChild (d : Nat) (fs : Fs) : Fs := { fs with child := add64 fs.child d }

@[simp] theorem bump_length (stk : List Fs) (i d : Nat) : (bump stk i d).length = stk.length := by
  unfold bump; split <;> simp

theorem bump_getElem? (stk : List Fs) (i d k : Nat) :
    (bump stk i d)[k]? = if k = i then (stk[k]?).map (Fs.addChild d) else stk[k]? := by
  unfold bump
  split
  · next h =>
    by_cases hk : k = i
    · subst hk; simp [h]
    · simp [hk]
  · next fs h =>
    have hi : i < stk.length := by
      have := List.getElem?_eq_some_iff.mp h; exact this.1
    by_cases hk : k = i
    · subst hk
      have hg : stk[k] = fs := (List.getElem?_eq_some_iff.mp h).2
      simp [List.getElem?_set, hi, Fs.addChild, hg]
    · have : ¬ i = k := fun e => hk e.symm
      simp [List.getElem?_set, hk, this]

/-- `func_stack` after an EXIT record for the frame `fs` in slot `n` (fstack.c:1994-2015) -/
def exitStk (stk : List Fs) (n : Nat) (time : Nat) (fs : Fs) : List Fs :=
  let delta := sub64 time fs.total
  let child := if fs.child > delta then delta else fs.child
  let stk1 := stk.set n { fs with total := delta, child := child, valid := false }
  if n ≥ 1 then bump stk1 (n - 1) delta else stk1

/-- the node update of that EXIT (`report_update_node`) -/
def exitUpd (stk : List Fs) (n : Nat) (r : Rec) (fs : Fs) : Upd :=
  let delta := sub64 r.time fs.total
  let child := if fs.child > delta then delta else fs.child
  { key := r.addr, total := delta, self := sub64 delta child,
    recursive := isRec (exitStk stk n r.time fs) n fs.addr }

def exitTask (t : Task) (n : Nat) (r : Rec) (fs : Fs) : Task :=
  { t with sc := n, usc := t.usc - 1, stk := exitStk t.stk n r.time fs, tsLast := r.time, lastTime := r.time }

@[simp] theorem exitStk_length (stk : List Fs) (n time : Nat) (fs : Fs) :
    (exitStk stk n time fs).length = stk.length := by
  unfold exitStk; simp only; split <;> simp

theorem exitStk_below (stk : List Fs) (n time : Nat) (fs : Fs) (k : Nat) (hk : k < n) :
    (exitStk stk n time fs)[k]? =
      if k + 1 = n then (stk[k]?).map (Fs.addChild (sub64 time fs.total)) else stk[k]? := by
  have hne : ¬ (n = k) := by omega
  have hn1 : n ≥ 1 := by omega
  unfold exitStk
  simp only [hn1, if_true, bump_getElem?, List.getElem?_set, hne, if_false]
  by_cases h : k + 1 = n
  · subst h; simp
  · have : ¬ (k = n - 1) := by omega
    simp [h, this]

theorem stepF_exit (t : Task) (n : Nat) (r : Rec) (fs : Fs) (hs : t.sc = (n : Int) + 1)
    (hl : t.lost = false) (hf : t.fset = true) (hty : r.typ = 1) (hget : t.stk[n]? = some fs)
    (hv : fs.valid = true) :
    stepF t r = (exitTask t n r fs, [exitUpd t.stk n r fs]) := by
  have hi : acctInit t r = t := by simp [acctInit, hf]
  have hn : n < t.stk.length := (List.getElem?_eq_some_iff.mp hget).1
  have h1 : t.sc - 1 = (n : Int) := by omega
  have h3 : t.sc > 0 := by omega
  have hset : ∀ v : Fs, (t.stk.set n v)[n]? = some v := fun v => by simp [hn]
  unfold exitTask exitUpd exitStk
  by_cases hn1 : n ≥ 1
  · have h2 : 1 < t.sc := by omega
    have h4 : ¬ (n = n - 1) := by omega
    simp [stepF, consume, account, hty, hi, hl, acctResync, acctExit, h1, hget, hv, updCount, h3, h2, hn1,
      bump_getElem?, h4, hset, updOf]
  · have h2 : ¬ (1 < t.sc) := by omega
    simp [stepF, consume, account, hty, hi, hl, acctResync, acctExit, h1, hget, hv, updCount, h3, h2, hn1,
      hset, updOf]

/-! ### call trees: the record stream of a tree and its tree-defined statistics -/

mutual
  /-- the records of one call executed at nesting depth `d` -/
  def evCall (d : Nat) : Call → List Rec
    | .node f t0 t1 kids =>
      { time := t0, typ := 0, depth := d, addr := f } ::
        (evCalls (d + 1) kids ++ [{ time := t1, typ := 1, depth := d, addr := f }])
  def evCalls (d : Nat) : Calls → List Rec
    | .nil => []
    | .cons c rest => evCall d c ++ evCalls d rest
end

/-- duration of a call as the reader computes it (`uint64_t` subtraction) -/
def dur : Call → Nat
  | .node _ t0 t1 _ => sub64 t1 t0

/-- `child_time` of a frame after its callees `cs` returned, starting from `acc` -/
def childTime (acc : Nat) : Calls → Nat
  | .nil => acc
  | .cons c rest => childTime (add64 acc (dur c)) rest

mutual
  /-- the node updates a call tree stands for, in exit order; `ctx` = addresses of the open callers -/
  def upds (ctx : List Nat) : Call → List Upd
    | .node f t0 t1 kids =>
      let delta := sub64 t1 t0
      let ch := childTime 0 kids
      let child := if ch > delta then delta else ch        -- the clamp child ≤ total
      updsL (ctx ++ [f]) kids ++
        [{ key := f, total := delta, self := sub64 delta child, recursive := ctx.any (· == f) }]
  def updsL (ctx : List Nat) : Calls → List Upd
    | .nil => []
    | .cons c rest => upds ctx c ++ updsL ctx rest
end

def ctxOf (stk : List Fs) (n : Nat) : List Nat := (stk.take n).map (·.addr)

theorem isRec_eq (stk : List Fs) (n a : Nat) : isRec stk n a = (ctxOf stk n).any (· == a) := by
  unfold isRec ctxOf; rw [List.any_map]; rfl

theorem ctxOf_congr (l l' : List Fs) (n : Nat)
    (h : ∀ k, k < n → (l'[k]?).map (·.addr) = (l[k]?).map (·.addr)) : ctxOf l' n = ctxOf l n := by
  apply List.ext_getElem?
  intro k
  simp only [ctxOf, List.getElem?_map, List.getElem?_take]
  by_cases hk : k < n
  · simp [hk, h k hk]
  · simp [hk]

theorem ctxOf_set_succ (l : List Fs) (n : Nat) (v : Fs) (h : n < l.length) :
    ctxOf (l.set n v) (n + 1) = ctxOf l n ++ [v.addr] := by
  have h' : n < (l.set n v).length := by simp [h]
  simp only [ctxOf, ← List.take_append_getElem h', List.map_append, List.take_set_of_le (Nat.le_refl n)]
  simp

/-- where a well-nested piece of the stream leaves the reader: same depth, the slots below it
    untouched except that the caller's `child_time` grew (`f`) -/
structure Post (t t' : Task) (n d : Nat) (f : Fs → Fs) : Prop where
  sc : t'.sc = n
  usc : t'.usc = t.usc
  lost : t'.lost = false
  fset : t'.fset = true ∨ (n = 0 ∧ d = 0)
  len : t'.stk.length = t.stk.length
  below : ∀ k, k < n → t'.stk[k]? = if k + 1 = n then (t.stk[k]?).map f else t.stk[k]?

def Fs.kidsDone (cs : Calls) (fs : Fs) : Fs := { fs with child := childTime fs.child cs }

theorem addChild_kidsDone (c : Call) (rest : Calls) (fs : Fs) :
    Fs.kidsDone rest (Fs.addChild (dur c) fs) = Fs.kidsDone (.cons c rest) fs := by
  simp [Fs.kidsDone, Fs.addChild, childTime]

theorem map_addr_addChild (o : Option Fs) (d : Nat) :
    (o.map (Fs.addChild d)).map (·.addr) = o.map (·.addr) := by cases o <;> rfl

theorem map_kidsDone_nil (o : Option Fs) : o.map (Fs.kidsDone .nil) = o := by cases o <;> rfl

theorem map_addChild_kidsDone (c : Call) (rest : Calls) (o : Option Fs) :
    (o.map (Fs.addChild (dur c))).map (Fs.kidsDone rest) = o.map (Fs.kidsDone (.cons c rest)) := by
  cases o with
  | none => rfl
  | some fs => simp [addChild_kidsDone]

mutual
theorem run_call : ∀ (c : Call) (t : Task) (n d : Nat), t.sc = n → t.lost = false →
    (t.fset = true ∨ (n = 0 ∧ d = 0)) → n + c.height ≤ t.stk.length →
    (runT t (evCall d c)).2 = upds (ctxOf t.stk n) c ∧
    Post t (runT t (evCall d c)).1 n d (Fs.addChild (dur c))
  | .node f t0 t1 kids, t, n, d, hs, hl, hf, hh => by
    have hh' : n + (kids.height + 1) ≤ t.stk.length := by simpa [Call.height] using hh
    have hn : n < t.stk.length := by omega
    -- ENTRY
    have hE := stepF_entry t n { time := t0, typ := 0, depth := d, addr := f } hs hl hf rfl hn
    generalize hte : entryTask t n { time := t0, typ := 0, depth := d, addr := f } = tE at hE
    have hEsc : tE.sc = ((n + 1 : Nat) : Int) := by subst hte; simp [entryTask]
    have hEl : tE.lost = false := by subst hte; exact hl
    have hEf : tE.fset = true := by subst hte; rfl
    have hEstk : tE.stk = t.stk.set n { addr := f, total := t0, child := 0, valid := true } := by subst hte; rfl
    have hEusc : tE.usc = t.usc + 1 := by subst hte; rfl
    have hElen : tE.stk.length = t.stk.length := by rw [hEstk]; simp
    -- the callees
    obtain ⟨ihU, ihP⟩ := run_calls kids tE (n + 1) (d + 1) hEsc hEl (Or.inl hEf) (by rw [hElen]; omega)
    generalize hk : runT tE (evCalls (d + 1) kids) = rk at ihU ihP
    have hctx : ctxOf tE.stk (n + 1) = ctxOf t.stk n ++ [f] := by
      rw [hEstk]; exact ctxOf_set_succ _ _ _ hn
    -- EXIT
    have hslot : rk.1.stk[n]? = some { addr := f, total := t0, child := childTime 0 kids, valid := true } := by
      have := ihP.below n (Nat.lt_succ_self n)
      simp only [if_true] at this
      rw [this, hEstk]
      simp [hn, Fs.kidsDone]
    have hKf : rk.1.fset = true := by rcases ihP.fset with h | ⟨h, _⟩; exact h; omega
    have hX := stepF_exit rk.1 n { time := t1, typ := 1, depth := d, addr := f } _
      (by rw [ihP.sc]; simp) ihP.lost hKf rfl hslot rfl
    have hbelow : ∀ k, k < n → rk.1.stk[k]? = t.stk[k]? := by
      intro k hk'
      have := ihP.below k (by omega)
      have hne : ¬ (k = n) := by omega
      have hne2 : ¬ (n = k) := by omega
      rw [this]; simp [hne, hEstk, List.getElem?_set, hne2]
    have hrun : runT t (evCall d (.node f t0 t1 kids)) =
        (exitTask rk.1 n { time := t1, typ := 1, depth := d, addr := f }
            { addr := f, total := t0, child := childTime 0 kids, valid := true },
         rk.2 ++ [exitUpd rk.1.stk n { time := t1, typ := 1, depth := d, addr := f }
            { addr := f, total := t0, child := childTime 0 kids, valid := true }]) := by
      simp only [evCall, runT, hE, runT_append, hk, hX, List.nil_append, List.append_nil]
    rw [hrun]
    refine ⟨?_, ?_⟩
    · have hc : ctxOf (exitStk rk.1.stk n t1
            { addr := f, total := t0, child := childTime 0 kids, valid := true }) n = ctxOf t.stk n := by
        apply ctxOf_congr
        intro k hk'
        rw [exitStk_below _ _ _ _ _ hk', hbelow k hk']
        split
        · exact map_addr_addChild _ _
        · rfl
      simp only [upds, ihU, hctx, exitUpd, isRec_eq, hc]
    · refine ⟨rfl, ?_, ihP.lost, Or.inl hKf, ?_, ?_⟩
      · show rk.1.usc - 1 = t.usc
        rw [ihP.usc, hEusc]; omega
      · show (exitStk _ _ _ _).length = _
        rw [exitStk_length, ihP.len, hElen]
      · intro k hk'
        show (exitStk _ _ _ _)[k]? = _
        rw [exitStk_below _ _ _ _ _ hk', hbelow k hk']
        simp only [dur]

theorem run_calls : ∀ (cs : Calls) (t : Task) (n d : Nat), t.sc = n → t.lost = false →
    (t.fset = true ∨ (n = 0 ∧ d = 0)) → n + cs.height ≤ t.stk.length →
    (runT t (evCalls d cs)).2 = updsL (ctxOf t.stk n) cs ∧
    Post t (runT t (evCalls d cs)).1 n d (Fs.kidsDone cs)
  | .nil, t, n, d, hs, hl, hf, hh => by
    refine ⟨by simp [evCalls, runT, updsL], ?_⟩
    simp only [evCalls, runT]
    exact ⟨hs, rfl, hl, hf, rfl, fun k _ => by
      by_cases h : k + 1 = n
      · simp only [h, if_true, map_kidsDone_nil]
      · simp [h]⟩
  | .cons c rest, t, n, d, hs, hl, hf, hh => by
    have hh1 : n + c.height ≤ t.stk.length := by
      have : c.height ≤ (Calls.cons c rest).height := by simp [Calls.height]; exact Nat.le_max_left _ _
      omega
    have hh2 : n + rest.height ≤ t.stk.length := by
      have : rest.height ≤ (Calls.cons c rest).height := by simp [Calls.height]; exact Nat.le_max_right _ _
      omega
    obtain ⟨h1U, h1P⟩ := run_call c t n d hs hl hf hh1
    generalize hk : runT t (evCall d c) = r1 at h1U h1P
    have hctx : ctxOf r1.1.stk n = ctxOf t.stk n := by
      apply ctxOf_congr
      intro k hk'
      rw [h1P.below k hk']
      split
      · exact map_addr_addChild _ _
      · rfl
    obtain ⟨h2U, h2P⟩ := run_calls rest r1.1 n d h1P.sc h1P.lost h1P.fset (by rw [h1P.len]; exact hh2)
    refine ⟨?_, ?_⟩
    · simp only [evCalls, runT_append, hk, h1U, h2U, hctx, updsL]
    · simp only [evCalls, runT_append, hk]
      refine ⟨h2P.sc, by rw [h2P.usc, h1P.usc], h2P.lost, h2P.fset, by rw [h2P.len, h1P.len], ?_⟩
      intro k hk'
      rw [h2P.below k hk', h1P.below k hk']
      split
      · exact map_addChild_kidsDone c rest _
      · rfl
end

end Uft.Report
