import Uft.Model.CallTree
/- helper lemmas for Props/C02 (emit exactness) and Props/C05 -/
set_option linter.unusedSimpArgs false
namespace Uft.Mcount

def markW (f : Frame) : Frame := { f with written := true }

/-- ENTRY records still owed for the frames (innermost first), as
    `record_trace_data` would write them: outermost first, stopping at the first
    frame already written -/
def pending : List Frame → List Rec
  | [] => []
  | f :: r => if f.written then [] else pending r ++ [entryRec f]

def markTo : List Frame → List Frame
  | [] => []
  | f :: r => if f.written then f :: r else markW f :: markTo r

def NoSkip (fs : List Frame) : Prop := ∀ f ∈ fs, f.norecord = false ∧ f.disabled = false

theorem flushBelow_noskip (fs : List Frame) (h : NoSkip fs) :
    flushBelow fs = (markTo fs, pending fs) := by
  induction fs with
  | nil => rfl
  | cons f r ih =>
    have hf := h f (by simp)
    have hr : NoSkip r := fun g hg => h g (by simp [hg])
    simp only [flushBelow, markTo, pending]
    split
    · rfl
    · simp [Frame.skip, hf.1, hf.2, ih hr, markW]

theorem pending_markTo (fs : List Frame) : pending (markTo fs) = [] := by
  cases fs with
  | nil => rfl
  | cons f r =>
    simp only [markTo]
    split
    · rename_i h; simp [pending, h]
    · simp [pending, markW]

theorem markTo_markTo (fs : List Frame) : markTo (markTo fs) = markTo fs := by
  cases fs with
  | nil => rfl
  | cons f r =>
    simp only [markTo]
    split
    · rename_i h; simp [markTo, h]
    · simp [markTo, markW]

theorem markTo_length (fs : List Frame) : (markTo fs).length = fs.length := by
  induction fs with
  | nil => rfl
  | cons f r ih => simp only [markTo]; split <;> simp [ih]

theorem markTo_noskip (fs : List Frame) (h : NoSkip fs) : NoSkip (markTo fs) := by
  induction fs with
  | nil => exact h
  | cons f r ih =>
    have hf := h f (by simp)
    have hr : NoSkip r := fun g hg => h g (by simp [hg])
    simp only [markTo]
    split
    · exact h
    · intro g hg
      simp only [List.mem_cons] at hg
      rcases hg with rfl | hg
      · simpa [markW] using hf
      · exact ih hr g hg

/-- configuration without any filter, trigger or threshold -/
structure Plain (cfg : Cfg) : Prop where
  fast : cfg.fast = false
  optIn : cfg.optIn = false
  locIn : cfg.locIn = false
  caller : cfg.callerMode = false
  thr : cfg.threshold = 0
  trig : ∀ f, cfg.trig f = {}

/-- the thread state between hooks, at nesting depth `d`, when nothing is filtered -/
structure Good (s : St) (d : Nat) : Prop where
  over : s.over = 0
  len : s.frames.length = d
  ridx : s.recordIdx = d
  en : s.enabled = true
  inc : s.filt.inCount = 0
  outc : s.filt.outCount = 0
  fdepth : s.filt.depth = d
  fmax : s.filt.maxDepth = noMaxDepth
  ftime : s.filt.time = noTime
  fsize : s.filt.size = 0
  noskip : NoSkip s.frames

/-- the frame the entry hook pushes for a call at depth `d` -/
def plainFrame (k : Kind) (f t0 d : Nat) : Frame :=
  { addr := f, start := t0, depth := d, cyg := (k == .cyg),
    sDepth := d, sMaxDepth := noMaxDepth, sTime := noTime, sSize := 0 }

theorem entry_plain (cfg : Cfg) (hp : Plain cfg) (k : Kind) (s : St) (d f t0 : Nat)
    (hg : Good s d) (hm : d < cfg.maxStack) (hd : d < cfg.depthOpt) :
    (entry cfg k s f t0).2 = true ∧
    (entry cfg k s f t0).1.out = s.out ∧
    (entry cfg k s f t0).1.frames = plainFrame k f t0 d :: s.frames ∧
    Good (entry cfg k s f t0).1 (d + 1) := by
  obtain ⟨h1, h2, h3, h4, h5, h6, h7, h8, h9, h10, h11⟩ := hg
  have hidx : ¬ (s.idx ≥ cfg.maxStack) := by simp [St.idx, h1, h2]; omega
  have hnd : ¬ (d ≥ cfg.depthOpt) := by omega
  cases k <;>
  simp [entry, entryFilterCheck, checkRstack, hidx, hp.fast, hp.optIn, hp.locIn, hp.trig,
    saveFilt, matchFilt, earlyOut, trigFilt, depthLimit, trigEnabled,
    entryFilterRecord, h3, h4, h5, h6, h7, h8, h9, h10, hnd, plainFrame]
  all_goals (constructor <;> simp_all [NoSkip])

theorem durOk_of_lt (cfg : Cfg) (t0 t1 : Nat) (h : t0 < t1) : durOk cfg (t1 - t0) 0 = true := by
  unfold durOk; split <;> simp <;> omega

theorem durOk_fixed (cfg : Cfg) (h : cfg.s4fixed = true) (x : Nat) : durOk cfg x 0 = true := by
  simp [durOk, h]

/-- the exit hook on a plain frame; `hdur` = the call passes the (absent) time filter, `hne` = the
    clock does not read 0 (0 is the "still open" sentinel of `end_time`) -/
theorem exit_plain' (cfg : Cfg) (hp : Plain cfg) (k : Kind) (s2 : St) (d f t0 t1 : Nat) (w : Bool)
    (rest : List Frame)
    (hfr : s2.frames = { plainFrame k f t0 d with written := w } :: rest)
    (hg : Good s2 (d + 1)) (ht2 : ¬ t1 = 0) (hdur : durOk cfg (t1 - t0) 0 = true)
    (hw : w = true → markTo rest = rest) :
    (exit cfg s2 t1).out =
      s2.out ++ (if w then [] else pending rest ++ [entryRec (plainFrame k f t0 d)]) ++
        [{ time := t1, type := 1, depth := d, addr := f }] ∧
    (exit cfg s2 t1).frames = markTo rest ∧
    Good (exit cfg s2 t1) d := by
  obtain ⟨h1, h2, h3, h4, h5, h6, h7, h8, h9, h10, h11⟩ := hg
  have hrest : NoSkip rest := fun g hg => h11 g (by simp [hfr, hg])
  have hlen : rest.length = d := by simpa [hfr] using h2
  have ht1 : (t1 == 0) = false := by simpa using ht2
  have hfb := flushBelow_noskip rest hrest
  have hmn := markTo_noskip rest hrest
  have hml := markTo_length rest
  cases w
  · refine ⟨?_, ?_, ?_⟩
    · cases k <;>
      simp [exit, h1, hfr, plainFrame, exitFilterRecord, hp.fast, h9, hp.thr, hp.caller, h4, hdur,
        recordTrace, Frame.skip, hfb, ht1, ht2, entryRec, exitRec, h3]
    · cases k <;>
      simp [exit, h1, hfr, plainFrame, exitFilterRecord, hp.fast, h9, hp.thr, hp.caller, h4, hdur,
        recordTrace, Frame.skip, hfb, ht1, ht2, entryRec, exitRec, h3]
    · constructor <;> cases k <;>
      simp [exit, h1, hfr, plainFrame, exitFilterRecord, hp.fast, h9, hp.thr, hp.caller, h4, hdur,
        recordTrace, Frame.skip, hfb, ht1, ht2, entryRec, exitRec, h3, h5, h6, hml, hlen, noMaxDepth, noTime] <;>
      first | done | exact hmn | omega
  · have hm := hw rfl
    refine ⟨?_, ?_, ?_⟩
    · cases k <;>
      simp [exit, h1, hfr, plainFrame, exitFilterRecord, hp.fast, h9, hp.thr, hp.caller, h4, hdur,
        recordTrace, Frame.skip, ht1, ht2, entryRec, exitRec, h3]
    · cases k <;>
      simp [exit, h1, hfr, plainFrame, exitFilterRecord, hp.fast, h9, hp.thr, hp.caller, h4, hdur,
        recordTrace, Frame.skip, ht1, ht2, entryRec, exitRec, h3, hm]
    · constructor <;> cases k <;>
      simp [exit, h1, hfr, plainFrame, exitFilterRecord, hp.fast, h9, hp.thr, hp.caller, h4, hdur,
        recordTrace, Frame.skip, ht1, ht2, entryRec, exitRec, h3, h5, h6, hlen, noMaxDepth, noTime] <;>
      first | done | exact hrest | omega

theorem exit_plain (cfg : Cfg) (hp : Plain cfg) (k : Kind) (s2 : St) (d f t0 t1 : Nat) (w : Bool)
    (rest : List Frame)
    (hfr : s2.frames = { plainFrame k f t0 d with written := w } :: rest)
    (hg : Good s2 (d + 1)) (ht : t0 < t1)
    (hw : w = true → markTo rest = rest) :
    (exit cfg s2 t1).out =
      s2.out ++ (if w then [] else pending rest ++ [entryRec (plainFrame k f t0 d)]) ++
        [{ time := t1, type := 1, depth := d, addr := f }] ∧
    (exit cfg s2 t1).frames = markTo rest ∧
    Good (exit cfg s2 t1) d :=
  exit_plain' cfg hp k s2 d f t0 t1 w rest hfr hg (by omega) (durOk_of_lt cfg t0 t1 ht) hw

mutual
theorem okFor_of_timed (cfg : Cfg) : ∀ c : Call, c.timed → c.okFor cfg
  | .node _ t0 t1 kids, h => by
    simp only [Call.timed] at h
    exact ⟨⟨durOk_of_lt cfg t0 t1 h.1, by omega⟩, okFors_of_timed cfg kids h.2⟩
theorem okFors_of_timed (cfg : Cfg) : ∀ cs : Calls, cs.timed → cs.okFor cfg
  | .nil, _ => trivial
  | .cons c rest, h => by
    simp only [Calls.timed] at h
    exact ⟨okFor_of_timed cfg c h.1, okFors_of_timed cfg rest h.2⟩
end

mutual
theorem okFor_of_ended (cfg : Cfg) (hf : cfg.s4fixed = true) : ∀ c : Call, c.ended → c.okFor cfg
  | .node _ t0 t1 kids, h => by
    simp only [Call.ended] at h
    exact ⟨⟨durOk_fixed cfg hf _, h.1⟩, okFors_of_ended cfg hf kids h.2⟩
theorem okFors_of_ended (cfg : Cfg) (hf : cfg.s4fixed = true) : ∀ cs : Calls, cs.ended → cs.okFor cfg
  | .nil, _ => trivial
  | .cons c rest, h => by
    simp only [Calls.ended] at h
    exact ⟨okFor_of_ended cfg hf c h.1, okFors_of_ended cfg hf rest h.2⟩
end

end Uft.Mcount
