import Uft.Model.Writers
/- The writer pool refines a per-tid FIFO queue (helper lemmas for Props/C03, C04). -/
namespace Uft.Writers

/-- registered tids -/
def regs (ws : List Warg) : List Tid := ws.filterMap (·.tid)

structure WInv (p : Pool) : Prop where
  kick : p.writeList.length ≤ p.kicks
  idle_empty : ∀ w ∈ p.writers, w.tid = none → w.head = [] ∧ w.bufs = []
  own : ∀ w ∈ p.writers, ∀ t, w.tid = some t → ∀ wb ∈ w.head ++ w.bufs, wb.tid = t
  excl : ∀ w ∈ p.writers, ∀ t, w.tid = some t → p.writeList.filter (fun b => b.tid = t) = []
  uniq : (regs p.writers).Nodup

theorem wq_append (t : Tid) (a b : List Warg) : wq t (a ++ b) = wq t a ++ wq t b := by
  induction a with
  | nil => simp [wq]
  | cons w ws ih => simp [wq, ih]

theorem regs_append (a b : List Warg) : regs (a ++ b) = regs a ++ regs b := by
  simp [regs]

theorem wq_nil {t : Tid} {ws : List Warg} (h : t ∉ regs ws) : wq t ws = [] := by
  induction ws with
  | nil => simp [wq]
  | cons w ws ih =>
    simp only [regs, List.filterMap_cons] at h
    cases hw : w.tid with
    | none => simp [hw, regs] at h; simp [wq, hw, ih (by simpa [regs] using h)]
    | some t' =>
      simp [hw, regs] at h
      have : ¬ t' = t := fun e => h.1 e.symm
      simp [wq, hw, this, ih (by simpa [regs] using h.2)]

theorem mem_regs {t : Tid} {ws : List Warg} : t ∈ regs ws ↔ ∃ w ∈ ws, w.tid = some t := by
  simp [regs]

/-- position `i` holds `w`: split the list there -/
theorem split_at {α} : ∀ {ws : List α} {i : Nat} {w : α}, ws[i]? = some w →
    ∃ l1 l2, ws = l1 ++ w :: l2 ∧ ∀ w', ws.set i w' = l1 ++ w' :: l2
  | [], i, w, h => by simp at h
  | x :: xs, 0, w, h => by
    simp at h; subst h; exact ⟨[], xs, by simp, by simp⟩
  | x :: xs, i + 1, w, h => by
    simp at h
    obtain ⟨l1, l2, e, hs⟩ := split_at h
    exact ⟨x :: l1, l2, by simp [e], by intro w'; simp [hs w']⟩


theorem regs_cons (w : Warg) (ws : List Warg) : regs (w :: ws) = w.tid.toList ++ regs ws := by
  cases h : w.tid <;> simp [regs, h]

/-- with unique registrations the writer registered for `t` holds the whole of `wq t` -/
theorem wq_of_split {t : Tid} {l1 l2 : List Warg} {w : Warg}
    (hu : (regs (l1 ++ w :: l2)).Nodup) (ht : w.tid = some t) :
    wq t (l1 ++ w :: l2) = w.head ++ w.bufs := by
  rw [regs_append, regs_cons, ht] at hu
  simp only [Option.toList_some, List.nodup_append, List.nodup_cons, List.mem_append,
    List.mem_cons, List.singleton_append] at hu
  have h1 : t ∉ regs l1 := by
    intro hm; exact (hu.2.2 t hm t (Or.inl rfl)) rfl
  have h2 : t ∉ regs l2 := hu.2.1.1
  simp [wq_append, wq, ht, wq_nil h1, wq_nil h2]

theorem wq_replace_other {t : Tid} {l1 l2 : List Warg} {w w' : Warg}
    (h : w.tid ≠ some t) (h' : w'.tid ≠ some t) :
    wq t (l1 ++ w' :: l2) = wq t (l1 ++ w :: l2) := by
  simp [wq_append, wq, h, h']

theorem regs_replace {l1 l2 : List Warg} {w w' : Warg} (h : w'.tid = w.tid) :
    regs (l1 ++ w' :: l2) = regs (l1 ++ w :: l2) := by
  simp [regs_append, regs_cons, h]

theorem handTo_none {wb : WBuf} {ws : List Warg} : handTo wb ws = none ↔ wb.tid ∉ regs ws := by
  induction ws with
  | nil => simp [handTo, regs]
  | cons w ws ih =>
    unfold handTo
    by_cases h : w.tid = some wb.tid
    · simp [h, regs_cons]
    · have h2 : ¬ wb.tid ∈ w.tid.toList := by
        cases hw : w.tid with
        | none => simp
        | some x => simp; intro e; exact h (by rw [hw, e])
      simp only [h, if_false, regs_cons, List.mem_append, h2, false_or]
      cases hh : handTo wb ws with
      | none => simpa [hh] using ih
      | some x => simp [hh] at ih ⊢; exact ih

theorem handTo_some {wb : WBuf} {ws ws' : List Warg} (h : handTo wb ws = some ws') :
    ∃ l1 w l2, ws = l1 ++ w :: l2 ∧ w.tid = some wb.tid ∧
      ws' = l1 ++ { w with bufs := w.bufs ++ [wb] } :: l2 := by
  induction ws generalizing ws' with
  | nil => simp [handTo] at h
  | cons w ws ih =>
    unfold handTo at h
    by_cases hw : w.tid = some wb.tid
    · simp [hw] at h; exact ⟨[], w, ws, by simp, hw, by simp [← h, hw]⟩
    · simp only [hw, if_false] at h
      cases hh : handTo wb ws with
      | none => simp [hh] at h
      | some x =>
        simp [hh] at h
        obtain ⟨l1, w0, l2, e, ht, e'⟩ := ih hh
        exact ⟨w :: l1, w0, l2, by simp [e], ht, by simp [← h, e']⟩


theorem forall_mem_replace {P : Warg → Prop} {l1 l2 : List Warg} {w w' : Warg}
    (h : ∀ x ∈ l1 ++ w :: l2, P x) (hw : P w') : ∀ x ∈ l1 ++ w' :: l2, P x := by
  intro x hx
  simp only [List.mem_append, List.mem_cons] at hx h
  rcases hx with hx | hx | hx
  · exact h x (Or.inl hx)
  · exact hx ▸ hw
  · exact h x (Or.inr (Or.inr hx))

theorem mem_split {l1 l2 : List Warg} {w : Warg} : w ∈ l1 ++ w :: l2 := by simp

/-- copy_to_buffer keeps the pool invariant -/
theorem enqueue_inv {p : Pool} (wb : WBuf) (h : WInv p) : WInv (p.enqueue wb) := by
  unfold Pool.enqueue
  cases hh : handTo wb p.writers with
  | none =>
    have hn := handTo_none.mp hh
    refine ⟨?_, h.idle_empty, h.own, ?_, h.uniq⟩
    · have := h.kick; simp; omega
    · intro w hw t ht
      have hne : ¬ wb.tid = t := by
        intro e; exact hn (mem_regs.mpr ⟨w, hw, e ▸ ht⟩)
      simp [h.excl w hw t ht, hne]
  | some ws' =>
    obtain ⟨l1, w, l2, e, ht, e'⟩ := handTo_some hh
    simp only
    subst e'
    have hk := h.kick
    have h1 := h.idle_empty; have h2 := h.own; have h3 := h.excl; have h4 := h.uniq
    rw [e] at h1 h2 h3 h4
    refine ⟨hk, forall_mem_replace h1 ?_, forall_mem_replace h2 ?_, forall_mem_replace h3 ?_, ?_⟩
    · intro hn; simp [ht] at hn
    · intro t htt b hb
      simp only [ht, Option.some.injEq] at htt
      have := h2 w mem_split t (by rw [ht, htt])
      simp only [List.mem_append, List.mem_cons, List.not_mem_nil, or_false] at hb this
      rcases hb with hb | hb | hb
      · exact this b (Or.inl hb)
      · exact this b (Or.inr hb)
      · rw [hb]; exact htt
    · intro t htt; exact h3 w mem_split t htt
    · rw [regs_replace (w := w)]; exact h4; rfl

theorem filter_tid_append_singleton (l : List WBuf) (wb : WBuf) (t : Tid) :
    (l ++ [wb]).filter (fun b => b.tid = t) = l.filter (fun b => b.tid = t) ++ (if wb.tid = t then [wb] else []) := by
  by_cases h : wb.tid = t <;> simp [h]

/-- copy_to_buffer appends to the per-tid queue of the buffer's tid and to no other -/
theorem enqueue_queue {p : Pool} (wb : WBuf) (h : WInv p) (t : Tid) :
    (p.enqueue wb).queue t = p.queue t ++ (if wb.tid = t then [wb] else []) := by
  unfold Pool.enqueue
  cases hh : handTo wb p.writers with
  | none =>
    simp only [Pool.queue, filter_tid_append_singleton, List.append_assoc]
  | some ws' =>
    obtain ⟨l1, w, l2, e, ht, e'⟩ := handTo_some hh
    subst e'
    have h3 := h.excl; have h4 := h.uniq
    rw [e] at h3 h4
    simp only [Pool.queue]
    rw [e]
    by_cases htt : wb.tid = t
    · subst htt
      have hu' : (regs (l1 ++ { w with bufs := w.bufs ++ [wb] } :: l2)).Nodup := by
        rw [regs_replace (w := w)]; exact h4; rfl
      rw [wq_of_split hu' ht, wq_of_split h4 ht, h3 w mem_split _ ht]
      simp
    · have hne : w.tid ≠ some t := by rw [ht]; intro e; exact htt (Option.some.inj e)
      rw [wq_replace_other (w := w) hne (by exact hne)]
      simp [htt]


theorem idle_iff {w : Warg} : w.idle = true ↔ w.tid = none ∧ w.head = [] := by
  simp [Warg.idle, Option.isNone_iff_eq_none, List.isEmpty_iff]

theorem filter_ne_filter_eq (l : List WBuf) (a t : Tid) (h : t ≠ a) :
    (l.filter (fun b => b.tid ≠ a)).filter (fun b => b.tid = t) = l.filter (fun b => b.tid = t) := by
  rw [List.filter_filter]
  congr 1; funext b
  by_cases hb : b.tid = t
  · simp [hb, h]
  · simp [hb]

theorem filter_ne_filter_self (l : List WBuf) (a : Tid) :
    (l.filter (fun b => b.tid ≠ a)).filter (fun b => b.tid = a) = [] := by
  rw [List.filter_filter]
  simp

theorem filter_sub_nil {l : List WBuf} {a t : Tid} (h : l.filter (fun b => b.tid = t) = []) :
    (l.filter (fun b => b.tid ≠ a)).filter (fun b => b.tid = t) = [] := by
  rw [List.filter_eq_nil_iff] at h ⊢
  intro b hb
  exact h b (List.mem_filter.mp hb).1

/-- what `pick` does when the list is not empty -/
theorem pick_cons {p p' : Pool} {i : Nat} {f : Bool} {first : WBuf} {rest : List WBuf}
    (hl : p.writeList = first :: rest) (hp : p.pick i f = some p') :
    ∃ l1 w l2, p.writers = l1 ++ w :: l2 ∧ w.tid = none ∧ w.head = [] ∧
      p' = { writeList := rest.filter (fun b => b.tid ≠ first.tid),
             writers := l1 ++ { w with tid := some first.tid,
                                       head := first :: rest.filter (fun b => b.tid = first.tid) } :: l2,
             kicks := p.kicks - 1 } := by
  unfold Pool.pick at hp
  cases hw : p.writers[i]? with
  | none => simp [hw] at hp
  | some w =>
    simp only [hw] at hp
    by_cases hi : w.idle = true
    · simp only [hi, Bool.not_true, Bool.false_eq_true, if_false] at hp
      split at hp
      · simp at hp
      · rw [hl] at hp
        simp only [Option.some.injEq] at hp
        obtain ⟨l1, l2, e, hs⟩ := split_at hw
        have := idle_iff.mp hi
        exact ⟨l1, w, l2, e, this.1, this.2, by rw [← hp, hs]⟩
    · simp [hi] at hp

theorem pick_nil {p p' : Pool} {i : Nat} {f : Bool}
    (hl : p.writeList = []) (hp : p.pick i f = some p') : p' = { p with kicks := p.kicks - 1 } := by
  unfold Pool.pick at hp
  cases hw : p.writers[i]? with
  | none => simp [hw] at hp
  | some w =>
    simp only [hw] at hp
    split at hp
    · simp at hp
    · split at hp
      · simp at hp
      · split at hp
        · simp at hp; exact hp.symm
        · rename_i hfr; rw [hl] at hfr; simp at hfr

theorem first_not_reg {p : Pool} (h : WInv p) {first : WBuf} {rest : List WBuf}
    (hl : p.writeList = first :: rest) : first.tid ∉ regs p.writers := by
  intro hm
  obtain ⟨x, hx, hxt⟩ := mem_regs.mp hm
  have := h.excl x hx _ hxt
  rw [hl] at this
  simp at this

theorem pick_inv {p p' : Pool} {i : Nat} {f : Bool} (h : WInv p) (hp : p.pick i f = some p') :
    WInv p' := by
  cases hl : p.writeList with
  | nil =>
    rw [pick_nil hl hp]
    exact ⟨by simp [hl], h.idle_empty, h.own, h.excl, h.uniq⟩
  | cons first rest =>
    obtain ⟨l1, w, l2, e, hwt, hwh, e'⟩ := pick_cons hl hp
    subst e'
    have hk := h.kick
    have hnr := first_not_reg h hl
    have h1 := h.idle_empty; have h2 := h.own; have h3 := h.excl; have h4 := h.uniq
    rw [e] at h1 h2 h3 h4 hnr
    rw [hl] at hk h3
    have hwb := (h1 w mem_split hwt).2
    refine ⟨?_, forall_mem_replace h1 ?_, forall_mem_replace h2 ?_, ?_, ?_⟩
    · have := List.length_filter_le (fun b : WBuf => b.tid ≠ first.tid) rest
      simp only [List.length_cons] at hk
      simp only
      omega
    · intro hn; simp at hn
    · intro t htt b hb
      simp only [Option.some.injEq] at htt
      simp only [hwb, List.append_nil, List.mem_cons, List.mem_filter] at hb
      rcases hb with hb | hb
      · rw [hb]; exact htt
      · have := hb.2; simp at this; rw [this]; exact htt
    · intro x hx t htt
      simp only [List.mem_append, List.mem_cons] at hx
      have old : ∀ y, y ∈ l1 ++ w :: l2 → y.tid = some t →
          (rest.filter (fun b => b.tid ≠ first.tid)).filter (fun b => b.tid = t) = [] := by
        intro y hy hyt
        have := h3 y hy t hyt
        have hft : ¬ first.tid = t := by
          intro e2; rw [List.filter_cons] at this; simp [e2] at this
        rw [List.filter_cons] at this
        simp only [hft, decide_false, Bool.false_eq_true, if_false] at this
        exact filter_sub_nil this
      rcases hx with hx | hx | hx
      · exact old x (by simp [hx]) htt
      · subst hx
        simp only [Option.some.injEq] at htt
        subst htt
        exact filter_ne_filter_self rest first.tid
      · exact old x (by simp [hx]) htt
    · rw [regs_append, regs_cons, hwt] at h4 hnr
      rw [regs_append, regs_cons]
      simp only [Option.toList_none, List.nil_append, List.mem_append, not_or] at hnr
      simp only [Option.toList_none, List.nil_append, List.nodup_append] at h4
      simp only [Option.toList_some, List.singleton_append, List.nodup_append, List.nodup_cons,
        List.mem_cons]
      refine ⟨h4.1, ⟨hnr.2, h4.2.1⟩, ?_⟩
      intro a ha b hb
      rcases hb with hb | hb
      · rw [hb]; intro e2; exact hnr.1 (e2 ▸ ha)
      · exact h4.2.2 a ha b hb

/-- taking buffers off the list changes no per-tid queue -/
theorem pick_queue {p p' : Pool} {i : Nat} {f : Bool} (h : WInv p) (hp : p.pick i f = some p')
    (t : Tid) : p'.queue t = p.queue t := by
  cases hl : p.writeList with
  | nil => rw [pick_nil hl hp]; simp [Pool.queue]
  | cons first rest =>
    obtain ⟨l1, w, l2, e, hwt, hwh, e'⟩ := pick_cons hl hp
    have hinv' := pick_inv h hp
    subst e'
    have hnr := first_not_reg h hl
    have h1 := h.idle_empty
    rw [e] at h1
    have hwb := (h1 w mem_split hwt).2
    simp only [Pool.queue, hl]
    by_cases ht : t = first.tid
    · subst ht
      rw [wq_of_split hinv'.uniq rfl, wq_nil hnr, filter_ne_filter_self]
      simp [hwb]
    · rw [e]
      have hne : w.tid ≠ some t := by simp [hwt]
      have hne' : (some first.tid : Option Tid) ≠ some t := by
        intro e2; exact ht (Option.some.inj e2).symm
      rw [wq_replace_other (w := w) hne (by simpa using hne'), filter_ne_filter_eq _ _ _ ht]
      have : ¬ first.tid = t := fun e2 => ht e2.symm
      simp [this]


theorem popHead_some {p p' : Pool} {i : Nat} {wb : WBuf} (hp : p.popHead i = some (p', wb)) :
    ∃ l1 w l2 rest, p.writers = l1 ++ w :: l2 ∧ w.head = wb :: rest ∧
      p' = { p with writers := l1 ++ { w with head := rest } :: l2 } := by
  unfold Pool.popHead at hp
  cases hw : p.writers[i]? with
  | none => simp [hw] at hp
  | some w =>
    simp only [hw] at hp
    cases hh : w.head with
    | nil => simp [hh] at hp
    | cons b rest =>
      simp only [hh, Option.some.injEq, Prod.mk.injEq] at hp
      obtain ⟨l1, l2, e, hs⟩ := split_at hw
      exact ⟨l1, w, l2, rest, e, by rw [hh, hp.2], by rw [← hp.1, hs]⟩

theorem popHead_inv {p p' : Pool} {i : Nat} {wb : WBuf} (h : WInv p)
    (hp : p.popHead i = some (p', wb)) : WInv p' := by
  obtain ⟨l1, w, l2, rest, e, hh, e'⟩ := popHead_some hp
  subst e'
  have h1 := h.idle_empty; have h2 := h.own; have h3 := h.excl; have h4 := h.uniq
  rw [e] at h1 h2 h3 h4
  refine ⟨h.kick, forall_mem_replace h1 ?_, forall_mem_replace h2 ?_, forall_mem_replace h3 ?_, ?_⟩
  · intro hn
    have := (h1 w mem_split hn).1
    rw [hh] at this; simp at this
  · intro t htt b hb
    apply h2 w mem_split t htt b
    simp only [hh, List.mem_append, List.mem_cons] at hb ⊢
    rcases hb with hb | hb
    · exact Or.inl (Or.inr hb)
    · exact Or.inr hb
  · intro t htt; exact h3 w mem_split t htt
  · rw [regs_replace (w := w)]; exact h4; rfl

/-- a writer writes the head of its tid's queue -/
theorem popHead_queue {p p' : Pool} {i : Nat} {wb : WBuf} (h : WInv p)
    (hp : p.popHead i = some (p', wb)) :
    p.queue wb.tid = wb :: p'.queue wb.tid ∧ ∀ t, t ≠ wb.tid → p'.queue t = p.queue t := by
  have hinv' := popHead_inv h hp
  obtain ⟨l1, w, l2, rest, e, hh, e'⟩ := popHead_some hp
  subst e'
  have h1 := h.idle_empty; have h2 := h.own; have h4 := h.uniq
  rw [e] at h1 h2 h4
  obtain ⟨t0, hwt⟩ : ∃ t0, w.tid = some t0 := by
    cases hwt : w.tid with
    | none => have := (h1 w mem_split hwt).1; rw [hh] at this; simp at this
    | some t0 => exact ⟨t0, rfl⟩
  have hb : wb.tid = t0 := h2 w mem_split t0 hwt wb (by simp [hh])
  subst hb
  constructor
  · simp only [Pool.queue]
    rw [e, wq_of_split h4 hwt, wq_of_split hinv'.uniq (by exact hwt), hh]
    simp
  · intro t ht
    simp only [Pool.queue]
    rw [e]
    have hne : w.tid ≠ some t := by
      rw [hwt]; intro e2; exact ht (Option.some.inj e2).symm
    rw [wq_replace_other (w := w) hne (by exact hne)]

theorem splice_some {p p' : Pool} {i : Nat} (hp : p.splice i = some p') :
    ∃ l1 w l2 t0, p.writers = l1 ++ w :: l2 ∧ w.tid = some t0 ∧ w.head = [] ∧
      p' = { p with writers := l1 ++ { tid := if w.bufs.isEmpty then none else w.tid,
                                       head := w.bufs, bufs := [] } :: l2 } := by
  unfold Pool.splice at hp
  cases hw : p.writers[i]? with
  | none => simp [hw] at hp
  | some w =>
    simp only [hw] at hp
    split at hp
    · simp at hp
    · rename_i hc
      simp only [Bool.or_eq_true, Option.isNone_iff_eq_none, Bool.not_eq_eq_eq_not, Bool.not_true,
        not_or] at hc
      simp only [Option.some.injEq] at hp
      obtain ⟨l1, l2, e, hs⟩ := split_at hw
      cases hwt : w.tid with
      | none => exact absurd hwt hc.1
      | some t0 =>
        refine ⟨l1, w, l2, t0, e, hwt, ?_, by rw [← hp, hs, hwt]⟩
        have := hc.2
        simpa [List.isEmpty_iff] using this

theorem splice_inv {p p' : Pool} {i : Nat} (h : WInv p) (hp : p.splice i = some p') : WInv p' := by
  obtain ⟨l1, w, l2, t0, e, hwt, hh, e'⟩ := splice_some hp
  subst e'
  have h1 := h.idle_empty; have h2 := h.own; have h3 := h.excl; have h4 := h.uniq
  rw [e] at h1 h2 h3 h4
  refine ⟨h.kick, forall_mem_replace h1 ?_, forall_mem_replace h2 ?_, forall_mem_replace h3 ?_, ?_⟩
  · intro hn
    by_cases hb : w.bufs = []
    · simp [hb]
    · simp [hb, hwt, List.isEmpty_iff] at hn
  · intro t htt b hb
    by_cases hbb : w.bufs = []
    · simp [hbb] at hb
    · simp only [hbb, List.isEmpty_iff, if_false] at htt
      exact h2 w mem_split t htt b (by simp at hb; simp [hb])
  · intro t htt
    by_cases hbb : w.bufs = []
    · simp [hbb] at htt
    · simp only [hbb, List.isEmpty_iff, if_false] at htt
      exact h3 w mem_split t htt
  · by_cases hbb : w.bufs = []
    · rw [regs_append, regs_cons] at h4 ⊢
      simp only [hbb, List.isEmpty_nil, if_true, Option.toList_none, List.nil_append]
      rw [hwt] at h4
      exact h4.sublist (List.Sublist.append (List.Sublist.refl _) (by simp))
    · rw [regs_replace (w := w)]; exact h4
      simp [hbb, List.isEmpty_iff]

theorem splice_queue {p p' : Pool} {i : Nat} (h : WInv p) (hp : p.splice i = some p') (t : Tid) :
    p'.queue t = p.queue t := by
  have hinv' := splice_inv h hp
  obtain ⟨l1, w, l2, t0, e, hwt, hh, e'⟩ := splice_some hp
  subst e'
  have h4 := h.uniq
  rw [e] at h4
  simp only [Pool.queue]
  rw [e]
  congr 1
  by_cases ht : t = t0
  · subst ht
    rw [wq_of_split h4 hwt, hh]
    by_cases hbb : w.bufs = []
    · have hu := hinv'.uniq
      simp only [hbb, List.isEmpty_nil, if_true] at hu ⊢
      have h5 := h4
      rw [regs_append, regs_cons, hwt] at h5
      simp only [Option.toList_some, List.nodup_append, List.nodup_cons, List.mem_append,
        List.mem_cons, List.singleton_append] at h5
      apply wq_nil
      rw [regs_append, regs_cons]
      simp only [Option.toList_none, List.nil_append, List.mem_append, not_or]
      exact ⟨fun hm => (h5.2.2 t hm t (Or.inl rfl)) rfl, h5.2.1.1⟩
    · have hu := hinv'.uniq
      simp only [hbb, List.isEmpty_iff, if_false] at hu ⊢
      rw [wq_of_split hu hwt]
      simp
  · have hne : w.tid ≠ some t := by
      rw [hwt]; intro e2; exact ht (Option.some.inj e2).symm
    apply wq_replace_other hne
    by_cases hbb : w.bufs = []
    · simp [hbb]
    · simpa [hbb, List.isEmpty_iff] using hne

theorem allIdle_regs {p : Pool} (h : p.allIdle = true) : regs p.writers = [] := by
  simp only [Pool.allIdle, List.all_eq_true] at h
  simp only [regs, List.filterMap_eq_nil_iff]
  intro w hw
  exact (idle_iff.mp (h w hw)).1

theorem popRemaining_some {p p' : Pool} {wb : WBuf} (hp : p.popRemaining = some (p', wb)) :
    ∃ rest, p.allIdle = true ∧ p.writeList = wb :: rest ∧ p' = { p with writeList := rest } := by
  unfold Pool.popRemaining at hp
  split at hp
  · simp at hp
  · rename_i hi
    split at hp
    · simp at hp
    · rename_i b rest hl
      simp only [Option.some.injEq, Prod.mk.injEq] at hp
      exact ⟨rest, by simpa using hi, by rw [hl, hp.2], hp.1.symm⟩

theorem popRemaining_inv {p p' : Pool} {wb : WBuf} (h : WInv p)
    (hp : p.popRemaining = some (p', wb)) : WInv p' := by
  obtain ⟨rest, hi, hl, e'⟩ := popRemaining_some hp
  subst e'
  refine ⟨?_, h.idle_empty, h.own, ?_, h.uniq⟩
  · have := h.kick; rw [hl] at this; simp at this ⊢; omega
  · intro w hw t ht
    have := h.excl w hw t ht
    rw [hl, List.filter_cons] at this
    split at this
    · simp at this
    · exact this

theorem popRemaining_queue {p p' : Pool} {wb : WBuf}
    (hp : p.popRemaining = some (p', wb)) :
    p.queue wb.tid = wb :: p'.queue wb.tid ∧ ∀ t, t ≠ wb.tid → p'.queue t = p.queue t := by
  obtain ⟨rest, hi, hl, e'⟩ := popRemaining_some hp
  subst e'
  have hr := allIdle_regs hi
  have hq : ∀ t, wq t p.writers = [] := fun t => wq_nil (by simp [hr])
  constructor
  · simp [Pool.queue, hq, hl]
  · intro t ht
    have : ¬ wb.tid = t := fun e => ht e.symm
    simp [Pool.queue, hq, hl, this]

/-- C03: at most one writer works for a tid -/
theorem one_writer {p : Pool} (h : WInv p) (t : Tid) :
    (p.writers.filter (fun w => w.tid = some t)).length ≤ 1 := by
  have hu := h.uniq
  generalize p.writers = ws at hu
  induction ws with
  | nil => simp
  | cons w ws ih =>
    rw [regs_cons] at hu
    by_cases hw : w.tid = some t
    · have hn : t ∉ regs ws := by
        rw [hw] at hu; simp at hu; exact hu.1
      have : ws.filter (fun w => w.tid = some t) = [] := by
        rw [List.filter_eq_nil_iff]
        intro x hx hxt
        exact hn (mem_regs.mpr ⟨x, hx, by simpa using hxt⟩)
      simp [List.filter_cons, hw, this]
    · have hu2 : (regs ws).Nodup := by
        cases hwt : w.tid with
        | none => simpa [hwt] using hu
        | some x => rw [hwt] at hu; simp at hu; exact hu.2
      simp [List.filter_cons, hw, ih hu2]

/-! ### Writers.Sess: a buffer's bytes reach a data file at most once -/

theorem Sess.append_log (s : Sess) (wb : WBuf) :
    (s.append wb).log = if wb ∈ s.log then s.log else s.log ++ [wb] := by
  unfold Sess.append Sess.nonEmpty
  by_cases hc : wb ∈ s.log <;> simp [hc]

theorem Sess.append_nodup (s : Sess) (wb : WBuf) (h : s.log.Nodup) : (s.append wb).log.Nodup := by
  rw [Sess.append_log]
  by_cases hc : wb ∈ s.log
  · simp [hc, h]
  · simp only [hc, ↓reduceIte]
    rw [List.nodup_append]
    refine ⟨h, by simp, ?_⟩
    intro a ha b hb
    simp at hb
    subst hb
    intro e; subst e; exact hc ha

theorem Sess.mmapFile_log (s : Sess) (wb : WBuf) : (s.mmapFile wb).log = s.log := by
  unfold Sess.mmapFile; split <;> rfl

theorem Sess.foldl_mmapFile_log (l : List WBuf) (s : Sess) :
    (l.foldl (fun a wb => a.mmapFile wb) s).log = s.log := by
  induction l generalizing s with
  | nil => rfl
  | cons x xs ih => simp only [List.foldl_cons]; rw [ih, Sess.mmapFile_log]

theorem Sess.foldl_append_nodup (l : List WBuf) (s : Sess) (h : s.log.Nodup) :
    (l.foldl (fun a wb => a.append wb) s).log.Nodup := by
  induction l generalizing s with
  | nil => exact h
  | cons x xs ih => simp only [List.foldl_cons]; exact ih _ (Sess.append_nodup s x h)

theorem Sess.step_nodup {s s' : Sess} {op : SOp} (h : s.log.Nodup) (hs : s.step op = some s') :
    s'.log.Nodup := by
  cases op with
  | start wb => simp only [Sess.step, Option.some.injEq] at hs; subst hs; exact h
  | fin wb =>
    simp only [Sess.step, Option.some.injEq] at hs; subst hs
    unfold Sess.recEnd; rw [Sess.mmapFile_log]; exact h
  | pick i =>
    simp only [Sess.step, Sess.pick] at hs
    split at hs
    · cases hs
    · cases hp : s.pool.pick i false with
      | none => simp [hp] at hs
      | some p => simp [hp] at hs; subst hs; exact h
  | write i =>
    simp only [Sess.step, Sess.write] at hs
    split at hs
    · cases hs
    · simp only [Option.some.injEq] at hs; subst hs
      exact Sess.append_nodup _ _ h
  | splice i =>
    simp only [Sess.step, Sess.splice] at hs
    cases hp : s.pool.splice i with
    | none => simp [hp] at hs
    | some p => simp [hp] at hs; subst hs; exact h
  | stop =>
    simp only [Sess.step, Sess.stop] at hs
    split at hs
    · cases hs
    · simp only [Option.some.injEq] at hs; subst hs; exact h
  | flushAll =>
    simp only [Sess.step] at hs
    split at hs
    · simp only [Option.some.injEq] at hs; subst hs
      unfold Sess.flushAll; rw [Sess.foldl_mmapFile_log]; exact h
    · cases hs
  | remaining =>
    simp only [Sess.step] at hs
    split at hs
    · simp only [Option.some.injEq] at hs; subst hs
      unfold Sess.remaining; exact Sess.foldl_append_nodup _ _ h
    · cases hs

theorem Sess.run_nodup (ops : List SOp) (s : Sess) (h : s.log.Nodup) : (s.run ops).log.Nodup := by
  induction ops generalizing s with
  | nil => exact h
  | cons op ops ih =>
    simp only [Sess.run]
    apply ih
    cases hs : s.step op with
    | none => simpa using h
    | some s' => simpa using Sess.step_nodup h hs

end Uft.Writers
