/-
C08 — the sort comparators generated from utils/report.c by translators/c2lean.py
(`Uft.Gen.ReportC.cmp_total`, … the functions the `SORT_KEY` macro defines, and `cmp_func`) are the model's
`Key.cmp` (`Uft/Model/Report.lean`).

Mapping (`RowRel`): the members of `*a` and `*b` the comparators read hold the model rows.  `cmp_func` is
`strcmp(b->name, a->name)`; the model orders names like its keys, which enters as the hypothesis `hname`.
-/
import Uft.Model.Report
import Uft.Gen.ReportC
namespace Uft.ReportGenEq
open Uft.Report Uft.Gen.C
open Uft.Gen.ReportC (Oracles cmp_total cmp_total_avg cmp_total_min cmp_total_max cmp_self cmp_self_avg cmp_self_min
  cmp_self_max cmp_call cmp_size cmp_func)
/-- the generated field structure -/
abbrev GSt := Uft.Gen.ReportC.St

/-- `*a` and `*b` hold the model rows `a` and `b` -/
structure RowRel (a b : Row) (s : GSt) : Prop where
  a_tsum : s.a_total_sum = a.tsum
  a_tavg : s.a_total_avg = a.tavg
  a_tmin : s.a_total_min = a.tmin
  a_tmax : s.a_total_max = a.tmax
  a_ssum : s.a_self_sum = a.ssum
  a_savg : s.a_self_avg = a.savg
  a_smin : s.a_self_min = a.smin
  a_smax : s.a_self_max = a.smax
  a_call : s.a_call = a.call
  a_size : s.a_size = a.size
  b_tsum : s.b_total_sum = b.tsum
  b_tavg : s.b_total_avg = b.tavg
  b_tmin : s.b_total_min = b.tmin
  b_tmax : s.b_total_max = b.tmax
  b_ssum : s.b_self_sum = b.ssum
  b_savg : s.b_self_avg = b.savg
  b_smin : s.b_self_min = b.smin
  b_smax : s.b_self_max = b.smax
  b_call : s.b_call = b.call
  b_size : s.b_size = b.size

/-- the generated comparator of a sort key -/
def genCmp : Key → Oracles → Ptr → Ptr → GSt → GSt × Int
  | .total => cmp_total
  | .totalAvg => cmp_total_avg
  | .totalMin => cmp_total_min
  | .totalMax => cmp_total_max
  | .self => cmp_self
  | .selfAvg => cmp_self_avg
  | .selfMin => cmp_self_min
  | .selfMax => cmp_self_max
  | .call => cmp_call
  | .size => cmp_size
  | .func => cmp_func

/-- every `SORT_KEY` comparator is the model's `Key.cmp` and changes no memory -/
theorem cmp_key_eq (k : Key) (hk : k ≠ .func) (o : Oracles) (pa pb : Ptr) (a b : Row) (s : GSt)
    (hr : RowRel a b s) : genCmp k o pa pb s = (s, Key.cmp k a b) := by
  obtain ⟨a1, a2, a3, a4, a5, a6, a7, a8, a9, a10, b1, b2, b3, b4, b5, b6, b7, b8, b9, b10⟩ := hr
  cases k <;> first | exact absurd rfl hk | skip
  all_goals
    simp only [genCmp, Key.cmp, cmpNat, cmp_total, cmp_total_avg, cmp_total_min, cmp_total_max, cmp_self,
      cmp_self_avg, cmp_self_min, cmp_self_max, cmp_call, cmp_size, Id.run, pure, *]
    split <;> simp_all

/-- `cmp_func` is `strcmp(b->name, a->name)`; with names ordered like the model's keys it is `Key.cmp .func` -/
theorem cmp_func_eq (o : Oracles) (pa pb : Ptr) (a b : Row) (s : GSt)
    (hname : o.strcmp "cmp_func:1" s.b_name s.a_name = cmpNat b.key a.key) :
    genCmp .func o pa pb s = (s, Key.cmp .func a b) := by
  simp [genCmp, cmp_func, Id.run, Key.cmp, hname, pure]

end Uft.ReportGenEq
