import Uft.Lemmas.Fstack
/- C07 helper lemmas, part 3: with tracing on and no trace_on/trace_off trigger, the
   entry/exit automaton run over the eager trace of a forest shows exactly `specCalls`,
   and leaves the whole reader state as it was. -/
set_option linter.unusedSimpArgs false
set_option linter.unusedVariables false
namespace Uft.Fstack
open Uft.Mcount (Rec Trigger Call Calls evCall evCalls)

/-- no function carries a trace_on / trace_off trigger -/
def Quiet (c : RCfg) : Prop := ∀ f, (c.trig f).traceOn = false ∧ (c.trig f).traceOff = false

def envOf (s : FS) : Env := { inC := s.inCount, outC := s.outCount, budget := s.depth }

theorem enAfter_quiet (c : RCfg) (hq : Quiet c) (f : Nat) (en : Bool) : enAfter (c.trig f) en = en := by
  simp [enAfter, (hq f).1, (hq f).2]

/-- fstack_entry against the specification's `visit` -/
theorem entry_visit (c : RCfg) (hq : Quiet c) (s : FS) (hen : s.enabled = true) (f : Nat) :
    (fsEntry c s f).2 = (visit c (envOf s) f).1 ∧
    (fsEntry c s f).1.inCount = (visit c (envOf s) f).2.inC ∧
    (fsEntry c s f).1.outCount = (visit c (envOf s) f).2.outC ∧
    (fsEntry c s f).1.depth = (visit c (envOf s) f).2.budget ∧
    (fsEntry c s f).1.enabled = true ∧
    (fsEntry c s f).1.dispSet = (s.dispSet || (visit c (envOf s) f).1) ∧
    (fsEntry c s f).1.dispDepth = (if (visit c (envOf s) f).1 && !s.dispSet then s.sc - 1 else s.dispDepth) ∧
    (entryFr c s f).norecord = !(visit c (envOf s) f).1 := by
  have hoff := (hq f).2
  have hea : enAfter (c.trig f) true = true := enAfter_quiet c hq f true
  simp only [fsEntry, visit, verdict, envOf, entryFr, hen, hoff, Bool.and_false, Bool.false_eq_true,
    ↓reduceIte, Bool.not_true, hea, isIn, depthAfter]
  by_cases h1 : s.outCount > 0
  · simp [h1, Verdict.matched, Verdict.late, Verdict.norecord]
  · simp only [h1, ↓reduceIte]
    by_cases h2 : (c.trig f).filter = some false
    · -- FILTER_MODE_OUT
      simp [h2, Verdict.matched, Verdict.late, Verdict.norecord]
    · by_cases h2b : (c.trig f).filter = some true
      · -- FILTER_MODE_IN
        simp only [h2b, reduceCtorEq, ↓reduceIte, BEq.rfl, Bool.not_true, Bool.false_and, Bool.false_eq_true]
        by_cases h4 : locReject c (c.trig f) = true
        · simp [h4, Verdict.matched, Verdict.late, Verdict.norecord]
        · by_cases h5 : (decide ((c.trig f).depth.getD c.depthOpt = 0) || c.hide f) = true
          · simp [h4, h5, Verdict.matched, Verdict.late, Verdict.norecord]
          · simp [h4, h5, Verdict.matched, Verdict.late, Verdict.norecord]
      · -- no FILTER flag
        have hb : ((c.trig f).filter == some true) = false := by simpa using h2b
        simp only [h2, hb, ↓reduceIte, Bool.not_false, Bool.true_and, Bool.false_eq_true]
        by_cases h3 : c.optIn = true ∧ s.inCount = 0
        · simp [h3, Verdict.matched, Verdict.late, Verdict.norecord]
        · have h3' : (c.optIn && decide (s.inCount = 0)) = false := by
            cases ho : c.optIn <;> simp_all
          have h3'' : ¬(c.optIn = true ∧ decide (s.inCount = 0) = true) := by simpa using h3
          by_cases h4 : locReject c (c.trig f) = true
          · simp [h3', h4, Verdict.matched, Verdict.late, Verdict.norecord]
            try (split <;> simp_all)
          · by_cases h5 : (decide ((c.trig f).depth.getD s.depth = 0) || c.hide f) = true
            · simp [h3', h4, h5, Verdict.matched, Verdict.late, Verdict.norecord]
              try (split <;> simp_all)
            · simp [h3', h4, h5, Verdict.matched, Verdict.late, Verdict.norecord]
              try (split <;> simp_all)

theorem fs_ext (a b : FS) (h1 : a.inCount = b.inCount) (h2 : a.outCount = b.outCount) (h3 : a.depth = b.depth)
    (h4 : a.stack = b.stack) (h5 : a.sc = b.sc) (h6 : a.scSet = b.scSet) (h7 : a.enabled = b.enabled)
    (h8 : a.dispDepth = b.dispDepth) (h9 : a.dispSet = b.dispSet) : a = b := by
  cases a; cases b; simp_all

theorem envOf_account (s : FS) (r : Rec) : envOf (account s r) = envOf s := by
  simp only [envOf, account]; split <;> rfl

/-- the ENTRY record of a call in the report/graph/dump loop, tracing on -/
theorem stepA_entry_full (c : RCfg) (hq : Quiet c) (hnl : c.noLibcall = false) (s : FS) (r : Rec)
    (ht : r.type = 0) (hs : s.scSet = true) (hen : s.enabled = true) (hds : s.dispSet = true) :
    let v := visit c (envOf s) r.addr
    let fr := entryFr c (account s r) r.addr
    let s1 := (stepA c s r).1
    (stepA c s r).2 = (if v.1 then [shown r s.dispDepth] else []) ∧
    s1.inCount = (if fr.filtered then s.inCount + 1 else s.inCount) ∧
    s1.outCount = (if !fr.filtered && fr.notrace then s.outCount + 1 else s.outCount) ∧
    s1.stack = fr :: s.stack ∧ s1.sc = s.sc + 1 ∧ s1.scSet = true ∧ s1.enabled = true ∧ s1.dispSet = true ∧
    s1.dispDepth = (if v.1 then s.dispDepth + 1 else s.dispDepth) ∧ envOf s1 = v.2 ∧
    fr.origDepth = s.depth ∧ fr.norecord = !v.1 := by
  obtain ⟨a1, a2, a3, a4, a5, a6, a7, a8, a9⟩ := account_fields s r hs (by omega)
  obtain ⟨e1, e2, e3, e4, e5, e6, e7, e8⟩ := entry_visit c hq (account s r) (by rw [a7, hen]) r.addr
  rw [envOf_account] at e1 e2 e3 e4 e6 e7 e8
  have hplt : isPlt c r = false := by simp [isPlt, hnl]
  simp only [a9, hds, Bool.true_or, Bool.not_true, Bool.and_false, Bool.false_eq_true, ↓reduceIte, a8] at e6 e7
  have henv : envOf (fsEntry c (account s r) r.addr).1 = (visit c (envOf s) r.addr).2 := by
    simp only [envOf] at e2 e3 e4 ⊢
    rw [e2, e3, e4]
  have henv2 : envOf (updEntry (fsEntry c (account s r) r.addr).1) = (visit c (envOf s) r.addr).2 := henv
  have hst : stepA c s r =
      (if (visit c (envOf s) r.addr).1 then
         (updEntry (fsEntry c (account s r) r.addr).1, [shown r (fsEntry c (account s r) r.addr).1.dispDepth])
       else ((fsEntry c (account s r) r.addr).1, [])) := by
    simp only [stepA, ht, ↓reduceIte, hplt, Bool.false_eq_true, e1]
  have hin := fsEntry_inCount c (account s r) r.addr
  have hout := fsEntry_outCount c (account s r) r.addr
  have hstk := fsEntry_stack c (account s r) r.addr
  have hsc := fsEntry_sc c (account s r) r.addr
  rw [a3] at hin
  rw [a4] at hout
  rw [a6] at hstk
  rw [a1, a2] at hsc
  simp only [ht, ↓reduceIte] at hsc
  have hod : (entryFr c (account s r) r.addr).origDepth = s.depth := by simp [entryFr, a5]
  intro v fr s1
  show _ ∧ (stepA c s r).1.inCount = _ ∧ (stepA c s r).1.outCount = _ ∧ (stepA c s r).1.stack = _ ∧
    (stepA c s r).1.sc = _ ∧ (stepA c s r).1.scSet = _ ∧ (stepA c s r).1.enabled = _ ∧ (stepA c s r).1.dispSet = _ ∧
    (stepA c s r).1.dispDepth = _ ∧ envOf (stepA c s r).1 = _ ∧ _ ∧ _
  rw [hst]
  cases hv : (visit c (envOf s) r.addr).1 with
  | true =>
    have hv' : v.1 = true := hv
    simp only [↓reduceIte, hv']
    exact ⟨by rw [e7], hin, hout, hstk, hsc.1, hsc.2, e5, e6, by show _ + 1 = _; rw [e7], henv2, hod, by rw [e8, hv]⟩
  | false =>
    have hv' : v.1 = false := hv
    simp only [Bool.false_eq_true, ↓reduceIte, hv']
    exact ⟨trivial, hin, hout, hstk, hsc.1, hsc.2, e5, e6, e7, henv, hod, by rw [e8, hv]⟩

/-- the EXIT record of a call, tracing on: the whole reader state is back -/
theorem stepA_exit_full (c : RCfg) (hnl : c.noLibcall = false) (s s1 : FS) (r : Rec) (fr : Fr) (vis : Bool)
    (ht : r.type = 1)
    (h1 : s1.inCount = (if fr.filtered then s.inCount + 1 else s.inCount))
    (h2 : s1.outCount = (if !fr.filtered && fr.notrace then s.outCount + 1 else s.outCount))
    (h4 : s1.stack = fr :: s.stack) (h5 : s1.sc = s.sc + 1) (h6 : s1.scSet = true) (h7 : s1.enabled = true)
    (h8 : s1.dispSet = true) (h9 : s1.dispDepth = (if vis then s.dispDepth + 1 else s.dispDepth))
    (h10 : fr.origDepth = s.depth) (h11 : fr.norecord = !vis)
    (hs : s.scSet = true) (hen : s.enabled = true) (hds : s.dispSet = true) :
    stepA c s1 r = (s, if vis then [shown r s.dispDepth] else []) := by
  obtain ⟨a1, a2, a3, a4, a5, a6, a7, a8, a9⟩ := account_fields s1 r h6 (by omega)
  have hplt : isPlt c r = false := by simp [isPlt, hnl]
  unfold stepA
  simp only [ht]
  rw [if_neg (by decide : ¬ (1 : Nat) = 0), if_pos trivial]
  have htop : topFr c (account s1 r) = fr := by simp [topFr, a6, h4]
  unfold exitStep
  rw [htop, h11, a7, h7]
  cases vis with
  | true =>
    simp only [Bool.not_true, Bool.or_self, Bool.false_eq_true, ↓reduceIte, hplt]
    refine Prod.ext ?_ ?_
    · apply fs_ext <;> simp [fsExit, topFr, updExit, a6, h4, a3, a4, a1, a2, a7, a8, a9, h1, h2, h5, h7, h8, h9, h10, ht, hs, hen, hds]
      · cases fr.filtered <;> simp
      · cases fr.filtered <;> cases fr.notrace <;> simp
    · simp [updExit, a9, h8, a8, h9]
  | false =>
    simp only [Bool.not_false, Bool.true_or, ↓reduceIte, Bool.false_eq_true]
    refine Prod.ext ?_ rfl
    apply fs_ext <;> simp [fsExit, topFr, a6, h4, a3, a4, a1, a2, a7, a8, a9, h1, h2, h5, h7, h8, h9, h10, ht, hs, hen, hds]
    · cases fr.filtered <;> simp
    · cases fr.filtered <;> cases fr.notrace <;> simp

theorem run_cons (step : FS → Rec → FS × List Rec) (s : FS) (r : Rec) (rs : List Rec) :
    run step s (r :: rs) = ((run step (step s r).1 rs).1, (step s r).2 ++ (run step (step s r).1 rs).2) := rfl

mutual
/-- report / graph / dump loop over the eager trace of a call: shows `specCall`, restores the state -/
theorem specA_call (c : RCfg) (hq : Quiet c) (hnl : c.noLibcall = false) : ∀ (x : Call) (d : Nat) (s : FS),
    s.scSet = true → s.enabled = true → s.dispSet = true →
    run (stepA c) s (evCall d x) = (s, specCall c (envOf s) s.dispDepth x)
  | .node f t0 t1 kids, d, s, hs, hen, hds => by
    obtain ⟨o1, i1, i2, i4, i5, i6, i7, i8, i9, i10, i11, i12⟩ :=
      stepA_entry_full c hq hnl s { time := t0, type := 0, depth := d, addr := f } rfl hs hen hds
    simp only at o1 i1 i2 i4 i5 i6 i7 i8 i9 i10 i11 i12
    have hk := specA_calls c hq hnl kids (d + 1) _ i6 i7 i8
    have hx := stepA_exit_full c hnl s _ { time := t1, type := 1, depth := d, addr := f } _
      (visit c (envOf s) f).1 rfl i1 i2 i4 i5 i6 i7 i8 i9 i11 i12 hs hen hds
    simp only [evCall, run_append, List.singleton_append, run_cons, run, hk, o1, hx, i10, i9, specCall,
      List.append_nil]
    cases (visit c (envOf s) f).1 <;> simp [shown]
theorem specA_calls (c : RCfg) (hq : Quiet c) (hnl : c.noLibcall = false) : ∀ (xs : Calls) (d : Nat) (s : FS),
    s.scSet = true → s.enabled = true → s.dispSet = true →
    run (stepA c) s (evCalls d xs) = (s, specCalls c (envOf s) s.dispDepth xs)
  | .nil, d, s, _, _, _ => rfl
  | .cons x rest, d, s, hs, hen, hds => by
    simp only [evCalls, run_append, specA_call c hq hnl x d s hs hen hds,
      specA_calls c hq hnl rest d s hs hen hds, specCalls]
end

end Uft.Fstack
