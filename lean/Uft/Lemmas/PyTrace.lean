import Uft.Model.PyTrace
/- helper lemmas for Props/C19 -/
namespace Uft.PyTrace

variable {α : Type}

/-- the counters of a state reached from program start by a nested stream -/
def WF (c : Cfg α) (s : St) : Prop :=
  0 ≤ s.cin ∧ 0 ≤ s.cout ∧ 0 ≤ s.lib ∧ (c.gmode = .none → s.cout = 0)

/-- the environment the documented selection sees in state `s` -/
def envA (s : St) : Bool := decide (0 < s.cin)
def envB (s : St) : Bool := decide (0 < s.cout)
def envL (s : St) : Nat := s.lib.toNat

theorem wf_init (c : Cfg α) : WF c St.init := by simp [WF, St.init]

/-! ### `run` is a left fold -/

theorem run_append (c : Cfg α) : ∀ (a b : List (Ev α)) (s : St),
    run c s (a ++ b) = ((run c (run c s a).1 b).1, (run c s a).2 ++ (run c (run c s a).1 b).2)
  | [], b, s => by simp [run]
  | e :: a, b, s => by
    simp only [List.cons_append, run]
    rw [run_append c a b (stepSt c s e)]
    simp

theorem run_single (c : Cfg α) (s : St) (e : Ev α) :
    run c s [e] = (stepSt c s e, stepOut c s e) := by
  simp [run]

/-! ### what `init_filters` guarantees about `filter_state.mode` -/

theorem firstMatch_fin_any : ∀ (fs : List (Filter α)) (n : α),
    firstMatch fs n = some .fin → fs.any (fun f => f.mode == .fin) = true
  | [], n, h => by simp [firstMatch] at h
  | f :: fs, n, h => by
    simp only [firstMatch] at h
    split at h
    · simp only [Option.some.injEq] at h
      simp [h]
    · simp [firstMatch_fin_any fs n h]

theorem gmode_of_fin (c : Cfg α) (n : α) (h : firstMatch c.flist n = some .fin) :
    c.gmode = .fin := by
  unfold Cfg.flist at h
  unfold Cfg.gmode
  cases hf : c.filters with
  | none => simp [hf, firstMatch] at h
  | some fs =>
    simp only [hf] at h
    simp [firstMatch_fin_any fs n h]

theorem gmode_of_some (c : Cfg α) (n : α) (m : FMode) (h : firstMatch c.flist n = some m) :
    c.gmode ≠ .none := by
  unfold Cfg.flist at h
  unfold Cfg.gmode
  cases hf : c.filters with
  | none => simp [hf, firstMatch] at h
  | some fs =>
    simp only
    split <;> simp

theorem gmode_fout_no_fin (c : Cfg α) (n : α) (h : c.gmode = .fout) :
    firstMatch c.flist n ≠ some .fin := by
  intro hm
  rw [gmode_of_fin c n hm] at h
  cases h

/-! ### balance -/

theorem walk_append : ∀ (a b : List (Out α)) (d : Nat),
    walk d (a ++ b) = (walk d a).bind (fun d' => walk d' b)
  | [], b, d => by simp [walk]
  | .enter n :: a, b, d => by
    simp only [List.cons_append, walk]
    exact walk_append a b (d + 1)
  | .exit :: a, b, 0 => by simp [walk]
  | .exit :: a, b, d + 1 => by
    simp only [List.cons_append, walk]
    exact walk_append a b d

/-- a sequence that can be walked from depth `d` never has, in any prefix, more
    exits than `d` plus its enters -/
theorem walk_prefix : ∀ (l : List (Out α)) (d d' : Nat), walk d l = some d' →
    ∀ k, exits (l.take k) ≤ d + enters (l.take k)
  | [], d, d', _, k => by simp [exits, enters]
  | .enter n :: l, d, d', h, k => by
    cases k with
    | zero => simp [exits, enters]
    | succ k =>
      simp only [walk] at h
      have := walk_prefix l (d + 1) d' h k
      simp only [List.take_succ_cons, exits, enters]
      omega
  | .exit :: l, 0, d', h, k => by simp [walk] at h
  | .exit :: l, d + 1, d', h, k => by
    cases k with
    | zero => simp [exits, enters]
    | succ k =>
      simp only [walk] at h
      have := walk_prefix l d d' h k
      simp only [List.take_succ_cons, exits, enters]
      omega

theorem walk_counts : ∀ (l : List (Out α)) (d d' : Nat), walk d l = some d' →
    d + enters l = d' + exits l
  | [], d, d', h => by simp [walk] at h; simp [enters, exits, h]
  | .enter n :: l, d, d', h => by
    simp only [walk] at h
    have := walk_counts l (d + 1) d' h
    simp only [enters, exits]; omega
  | .exit :: l, 0, d', h => by simp [walk] at h
  | .exit :: l, d + 1, d', h => by
    simp only [walk] at h
    have := walk_counts l d d' h
    simp only [enters, exits]; omega

/- the documented selection is balanced by construction -/
mutual
theorem walk_specCall (c : Cfg α) : ∀ (t : Call α) (a b : Bool) (ld d : Nat),
    walk d (specCall c a b ld t) = some d
  | .node n k kids, a, b, ld, d => by
    simp only [specCall]
    split
    · simp only [List.cons_append, List.nil_append, walk]
      rw [walk_append, walk_specCalls c kids]
      simp [walk]
    · simp only [List.nil_append, List.append_nil]
      exact walk_specCalls c kids _ _ _ _
theorem walk_specCalls (c : Cfg α) : ∀ (ts : Calls α) (a b : Bool) (ld d : Nat),
    walk d (specCalls c a b ld ts) = some d
  | .nil, a, b, ld, d => by simp [specCalls, walk]
  | .cons x r, a, b, ld, d => by
    simp only [specCalls]
    rw [walk_append, walk_specCall c x]
    simpa using walk_specCalls c r a b ld d
end

/-! ### pseudo addresses: the table only grows at the end -/

theorem symsOf_prefix [BEq α] : ∀ (evs : List (Ev α)) (syms : List α),
    ∃ t, symsOf syms evs = syms ++ t
  | [], syms => ⟨[], by simp [symsOf]⟩
  | e :: es, syms => by
    obtain ⟨t, ht⟩ := symsOf_prefix es (intern syms e.name)
    simp only [symsOf]
    rw [ht]
    simp only [intern]
    split
    · exact ⟨t, rfl⟩
    · exact ⟨e.name :: t, by simp⟩

/-! ### one frame: the entry event, and the exit event from the state after it -/

macro "split_omega" : tactic =>
  `(tactic| (repeat' split) <;> first | omega | (simp_all <;> omega))

@[simp] theorem entry_isEntry (k : CKind) : k.entry.isEntry = true := by cases k <;> rfl
@[simp] theorem exit_isEntry (k : CKind) : k.exit.isEntry = false := by cases k <;> rfl
@[simp] theorem entry_ne_other (k : CKind) : (k.entry != EvKind.other) = true := by cases k <;> rfl
@[simp] theorem exit_ne_other (k : CKind) : (k.exit != EvKind.other) = true := by cases k <;> rfl

theorem node_step (c : Cfg α) (hf : c.fixed = true) (s : St) (hw : WF c s) (n : α) (k : CKind) :
    WF c (stepSt c s ⟨k.entry, n⟩) ∧
    envA (stepSt c s ⟨k.entry, n⟩) = (envA s || (firstMatch c.flist n == some .fin)) ∧
    envB (stepSt c s ⟨k.entry, n⟩) = (envB s || (firstMatch c.flist n == some .fout)) ∧
    envL (stepSt c s ⟨k.entry, n⟩) =
      ldNext c (selected c (envA s || (firstMatch c.flist n == some .fin))
        (envB s || (firstMatch c.flist n == some .fout))) n (envL s) ∧
    stepOut c s ⟨k.entry, n⟩ =
      (if traced c (selected c (envA s || (firstMatch c.flist n == some .fin))
        (envB s || (firstMatch c.flist n == some .fout))) n (envL s) then [.enter n] else []) ∧
    stepSt c (stepSt c s ⟨k.entry, n⟩) ⟨k.exit, n⟩ = s ∧
    stepOut c (stepSt c s ⟨k.entry, n⟩) ⟨k.exit, n⟩ =
      (if traced c (selected c (envA s || (firstMatch c.flist n == some .fin))
        (envB s || (firstMatch c.flist n == some .fout))) n (envL s) then [.exit] else []) := by
  obtain ⟨cin, cout, lib⟩ := s
  obtain ⟨h1, h2, h3, hn⟩ := hw
  simp only at h1 h2 h3 hn
  have hg1 := gmode_of_fin c n
  have hg2 := gmode_of_some c n
  cases hm : firstMatch c.flist n with
  | none =>
    cases hg : c.gmode <;> cases hl : c.lmode <;> cases hi : c.isLib n <;>
      simp [stepSt, stepOut, reaches, skipDecision, cinAfter, coutAfter, libAfter, canTrace,
        WF, envA, envB, envL, selected, traced, ldNext, hm, hg, hl, hi, hf] at hn ⊢ <;>
      split_omega
  | some fm =>
    cases fm with
    | fin =>
      have hg := hg1 hm
      cases hl : c.lmode <;> cases hi : c.isLib n <;>
      simp [stepSt, stepOut, reaches, skipDecision, cinAfter, coutAfter, libAfter, canTrace,
        WF, envA, envB, envL, selected, traced, ldNext, hm, hg, hl, hi, hf] <;>
      split_omega
    | fout =>
      have hg0 := hg2 _ hm
      cases hg : c.gmode <;> cases hl : c.lmode <;> cases hi : c.isLib n <;>
      simp [stepSt, stepOut, reaches, skipDecision, cinAfter, coutAfter, libAfter, canTrace,
        WF, envA, envB, envL, selected, traced, ldNext, hm, hg, hl, hi, hf] at hg0 ⊢ <;>
      split_omega

/-! ### the state machine on a call tree: state restored, output = documented selection -/

mutual
theorem run_call (c : Cfg α) (hf : c.fixed = true) : ∀ (t : Call α) (s : St), WF c s →
    run c s (events t) = (s, specCall c (envA s) (envB s) (envL s) t)
  | .node n k kids, s, hw => by
    obtain ⟨w1, ha, hb, hl, ho1, hs2, ho2⟩ := node_step c hf s hw n k
    simp only [events, run, specCall]
    rw [run_append, run_calls c hf kids _ w1, run_single]
    simp only [hs2, ho1, ho2, ha, hb, hl]
theorem run_calls (c : Cfg α) (hf : c.fixed = true) : ∀ (ts : Calls α) (s : St), WF c s →
    run c s (eventsL ts) = (s, specCalls c (envA s) (envB s) (envL s) ts)
  | .nil, s, _ => by simp [eventsL, run, specCalls]
  | .cons x r, s, hw => by
    simp only [eventsL, specCalls]
    rw [run_append, run_call c hf x s hw]
    simp only
    rw [run_calls c hf r s hw]
end

end Uft.PyTrace
