import Uft.Model.Net
/- C16 helper lemmas: byte order, assoc lists, read/write loops, framing. -/
namespace Uft.Net

/-! ### byte order -/

@[simp] theorem length_leEncode (w n : Nat) : (leEncode w n).length = w := by
  induction w generalizing n with
  | zero => rfl
  | succ w ih => simp [leEncode, ih]

theorem leDecode_leEncode (w n : Nat) : leDecode (leEncode w n) = n % 256 ^ w := by
  induction w generalizing n with
  | zero => simp [leEncode, leDecode, Nat.mod_one]
  | succ w ih =>
    have h8 : (UInt8.ofNat (n % 256)).toNat = n % 256 := by
      rw [UInt8.toNat_ofNat']; omega
    simp only [leEncode, leDecode, ih, h8]
    rw [Nat.pow_succ, Nat.mul_comm (256 ^ w) 256, Nat.mod_mul]

theorem leEncode_leDecode (bs : Bytes) : leEncode bs.length (leDecode bs) = bs := by
  induction bs with
  | nil => rfl
  | cons b bs ih =>
    have hb : b.toNat < 256 := b.toNat_lt
    have h1 : (b.toNat + 256 * leDecode bs) % 256 = b.toNat := by omega
    have h2 : (b.toNat + 256 * leDecode bs) / 256 = leDecode bs := by omega
    simp only [List.length_cons, leEncode, leDecode, h1, h2, ih]
    simp

theorem leDecode_lt (bs : Bytes) : leDecode bs < 256 ^ bs.length := by
  induction bs with
  | nil => simp [leDecode]
  | cons b bs ih =>
    have hb : b.toNat < 256 := b.toNat_lt
    simp only [leDecode, List.length_cons, Nat.pow_succ]
    omega

@[simp] theorem length_hostEncode (le : Bool) (w n : Nat) : (hostEncode le w n).length = w := by
  cases le <;> simp [hostEncode]

@[simp] theorem length_netEncode (w n : Nat) : (netEncode w n).length = w := by
  simp [netEncode]

theorem hostEncode_hostDecode (le : Bool) (bs : Bytes) :
    hostEncode le bs.length (hostDecode le bs) = bs := by
  cases le
  · have := leEncode_leDecode bs.reverse
    simp only [List.length_reverse] at this
    simp [hostEncode, hostDecode, this]
  · simp [hostEncode, hostDecode, leEncode_leDecode]

theorem hostDecode_lt (le : Bool) (bs : Bytes) : hostDecode le bs < 256 ^ bs.length := by
  cases le
  · have := leDecode_lt bs.reverse
    simpa [hostDecode] using this
  · simpa [hostDecode] using leDecode_lt bs

theorem netDecode_netEncode (w n : Nat) : netDecode (netEncode w n) = n % 256 ^ w := by
  simp [netDecode, netEncode, leDecode_leEncode]

/-- the memory image of `hton(v)` is the big-endian encoding of `v` -/
theorem mem_hton (le : Bool) (w v : Nat) : hostEncode le w (hton le w v) = netEncode w v := by
  have := hostEncode_hostDecode le (netEncode w v)
  simpa [hton] using this

/-- `ntoh` of a value read from memory is the big-endian value of those bytes -/
theorem ntoh_mem (le : Bool) (bs : Bytes) : ntoh le bs.length (hostDecode le bs) = netDecode bs := by
  simp [ntoh, hostEncode_hostDecode]

theorem ntoh_hton (le : Bool) (w v : Nat) : ntoh le w (hton le w v) = v % 256 ^ w := by
  simp [ntoh, mem_hton, netDecode_netEncode]

theorem inPlace_length (le : Bool) (f : Bool → Nat → Nat → Nat) (b : Bytes) :
    (inPlace le f b).length = b.length := by
  simp [inPlace]

theorem inPlace_ntoh_hton (le : Bool) (b : Bytes) : inPlace le ntoh (inPlace le hton b) = b := by
  have h1 : inPlace le hton b = netEncode b.length (hostDecode le b) := by
    simp [inPlace, mem_hton]
  rw [h1]
  have h2 := ntoh_mem le (netEncode b.length (hostDecode le b))
  simp only [length_netEncode] at h2
  simp only [inPlace, length_netEncode, h2, netDecode_netEncode]
  rw [Nat.mod_eq_of_lt (hostDecode_lt le b)]
  exact hostEncode_hostDecode le b

/-! ### writev_all / write_all / read_all -/

theorem advance_spec (iovs : List Bytes) (ret : Nat) (h : ret ≤ iovs.flatten.length)
    (hne : iovs ≠ []) :
    ∃ iovs', advance ret iovs = some iovs' ∧ iovs'.flatten = iovs.flatten.drop ret := by
  induction iovs generalizing ret with
  | nil => exact absurd rfl hne
  | cons v vs ih =>
    simp only [List.flatten_cons, List.length_append] at h
    by_cases hgt : ret > v.length
    · have hvs : vs ≠ [] := by
        intro hnil; subst hnil; simp at h; omega
      obtain ⟨iovs', h1, h2⟩ := ih (ret - v.length) (by omega) hvs
      refine ⟨iovs', ?_, ?_⟩
      · simp [advance, hgt, h1]
      · rw [h2, List.flatten_cons, List.drop_append]
        have : List.drop ret v = [] := List.drop_eq_nil_of_le (by omega)
        simp [this]
    · refine ⟨v.drop ret :: vs, ?_, ?_⟩
      · simp [advance, hgt]
      · have : ret - v.length = 0 := by omega
        simp [List.drop_append, this]

theorem sum_length_eq (iovs : List Bytes) : (iovs.map List.length).sum = iovs.flatten.length := by
  simp [List.length_flatten]

/-- loop invariant of writev_all: `size` always equals what the (advanced)
    iovec array still holds, so every byte is written once, in order. -/
theorem writevLoop_spec (sched : List WOut) (iovs : List Bytes) (size : Nat) (acc : Bytes)
    (hs : size = iovs.flatten.length) :
    (∃ k, k ≤ iovs.flatten.length ∧ (writevLoop sched iovs size acc).2.1 = acc ++ iovs.flatten.take k) ∧
    ((writevLoop sched iovs size acc).1 = .ok → (writevLoop sched iovs size acc).2.1 = acc ++ iovs.flatten) ∧
    (writevLoop sched iovs size acc).1 ≠ .badcount := by
  induction sched generalizing iovs size acc with
  | nil =>
    cases size with
    | zero =>
      have h0 : iovs.flatten = [] := List.eq_nil_of_length_eq_zero hs.symm
      simp [writevLoop, h0]
    | succ n => exact ⟨⟨0, by omega, by simp [writevLoop]⟩, by simp [writevLoop], by simp [writevLoop]⟩
  | cons o s ih =>
    cases size with
    | zero =>
      have h0 : iovs.flatten = [] := List.eq_nil_of_length_eq_zero hs.symm
      simp [writevLoop, h0]
    | succ n =>
      cases o with
      | eintr => simpa [writevLoop] using ih iovs (n + 1) acc hs
      | err => exact ⟨⟨0, by omega, by simp [writevLoop]⟩, by simp [writevLoop], by simp [writevLoop]⟩
      | wrote k =>
        simp only [writevLoop]
        by_cases hz : n + 1 - min k iovs.flatten.length = 0
        · have hk : iovs.flatten.length ≤ min k iovs.flatten.length := by omega
          simp only [hz, ↓reduceIte]
          refine ⟨⟨min k iovs.flatten.length, Nat.min_le_right _ _, rfl⟩, ?_, by simp⟩
          intro _
          rw [List.take_of_length_le hk]
        · simp only [hz, ↓reduceIte]
          have hne : iovs ≠ [] := by
            intro hnil; subst hnil; simp at hs
          obtain ⟨iovs', h1, h2⟩ := advance_spec iovs (min k iovs.flatten.length)
            (Nat.min_le_right _ _) hne
          simp only [h1]
          have hs' : n + 1 - min k iovs.flatten.length = iovs'.flatten.length := by
            rw [h2, List.length_drop]; omega
          obtain ⟨⟨j, hj, hjw⟩, hok, hbad⟩ :=
            ih iovs' (n + 1 - min k iovs.flatten.length)
              (acc ++ List.take (min k iovs.flatten.length) iovs.flatten) hs'
          refine ⟨⟨min k iovs.flatten.length + j, ?_, ?_⟩, ?_, hbad⟩
          · rw [h2, List.length_drop] at hj; omega
          · rw [hjw, h2, List.append_assoc, List.take_add]
          · intro h
            rw [hok h, h2, List.append_assoc, List.take_append_drop]

def progress : List WOut → Nat
  | [] => 0
  | .wrote n :: s => n + progress s
  | _ :: s => progress s

def noErr : List WOut → Bool
  | [] => true
  | .err :: _ => false
  | _ :: s => noErr s

theorem writevLoop_completes (sched : List WOut) (iovs : List Bytes) (size : Nat) (acc : Bytes)
    (hs : size = iovs.flatten.length) (hne : noErr sched = true) (hp : size ≤ progress sched) :
    (writevLoop sched iovs size acc).1 = .ok := by
  induction sched generalizing iovs size acc with
  | nil =>
    cases size with
    | zero => simp [writevLoop]
    | succ n => simp [progress] at hp
  | cons o s ih =>
    cases size with
    | zero => simp [writevLoop]
    | succ n =>
      cases o with
      | eintr => simpa [writevLoop] using ih iovs (n + 1) acc hs (by simpa [noErr] using hne) (by simpa [progress] using hp)
      | err => simp [noErr] at hne
      | wrote k =>
        simp only [writevLoop]
        by_cases hz : n + 1 - min k iovs.flatten.length = 0
        · simp only [hz, ↓reduceIte]
        · simp only [hz, ↓reduceIte]
          have hne' : iovs ≠ [] := by
            intro hnil; subst hnil; simp at hs
          obtain ⟨iovs', h1, h2⟩ := advance_spec iovs (min k iovs.flatten.length)
            (Nat.min_le_right _ _) hne'
          simp only [h1]
          apply ih
          · rw [h2, List.length_drop]; omega
          · simpa [noErr] using hne
          · simp only [progress] at hp; omega

theorem writeLoop_spec (sched : List WOut) (buf acc : Bytes) :
    (∃ k, (writeLoop sched buf acc).2.1 = acc ++ buf.take k) ∧
    ((writeLoop sched buf acc).1 = .ok → (writeLoop sched buf acc).2.1 = acc ++ buf) := by
  induction sched generalizing buf acc with
  | nil =>
    cases buf with
    | nil => simp [writeLoop]
    | cons b bs => exact ⟨⟨0, by simp [writeLoop]⟩, by simp [writeLoop]⟩
  | cons o s ih =>
    cases buf with
    | nil => simp [writeLoop]
    | cons b bs =>
      cases o with
      | eintr => simpa [writeLoop] using ih (b :: bs) acc
      | err => exact ⟨⟨0, by simp [writeLoop]⟩, by simp [writeLoop]⟩
      | wrote k =>
        simp only [writeLoop]
        obtain ⟨⟨j, hj⟩, hok⟩ := ih ((b :: bs).drop k) (acc ++ (b :: bs).take k)
        refine ⟨⟨k + j, ?_⟩, ?_⟩
        · rw [hj, List.append_assoc, List.take_add]
        · intro h
          rw [hok h, List.append_assoc, List.take_append_drop]

theorem readAll_spec (n : Nat) (segs : List Bytes) (h : n ≤ segs.flatten.length) :
    ∃ rest, readAll n segs = some (segs.flatten.take n, rest) ∧ rest.flatten = segs.flatten.drop n := by
  induction segs generalizing n with
  | nil =>
    have : n = 0 := by simpa using h
    subst this
    exact ⟨[], by simp [readAll]⟩
  | cons seg rest ih =>
    cases n with
    | zero => exact ⟨seg :: rest, by simp [readAll]⟩
    | succ n =>
      simp only [List.flatten_cons, List.length_append] at h
      by_cases hle : seg.length ≤ n + 1
      · obtain ⟨r, h1, h2⟩ := ih (n + 1 - seg.length) (by omega)
        refine ⟨r, ?_, ?_⟩
        · simp only [readAll, hle, ↓reduceIte, h1, Option.map_some, List.flatten_cons]
          rw [List.take_append, List.take_of_length_le hle]
        · rw [h2, List.flatten_cons, List.drop_append]
          have : List.drop (n + 1) seg = [] := List.drop_eq_nil_of_le hle
          simp [this]
      · refine ⟨seg.drop (n + 1) :: rest, ?_, ?_⟩
        · simp only [readAll, hle, ↓reduceIte, List.flatten_cons]
          rw [List.take_append_of_le_length (by omega)]
        · have : n + 1 - seg.length = 0 := by omega
          simp [List.drop_append, this]

theorem readAll_none (n : Nat) (segs : List Bytes) (h : segs.flatten.length < n) :
    readAll n segs = none := by
  induction segs generalizing n with
  | nil =>
    cases n with
    | zero => simp at h
    | succ n => rfl
  | cons seg rest ih =>
    cases n with
    | zero => simp at h
    | succ n =>
      simp only [List.flatten_cons, List.length_append] at h
      have hle : seg.length ≤ n + 1 := by omega
      simp [readAll, hle, ih (n + 1 - seg.length) (by omega)]

/-- reading a known prefix -/
theorem readAll_app (segs : List Bytes) (a b : Bytes) (h : segs.flatten = a ++ b) :
    ∃ rest, readAll a.length segs = some (a, rest) ∧ rest.flatten = b := by
  obtain ⟨rest, h1, h2⟩ := readAll_spec a.length segs (by simp [h])
  refine ⟨rest, ?_, ?_⟩
  · rw [h1, h]; simp
  · rw [h2, h]; simp

/-! ### framing: the raw receiver on an encoded message -/

theorem wire_val (le : Bool) (w v : Nat) :
    ntoh le w (hostDecode le (hostEncode le w (hton le w v))) = v % 256 ^ w := by
  rw [mem_hton]
  have := ntoh_mem le (netEncode w v)
  simp only [length_netEncode] at this
  rw [this, netDecode_netEncode]

theorem asInt_small {u : Nat} (h : u < 2 ^ 31) : asInt u = (u : Int) := by
  have h1 : u % 2 ^ 32 = u := Nat.mod_eq_of_lt (by omega)
  simp only [asInt, toInt32, h1]
  simp [h]

theorem toInt32_mod (u : Nat) : toInt32 (u % 2 ^ 32) = toInt32 u := by
  simp [toInt32]

@[simp] theorem length_msgHdr (le : Bool) (t l : Nat) : (msgHdr le t l).length = 8 := by
  simp [msgHdr]

theorem msgHdr_fields (le : Bool) (t l : Nat) :
    (msgHdr le t l).take 2 = hostEncode le 2 (hton le 2 MSG_MAGIC) ∧
    ((msgHdr le t l).drop 2).take 2 = hostEncode le 2 (hton le 2 t) ∧
    (msgHdr le t l).drop 4 = hostEncode le 4 (hton le 4 l) := by
  simp only [msgHdr, List.append_assoc]
  refine ⟨List.take_left' (by simp), ?_, ?_⟩
  · rw [List.drop_left' (by simp)]
    exact List.take_left' (by simp)
  · rw [← List.append_assoc]
    exact List.drop_left' (by simp)

theorem recvRaw_hdr (le fixed : Bool) (s : Server) (sock : Nat) (segs : List Bytes)
    (type len : Nat) (body : Bytes) (htype : type < 65536) (hlen : len < 2 ^ 32)
    (h : segs.flatten = msgHdr le type len ++ body) :
    ∃ segs0, segs0.flatten = body ∧
      recvRaw le fixed s sock segs = recvBody le fixed s sock type len segs0 := by
  obtain ⟨segs0, h1, h2⟩ := readAll_app segs _ _ h
  rw [length_msgHdr] at h1
  refine ⟨segs0, h2, ?_⟩
  obtain ⟨f1, f2, f3⟩ := msgHdr_fields le type len
  simp only [recvRaw, h1, f1, f2, f3, wire_val]
  have hm : MSG_MAGIC % 256 ^ 2 = MSG_MAGIC := by decide
  have ht : type % 256 ^ 2 = type := Nat.mod_eq_of_lt (by omega)
  have hl : len % 256 ^ 4 = len := Nat.mod_eq_of_lt (by omega)
  simp [hm, ht, hl]

theorem recvIdData_enc (le : Bool) (s : Server) (sock : Nat) (segs0 : List Bytes) (id : Nat)
    (buf tail : Bytes) (name : Nat → Bytes) (hid : id < 2 ^ 32) (hlen : 4 + buf.length < 2 ^ 31)
    (h : segs0.flatten = hostEncode le 4 (hton le 4 id) ++ (buf ++ tail)) :
    ∃ rest, rest.flatten = tail ∧
      recvIdData le s sock (4 + buf.length) segs0 name =
        match findClient s sock with
        | none => .fatal
        | some c => Raw.ofOpt (writeClientFile s c (name id) buf) rest false := by
  obtain ⟨segs1, h1, h2⟩ := readAll_app segs0 _ _ h
  rw [length_hostEncode] at h1
  obtain ⟨segs2, h3, h4⟩ := readAll_app segs1 _ _ h2
  refine ⟨segs2, h4, ?_⟩
  have hsub : 4 + buf.length - 4 = buf.length := by omega
  have hi : id % 256 ^ 4 = id := Nat.mod_eq_of_lt (by omega)
  have hneg : ¬ ((4 + buf.length : Nat) : Int) - 4 < 0 := by omega
  simp only [recvIdData, h1, wire_val, hi, asInt_small hlen, hsub, h3]
  cases findClient s sock with
  | none => rfl
  | some c =>
    simp only []
    rw [if_neg hneg]

/-! ### the file header conversion -/

theorem hdrMap_app (g : Bytes → Bytes) (a v hs e f i m u : Bytes)
    (ha : a.length = 8) (hv : v.length = 4) (hhs : hs.length = 2) (he : e.length = 2)
    (hf : f.length = 8) (hi : i.length = 8) (hm : m.length = 2) :
    hdrMap g (a ++ (v ++ (hs ++ (e ++ (f ++ (i ++ (m ++ u))))))) =
      a ++ (g v ++ (g hs ++ (e ++ (g f ++ (g i ++ (g m ++ u)))))) := by
  simp only [hdrMap, List.take_left' ha, List.drop_left' ha, List.take_left' hv, List.drop_left' hv,
    List.take_left' hhs, List.drop_left' hhs, List.take_left' he, List.drop_left' he,
    List.take_left' hf, List.drop_left' hf, List.take_left' hi, List.drop_left' hi,
    List.take_left' hm, List.drop_left' hm]

theorem hdrMap_length (g : Bytes → Bytes) (hg : ∀ b, (g b).length = b.length) (h : Bytes) :
    (hdrMap g h).length = h.length := by
  simp only [hdrMap, List.length_append, hg, List.length_take, List.length_drop]
  omega

theorem hdrMap_id (g : Bytes → Bytes) (hg : ∀ b, g b = b) (h : Bytes) : hdrMap g h = h := by
  simp only [hdrMap, hg, List.take_append_drop]

theorem hdrMap_comp (g1 g2 : Bytes → Bytes) (hg : ∀ b, (g1 b).length = b.length) (h : Bytes)
    (hl : h.length = 40) : hdrMap g2 (hdrMap g1 h) = hdrMap (fun b => g2 (g1 b)) h := by
  conv => lhs; arg 2; simp only [hdrMap]
  rw [hdrMap_app]
  · rfl
  all_goals simp only [hg, List.length_take, List.length_drop]; omega

theorem hdr_roundtrip (le : Bool) (h : Bytes) (hl : h.length = 40) :
    hdrMap (inPlace le ntoh) (hdrMap (inPlace le hton) h) = h := by
  rw [hdrMap_comp _ _ (inPlace_length le hton) h hl]
  exact hdrMap_id _ (inPlace_ntoh_hton le) h

/-! ### one whole message through the raw receiver -/

theorem recvRaw_encode (le fixed : Bool) (s : Server) (sock : Nat) (segs : List Bytes) (m : Msg)
    (tail : Bytes) (hwf : m.WF) (h : segs.flatten = encode le m ++ tail) :
    ∃ rest, rest.flatten = tail ∧
      recvRaw le fixed s sock segs =
        Raw.ofOpt (applyMsg fixed s sock m) rest (decide (m = .end_)) := by
  cases m with
  | dirName name =>
    simp only [encode, iovsOf, List.flatten_cons, List.flatten_nil, List.append_nil,
      List.append_assoc] at h
    simp only [Msg.WF] at hwf
    obtain ⟨segs0, h0, hr⟩ := recvRaw_hdr le fixed s sock segs T_DIR_NAME name.length _
      (by decide) (by omega) h
    obtain ⟨segs1, h1, h2⟩ := readAll_app segs0 _ _ h0
    refine ⟨segs1, h2, ?_⟩
    have hneg : ¬ ((name.length : Nat) : Int) < 0 := by omega
    rw [hr]
    simp only [recvBody, ↓reduceIte, asInt_small hwf, h1]
    rw [if_neg hneg]
    simp
  | data tid buf =>
    simp only [encode, iovsOf, List.flatten_cons, List.flatten_nil, List.append_nil,
      List.append_assoc] at h
    simp only [Msg.WF] at hwf
    obtain ⟨segs0, h0, hr⟩ := recvRaw_hdr le fixed s sock segs T_DATA (4 + buf.length) _
      (by decide) (by omega) h
    obtain ⟨rest, h1, h2⟩ := recvIdData_enc le s sock segs0 tid buf tail dataName hwf.1 hwf.2 h0
    refine ⟨rest, h1, ?_⟩
    rw [hr]
    simp only [recvBody, T_DATA, T_DIR_NAME, Nat.reduceEqDiff, ↓reduceIte, h2, applyMsg, fileOf]
    cases findClient s sock <;> simp [Raw.ofOpt]
  | kernel cpu buf =>
    simp only [encode, iovsOf, List.flatten_cons, List.flatten_nil, List.append_nil,
      List.append_assoc] at h
    simp only [Msg.WF] at hwf
    obtain ⟨segs0, h0, hr⟩ := recvRaw_hdr le fixed s sock segs T_KERNEL (4 + buf.length) _
      (by decide) (by omega) h
    obtain ⟨rest, h1, h2⟩ := recvIdData_enc le s sock segs0 cpu buf tail kernelName hwf.1 hwf.2 h0
    refine ⟨rest, h1, ?_⟩
    rw [hr]
    simp only [recvBody, T_KERNEL, T_DATA, T_DIR_NAME, Nat.reduceEqDiff, ↓reduceIte, h2, applyMsg,
      fileOf]
    cases findClient s sock <;> simp [Raw.ofOpt]
  | perf cpu buf =>
    simp only [encode, iovsOf, List.flatten_cons, List.flatten_nil, List.append_nil,
      List.append_assoc] at h
    simp only [Msg.WF] at hwf
    obtain ⟨segs0, h0, hr⟩ := recvRaw_hdr le fixed s sock segs T_PERF (4 + buf.length) _
      (by decide) (by omega) h
    obtain ⟨rest, h1, h2⟩ := recvIdData_enc le s sock segs0 cpu buf tail perfName hwf.1 hwf.2 h0
    refine ⟨rest, h1, ?_⟩
    rw [hr]
    simp only [recvBody, T_PERF, T_KERNEL, T_DATA, T_DIR_NAME, Nat.reduceEqDiff, ↓reduceIte, h2,
      applyMsg, fileOf]
    cases findClient s sock <;> simp [Raw.ofOpt]
  | info hdr inf =>
    simp only [encode, iovsOf, List.flatten_cons, List.flatten_nil, List.append_nil,
      List.append_assoc] at h
    simp only [Msg.WF] at hwf
    obtain ⟨hl, hlen⟩ := hwf
    obtain ⟨segs0, h0, hr⟩ := recvRaw_hdr le fixed s sock segs T_INFO (HDR_SIZE + inf.length) _
      (by decide) (by omega) h
    obtain ⟨segs1, h1, h2⟩ := readAll_app segs0 _ _ h0
    rw [hdrMap_length _ (inPlace_length le hton), hl] at h1
    obtain ⟨segs2, h3, h4⟩ := readAll_app segs1 _ _ h2
    refine ⟨segs2, h4, ?_⟩
    have hsub : HDR_SIZE + inf.length - HDR_SIZE = inf.length := by omega
    have hneg : ¬ ((HDR_SIZE + inf.length : Nat) : Int) - (HDR_SIZE : Nat) < 0 := by omega
    rw [hr]
    simp only [recvBody, T_INFO, T_PERF, T_KERNEL, T_DATA, T_DIR_NAME, Nat.reduceEqDiff, ↓reduceIte,
      applyMsg, fileOf]
    cases findClient s sock with
    | none => simp [Raw.ofOpt]
    | some c =>
      simp only [h1, hdr_roundtrip le hdr hl, asInt_small hlen, hsub, h3]
      rw [if_neg hneg]
      simp
  | file name content =>
    simp only [encode, iovsOf, List.flatten_cons, List.flatten_nil, List.append_nil,
      List.append_assoc] at h
    simp only [Msg.WF] at hwf
    obtain ⟨segs0, h0, hr⟩ := recvRaw_hdr le fixed s sock segs T_META
      (4 + name.length + content.length) _ (by decide) (by omega) h
    obtain ⟨segs1, h1, h2⟩ := readAll_app segs0 _ _ h0
    rw [length_hostEncode] at h1
    obtain ⟨segs2, h3, h4⟩ := readAll_app segs1 _ _ h2
    obtain ⟨segs3, h5, h6⟩ := readAll_app segs2 _ _ h4
    refine ⟨segs3, h6, ?_⟩
    have hn : name.length % 256 ^ 4 = name.length := Nat.mod_eq_of_lt (by omega)
    have hnl : name.length < 2 ^ 31 := by omega
    have hsub : 4 + name.length + content.length - (4 + name.length) = content.length := by omega
    rw [hr]
    simp only [recvBody, T_META, T_INFO, T_PERF, T_KERNEL, T_DATA, T_DIR_NAME, Nat.reduceEqDiff,
      ↓reduceIte, applyMsg, fileOf]
    cases findClient s sock with
    | none => simp [Raw.ofOpt]
    | some c =>
      simp only [h1, wire_val, hn, asInt_small hnl, asInt_small hwf, Int.toNat_natCast, h3, hsub, h5]
      have c1 : ¬ ((name.length : Nat) : Int) > ((4 + name.length + content.length : Nat) : Int) := by
        omega
      have c2 : ¬ ((name.length : Nat) : Int) < 0 := by omega
      have c3 : ¬ ((4 + name.length + content.length : Nat) : Int) - (4 + ((name.length : Nat) : Int)) < 0 := by
        omega
      rw [if_neg c1, if_neg c2, if_neg c3]
      simp
  | end_ =>
    simp only [encode, iovsOf, List.flatten_cons, List.flatten_nil, List.append_nil,
      List.append_assoc] at h
    obtain ⟨segs0, h0, hr⟩ := recvRaw_hdr le fixed s sock segs T_END 0 _ (by decide) (by omega) h
    refine ⟨segs0, h0, ?_⟩
    rw [hr]
    simp [recvBody, T_END, T_META, T_INFO, T_PERF, T_KERNEL, T_DATA, T_DIR_NAME, applyMsg, Raw.ofOpt]

/-! ### a whole connection -/

theorem encode_ne_nil (le : Bool) (m : Msg) : encode le m ≠ [] := by
  intro h
  have h8 := congrArg List.length h
  cases m <;> simp [encode, iovsOf] at h8 <;> omega

theorem recvConn_encode (le fixed : Bool) (ms : List Msg) (s : Server) (sock : Nat)
    (segs : List Bytes) (fuel : Nat) (hwf : ∀ m ∈ ms, m.WF) (hfuel : ms.length ≤ fuel)
    (h : segs.flatten = (ms.map (encode le)).flatten) :
    recvConn le fixed fuel s sock segs = runConn fixed s sock ms := by
  induction ms generalizing s segs fuel with
  | nil =>
    cases fuel with
    | zero => rfl
    | succ f =>
      have h0 : segs.flatten = [] := by simpa using h
      simp only [recvConn, runConn, h0, ↓reduceIte]
  | cons m ms ih =>
    cases fuel with
    | zero => simp at hfuel
    | succ f =>
      simp only [List.map_cons, List.flatten_cons] at h
      have hne : segs.flatten ≠ [] := by
        rw [h]; intro h0
        exact encode_ne_nil le m (List.append_eq_nil_iff.mp h0).1
      obtain ⟨rest, hr, he⟩ := recvRaw_encode le fixed s sock segs m _
        (hwf m (List.mem_cons_self ..)) h
      simp only [recvConn, hne, ↓reduceIte, he, runConn]
      cases applyMsg fixed s sock m with
      | none => rfl
      | some s' =>
        simp only [Raw.ofOpt, decide_eq_true_eq]
        by_cases hm : m = .end_
        · simp [hm]
        · simp only [hm, ↓reduceIte]
          exact ih s' rest f (fun x hx => hwf x (List.mem_cons_of_mem _ hx))
            (by simpa using hfuel) hr

/-! ### association lists -/

theorem aget_aset_eq {α : Type} (l : List (Bytes × α)) (f : Bytes) (x : α) :
    aget (aset l f x) f = some x := by
  induction l with
  | nil => simp [aset, aget]
  | cons p r ih =>
    obtain ⟨k, v⟩ := p
    by_cases hk : k = f <;> simp [aset, aget, hk, ih]

theorem aget_aset_ne {α : Type} (l : List (Bytes × α)) {f g : Bytes} (x : α) (h : g ≠ f) :
    aget (aset l f x) g = aget l g := by
  induction l with
  | nil => simp [aset, aget, Ne.symm h]
  | cons p r ih =>
    obtain ⟨k, v⟩ := p
    by_cases hk : k = f
    · subst hk; simp [aset, aget, Ne.symm h]
    · by_cases hg : k = g
      · subst hg; simp [aset, aget, hk]
      · simp [aset, aget, hk, hg, ih]

theorem aget_aerase_ne {α : Type} (l : List (Bytes × α)) {f g : Bytes} (h : g ≠ f) :
    aget (aerase l f) g = aget l g := by
  induction l with
  | nil => rfl
  | cons p r ih =>
    obtain ⟨k, v⟩ := p
    by_cases hk : k = f
    · subst hk; simp [aerase, aget, Ne.symm h, ih]
    · by_cases hg : k = g
      · subst hg; simp [aerase, aget, hk]
      · simp [aerase, aget, hk, hg, ih]

theorem aget_append (d : Dir) (f data g : Bytes) :
    aget (d.append f data) g =
      if g = f then some ((aget d f).getD [] ++ data) else aget d g := by
  unfold Dir.append
  by_cases hg : g = f
  · subst hg
    cases h : aget d g <;> simp [aget_aset_eq]
  · cases h : aget d f <;> simp [hg, aget_aset_ne _ _ hg]

/-! ### received files: concatenation of the payloads; equality with the local path -/

/-- the payloads addressed to file `g`, in order -/
def partsFor (g : Bytes) (ms : List Msg) : List Bytes :=
  ms.filterMap fun m =>
    match fileOf m with
    | some (f, data) => if f = g then some data else none
    | none => none

/-- a file that existed (or not) before, after appending `parts` -/
def combine (o : Option Bytes) (parts : List Bytes) : Option Bytes :=
  if parts = [] then o else some (o.getD [] ++ parts.flatten)

theorem foldl_dirStep_get (ms : List Msg) (d : Dir) (g : Bytes) :
    aget (ms.foldl dirStep d) g = combine (aget d g) (partsFor g ms) := by
  induction ms generalizing d with
  | nil => simp [partsFor, combine]
  | cons m ms ih =>
    simp only [List.foldl_cons, ih]
    cases hf : fileOf m with
    | none => simp [dirStep, hf, partsFor]
    | some p =>
      obtain ⟨f, data⟩ := p
      simp only [dirStep, hf, aget_append]
      by_cases hg : f = g
      · subst hg
        have hp : partsFor f (m :: ms) = data :: partsFor f ms := by
          simp [partsFor, hf]
        rw [hp]
        by_cases hn : partsFor f ms = [] <;> simp [combine, hn]
      · have hg' : ¬ g = f := fun h => hg h.symm
        have hp : partsFor g (m :: ms) = partsFor g ms := by
          simp [partsFor, hf, hg]
        rw [hp]; simp [hg']

/-- name of a file the recorder writes once and sends with send_trace_metadata /
    send_trace_info -/
def metaName : Msg → Option Bytes
  | .info _ _ => some infoName
  | .file n _ => some n
  | _ => none

/-- every metadata file is sent once, and no other message addresses it -/
def MetaOnce : List Msg → Prop
  | [] => True
  | m :: ms =>
    (∀ n, metaName m = some n → ∀ m' ∈ ms, ∀ f data, fileOf m' = some (f, data) → f ≠ n) ∧
    (∀ m' ∈ ms, ∀ n, metaName m' = some n → ∀ f data, fileOf m = some (f, data) → f ≠ n) ∧
    MetaOnce ms

theorem metaName_fileOf {m : Msg} {n : Bytes} (h : metaName m = some n) :
    ∃ data, fileOf m = some (n, data) ∧ ∀ d, localStep d m = aset d n data := by
  cases m <;> simp [metaName] at h
  · subst h; exact ⟨_, rfl, fun _ => rfl⟩
  · subst h; exact ⟨_, rfl, fun _ => rfl⟩

theorem appendMsg_local {m : Msg} (h : metaName m = none) (d : Dir) :
    localStep d m = dirStep d m := by
  cases m <;> simp [metaName] at h <;> rfl

theorem local_eq (ms : List Msg) (d d' : Dir) (heq : ∀ g, aget d g = aget d' g)
    (hfree : ∀ m ∈ ms, ∀ n, metaName m = some n → aget d n = none) (hon : MetaOnce ms) (g : Bytes) :
    aget (ms.foldl dirStep d) g = aget (ms.foldl localStep d') g := by
  induction ms generalizing d d' with
  | nil => exact heq g
  | cons m ms ih =>
    obtain ⟨h1, h2, h3⟩ := hon
    simp only [List.foldl_cons]
    cases hm : metaName m with
    | none =>
      rw [appendMsg_local hm]
      apply ih _ _ _ _ h3
      · intro x
        cases hf : fileOf m with
        | none => simp [dirStep, hf, heq]
        | some p => obtain ⟨f, data⟩ := p; simp [dirStep, hf, aget_append, heq]
      · intro m' hm' n hn
        have hfr := hfree m' (List.mem_cons_of_mem _ hm') n hn
        cases hf : fileOf m with
        | none => simpa [dirStep, hf] using hfr
        | some p =>
          obtain ⟨f, data⟩ := p
          have hne : ¬ n = f := fun e => h2 m' hm' n hn f data hf e.symm
          simp [dirStep, hf, aget_append, hne, hfr]
    | some n =>
      obtain ⟨data, hf, hl⟩ := metaName_fileOf hm
      have hnone := hfree m (List.mem_cons_self ..) n hm
      apply ih _ _ _ _ h3
      · intro x
        rw [hl]
        by_cases hx : x = n
        · subst hx; simp [dirStep, hf, aget_append, hnone, aget_aset_eq]
        · simp [dirStep, hf, aget_append, hx, aget_aset_ne _ _ hx, heq]
      · intro m' hm' n' hn'
        have hfr := hfree m' (List.mem_cons_of_mem _ hm') n' hn'
        obtain ⟨data', hf', _⟩ := metaName_fileOf hn'
        have hne : ¬ n' = n := h1 n hm m' hm' n' data' hf'
        simp [dirStep, hf, aget_append, hne, hfr]

/-! ### isolation of clients -/

/-- connected clients have pairwise different directories -/
def DistinctDirs : List Client → Prop
  | [] => True
  | c :: r => (∀ c' ∈ r, c'.dir ≠ c.dir) ∧ DistinctDirs r

theorem distinct_of_mem {l : List Client} (D : DistinctDirs l) {c c' : Client} (hc : c ∈ l)
    (hc' : c' ∈ l) (hs : c'.sock ≠ c.sock) : c'.dir ≠ c.dir := by
  induction l with
  | nil => simp at hc
  | cons x r ih =>
    obtain ⟨D1, D2⟩ := D
    rcases List.mem_cons.mp hc with rfl | hcr
    · rcases List.mem_cons.mp hc' with rfl | hcr'
      · exact absurd rfl hs
      · exact D1 c' hcr'
    · rcases List.mem_cons.mp hc' with rfl | hcr'
      · exact fun e => D1 c hcr e.symm
      · exact ih D2 hcr hcr'

theorem map_aget_aset_ne (l : List Client) (fs : List (Bytes × Dir)) (x : Bytes) (new : Dir)
    (h : ∀ c ∈ l, c.dir ≠ x) :
    l.map (fun c => aget (aset fs x new) c.dir) = l.map (fun c => aget fs c.dir) := by
  apply List.map_congr_left
  intro c hc
  exact aget_aset_ne _ _ (h c hc)

theorem createDir_get_other (fs : List (Bytes × Dir)) (n g : Bytes) (h1 : g ≠ n)
    (h2 : g ≠ dotOld n) : aget (createDir fs n) g = aget fs g := by
  unfold createDir
  cases aget fs n with
  | none => simp [aget_aset_ne _ _ h1]
  | some d => simp [aget_aset_ne _ _ h1, aget_aset_ne _ _ h2, aget_aerase_ne _ h2]

theorem createDir_get_self (fs : List (Bytes × Dir)) (n : Bytes) :
    aget (createDir fs n) n = some freshDir := by
  unfold createDir
  cases aget fs n <;> simp [aget_aset_eq]

theorem inUse_false {s : Server} {n : Bytes} (h : inUse s n = false) :
    ∀ c ∈ s.clients, c.dir ≠ n ∧ c.dir ≠ dotOld n := by
  intro c hc
  simp only [inUse, List.any_eq_false] at h
  have := h c hc
  simpa using this

theorem pickName_free {s : Server} {n : Bytes} {fuel k : Nat} {n' : Bytes}
    (h : pickName s n fuel k = some n') : inUse s n' = false := by
  induction fuel generalizing k with
  | zero => simp [pickName] at h
  | succ f ih =>
    simp only [pickName] at h
    by_cases hu : inUse s (candName n k) = true
    · simp only [hu, ↓reduceIte] at h; exact ih h
    · simp only [hu] at h
      simp only [Bool.false_eq_true, ↓reduceIte, Option.some.injEq] at h
      subst h; simpa using hu

theorem mem_delClient {l : List Client} {sock : Nat} {c : Client} (h : c ∈ delClient l sock) :
    c ∈ l := by
  induction l with
  | nil => simp [delClient] at h
  | cons x r ih =>
    simp only [delClient] at h
    by_cases hx : x.sock = sock
    · simp only [hx, ↓reduceIte] at h; exact List.mem_cons_of_mem _ h
    · simp only [hx, ↓reduceIte] at h
      rcases List.mem_cons.mp h with rfl | hr
      · exact List.mem_cons_self ..
      · exact List.mem_cons_of_mem _ (ih hr)

theorem distinct_delClient {l : List Client} (sock : Nat) (D : DistinctDirs l) :
    DistinctDirs (delClient l sock) := by
  induction l with
  | nil => simp [delClient, DistinctDirs]
  | cons x r ih =>
    obtain ⟨D1, D2⟩ := D
    simp only [delClient]
    by_cases hx : x.sock = sock
    · simpa [hx] using D2
    · simp only [hx, ↓reduceIte]
      exact ⟨fun c' hc' => D1 c' (mem_delClient hc'), ih D2⟩

theorem filter_delClient_ne (l : List Client) {sock k : Nat} (h : k ≠ sock) :
    (delClient l sock).filter (fun c => c.sock == k) = l.filter (fun c => c.sock == k) := by
  induction l with
  | nil => rfl
  | cons x r ih =>
    simp only [delClient]
    by_cases hx : x.sock = sock
    · have hne : ¬ sock = k := fun e => h e.symm
      simp [hx, List.filter_cons, hne]
    · simp [hx, List.filter_cons, ih]

theorem filter_delClient_eq (l : List Client) (sock : Nat) :
    (delClient l sock).filter (fun c => c.sock == sock) =
      (l.filter (fun c => c.sock == sock)).drop 1 := by
  induction l with
  | nil => rfl
  | cons x r ih =>
    simp only [delClient]
    by_cases hx : x.sock = sock
    · simp [hx, List.filter_cons]
    · have : (x.sock == sock) = false := by simp [hx]
      simp [hx, List.filter_cons, this, ih]

theorem write_obs_own (clients : List Client) (fs : List (Bytes × Dir)) (sock : Nat) (c : Client)
    (new : Dir) (D : DistinctDirs clients)
    (hfind : clients.find? (fun c => c.sock == sock) = some c) :
    (clients.filter (fun c => c.sock == sock)).map (fun c' => aget (aset fs c.dir new) c'.dir) =
      some new :: ((clients.filter (fun c => c.sock == sock)).map (fun c' => aget fs c'.dir)).drop 1 ∧
    ((clients.filter (fun c => c.sock == sock)).map (fun c' => aget fs c'.dir)).head? =
      some (aget fs c.dir) := by
  induction clients with
  | nil => simp at hfind
  | cons x r ih =>
    obtain ⟨D1, D2⟩ := D
    by_cases hx : (x.sock == sock) = true
    · simp only [List.find?_cons, hx, Option.some.injEq] at hfind
      subst hfind
      simp only [List.filter_cons, hx, ↓reduceIte, List.map_cons, aget_aset_eq, List.drop_succ_cons,
        List.drop_zero, List.head?_cons, and_true, List.cons.injEq, true_and]
      exact map_aget_aset_ne _ fs _ new (fun c' hc' => D1 c' (List.mem_filter.mp hc').1)
    · have hx' : (x.sock == sock) = false := by simpa using hx
      simp only [List.find?_cons, hx'] at hfind
      simpa [List.filter_cons, hx'] using ih D2 hfind

theorem applyMsg_file {m : Msg} {f data : Bytes} (hf : fileOf m = some (f, data)) (fixed : Bool)
    (s : Server) (sock : Nat) :
    applyMsg fixed s sock m = (findClient s sock).bind fun c => writeClientFile s c f data := by
  cases m <;> simp [fileOf] at hf <;> obtain ⟨rfl, rfl⟩ := hf <;>
    cases hc : findClient s sock <;> simp [applyMsg, fileOf, hc]

theorem ownStep_file {m : Msg} {f data : Bytes} (hf : fileOf m = some (f, data)) (d : Dir)
    (st : List (Option Dir)) : ownStep (some d :: st) m = some (d.append f data) :: st := by
  cases m <;> simp [fileOf] at hf <;> obtain ⟨rfl, rfl⟩ := hf <;> simp [ownStep, dirStep, fileOf]

theorem applyMsg_obs_file (fixed : Bool) (s s' : Server) (sock : Nat) (m : Msg) (f data : Bytes)
    (hf : fileOf m = some (f, data)) (D : DistinctDirs s.clients)
    (h : applyMsg fixed s sock m = some s') :
    DistinctDirs s'.clients ∧ (∀ k, k ≠ sock → obs s' k = obs s k) ∧
      obs s' sock = ownStep (obs s sock) m := by
  rw [applyMsg_file hf] at h
  cases hc : findClient s sock with
  | none => simp [hc] at h
  | some c =>
    simp only [hc, Option.bind_some, writeClientFile] at h
    cases hd : aget s.fs c.dir with
    | none => simp [hd] at h
    | some d =>
      simp only [hd, Option.some.injEq] at h
      subst h
      have hcm : c ∈ s.clients := List.mem_of_find?_eq_some hc
      have hcs : c.sock = sock := by
        have := List.find?_some hc; simpa using this
      refine ⟨D, ?_, ?_⟩
      · intro k hk
        simp only [obs]
        apply map_aget_aset_ne
        intro c' hc'
        obtain ⟨hm', hs'⟩ := List.mem_filter.mp hc'
        have : c'.sock = k := by simpa using hs'
        exact distinct_of_mem D hcm hm' (by omega)
      · obtain ⟨h1, h2⟩ := write_obs_own s.clients s.fs sock c (d.append f data) D hc
        simp only [obs, h1]
        generalize hl : (s.clients.filter (fun c => c.sock == sock)).map (fun c' => aget s.fs c'.dir) = l at h2
        cases l with
        | nil => simp at h2
        | cons o st =>
          simp only [List.head?_cons, Option.some.injEq] at h2
          subst h2
          rw [hd, ownStep_file hf]
          rfl

theorem applyMsg_obs_dirName (s : Server) (sock : Nat) (n' : Bytes) (D : DistinctDirs s.clients)
    (hfree : inUse s n' = false) :
    let s' : Server := { clients := { sock := sock, dir := n' } :: s.clients, fs := createDir s.fs n' }
    DistinctDirs s'.clients ∧ (∀ k, k ≠ sock → obs s' k = obs s k) ∧
      obs s' sock = some freshDir :: obs s sock := by
  have hf := inUse_false hfree
  have hmap : ∀ l : List Client, (∀ c ∈ l, c ∈ s.clients) →
      l.map (fun c => aget (createDir s.fs n') c.dir) = l.map (fun c => aget s.fs c.dir) := by
    intro l hl
    apply List.map_congr_left
    intro c hc
    exact createDir_get_other _ _ _ (hf c (hl c hc)).1 (hf c (hl c hc)).2
  refine ⟨⟨fun c' hc' => (hf c' hc').1, D⟩, ?_, ?_⟩
  · intro k hk
    have hne : ¬ sock = k := fun e => hk e.symm
    simp only [obs, List.filter_cons, beq_iff_eq, hne, ↓reduceIte]
    exact hmap _ (fun c hc => (List.mem_filter.mp hc).1)
  · simp only [obs, List.filter_cons, beq_self_eq_true, ↓reduceIte, List.map_cons,
      createDir_get_self, List.cons.injEq, true_and]
    exact hmap _ (fun c hc => (List.mem_filter.mp hc).1)

theorem applyMsg_obs (fixed : Bool) (s s' : Server) (sock : Nat) (m : Msg)
    (D : DistinctDirs s.clients)
    (hsafe : fixed = true ∨ ∀ n, m = .dirName n → inUse s n = false)
    (h : applyMsg fixed s sock m = some s') :
    DistinctDirs s'.clients ∧ (∀ k, k ≠ sock → obs s' k = obs s k) ∧
      obs s' sock = ownStep (obs s sock) m := by
  cases m with
  | dirName n =>
    simp only [applyMsg] at h
    cases fixed with
    | true =>
      simp only [↓reduceIte] at h
      cases hp : pickName s n (2 * s.clients.length + 2) 0 with
      | none => simp [hp] at h
      | some n' =>
        simp only [hp, Option.some.injEq] at h
        subst h
        simpa [ownStep] using applyMsg_obs_dirName s sock n' D (pickName_free hp)
    | false =>
      have hfree : inUse s n = false := by
        rcases hsafe with h0 | h0
        · cases h0
        · exact h0 n rfl
      simp only [Bool.false_eq_true, ↓reduceIte, Option.some.injEq] at h
      subst h
      simpa [ownStep] using applyMsg_obs_dirName s sock n D hfree
  | end_ =>
    simp only [applyMsg, Option.some.injEq] at h
    subst h
    refine ⟨distinct_delClient sock D, ?_, ?_⟩
    · intro k hk
      simp only [obs, filter_delClient_ne _ hk]
    · simp only [obs, filter_delClient_eq, ownStep, List.map_drop]
  | data tid buf => exact applyMsg_obs_file fixed s s' sock _ _ _ rfl D h
  | kernel cpu buf => exact applyMsg_obs_file fixed s s' sock _ _ _ rfl D h
  | perf cpu buf => exact applyMsg_obs_file fixed s s' sock _ _ _ rfl D h
  | info hdr inf => exact applyMsg_obs_file fixed s s' sock _ _ _ rfl D h
  | file name content => exact applyMsg_obs_file fixed s s' sock _ _ _ rfl D h

/-- the messages of one connection -/
def proj (k : Nat) (evs : List (Nat × Msg)) : List Msg :=
  (evs.filter fun e => e.1 == k).map (·.2)

theorem run_obs (fixed : Bool) (evs : List (Nat × Msg)) (s s' : Server)
    (D : DistinctDirs s.clients) (hsafe : fixed = true ∨ safeRun s evs = true)
    (h : run fixed s evs = some s') (k : Nat) :
    DistinctDirs s'.clients ∧ obs s' k = (proj k evs).foldl ownStep (obs s k) := by
  induction evs generalizing s with
  | nil =>
    simp only [run, Option.some.injEq] at h
    subst h
    exact ⟨D, rfl⟩
  | cons e evs ih =>
    obtain ⟨sock, m⟩ := e
    simp only [run] at h
    cases ha : applyMsg fixed s sock m with
    | none => simp [ha] at h
    | some s1 =>
      simp only [ha] at h
      have hs1 : fixed = true ∨ ∀ n, m = .dirName n → inUse s n = false := by
        rcases hsafe with h0 | h0
        · exact Or.inl h0
        · right
          intro n hn
          subst hn
          simp only [safeRun, Bool.and_eq_true, Bool.not_eq_eq_eq_not, Bool.not_true] at h0
          exact h0.1
      obtain ⟨D1, hother, hown⟩ := applyMsg_obs fixed s s1 sock m D hs1 ha
      have hs2 : fixed = true ∨ safeRun s1 evs = true := by
        cases fixed with
        | true => exact Or.inl rfl
        | false =>
          rcases hsafe with h0 | h0
          · cases h0
          · right
            simp only [safeRun, ha, Bool.and_eq_true] at h0
            exact h0.2
      obtain ⟨D2, ho⟩ := ih s1 D1 hs2 h
      refine ⟨D2, ?_⟩
      rw [ho]
      by_cases hk : k = sock
      · subst hk
        simp [proj, List.filter_cons, hown]
      · have hne : ¬ sock = k := fun e => hk e.symm
        simp [proj, List.filter_cons, hne, hother k hk]

/-- messages a client sends between SEND_DIR_NAME and SEND_END -/
def Msg.plain : Msg → Bool
  | .dirName _ => false
  | .end_ => false
  | _ => true

theorem foldl_ownStep_plain (ms : List Msg) (d : Dir) (st : List (Option Dir))
    (hp : ∀ m ∈ ms, m.plain = true) :
    ms.foldl ownStep (some d :: st) = some (ms.foldl dirStep d) :: st := by
  induction ms generalizing d with
  | nil => rfl
  | cons m ms ih =>
    have hm := hp m (List.mem_cons_self ..)
    have h1 : ownStep (some d :: st) m = some (dirStep d m) :: st := by
      cases m <;> simp [Msg.plain] at hm <;> rfl
    simp only [List.foldl_cons, h1]
    exact ih _ (fun x hx => hp x (List.mem_cons_of_mem _ hx))

theorem plain_fileOf {m : Msg} (hp : m.plain = true) : ∃ f data, fileOf m = some (f, data) := by
  cases m <;> simp [Msg.plain] at hp <;> exact ⟨_, _, rfl⟩

theorem obs_head {s : Server} {sock : Nat} {d : Dir} {st : List (Option Dir)}
    (h : obs s sock = some d :: st) :
    ∃ c, findClient s sock = some c ∧ aget s.fs c.dir = some d := by
  unfold obs at h
  unfold findClient
  generalize s.clients = l at h
  induction l with
  | nil => simp at h
  | cons x r ih =>
    by_cases hx : (x.sock == sock) = true
    · simp only [List.filter_cons, hx, ↓reduceIte, List.map_cons, List.cons.injEq] at h
      exact ⟨x, by simp [List.find?_cons, hx], h.1⟩
    · have hx' : (x.sock == sock) = false := by simpa using hx
      simp only [List.filter_cons, hx'] at h
      obtain ⟨c, hc, hd⟩ := ih h
      exact ⟨c, by simp [List.find?_cons, hx', hc], hd⟩

theorem plain_step (fixed : Bool) (s : Server) (sock : Nat) (m : Msg) (d : Dir)
    (st : List (Option Dir)) (D : DistinctDirs s.clients) (hp : m.plain = true)
    (ho : obs s sock = some d :: st) :
    ∃ s', applyMsg fixed s sock m = some s' ∧ DistinctDirs s'.clients ∧
      obs s' sock = some (dirStep d m) :: st := by
  obtain ⟨f, data, hf⟩ := plain_fileOf hp
  obtain ⟨c, hc, hd⟩ := obs_head ho
  have happ : applyMsg fixed s sock m =
      some { s with fs := aset s.fs c.dir (d.append f data) } := by
    rw [applyMsg_file hf]; simp [hc, writeClientFile, hd]
  obtain ⟨D', _, hown⟩ := applyMsg_obs_file fixed s _ sock m f data hf D happ
  refine ⟨_, happ, D', ?_⟩
  rw [hown, ho, ownStep_file hf]
  simp [dirStep, hf]

theorem runConn_plain (fixed : Bool) (ms : List Msg) (s : Server) (sock : Nat) (d : Dir)
    (st : List (Option Dir)) (D : DistinctDirs s.clients) (hp : ∀ m ∈ ms, m.plain = true)
    (ho : obs s sock = some d :: st) :
    ∃ s', runConn fixed s sock ms = some s' ∧ obs s' sock = some (ms.foldl dirStep d) :: st := by
  induction ms generalizing s d with
  | nil => exact ⟨s, rfl, ho⟩
  | cons m ms ih =>
    have hm := hp m (List.mem_cons_self ..)
    obtain ⟨s1, h1, D1, o1⟩ := plain_step fixed s sock m d st D hm ho
    obtain ⟨s2, h2, o2⟩ := ih s1 (dirStep d m) D1 (fun x hx => hp x (List.mem_cons_of_mem _ hx)) o1
    have hne : m ≠ .end_ := by
      intro e; subst e; simp [Msg.plain] at hm
    exact ⟨s2, by simp [runConn, h1, hne, h2], by simpa using o2⟩

theorem applyMsg_dirName_init (fixed : Bool) (sock : Nat) (n : Bytes) :
    applyMsg fixed Server.init sock (.dirName n) =
      some { clients := [{ sock := sock, dir := n }], fs := createDir [] n } := by
  cases fixed <;> simp [applyMsg, Server.init, pickName, inUse, candName]

/-! ### interleavings -/

/-- merge two event lists; `true` takes from the first -/
def interleave {α : Type} : List Bool → List α → List α → List α
  | [], xs, ys => xs ++ ys
  | true :: s, x :: xs, ys => x :: interleave s xs ys
  | true :: s, [], ys => interleave s [] ys
  | false :: s, xs, y :: ys => y :: interleave s xs ys
  | false :: s, xs, [] => interleave s xs []

theorem filter_interleave_left {α : Type} (p : α → Bool) (s : List Bool) (xs ys : List α)
    (hx : ∀ x ∈ xs, p x = true) (hy : ∀ y ∈ ys, p y = false) :
    (interleave s xs ys).filter p = xs := by
  induction s generalizing xs ys with
  | nil =>
    simp only [interleave, List.filter_append]
    rw [List.filter_eq_self.mpr hx, List.filter_eq_nil_iff.mpr (by simpa using hy)]
    simp
  | cons b s ih =>
    cases b with
    | true =>
      cases xs with
      | nil => simpa [interleave] using ih [] ys (by simp) hy
      | cons x xs =>
        simp only [interleave, List.filter_cons, hx x (List.mem_cons_self ..), ↓reduceIte,
          List.cons.injEq, true_and]
        exact ih xs ys (fun z hz => hx z (List.mem_cons_of_mem _ hz)) hy
    | false =>
      cases ys with
      | nil => simpa [interleave] using ih xs [] hx (by simp)
      | cons y ys =>
        simp only [interleave, List.filter_cons, hy y (List.mem_cons_self ..)]
        exact ih xs ys hx (fun z hz => hy z (List.mem_cons_of_mem _ hz))

theorem filter_interleave_right {α : Type} (p : α → Bool) (s : List Bool) (xs ys : List α)
    (hx : ∀ x ∈ xs, p x = false) (hy : ∀ y ∈ ys, p y = true) :
    (interleave s xs ys).filter p = ys := by
  induction s generalizing xs ys with
  | nil =>
    simp only [interleave, List.filter_append]
    rw [List.filter_eq_self.mpr hy, List.filter_eq_nil_iff.mpr (by simpa using hx)]
    simp
  | cons b s ih =>
    cases b with
    | true =>
      cases xs with
      | nil => simpa [interleave] using ih [] ys (by simp) hy
      | cons x xs =>
        simp only [interleave, List.filter_cons, hx x (List.mem_cons_self ..)]
        exact ih xs ys (fun z hz => hx z (List.mem_cons_of_mem _ hz)) hy
    | false =>
      cases ys with
      | nil => simpa [interleave] using ih xs [] hx (by simp)
      | cons y ys =>
        simp only [interleave, List.filter_cons, hy y (List.mem_cons_self ..), ↓reduceIte,
          List.cons.injEq, true_and]
        exact ih xs ys hx (fun z hz => hy z (List.mem_cons_of_mem _ hz))

theorem popAt_map {α β : Type} (f : α → β) (i : Nat) (qs : List (List α)) :
    popAt i (qs.map (·.map f)) =
      (popAt i qs).map fun p => (f p.1, p.2.map (·.map f)) := by
  induction qs generalizing i with
  | nil => cases i <;> rfl
  | cons q qs ih =>
    cases i with
    | zero => cases q <;> simp [popAt]
    | succ i =>
      simp only [List.map_cons, popAt, ih]
      cases popAt i qs <;> simp

theorem mergeBy_map {α β : Type} (f : α → β) (sched : List Nat) (qs : List (List α)) :
    mergeBy sched (qs.map (·.map f)) = (mergeBy sched qs).map f := by
  induction sched generalizing qs with
  | nil => simp [mergeBy, List.map_flatten]
  | cons i sched ih =>
    simp only [mergeBy, popAt_map]
    cases popAt i qs with
    | none => simpa using ih qs
    | some p => simp [ih]

theorem popAt_mem {α : Type} {i : Nat} {qs qs' : List (List α)} {x : α}
    (h : popAt i qs = some (x, qs')) (y : α) : y ∈ qs.flatten ↔ (y = x ∨ y ∈ qs'.flatten) := by
  induction qs generalizing i qs' with
  | nil => cases i <;> simp [popAt] at h
  | cons q qs ih =>
    cases i with
    | zero =>
      cases q with
      | nil => simp [popAt] at h
      | cons a q' =>
        simp only [popAt, Option.some.injEq, Prod.mk.injEq] at h
        obtain ⟨rfl, rfl⟩ := h
        simp [or_assoc]
    | succ i =>
      simp only [popAt] at h
      cases hp : popAt i qs with
      | none => simp [hp] at h
      | some p =>
        obtain ⟨x', qs1⟩ := p
        simp only [hp, Option.map_some, Option.some.injEq, Prod.mk.injEq] at h
        obtain ⟨rfl, rfl⟩ := h
        have := ih hp
        simp only [List.flatten_cons, List.mem_append, this]
        constructor
        · rintro (h1 | h1 | h1)
          · exact Or.inr (Or.inl h1)
          · exact Or.inl h1
          · exact Or.inr (Or.inr h1)
        · rintro (h1 | h1 | h1)
          · exact Or.inr (Or.inl h1)
          · exact Or.inl h1
          · exact Or.inr (Or.inr h1)

theorem mem_mergeBy {α : Type} (sched : List Nat) (qs : List (List α)) (y : α) :
    y ∈ mergeBy sched qs ↔ y ∈ qs.flatten := by
  induction sched generalizing qs with
  | nil => simp [mergeBy]
  | cons i sched ih =>
    simp only [mergeBy]
    cases hp : popAt i qs with
    | none => simpa using ih qs
    | some p =>
      obtain ⟨x, qs'⟩ := p
      simp only [List.mem_cons, ih qs', popAt_mem hp y]

/-! ### names of the per-cpu files -/

/-- value of a string of decimal digits -/
def dval (bs : Bytes) : Nat := bs.foldl (fun a b => a * 10 + (b.toNat - 48)) 0

def isDig (b : UInt8) : Bool := decide (48 ≤ b.toNat) && decide (b.toNat ≤ 57)

theorem dval_snoc (a : Bytes) (d : UInt8) : dval (a ++ [d]) = dval a * 10 + (d.toNat - 48) := by
  simp [dval, List.foldl_append]

theorem digit_toNat (n : Nat) : (UInt8.ofNat (48 + n % 10)).toNat = 48 + n % 10 := by
  simp [UInt8.toNat_ofNat']
  omega

/-- `%u`: the digits printed for `n` stand in front of the accumulator, are not empty, are digits, and read
    back as `n` -/
theorem decBytesAux_spec : ∀ fuel n acc, n < fuel →
    ∃ ds, decBytesAux fuel n acc = ds ++ acc ∧ ds ≠ [] ∧ (∀ b ∈ ds, isDig b = true) ∧ dval ds = n
  | 0, n, _, h => by omega
  | fuel + 1, n, acc, h => by
    unfold decBytesAux
    simp only []
    have hd : isDig (UInt8.ofNat (48 + n % 10)) = true := by
      simp only [isDig, digit_toNat, Bool.and_eq_true, decide_eq_true_eq]; omega
    split
    · rename_i h0
      refine ⟨[UInt8.ofNat (48 + n % 10)], rfl, by simp, ?_, ?_⟩
      · intro b hb; rw [List.mem_singleton.mp hb]; exact hd
      · simp only [dval, List.foldl, digit_toNat]; omega
    · rename_i h0
      obtain ⟨ds, h1, _, h3, h4⟩ := decBytesAux_spec fuel (n / 10) (UInt8.ofNat (48 + n % 10) :: acc) (by omega)
      refine ⟨ds ++ [UInt8.ofNat (48 + n % 10)], by rw [h1, List.append_assoc]; rfl, by simp, ?_, ?_⟩
      · intro b hb
        rcases List.mem_append.mp hb with hb | hb
        · exact h3 b hb
        · rw [List.mem_singleton.mp hb]; exact hd
      · rw [dval_snoc, h4, digit_toNat]
        omega

theorem decBytes_spec (n : Nat) :
    decBytes n ≠ [] ∧ (∀ b ∈ decBytes n, isDig b = true) ∧ dval (decBytes n) = n := by
  obtain ⟨ds, h1, h2, h3, h4⟩ := decBytesAux_spec (n + 1) n [] (by omega)
  simp only [List.append_nil] at h1
  unfold decBytes
  rw [h1]
  exact ⟨h2, h3, h4⟩

theorem decBytes_inj {a b : Nat} (h : decBytes a = decBytes b) : a = b := by
  have := congrArg dval h
  rwa [(decBytes_spec a).2.2, (decBytes_spec b).2.2] at this

/-- the first character of `%d`: a digit or the minus sign -/
theorem fmtInt_head (i : Int) : ∃ c r, fmtInt i = c :: r ∧ (c = 45 ∨ isDig c = true) := by
  unfold fmtInt
  split
  · exact ⟨45, _, rfl, Or.inl rfl⟩
  · obtain ⟨hne, hd, _⟩ := decBytes_spec i.natAbs
    cases hc : decBytes i.natAbs with
    | nil => exact absurd hc hne
    | cons c r => exact ⟨c, r, rfl, Or.inr (hd c (by simp [hc]))⟩

theorem fmtInt_inj {i j : Int} (h : fmtInt i = fmtInt j) : i = j := by
  unfold fmtInt at h
  obtain ⟨_, hdi, _⟩ := decBytes_spec i.natAbs
  obtain ⟨_, hdj, _⟩ := decBytes_spec j.natAbs
  split at h <;> split at h
  · have := decBytes_inj (List.cons.inj h).2; omega
  · rename_i hi hj
    cases hc : decBytes j.natAbs with
    | nil => exact absurd hc (decBytes_spec _).1
    | cons c r =>
      rw [hc] at h
      have h45 : c = 45 := (List.cons.inj h).1.symm
      have := hdj c (by simp [hc])
      subst h45
      simp [isDig] at this
  · rename_i hi hj
    cases hc : decBytes i.natAbs with
    | nil => exact absurd hc (decBytes_spec _).1
    | cons c r =>
      rw [hc] at h
      have h45 : c = 45 := (List.cons.inj h).1
      have := hdi c (by simp [hc])
      subst h45
      simp [isDig] at this
  · have := decBytes_inj h; omega

theorem toInt32_inj {a b : Nat} (ha : a < 2 ^ 32) (hb : b < 2 ^ 32) (h : toInt32 a = toInt32 b) : a = b := by
  unfold toInt32 at h
  rw [Nat.mod_eq_of_lt ha, Nat.mod_eq_of_lt hb] at h
  split at h <;> split at h <;> omega

/-- different cpus, different files -/
theorem perfName_inj {a b : Nat} (ha : a < 2 ^ 32) (hb : b < 2 ^ 32) (h : perfName a = perfName b) : a = b := by
  unfold perfName at h
  have h1 := List.append_cancel_right h
  have h2 := List.append_cancel_left h1
  exact toInt32_inj ha hb (fmtInt_inj h2)

theorem perfName_ne_dataName (cpu tid : Nat) : dataName tid ≠ perfName cpu := by
  intro h
  obtain ⟨c, r, hc, hd⟩ := fmtInt_head (toInt32 tid)
  simp only [dataName, perfName, hc, List.cons_append] at h
  have : c = 112 := (List.cons.inj h).1
  subst this
  rcases hd with hd | hd
  · exact absurd hd (by decide)
  · simp [isDig] at hd

theorem perfName_ne_kernelName (cpu c : Nat) : kernelName c ≠ perfName cpu := by
  intro h
  simp only [kernelName, perfName, List.cons_append] at h
  exact absurd (List.cons.inj h).1 (by decide)

theorem perfName_ne_infoName (cpu : Nat) : infoName ≠ perfName cpu := by
  intro h
  simp only [infoName, perfName, List.cons_append] at h
  exact absurd (List.cons.inj h).1 (by decide)

theorem perfName_ne_defaultOpts (cpu : Nat) : defaultOptsName ≠ perfName cpu := by
  intro h
  simp only [defaultOptsName, perfName, List.cons_append] at h
  exact absurd (List.cons.inj h).1 (by decide)

/-- the payloads addressed to perf-cpuN.dat are the perf messages for cpu N, provided no metadata file is
    sent under that name -/
theorem partsFor_perfName (cpu : Nat) (hc : cpu < 2 ^ 32) (ms : List Msg) (hwf : ∀ m ∈ ms, m.WF)
    (hmeta : ∀ m ∈ ms, ∀ n c, m = .file n c → n ≠ perfName cpu) :
    partsFor (perfName cpu) ms = perfParts cpu ms := by
  induction ms with
  | nil => rfl
  | cons m ms ih =>
    have ih' := ih (fun m' h => hwf m' (List.mem_cons_of_mem _ h)) (fun m' h => hmeta m' (List.mem_cons_of_mem _ h))
    have hw := hwf m List.mem_cons_self
    cases m with
    | dirName n => simpa [partsFor, perfParts, fileOf] using ih'
    | end_ => simpa [partsFor, perfParts, fileOf] using ih'
    | data tid b =>
      have := perfName_ne_dataName cpu tid
      simpa [partsFor, perfParts, fileOf, this] using ih'
    | kernel c b =>
      have := perfName_ne_kernelName cpu c
      simpa [partsFor, perfParts, fileOf, this] using ih'
    | info h i =>
      have := perfName_ne_infoName cpu
      simpa [partsFor, perfParts, fileOf, this] using ih'
    | file n c =>
      have := hmeta (.file n c) List.mem_cons_self n c rfl
      simpa [partsFor, perfParts, fileOf, this] using ih'
    | perf c b =>
      by_cases hcc : c = cpu
      · subst hcc
        simpa [partsFor, perfParts, fileOf] using ih'
      · have : perfName c ≠ perfName cpu := fun h => hcc (perfName_inj hw.1 hc h)
        simpa [partsFor, perfParts, fileOf, this, hcc] using ih'

/-! ### the perf readers: empty files change nothing -/

theorem withEvents_nil_cons (r : List (List PEv)) : withEvents ([] :: r) = withEvents r := by
  simp [withEvents]

theorem withEvents_cons_cons (e : PEv) (es : List PEv) (r : List (List PEv)) :
    withEvents ((e :: es) :: r) = (e :: es) :: withEvents r := by
  simp [withEvents]

theorem withEvents_idem (fs : List (List PEv)) : withEvents (withEvents fs) = withEvents fs := by
  simp [withEvents, List.filter_filter]

theorem withEvents_tail (es : List PEv) (r : List (List PEv)) :
    withEvents (es :: withEvents r) = withEvents (es :: r) := by
  cases es with
  | nil => rw [withEvents_nil_cons, withEvents_nil_cons, withEvents_idem]
  | cons e es => rw [withEvents_cons_cons, withEvents_cons_cons, withEvents_idem]

/-- one round of the merge sees only the files that have events: it picks the same event, and leaves the
    same files with events -/
theorem perfBest_withEvents : ∀ fs : List (List PEv),
    (perfBest (withEvents fs)).map (fun x => (x.1, withEvents x.2)) =
      (perfBest fs).map (fun x => (x.1, withEvents x.2))
  | [] => rfl
  | [] :: r => by
    rw [withEvents_nil_cons, perfBest_withEvents r]
    simp only [perfBest, Option.map_map]
    congr 1
  | (e :: es) :: r => by
    have ih := perfBest_withEvents r
    rw [withEvents_cons_cons]
    simp only [perfBest]
    cases h1 : perfBest r with
    | none =>
      rw [h1] at ih
      cases h2 : perfBest (withEvents r) with
      | none => simp [withEvents_tail]
      | some y => rw [h2] at ih; simp at ih
    | some x =>
      rw [h1] at ih
      cases h2 : perfBest (withEvents r) with
      | none => rw [h2] at ih; simp at ih
      | some y =>
        rw [h2] at ih
        simp only [Option.map_some, Option.some.injEq, Prod.mk.injEq] at ih
        obtain ⟨ih1, ih2⟩ := ih
        simp only [ih1]
        split
        · simp only [Option.map_some, withEvents_cons_cons, ih2]
        · simp [withEvents_tail]

theorem perfMerge_congr : ∀ (n : Nat) (fs gs : List (List PEv)), withEvents fs = withEvents gs →
    perfMerge n fs = perfMerge n gs
  | 0, _, _, _ => rfl
  | n + 1, fs, gs, h => by
    have hf := perfBest_withEvents fs
    have hg := perfBest_withEvents gs
    rw [h] at hf
    have hfg := hf.symm.trans hg
    simp only [perfMerge]
    cases h1 : perfBest fs with
    | none =>
      rw [h1] at hfg
      cases h2 : perfBest gs with
      | none => rfl
      | some y => rw [h2] at hfg; simp at hfg
    | some x =>
      rw [h1] at hfg
      cases h2 : perfBest gs with
      | none => rw [h2] at hfg; simp at hfg
      | some y =>
        rw [h2] at hfg
        simp only [Option.map_some, Option.some.injEq, Prod.mk.injEq] at hfg
        simp only [hfg.1]
        rw [perfMerge_congr n x.2 y.2 hfg.2]

/-- the dump labels of the repaired printer are the cpu numbers of the files with data -/
theorem dumpLabelsFrom_fixed : ∀ (i : Nat) (fs : List (Nat × Bool)),
    dumpLabelsFrom true i fs = (fs.filter (·.2)).map (·.1)
  | _, [] => rfl
  | i, (cpu, has) :: r => by
    cases has <;> simp [dumpLabelsFrom, dumpLabelsFrom_fixed (i + 1) r]

end Uft.Net
