import Uft.Model.Script
import Uft.Model.Fstack
/- Lemmas for C18 (Props/C18.lean): the two main loops step by step, the per-task
   projection of the callback stream, and the pairing invariant. -/
set_option linter.unusedSimpArgs false
set_option linter.unusedVariables false
namespace Uft.Script

/-! ### `runWith` under a change of the step function -/

theorem runWith_map {α β : Type} (sa : Nat → TaskSt → Rec → TaskSt × List α)
    (sb : Nat → TaskSt → Rec → TaskSt × List β) (f : β → α)
    (h1 : ∀ i st r, (sa i st r).1 = (sb i st r).1)
    (h2 : ∀ i st r, (sa i st r).2 = (sb i st r).2.map f) :
    ∀ (s : List (Nat × Rec)) (g : G),
      (runWith sa g s).1 = (runWith sb g s).1 ∧ (runWith sa g s).2 = (runWith sb g s).2.map f
  | [], g => by simp [runWith]
  | (i, r) :: rest, g => by
    have ih := runWith_map sa sb f h1 h2 rest (upd g i (sb i (g i) r).1)
    simp only [runWith, h1, h2, List.map_append]
    exact ⟨ih.1, by rw [ih.2]⟩

theorem runWith_filter {α : Type} (sa sb : Nat → TaskSt → Rec → TaskSt × List α) (p : α → Bool)
    (h1 : ∀ i st r, (sa i st r).1 = (sb i st r).1)
    (h2 : ∀ i st r, (sa i st r).2 = (sb i st r).2.filter p) :
    ∀ (s : List (Nat × Rec)) (g : G),
      (runWith sa g s).1 = (runWith sb g s).1 ∧ (runWith sa g s).2 = (runWith sb g s).2.filter p
  | [], g => by simp [runWith]
  | (i, r) :: rest, g => by
    have ih := runWith_filter sa sb p h1 h2 rest (upd g i (sb i (g i) r).1)
    simp only [runWith, h1, h2, List.filter_append]
    exact ⟨ih.1, by rw [ih.2]⟩

/-! ### script step against replay step -/

theorem matchFuncs_nil (cfg : Cfg) (h : cfg.funcs = []) (a : Nat) : matchFuncs cfg a = true := by
  simp [matchFuncs, h]

theorem scriptTask_fst_eq_replay (cfg : Cfg) (i : Nat) (st : TaskSt) (r : Rec) :
    (scriptTask cfg i st r).1 = (replayTask cfg i st r).1 := by
  unfold scriptTask replayTask
  split <;> rfl

theorem scriptTask_snd_eq_replay (cfg : Cfg) (hf : cfg.funcs = []) (ha : cfg.argsFixed = true)
    (hx : cfg.exitAddrFixed = true) (i : Nat) (st : TaskSt) (r : Rec) :
    (scriptTask cfg i st r).2 = (replayTask cfg i st r).2.map Shown.toCb := by
  unfold scriptTask replayTask
  split
  · simp only [scriptExitCb, replayExitLine, matchFuncs_nil cfg hf, Bool.and_true, hx, ↓reduceIte]
    split <;> simp [Shown.toCb]
  · simp only [scriptEntryCb, replayEntryLine, matchFuncs_nil cfg hf, Bool.and_true, entryHasArgs, ha, ↓reduceIte]
    split <;> simp [Shown.toCb, Bool.and_comm]

/-- the same with the code before the repair of F-C18-ARGS, on data where an ENTRY
    record has a payload exactly when its function has an argspec -/
theorem scriptTask_snd_eq_replay_wfargs (cfg : Cfg) (hf : cfg.funcs = []) (hx : cfg.exitAddrFixed = true)
    (i : Nat) (st : TaskSt) (r : Rec) (hw : r.exit = false → r.more = cfg.argTrig r.addr) :
    (scriptTask cfg i st r).2 = (replayTask cfg i st r).2.map Shown.toCb := by
  unfold scriptTask replayTask
  split
  · simp only [scriptExitCb, replayExitLine, matchFuncs_nil cfg hf, Bool.and_true, hx, ↓reduceIte]
    split <;> simp [Shown.toCb]
  · rename_i hx
    have hx' : r.exit = false := by simpa using hx
    simp only [scriptEntryCb, replayEntryLine, matchFuncs_nil cfg hf, Bool.and_true, entryHasArgs]
    split
    · have e : cfg.argTrig r.addr = r.more := (hw hx').symm
      simp [Shown.toCb, e, Bool.and_comm]
    · simp


/-! ### the loops with fix-up records (exec, setjmp / longjmp, fork) -/

theorem runX_map {α β : Type} (sa : Nat → XSt → Rec → XSt × List α)
    (sb : Nat → XSt → Rec → XSt × List β) (f : β → α)
    (h1 : ∀ i x r, (sa i x r).1 = (sb i x r).1)
    (h2 : ∀ i x r, (sa i x r).2 = (sb i x r).2.map f) :
    ∀ (s : List (Nat × Rec)) (x : XSt),
      (runX sa x s).1 = (runX sb x s).1 ∧ (runX sa x s).2 = (runX sb x s).2.map f
  | [], x => by simp [runX]
  | (i, r) :: rest, x => by
    have ih := runX_map sa sb f h1 h2 rest (sb i x r).1
    simp only [runX, h1, h2, List.map_append]
    exact ⟨ih.1, by rw [ih.2]⟩

/-- the two loops change the state — the tasks, the fork display depths and the setjmp statics — in the
    same way, record by record: the fix-ups are applied by the same statements of fstack_entry /
    fstack_update in both -/
theorem scriptTaskX_fst_eq_replay (cfg : Cfg) (i : Nat) (x : XSt) (r : Rec) :
    (scriptTaskX cfg i x r).1 = (replayTaskX cfg i x r).1 := by
  unfold scriptTaskX replayTaskX
  split <;> rfl

/-- … and every callback is the line replay prints for the record: in particular the depth of an entry
    callback is the display depth *before* fstack_update resets it for a longjmp / exec call -/
theorem scriptTaskX_snd_eq_replay (cfg : Cfg) (hf : cfg.funcs = []) (ha : cfg.argsFixed = true)
    (hx : cfg.exitAddrFixed = true) (i : Nat) (x : XSt) (r : Rec) :
    (scriptTaskX cfg i x r).2 = (replayTaskX cfg i x r).2.map Shown.toCb := by
  unfold scriptTaskX replayTaskX
  split
  · simp only [scriptExitCb, replayExitLine, matchFuncs_nil cfg hf, Bool.and_true, hx, ↓reduceIte]
    split <;> simp [Shown.toCb]
  · simp only [scriptEntryCb, replayEntryLine, matchFuncs_nil cfg hf, Bool.and_true, entryHasArgs, ha, ↓reduceIte]
    split <;> simp [Shown.toCb, Bool.and_comm]

/-- no fix-up symbol in the data and no forked task -/
def NoFix (cfg : Cfg) : Prop := (∀ a, cfg.fix a = .none) ∧ (∀ i, cfg.parent i = none)

theorem inheritFork_nofix (cfg : Cfg) (h : NoFix cfg) (x : XSt) (i : Nat) (s : TaskSt) (r : Rec) :
    inheritFork cfg x i s r = s := by
  unfold inheritFork
  split
  · rfl
  · simp [h.2 i]

theorem fixKind_nofix (cfg : Cfg) (h : NoFix cfg) (s : TaskSt) (r : Rec) : fixKind cfg s r = .none := by
  unfold fixKind
  split
  · rfl
  · exact h.1 _

theorem scriptTaskX_nofix (cfg : Cfg) (h : NoFix cfg) (i : Nat) (x : XSt) (r : Rec) :
    scriptTaskX cfg i x r = (putTask x i (scriptTask cfg i (x.g i) r).1, (scriptTask cfg i (x.g i) r).2) := by
  unfold scriptTaskX scriptTask
  simp only [consumeX, inheritFork_nofix cfg h, fixGlobals, entryStX, fixKind_nofix cfg h, updateEntryX, scriptEntrySt,
    updateEntry]
  split <;> rfl

theorem replayTaskX_nofix (cfg : Cfg) (h : NoFix cfg) (i : Nat) (x : XSt) (r : Rec) :
    replayTaskX cfg i x r = (putTask x i (replayTask cfg i (x.g i) r).1, (replayTask cfg i (x.g i) r).2) := by
  unfold replayTaskX replayTask
  simp only [consumeX, inheritFork_nofix cfg h, fixGlobals, entryStX, fixKind_nofix cfg h, updateEntryX, replayEntrySt,
    updateEntry]
  split <;> rfl

/-- without fix-up records the loops with the fix-up logic are the plain loops -/
theorem runX_nofix {α : Type} (sx : Nat → XSt → Rec → XSt × List α) (sp : Nat → TaskSt → Rec → TaskSt × List α)
    (h : ∀ i x r, sx i x r = (putTask x i (sp i (x.g i) r).1, (sp i (x.g i) r).2)) :
    ∀ (s : List (Nat × Rec)) (x : XSt),
      (runX sx x s).2 = (runWith sp x.g s).2 ∧ (runX sx x s).1.g = (runWith sp x.g s).1
  | [], x => by simp [runX, runWith]
  | (i, r) :: rest, x => by
    have ih := runX_nofix sx sp h rest (putTask x i (sp i (x.g i) r).1)
    simp only [runX, runWith, h]
    exact ⟨by rw [ih.1]; rfl, by rw [ih.2]; rfl⟩

/-! ### the script's function list only filters the output -/

/-- what a UFTRACE_FUNCS list `L` lets through -/
def keepFuncs (L : List Nat) (cb : Cb) : Bool :=
  match cb.addr? with
  | some a => L.contains a
  | none => true

theorem consume_funcs (cfg : Cfg) (L : List Nat) (st : TaskSt) (r : Rec) :
    consume { cfg with funcs := L } st r = consume cfg st r := rfl
theorem accepted_funcs (cfg : Cfg) (L : List Nat) (st : TaskSt) (r : Rec) :
    accepted { cfg with funcs := L } st r = accepted cfg st r := rfl
theorem fstackEntry_funcs (cfg : Cfg) (L : List Nat) (st : TaskSt) (r : Rec) :
    fstackEntry { cfg with funcs := L } st r = fstackEntry cfg st r := rfl
theorem entryHasArgs_funcs (cfg : Cfg) (L : List Nat) (r : Rec) :
    entryHasArgs { cfg with funcs := L } r = entryHasArgs cfg r := rfl
theorem matchFuncs_funcs (cfg : Cfg) (L : List Nat) (a : Nat) :
    matchFuncs { cfg with funcs := L } a = (L.isEmpty || L.contains a) := rfl

theorem scriptTask_funcs_fst (cfg : Cfg) (L : List Nat) (i : Nat) (st : TaskSt) (r : Rec) :
    (scriptTask { cfg with funcs := L } i st r).1 = (scriptTask { cfg with funcs := [] } i st r).1 := by
  unfold scriptTask
  split <;> rfl

theorem scriptTask_funcs_snd (cfg : Cfg) (L : List Nat) (hL : L ≠ []) (i : Nat) (st : TaskSt) (r : Rec) :
    (scriptTask { cfg with funcs := L } i st r).2 =
      (scriptTask { cfg with funcs := [] } i st r).2.filter (keepFuncs L) := by
  have hLe : L.isEmpty = false := by cases L <;> simp_all
  unfold scriptTask
  simp only [consume_funcs, scriptExitCb, scriptEntryCb, accepted_funcs, fstackEntry_funcs, entryHasArgs_funcs,
    matchFuncs_funcs, hLe, Bool.false_or, List.isEmpty_nil, Bool.true_or, Bool.and_true]
  have ke : ∀ c, keepFuncs L (.entry c) = L.contains c.addr := fun _ => rfl
  have kx : ∀ c, keepFuncs L (.exit c) = L.contains c.addr := fun _ => rfl
  split
  · cases hn : ((consume cfg st r).slots (consume cfg st r).stackCount).norecord <;>
      cases hc : L.contains r.addr <;>
      simp only [List.filter_cons, List.filter_nil, kx, hc, Bool.not_false, Bool.not_true, Bool.and_true,
        Bool.and_false, Bool.false_and, Bool.true_and, ↓reduceIte, Bool.false_eq_true] <;> try rfl
  · cases hn : accepted cfg (consume cfg st r) r <;>
      cases hc : L.contains r.addr <;>
      simp only [List.filter_cons, List.filter_nil, ke, hc, Bool.not_false, Bool.not_true, Bool.and_true,
        Bool.and_false, Bool.false_and, Bool.true_and, ↓reduceIte, Bool.false_eq_true] <;> try rfl

/-! ### one task at a time -/

/-- the script loop restricted to the records of one task -/
def taskRun (cfg : Cfg) (i : Nat) : TaskSt → List Rec → TaskSt × List Cb
  | st, [] => (st, [])
  | st, r :: rs =>
    let out := taskRun cfg i (scriptTask cfg i st r).1 rs
    (out.1, (scriptTask cfg i st r).2 ++ out.2)

theorem scriptTask_tid (cfg : Cfg) (j : Nat) (st : TaskSt) (r : Rec) :
    ∀ cb ∈ (scriptTask cfg j st r).2, cb.tid? = some j := by
  intro cb h
  unfold scriptTask at h
  split at h
  · simp only [scriptExitCb] at h
    split at h
    · simp at h; subst h; rfl
    · simp at h
  · simp only [scriptEntryCb] at h
    split at h
    · simp at h; subst h; rfl
    · simp at h

theorem ofTask_same (cfg : Cfg) (i : Nat) (st : TaskSt) (r : Rec) :
    ofTask i (scriptTask cfg i st r).2 = (scriptTask cfg i st r).2 := by
  unfold ofTask
  apply List.filter_eq_self.mpr
  intro cb h
  simp [scriptTask_tid cfg i st r cb h]

theorem ofTask_other (cfg : Cfg) (i j : Nat) (hne : j ≠ i) (st : TaskSt) (r : Rec) :
    ofTask i (scriptTask cfg j st r).2 = [] := by
  unfold ofTask
  apply List.filter_eq_nil_iff.mpr
  intro cb h
  simp [scriptTask_tid cfg j st r cb h, hne]

theorem ofTask_append (i : Nat) (a b : List Cb) : ofTask i (a ++ b) = ofTask i a ++ ofTask i b := by
  simp [ofTask]

/-- the callbacks of task `i` in the full run are the callbacks of the run over its own
    records: tasks do not influence each other -/
theorem runWith_project (cfg : Cfg) (i : Nat) :
    ∀ (s : List (Nat × Rec)) (g : G),
      ofTask i (runWith (scriptTask cfg) g s).2 = (taskRun cfg i (g i) (recsOf i s)).2 ∧
      (runWith (scriptTask cfg) g s).1 i = (taskRun cfg i (g i) (recsOf i s)).1
  | [], g => by simp [runWith, recsOf, taskRun, ofTask]
  | (j, r) :: rest, g => by
    have ih := runWith_project cfg i rest (upd g j (scriptTask cfg j (g j) r).1)
    by_cases h : j = i
    · subst h
      have hr : recsOf j ((j, r) :: rest) = r :: recsOf j rest := by simp [recsOf]
      simp only [runWith, hr, taskRun, ofTask_append, ofTask_same]
      have hu : upd g j (scriptTask cfg j (g j) r).1 j = (scriptTask cfg j (g j) r).1 := by simp [upd]
      rw [hu] at ih
      exact ⟨by rw [ih.1], ih.2⟩
    · have hr : recsOf i ((j, r) :: rest) = recsOf i rest := by simp [recsOf, h]
      simp only [runWith, hr, ofTask_append, ofTask_other cfg i j h, List.nil_append]
      have hu : upd g j (scriptTask cfg j (g j) r).1 i = g i := by
        simp only [upd]; rw [if_neg (Ne.symm h)]
      rw [hu] at ih
      exact ih

/-! ### the pairing invariant -/

/-- ghost view of one open call of a task -/
structure AF where
  addr : Nat
  time : Nat
  /-- fstack_entry accepted the call (the frame is not NORECORD) -/
  acc : Bool
  /-- `display_depth` at which it was shown -/
  d : Nat
  /-- the `args` the entry callback carried -/
  args : Nat

def keys (A : List AF) : List (Nat × Nat) := A.map fun af => (af.addr, af.time)

/-- the frames of the open calls: `A` is innermost first, the innermost frame is `slots (len - 1)` -/
def SlotsOK (slots : Nat → Frame) : List AF → Prop
  | [] => True
  | af :: rest =>
    (slots rest.length).total = af.time ∧ (slots rest.length).valid = true ∧
    (slots rest.length).norecord = !af.acc ∧ SlotsOK slots rest

/-- the accepted open calls sit at consecutive display depths below `disp` -/
def DepthOK : Nat → List AF → Prop
  | _, [] => True
  | disp, af :: rest => if af.acc then af.d + 1 = disp ∧ DepthOK af.d rest else DepthOK disp rest

def anyAcc (A : List AF) : Bool := A.any (·.acc)

structure Inv (st : TaskSt) (A : List AF) : Prop where
  count : st.stackCount = A.length
  slots : SlotsOK st.slots A
  depth : DepthOK st.disp A
  dset : anyAcc A = true → st.dispSet = true
  started : st.started = false → A = []

def ctxOf (tid : Nat) (af : AF) : Ctx :=
  { tid := tid, depth := af.d, time := af.time, dur := 0, addr := af.addr, args := af.args }

/-- the entry callbacks that are still waiting for their exit callback -/
def opensOf (cfg : Cfg) (tid : Nat) : List AF → List Ctx
  | [] => []
  | af :: rest =>
    if af.acc && matchFuncs cfg af.addr then ctxOf tid af :: opensOf cfg tid rest else opensOf cfg tid rest

theorem SlotsOK_congr (s1 s2 : Nat → Frame) :
    ∀ (A : List AF), (∀ k, k < A.length → s1 k = s2 k) → SlotsOK s1 A → SlotsOK s2 A
  | [], _, _ => trivial
  | af :: rest, h, ok => by
    have hk := h rest.length (by simp)
    simp only [SlotsOK] at ok ⊢
    rw [← hk]
    exact ⟨ok.1, ok.2.1, ok.2.2.1, SlotsOK_congr s1 s2 rest (fun k hk' => h k (by simp; omega)) ok.2.2.2⟩

theorem DepthOK_noacc : ∀ (A : List AF) (x y : Nat), anyAcc A = false → DepthOK x A → DepthOK y A
  | [], _, _, _, _ => trivial
  | af :: rest, x, y, h, ok => by
    simp only [anyAcc, List.any_cons, Bool.or_eq_false_iff] at h
    simp only [DepthOK, h.1, Bool.false_eq_true, ↓reduceIte] at ok ⊢
    exact DepthOK_noacc rest x y h.2 ok

theorem opensOf_length_le (cfg : Cfg) (tid : Nat) : ∀ A : List AF, (opensOf cfg tid A).length ≤ A.length
  | [] => by simp [opensOf]
  | af :: rest => by
    have ih := opensOf_length_le cfg tid rest
    simp only [opensOf]
    split <;> simp <;> omega

theorem Inv_fresh (cfg : Cfg) : Inv (TaskSt.fresh cfg) [] :=
  { count := rfl, slots := trivial, depth := trivial, dset := by simp [anyAcc], started := fun _ => rfl }

/-- ENTRY step: a new ghost frame is pushed; an entry callback is made iff the call is
    accepted and passes the script's function list -/
theorem entry_step (cfg : Cfg) (i : Nat) (st : TaskSt) (A : List AF) (r : Rec)
    (inv : Inv st A) (hx : r.exit = false) (hd : r.depth = A.length) :
    ∃ af : AF, af.addr = r.addr ∧ af.time = r.time ∧
      Inv (scriptTask cfg i st r).1 (af :: A) ∧
      (scriptTask cfg i st r).2 =
        (if af.acc && matchFuncs cfg af.addr then [.entry (ctxOf i af)] else []) := by
  -- the task after read_rstack
  have hsc : startCount st r = A.length := by
    unfold startCount firstCount
    by_cases hs : st.started = true
    · simp [hs, inv.count]
    · simp [hs, hx, hd]
  have hss : ∀ k, k < A.length → startSlots st r k = st.slots k := by
    intro k hk
    unfold startSlots
    by_cases hs : st.started = true
    · simp [hs]
    · have : A = [] := inv.started (by simpa using hs)
      subst this
      simp at hk
  have h1c : (consume cfg st r).stackCount = A.length + 1 := by
    show newCount (startCount st r) r = _
    simp [newCount, hx, hsc]
  have h1lo : ∀ k, k < A.length → (consume cfg st r).slots k = st.slots k := by
    intro k hk
    show lookupL _ (accountSlots (startCount st r) (startSlots st r) r) k = _
    rw [lookupL_range]
    simp only [accountSlots, hx, Bool.false_eq_true, ↓reduceIte, hsc, setSlot]
    rw [if_neg (by omega), hss k hk]
  have h1top : ((consume cfg st r).slots A.length).total = r.time ∧
      ((consume cfg st r).slots A.length).valid = true := by
    show (lookupL _ (accountSlots (startCount st r) (startSlots st r) r) A.length).total = _ ∧
      (lookupL _ (accountSlots (startCount st r) (startSlots st r) r) A.length).valid = _
    rw [lookupL_range]
    simp [accountSlots, hx, hsc, setSlot]
  have h1disp : (consume cfg st r).disp = st.disp := rfl
  have h1dset : (consume cfg st r).dispSet = st.dispSet := rfl
  have h1started : (consume cfg st r).started = true := rfl
  have hst : (scriptTask cfg i st r).1 = scriptEntrySt cfg (consume cfg st r) r := by
    unfold scriptTask; simp [hx]
  have hout : (scriptTask cfg i st r).2 = scriptEntryCb cfg i (consume cfg st r) r := by
    unfold scriptTask; simp [hx]
  rw [hst, hout]
  generalize consume cfg st r = s1 at h1c h1lo h1top h1disp h1dset h1started ⊢
  -- the task after fstack_entry
  have h2lo : ∀ k, k < A.length → (fstackEntry cfg s1 r).slots k = st.slots k := by
    intro k hk
    show setSlot s1.slots (s1.stackCount - 1) _ k = _
    simp only [setSlot, h1c, Nat.add_sub_cancel]
    rw [if_neg (by omega), h1lo k hk]
  have h2top : ((fstackEntry cfg s1 r).slots A.length).total = r.time ∧
      ((fstackEntry cfg s1 r).slots A.length).valid = true ∧
      ((fstackEntry cfg s1 r).slots A.length).norecord = !accepted cfg s1 r := by
    show (setSlot s1.slots (s1.stackCount - 1) _ A.length).total = _ ∧
      (setSlot s1.slots (s1.stackCount - 1) _ A.length).valid = _ ∧
      (setSlot s1.slots (s1.stackCount - 1) _ A.length).norecord = _
    simp [setSlot, h1c, h1top.1, h1top.2]
  have h2disp : (fstackEntry cfg s1 r).disp = if (accepted cfg s1 r && !st.dispSet) = true then A.length else st.disp := by
    show (if (accepted cfg s1 r && !s1.dispSet) = true then s1.stackCount - 1 else s1.disp) = _
    simp only [h1c, h1disp, h1dset, Nat.add_sub_cancel]
  have h2dset : (fstackEntry cfg s1 r).dispSet = (st.dispSet || accepted cfg s1 r) := by
    show (s1.dispSet || accepted cfg s1 r) = _
    rw [h1dset]
  have h2c : (fstackEntry cfg s1 r).stackCount = A.length + 1 := h1c
  have hslotsA : SlotsOK (fstackEntry cfg s1 r).slots A :=
    SlotsOK_congr st.slots _ A (fun k hk => (h2lo k hk).symm) inv.slots
  have hdepthA : DepthOK (fstackEntry cfg s1 r).disp A := by
    rw [h2disp]
    by_cases hc : (accepted cfg s1 r && !st.dispSet) = true
    · simp only [hc, ↓reduceIte]
      have hns : st.dispSet = false := by
        simp only [Bool.and_eq_true, Bool.not_eq_true'] at hc; exact hc.2
      have hna : anyAcc A = false := by
        cases h : anyAcc A
        · rfl
        · have := inv.dset h; simp [this] at hns
      exact DepthOK_noacc A st.disp A.length hna inv.depth
    · simp only [hc, Bool.false_eq_true, ↓reduceIte]
      exact inv.depth
  refine ⟨{ addr := r.addr, time := r.time, acc := accepted cfg s1 r, d := (fstackEntry cfg s1 r).disp,
            args := if entryHasArgs cfg r then s1.args else 0 }, rfl, rfl, ?_, ?_⟩
  · unfold scriptEntrySt
    by_cases ha : accepted cfg s1 r = true
    · simp only [ha, ↓reduceIte]
      exact {
        count := by show (fstackEntry cfg s1 r).stackCount = _; simp [h2c]
        slots := by
          show SlotsOK (fstackEntry cfg s1 r).slots _
          simp only [SlotsOK]
          exact ⟨h2top.1, h2top.2.1, by simpa [ha] using h2top.2.2, hslotsA⟩
        depth := by
          show DepthOK ((fstackEntry cfg s1 r).disp + 1) _
          simp only [DepthOK, ha, ↓reduceIte]
          exact ⟨trivial, hdepthA⟩
        dset := by
          intro _
          show (fstackEntry cfg s1 r).dispSet = true
          rw [h2dset, ha]; simp
        started := by
          intro h
          have : (updateEntry (fstackEntry cfg s1 r)).started = s1.started := rfl
          rw [this, h1started] at h
          exact absurd h (by simp) }
    · have ha' : accepted cfg s1 r = false := by simpa using ha
      simp only [ha', Bool.false_eq_true, ↓reduceIte]
      exact {
        count := by show (fstackEntry cfg s1 r).stackCount = _; simp [h2c]
        slots := by
          show SlotsOK (fstackEntry cfg s1 r).slots _
          simp only [SlotsOK]
          exact ⟨h2top.1, h2top.2.1, by simpa [ha'] using h2top.2.2, hslotsA⟩
        depth := by
          show DepthOK (fstackEntry cfg s1 r).disp _
          simp only [DepthOK, ha', Bool.false_eq_true, ↓reduceIte]
          exact hdepthA
        dset := by
          intro h
          show (fstackEntry cfg s1 r).dispSet = true
          rw [h2dset, ha', Bool.or_false]
          apply inv.dset
          simpa only [anyAcc, List.any_cons, ha', Bool.false_or] using h
        started := by
          intro h
          have : (fstackEntry cfg s1 r).started = s1.started := rfl
          rw [this, h1started] at h
          exact absurd h (by simp) }
  · unfold scriptEntryCb ctxOf
    rfl

/-- EXIT step: the innermost ghost frame is popped; an exit callback is made iff an
    entry callback was made for that frame, and it closes it -/
theorem exit_step (cfg : Cfg) (i : Nat) (st : TaskSt) (af : AF) (rest : List AF) (r : Rec)
    (inv : Inv st (af :: rest)) (hx : r.exit = true) (ha : af.addr = r.addr) :
    Inv (scriptTask cfg i st r).1 rest ∧
      ((scriptTask cfg i st r).2 = [] ∧ (af.acc && matchFuncs cfg af.addr) = false ∨
       ∃ c : Ctx, (scriptTask cfg i st r).2 = [.exit c] ∧ (af.acc && matchFuncs cfg af.addr) = true ∧
         closes (ctxOf i af) c = true) := by
  have hstarted : st.started = true := by
    cases h : st.started
    · have := inv.started h; simp at this
    · rfl
  have hcount : st.stackCount = rest.length + 1 := by simpa using inv.count
  have hsc : startCount st r = rest.length + 1 := by simp [startCount, hstarted, hcount]
  have hss : ∀ k, startSlots st r k = st.slots k := by
    intro k; simp [startSlots, hstarted]
  have hsl := inv.slots
  simp only [SlotsOK] at hsl
  have h1c : (consume cfg st r).stackCount = rest.length := by
    show newCount (startCount st r) r = _
    simp [newCount, hx, hsc]
  have h1lo : ∀ k, k < rest.length → (consume cfg st r).slots k = st.slots k := by
    intro k hk
    show lookupL _ (accountSlots (startCount st r) (startSlots st r) r) k = _
    rw [lookupL_range]
    have hne : k ≠ rest.length := by omega
    simp [accountSlots, hx, hsc, setSlot, hne, hss]
  have h1top : ((consume cfg st r).slots rest.length).norecord = !af.acc ∧
      ((consume cfg st r).slots rest.length).total = sub64 r.time af.time := by
    show (lookupL _ (accountSlots (startCount st r) (startSlots st r) r) rest.length).norecord = _ ∧
      (lookupL _ (accountSlots (startCount st r) (startSlots st r) r) rest.length).total = _
    rw [lookupL_range]
    simp [accountSlots, hx, hsc, setSlot, hss, hsl.1, hsl.2.1, hsl.2.2.1]
  have h1disp : (consume cfg st r).disp = st.disp := rfl
  have h1dset : (consume cfg st r).dispSet = st.dispSet := rfl
  have h1started : (consume cfg st r).started = true := rfl
  have hst : (scriptTask cfg i st r).1 = scriptExitSt (consume cfg st r) := by unfold scriptTask; simp [hx]
  have hout : (scriptTask cfg i st r).2 = scriptExitCb cfg i (consume cfg st r) r := by unfold scriptTask; simp [hx]
  rw [hst, hout]
  generalize consume cfg st r = s1 at h1c h1lo h1top h1disp h1dset h1started ⊢
  have hdep := inv.depth
  simp only [DepthOK] at hdep
  have hrestSlots : ∀ (s : TaskSt), s.stackCount = rest.length → s.slots = s1.slots →
      SlotsOK (fstackExit s).slots rest := by
    intro s hc hs
    apply SlotsOK_congr st.slots _ rest _ hsl.2.2.2
    intro k hk
    show st.slots k = setSlot s.slots s.stackCount _ k
    rw [hc, hs]
    simp only [setSlot]
    rw [if_neg (by omega), h1lo k hk]
  constructor
  · unfold scriptExitSt
    rw [h1c, h1top.1]
    by_cases hacc : af.acc = true
    · simp only [hacc, Bool.not_true, Bool.false_eq_true, ↓reduceIte]
      simp only [hacc, ↓reduceIte] at hdep
      have hds : st.dispSet = true := inv.dset (by simp [anyAcc, hacc])
      exact {
        count := by show s1.stackCount = _; exact h1c
        slots := hrestSlots (updateExit s1) h1c rfl
        depth := by
          show DepthOK (exitDisp s1) rest
          have : exitDisp s1 = af.d := by
            simp only [exitDisp, h1dset, hds, ↓reduceIte, h1disp]; omega
          rw [this]; exact hdep.2
        dset := by intro _; rfl
        started := by
          intro h
          have : (fstackExit (updateExit s1)).started = s1.started := rfl
          rw [this, h1started] at h
          exact absurd h (by simp) }
    · have haf : af.acc = false := by simpa using hacc
      simp only [haf, Bool.not_false, ↓reduceIte]
      simp only [haf, Bool.false_eq_true, ↓reduceIte] at hdep
      exact {
        count := by show s1.stackCount = _; exact h1c
        slots := hrestSlots s1 h1c rfl
        depth := by show DepthOK s1.disp rest; rw [h1disp]; exact hdep
        dset := by
          intro h
          show s1.dispSet = true
          rw [h1dset]
          apply inv.dset
          simp only [anyAcc, List.any_cons, haf, Bool.false_or]
          exact h
        started := by
          intro h
          have : (fstackExit s1).started = s1.started := rfl
          rw [this, h1started] at h
          exact absurd h (by simp) }
  · unfold scriptExitCb
    rw [h1c, h1top.1, h1top.2, ← ha]
    by_cases hm : (af.acc && matchFuncs cfg af.addr) = true
    · right
      have hacc : af.acc = true := by simp only [Bool.and_eq_true] at hm; exact hm.1
      simp only [hacc, ↓reduceIte] at hdep
      have hds : st.dispSet = true := inv.dset (by simp [anyAcc, hacc])
      have hed : exitDisp s1 = af.d := by
        simp only [exitDisp, h1dset, hds, ↓reduceIte, h1disp]; omega
      refine ⟨{ tid := i, depth := exitDisp s1, time := r.time, dur := sub64 r.time af.time, addr := af.addr,
                args := if (r.more && cfg.showArgs) = true then s1.args else 0 }, ?_, hm, ?_⟩
      · simp only [Bool.not_not, hm, ↓reduceIte]
      · simp [closes, ctxOf, hed]
    · left
      have hm' : (af.acc && matchFuncs cfg af.addr) = false := by simpa using hm
      simp only [Bool.not_not, hm', Bool.false_eq_true, ↓reduceIte, and_self]

theorem pairRun_single (o : List Ctx) (cb : Cb) (rest : List Cb) :
    pairRun o (cb :: rest) = (pairStep o cb).bind fun o' => pairRun o' rest := by
  simp only [pairRun]
  cases pairStep o cb <;> rfl

/-- the run over one task's records keeps the invariant and its callbacks pair up -/
theorem task_paired (cfg : Cfg) (i : Nat) :
    ∀ (rs : List Rec) (st : TaskSt) (A : List AF) (W : List (Nat × Nat)),
      Inv st A → wfRun (keys A) rs = some W →
      ∃ A', Inv (taskRun cfg i st rs).1 A' ∧ keys A' = W ∧
        pairRun (opensOf cfg i A) (taskRun cfg i st rs).2 = some (opensOf cfg i A')
  | [], st, A, W, inv, hw => by
    simp only [wfRun, Option.some.injEq] at hw
    exact ⟨A, inv, hw, rfl⟩
  | r :: rs, st, A, W, inv, hw => by
    simp only [wfRun] at hw
    cases hstep : wfStep (keys A) r with
    | none => simp [hstep] at hw
    | some K =>
      simp only [hstep] at hw
      unfold wfStep at hstep
      by_cases hx : r.exit = true
      · -- EXIT
        simp only [hx, Bool.not_true, Bool.false_eq_true, ↓reduceIte] at hstep
        cases A with
        | nil => simp [keys] at hstep
        | cons af rest =>
          simp only [keys, List.map_cons, List.length_map] at hstep
          split at hstep
          · rename_i hc
            simp only [Option.some.injEq] at hstep
            have ⟨inv', hcb⟩ := exit_step cfg i st af rest r inv hx hc.1
            have hk : keys rest = K := hstep
            have ⟨A', i1, i2, i3⟩ := task_paired cfg i rs (scriptTask cfg i st r).1 rest W inv' (by rw [hk]; exact hw)
            refine ⟨A', i1, i2, ?_⟩
            simp only [taskRun]
            rcases hcb with ⟨h1, h2⟩ | ⟨c, h1, h2, h3⟩
            · rw [h1, List.nil_append]
              simp only [opensOf, h2, Bool.false_eq_true, ↓reduceIte]
              exact i3
            · rw [h1]
              simp only [List.cons_append, List.nil_append, pairRun, pairStep, opensOf, h2, ↓reduceIte, h3]
              exact i3
          · simp at hstep
      · -- ENTRY
        have hx' : r.exit = false := by simpa using hx
        simp only [hx', Bool.not_false, ↓reduceIte] at hstep
        split at hstep
        · rename_i hd
          simp only [Option.some.injEq] at hstep
          have hd' : r.depth = A.length := by simpa [keys] using hd
          have ⟨af, a1, a2, inv', hcb⟩ := entry_step cfg i st A r inv hx' hd'
          have hk : keys (af :: A) = K := by
            simp only [keys, List.map_cons, a1, a2]; exact hstep
          have ⟨A', i1, i2, i3⟩ := task_paired cfg i rs (scriptTask cfg i st r).1 (af :: A) W inv' (by rw [hk]; exact hw)
          refine ⟨A', i1, i2, ?_⟩
          simp only [taskRun]
          rw [hcb]
          by_cases hm : (af.acc && matchFuncs cfg af.addr) = true
          · simp only [hm, ↓reduceIte, List.cons_append, List.nil_append, pairRun, pairStep]
            simp only [opensOf, hm, ↓reduceIte] at i3
            exact i3
          · have hm' : (af.acc && matchFuncs cfg af.addr) = false := by simpa using hm
            simp only [hm', Bool.false_eq_true, ↓reduceIte, List.nil_append]
            simp only [opensOf, hm', Bool.false_eq_true, ↓reduceIte] at i3
            exact i3
        · simp at hstep

end Uft.Script

/-! ## record-time hooks: the shadow stack keeps the fields the script hooks read -/
namespace Uft.Script.Hook
open Uft.Mcount

/-- what script_save_context reads from a frame, and the NORECORD flag that decides
    whether the hooks run -/
def fk (f : Mcount.Frame) : Nat × Nat × Nat × Bool := (f.addr, f.start, f.depth, f.norecord)

theorem flushBelow_fk (fs : List Mcount.Frame) : (flushBelow fs).1.map fk = fs.map fk := by
  induction fs with
  | nil => rfl
  | cons f r ih =>
    simp only [flushBelow]
    split
    · rfl
    · split <;> simp [ih, fk]

theorem recordTrace_fk (fs : List Mcount.Frame) : (recordTrace fs).1.map fk = fs.map fk := by
  cases fs with
  | nil => rfl
  | cons top rest =>
    simp only [recordTrace]
    split <;> split <;> split <;> simp [fk, flushBelow_fk]

theorem checkRstack_over (cfg : Mcount.Cfg) (s : St) :
    (checkRstack cfg s).1 = decide (s.frames.length + s.over ≥ cfg.maxStack) := by
  unfold checkRstack St.idx
  split <;> (try split) <;> simp_all

theorem checkRstack_fk (cfg : Mcount.Cfg) (s : St) :
    (checkRstack cfg s).2.frames.map fk = s.frames.map fk ∧ (checkRstack cfg s).2.over = s.over := by
  unfold checkRstack
  split
  · split
    · simp [recordTrace_fk]
    · simp
  · simp

/-- the flush at the TRACE_OFF update (repair of F-C07-TRACEOFF-FLUSH) only marks frames written -/
@[simp] theorem traceOffFlush_fk (cfg : Mcount.Cfg) (s : St) (tr : Trigger) :
    (traceOffFlush cfg s tr).frames.map fk = s.frames.map fk := by
  rw [traceOffFlush_frames]; split
  · exact recordTrace_fk _
  · rfl

theorem entryFilterCheck_fk (cfg : Mcount.Cfg) (s : St) (f : Nat) :
    (entryFilterCheck cfg s f).2.1.frames.map fk = s.frames.map fk ∧
    (entryFilterCheck cfg s f).2.1.over = s.over ∧
    ((entryFilterCheck cfg s f).1 = .rstack ↔ s.frames.length + s.over ≥ cfg.maxStack) ∧
    ((entryFilterCheck cfg s f).2.2.finish = true → (cfg.trig f).finish = true) := by
  have h := checkRstack_fk cfg s
  have h1 := checkRstack_over cfg s
  unfold entryFilterCheck
  generalize checkRstack cfg s = cr at h h1 ⊢
  obtain ⟨b, s'⟩ := cr
  simp only at h h1 ⊢
  by_cases hidx : s.frames.length + s.over ≥ cfg.maxStack
  · have hb : b = true := by simp [h1, hidx]
    subst hb
    simp [h, hidx]
  · have hb : b = false := by simp [h1, hidx]
    subst hb
    simp only [Bool.false_eq_true, ↓reduceIte, hidx, iff_false]
    split
    · split <;> simp [h]
    · split
      · simp [h]
      · split
        · simp [h]
        · split <;> simp [h]

theorem entryFilterRecord_fk (cfg : Mcount.Cfg) (hf : cfg.fast = false) (s : St) (F : Mcount.Frame)
    (rest : List Mcount.Frame) (tr : Trigger) (hfr : s.frames = F :: rest) :
    (entryFilterRecord cfg s tr).over = s.over ∧
    ∃ b, (entryFilterRecord cfg s tr).frames.map fk = (F.addr, F.start, F.depth, b) :: rest.map fk := by
  unfold entryFilterRecord
  simp only [hfr, hf, Bool.false_eq_true, ↓reduceIte]
  split
  · refine ⟨rfl, ?_⟩
    simp only [recordTrace_fk]
    exact ⟨_, rfl⟩
  · split
    · exact ⟨rfl, _, rfl⟩
    · refine ⟨rfl, ?_⟩
      split
      · simp only [recordTrace_fk]; exact ⟨_, rfl⟩
      · exact ⟨_, rfl⟩

/-- the three things the entry hook can do to the shadow stack -/
theorem entry_fk (cfg : Mcount.Cfg) (hf : cfg.fast = false) (k : Kind) (s : St) (f t0 : Nat) :
    ((entry cfg k s f t0).2 = false ∧ (entry cfg k s f t0).1.frames.map fk = s.frames.map fk ∧
      (entry cfg k s f t0).1.over = s.over) ∨
    ((entry cfg k s f t0).2 = true ∧ (entry cfg k s f t0).1.frames.map fk = s.frames.map fk ∧
      (entry cfg k s f t0).1.over = s.over + 1 ∧ s.frames.length + s.over ≥ cfg.maxStack) ∨
    ((entry cfg k s f t0).2 = true ∧ (entry cfg k s f t0).1.over = s.over ∧
      s.frames.length + s.over < cfg.maxStack ∧
      ∃ x, (entry cfg k s f t0).1.frames.map fk = x :: s.frames.map fk) := by
  have h := entryFilterCheck_fk cfg s f
  unfold entry
  generalize entryFilterCheck cfg s f = c at h ⊢
  obtain ⟨fr, s1, tr⟩ := c
  simp only at h ⊢
  cases k with
  | pg =>
    simp only
    split
    · left; exact ⟨rfl, h.1, h.2.1⟩
    · rename_i hc
      have hnr : fr ≠ .rstack := by
        intro e; subst e; simp at hc
      have hlt : s.frames.length + s.over < cfg.maxStack := by
        have := h.2.2.1
        by_cases hge : s.frames.length + s.over ≥ cfg.maxStack
        · exact absurd (this.mpr hge) hnr
        · omega
      right; right
      have := entryFilterRecord_fk cfg hf
        { s1 with frames := { addr := f, start := t0, depth := s1.recordIdx, norecord := fr != FR.in_ } :: s1.frames }
        { addr := f, start := t0, depth := s1.recordIdx, norecord := fr != FR.in_ } s1.frames tr rfl
      refine ⟨rfl, ?_, hlt, ?_⟩
      · rw [this.1]; exact h.2.1
      · obtain ⟨b, hb⟩ := this.2
        exact ⟨_, by rw [hb, h.1]⟩
  | cyg =>
    simp only
    split
    · rename_i hc
      have hr : fr = .rstack := by cases fr <;> simp_all
      right; left
      exact ⟨rfl, h.1, by simp [h.2.1], h.2.2.1.mp hr⟩
    · rename_i hc
      have hnr : fr ≠ .rstack := by
        intro e; subst e; simp at hc
      have hlt : s.frames.length + s.over < cfg.maxStack := by
        have := h.2.2.1
        by_cases hge : s.frames.length + s.over ≥ cfg.maxStack
        · exact absurd (this.mpr hge) hnr
        · omega
      right; right
      have := entryFilterRecord_fk cfg hf
        { s1 with frames := { addr := f, start := if (fr == FR.in_) = true then t0 else 0, depth := s1.recordIdx,
                              cyg := true, norecord := !(fr == FR.in_) } :: s1.frames }
        { addr := f, start := if (fr == FR.in_) = true then t0 else 0, depth := s1.recordIdx,
          cyg := true, norecord := !(fr == FR.in_) } s1.frames tr rfl
      refine ⟨rfl, ?_, hlt, ?_⟩
      · rw [this.1]; exact h.2.1
      · obtain ⟨b, hb⟩ := this.2
        exact ⟨_, by rw [hb, h.1]⟩

theorem exitFilterRecord_fk (cfg : Mcount.Cfg) (hf : cfg.fast = false) (s : St) (F : Mcount.Frame)
    (rest : List Mcount.Frame) (hfr : s.frames = F :: rest) :
    (exitFilterRecord cfg s).over = s.over ∧ (exitFilterRecord cfg s).frames.map fk = fk F :: rest.map fk := by
  unfold exitFilterRecord
  simp only [hfr, hf, Bool.false_eq_true, ↓reduceIte]
  repeat' split
  all_goals first
    | exact ⟨rfl, rfl⟩
    | (refine ⟨rfl, ?_⟩; simp only [recordTrace_fk]; rfl)

theorem exit_fk (cfg : Mcount.Cfg) (hf : cfg.fast = false) (s : St) (t : Nat) :
    (s.over > 0 → (exit cfg s t).over = s.over - 1 ∧ (exit cfg s t).frames.map fk = s.frames.map fk) ∧
    (s.over = 0 → (exit cfg s t).over = 0 ∧ (exit cfg s t).frames.map fk = (s.frames.map fk).tail) := by
  unfold exit
  constructor
  · intro ho
    simp [ho]
  · intro ho
    have hno : ¬ (s.over > 0) := by omega
    rw [if_neg hno]
    cases hfr : s.frames with
    | nil => simp [ho, hfr]
    | cons F rest =>
      simp only
      have key : ∀ g : Mcount.Frame, fk g = fk F →
          (exitFilterRecord cfg { s with frames := g :: rest }).over = 0 ∧
          ((exitFilterRecord cfg { s with frames := g :: rest }).frames.tail).map fk = rest.map fk := by
        intro g hg
        have := exitFilterRecord_fk cfg hf { s with frames := g :: rest } g rest rfl
        refine ⟨by rw [this.1]; exact ho, ?_⟩
        have h2 := this.2
        cases hr : (exitFilterRecord cfg { s with frames := g :: rest }).frames with
        | nil => simp [hr] at h2
        | cons a b => simp [hr] at h2 ⊢; exact h2.2
      split
      · have := key F rfl
        simpa using this
      · have := key { F with endT := t } rfl
        simpa using this

/-! ### the hook log of a complete call is balanced -/

/-- `over` counts calls beyond a full shadow stack -/
def HWF (cfg : Mcount.Cfg) (s : St) : Prop := s.over = 0 ∨ s.frames.length ≥ cfg.maxStack

def SameShape (a b : St) : Prop := a.over = b.over ∧ a.frames.map fk = b.frames.map fk

theorem SameShape.length {a b : St} (h : SameShape a b) : a.frames.length = b.frames.length := by
  simpa using congrArg List.length h.2

theorem SameShape.hwf {a b : St} (cfg : Mcount.Cfg) (h : SameShape a b) (hb : HWF cfg b) : HWF cfg a := by
  unfold HWF at *
  rw [h.1, h.length]; exact hb

theorem setEnabled_shape (b : Option Bool) (s : St) : SameShape (setEnabled b s) s := by
  cases b <;> exact ⟨rfl, rfl⟩

theorem hpRun_append : ∀ (a b : List HookEv) (stk : List HCtx),
    hpRun stk (a ++ b) = (hpRun stk a).bind fun s => hpRun s b
  | [], b, stk => by simp [hpRun]
  | e :: a, b, stk => by
    simp only [List.cons_append, hpRun]
    cases hpStep stk e with
    | none => rfl
    | some o => exact hpRun_append a b o

theorem entryHook_none (cfg : Mcount.Cfg) (k : Kind) (s : St) (f t0 : Nat)
    (h : (entry cfg k s f t0).1.frames.map fk = s.frames.map fk) : entryHook cfg k s f t0 = none := by
  have hl : (entry cfg k s f t0).1.frames.length = s.frames.length := by
    simpa using congrArg List.length h
  unfold entryHook
  cases hfr : (entry cfg k s f t0).1.frames with
  | nil => rfl
  | cons F tl =>
    rw [hfr] at hl
    simp only [hl]
    simp

theorem entryHook_pushed (cfg : Mcount.Cfg) (hf : cfg.fast = false) (hfin : ∀ f, (cfg.trig f).finish = false)
    (k : Kind) (s : St) (f t0 : Nat) (a st d : Nat) (nr : Bool) (m : List (Nat × Nat × Nat × Bool))
    (hm : m = s.frames.map fk)
    (h : (entry cfg k s f t0).1.frames.map fk = (a, st, d, nr) :: m) :
    entryHook cfg k s f t0 = if nr then none else some { addr := a, depth := d, start := st, dur := 0 } := by
  have hnf : (entryFilterCheck cfg s f).2.2.finish = false := by
    cases hc : (entryFilterCheck cfg s f).2.2.finish
    · rfl
    · have := (entryFilterCheck_fk cfg s f).2.2.2 hc
      rw [hfin f] at this; exact absurd this (by simp)
  unfold entryHook
  cases hfr : (entry cfg k s f t0).1.frames with
  | nil => rw [hfr] at h; simp at h
  | cons F tl =>
    rw [hfr] at h
    simp only [List.map_cons, List.cons.injEq] at h
    have hl : (F :: tl).length = s.frames.length + 1 := by
      have := congrArg List.length h.2
      simp only [List.length_map] at this
      simp [this, hm]
    have hF := h.1
    simp only [fk, Prod.mk.injEq] at hF
    simp only [hl, hf, hnf, decide_true, Bool.not_false, Bool.and_true, Bool.true_and, hF.1, hF.2.1, hF.2.2.1,
      hF.2.2.2]
    cases nr <;> simp

theorem exitHook_top (cfg : Mcount.Cfg) (hf : cfg.fast = false) (s : St) (t : Nat) (ho : s.over = 0)
    (a st d : Nat) (nr : Bool) (m : List (Nat × Nat × Nat × Bool))
    (h : s.frames.map fk = (a, st, d, nr) :: m) :
    exitHook true cfg s t = if nr then none else some { addr := a, depth := d, start := st, dur := t - st } := by
  unfold exitHook
  have hno : ¬ (s.over > 0) := by omega
  rw [if_neg hno]
  cases hfr : s.frames with
  | nil => rw [hfr] at h; simp at h
  | cons F tl =>
    rw [hfr] at h
    simp only [List.map_cons, List.cons.injEq] at h
    have hF := h.1
    simp only [fk, Prod.mk.injEq] at hF
    simp only [hf, Bool.not_false, Bool.true_and, Bool.true_or, Bool.and_true, hF.1, hF.2.1, hF.2.2.1, hF.2.2.2]
    cases nr <;> simp

theorem exitHook_over (fixed : Bool) (cfg : Mcount.Cfg) (s : St) (t : Nat) (ho : s.over > 0) :
    exitHook fixed cfg s t = none := by
  unfold exitHook; simp [ho]

/-- one bracket of the log: an entry hook, a balanced middle part, the exit hook of the same frame -/
theorem bracket (funcs : List Nat) (a st d t : Nat) (nr : Bool) (mid : List HookEv)
    (hmid : ∀ stk, hpRun stk mid = some stk) (stk : List HCtx) :
    hpRun stk
      (logEntry funcs (if nr then none else some { addr := a, depth := d, start := st, dur := 0 }) ++ mid ++
       logExit funcs (if nr then none else some { addr := a, depth := d, start := st, dur := t - st })) = some stk := by
  cases nr
  · simp only [Bool.false_eq_true, ↓reduceIte, logEntry, logExit, hmatch]
    by_cases hm : (funcs.isEmpty || funcs.contains a) = true
    · simp only [hm, ↓reduceIte, List.cons_append, List.nil_append, hpRun, hpStep, hpRun_append, hmid,
        Option.bind]
      simp [hcloses]
    · simp only [hm, Bool.false_eq_true, ↓reduceIte, List.nil_append, List.append_nil]
      exact hmid stk
  · simp only [↓reduceIte, logEntry, logExit, List.nil_append, List.append_nil]
    exact hmid stk

mutual
  theorem hook_call (cfg : Mcount.Cfg) (hf : cfg.fast = false) (hfin : ∀ f, (cfg.trig f).finish = false)
      (funcs : List Nat) (k : Kind) (env : Nat → Option Bool) :
      ∀ (c : Call) (s : St), HWF cfg s →
        SameShape (runCallH true funcs cfg k env s c).1 s ∧
        ∀ stk, hpRun stk (runCallH true funcs cfg k env s c).2 = some stk
    | .node f t0 t1 kids, s, hwf => by
      have hs0 := setEnabled_shape (env t0) s
      have hwf0 : HWF cfg (setEnabled (env t0) s) := hs0.hwf cfg hwf
      simp only [runCallH]
      generalize setEnabled (env t0) s = s0 at hs0 hwf0 ⊢
      have he := entry_fk cfg hf k s0 f t0
      rcases he with ⟨h2, hfk, hov⟩ | ⟨h2, hfk, hov, hge⟩ | ⟨h2, hov, hlt, x, hx⟩
      · -- the hook did not take the call
        have hsh : SameShape (entry cfg k s0 f t0).1 s0 := ⟨hov, hfk⟩
        have ih := hook_calls cfg hf hfin funcs k env kids (entry cfg k s0 f t0).1 (hsh.hwf cfg hwf0)
        simp only [h2, Bool.false_eq_true, ↓reduceIte, entryHook_none cfg k s0 f t0 hfk, logEntry, List.nil_append]
        exact ⟨⟨ih.1.1.trans (hov.trans hs0.1), ih.1.2.trans (hfk.trans hs0.2)⟩, ih.2⟩
      · -- a call beyond the shadow stack
        have hl : (entry cfg k s0 f t0).1.frames.length = s0.frames.length := by
          simpa using congrArg List.length hfk
        have hwf1 : HWF cfg (entry cfg k s0 f t0).1 := by
          right
          rw [hl]
          rcases hwf0 with h | h
          · omega
          · exact h
        have ih := hook_calls cfg hf hfin funcs k env kids (entry cfg k s0 f t0).1 hwf1
        simp only [h2, ↓reduceIte, entryHook_none cfg k s0 f t0 hfk, logEntry, List.nil_append]
        generalize runCallsH true funcs cfg k env (entry cfg k s0 f t0).1 kids = p at ih ⊢
        have hs1 := setEnabled_shape (env t1) p.1
        generalize setEnabled (env t1) p.1 = s1 at hs1 ⊢
        have ho1 : s1.over > 0 := by rw [hs1.1, ih.1.1, hov]; omega
        have hxt := (exit_fk cfg hf s1 t1).1 ho1
        rw [exitHook_over true cfg s1 t1 ho1]
        simp only [logExit, List.append_nil]
        refine ⟨⟨?_, ?_⟩, ih.2⟩
        · rw [hxt.1, hs1.1, ih.1.1, hov, ← hs0.1]; omega
        · rw [hxt.2, hs1.2, ih.1.2, hfk, hs0.2]
      · -- a frame was pushed
        obtain ⟨a, st, d, nr⟩ := x
        have ho0 : s0.over = 0 := by
          rcases hwf0 with h | h
          · exact h
          · omega
        have hwf1 : HWF cfg (entry cfg k s0 f t0).1 := Or.inl (by rw [hov, ho0])
        have ih := hook_calls cfg hf hfin funcs k env kids (entry cfg k s0 f t0).1 hwf1
        simp only [h2, ↓reduceIte]
        rw [entryHook_pushed cfg hf hfin k s0 f t0 a st d nr _ rfl hx]
        generalize runCallsH true funcs cfg k env (entry cfg k s0 f t0).1 kids = p at ih ⊢
        have hs1 := setEnabled_shape (env t1) p.1
        generalize setEnabled (env t1) p.1 = s1 at hs1 ⊢
        have ho1 : s1.over = 0 := by rw [hs1.1, ih.1.1, hov, ho0]
        have hfr1 : s1.frames.map fk = (a, st, d, nr) :: s0.frames.map fk := by rw [hs1.2, ih.1.2, hx]
        rw [exitHook_top cfg hf s1 t1 ho1 a st d nr _ hfr1]
        have hxt := (exit_fk cfg hf s1 t1).2 ho1
        refine ⟨⟨?_, ?_⟩, fun stk => bracket funcs a st d t1 nr _ ih.2 stk⟩
        · rw [hxt.1, ← hs0.1, ho0]
        · rw [hxt.2, hfr1, List.tail_cons, hs0.2]
  theorem hook_calls (cfg : Mcount.Cfg) (hf : cfg.fast = false) (hfin : ∀ f, (cfg.trig f).finish = false)
      (funcs : List Nat) (k : Kind) (env : Nat → Option Bool) :
      ∀ (cs : Calls) (s : St), HWF cfg s →
        SameShape (runCallsH true funcs cfg k env s cs).1 s ∧
        ∀ stk, hpRun stk (runCallsH true funcs cfg k env s cs).2 = some stk
    | .nil, s, _ => by
      simp only [runCallsH]
      exact ⟨⟨rfl, rfl⟩, fun stk => rfl⟩
    | .cons c rest, s, hwf => by
      have h1 := hook_call cfg hf hfin funcs k env c s hwf
      have h2 := hook_calls cfg hf hfin funcs k env rest (runCallH true funcs cfg k env s c).1 (h1.1.hwf cfg hwf)
      simp only [runCallsH]
      refine ⟨⟨h2.1.1.trans h1.1.1, h2.1.2.trans h1.1.2⟩, fun stk => ?_⟩
      rw [hpRun_append, h1.2 stk]
      exact h2.2 stk
end

theorem entryHook_fast (cfg : Mcount.Cfg) (hf : cfg.fast = true) (k : Kind) (s : St) (f t0 : Nat) :
    entryHook cfg k s f t0 = none := by
  unfold entryHook
  split
  · rfl
  · simp [hf]

theorem exitHook_fast (fixed : Bool) (cfg : Mcount.Cfg) (hf : cfg.fast = true) (s : St) (t : Nat) :
    exitHook fixed cfg s t = none := by
  unfold exitHook
  split
  · rfl
  · split
    · rfl
    · simp [hf]

mutual
  /-- the fast build (DISABLE_MCOUNT_FILTER) has no script hooks -/
  theorem fast_call (fixed : Bool) (cfg : Mcount.Cfg) (hf : cfg.fast = true) (funcs : List Nat) (k : Kind)
      (env : Nat → Option Bool) : ∀ (c : Call) (s : St), (runCallH fixed funcs cfg k env s c).2 = []
    | .node f t0 t1 kids, s => by
      simp only [runCallH, entryHook_fast cfg hf, exitHook_fast fixed cfg hf, logEntry, logExit,
        List.nil_append, List.append_nil, fast_calls fixed cfg hf funcs k env kids]
      split <;> rfl
  theorem fast_calls (fixed : Bool) (cfg : Mcount.Cfg) (hf : cfg.fast = true) (funcs : List Nat) (k : Kind)
      (env : Nat → Option Bool) : ∀ (cs : Calls) (s : St), (runCallsH fixed funcs cfg k env s cs).2 = []
    | .nil, s => rfl
    | .cons c rest, s => by
      simp only [runCallsH, fast_call fixed cfg hf funcs k env c, fast_calls fixed cfg hf funcs k env rest,
        List.append_nil]
end

mutual
  /-- without interference from other threads the logged run is the hook model's run -/
  theorem state_call (fixed : Bool) (funcs : List Nat) (cfg : Mcount.Cfg) (k : Kind) :
      ∀ (c : Call) (s : St), (runCallH fixed funcs cfg k (fun _ => none) s c).1 = runCall cfg k s c
    | .node f t0 t1 kids, s => by
      simp only [runCallH, runCall, setEnabled, state_calls fixed funcs cfg k kids]
      split <;> rfl
  theorem state_calls (fixed : Bool) (funcs : List Nat) (cfg : Mcount.Cfg) (k : Kind) :
      ∀ (cs : Calls) (s : St), (runCallsH fixed funcs cfg k (fun _ => none) s cs).1 = runCalls cfg k s cs
    | .nil, s => rfl
    | .cons c rest, s => by
      simp only [runCallsH, runCalls, state_call fixed funcs cfg k c, state_calls fixed funcs cfg k rest]
end

end Uft.Script.Hook

/-! ## the interpreter lock of a binding -/
namespace Uft.Script.Bind

/-- with a blocking lock: at most one callback is inside the interpreter, nothing waits while it is free, and
    the script has been called, in order, with exactly the hooks that reached the binding and do not wait -/
structure LockInv (s : BSt) : Prop where
  one : s.running.length ≤ 1
  free : s.running = [] → s.waiting = []
  all : s.log ++ s.waiting = s.issued
  ok : s.corrupt = false

theorem lockInv_init : LockInv {} := ⟨by simp, fun _ => rfl, rfl, rfl⟩

theorem lockInv_step (s : BSt) (h : LockInv s) (x : Step) : LockInv (step .lock s x) := by
  obtain ⟨h1, h2, h3, h4⟩ := h
  cases x with
  | hook t c =>
    simp only [step]
    by_cases hr : s.running = []
    · have hw := h2 hr
      simp only [hr, List.isEmpty_nil, ↓reduceIte, enter]
      refine ⟨by simp, fun hh => by simp at hh, ?_, h4⟩
      simp only [hw, List.append_nil] at h3 ⊢
      rw [h3]
    · have : s.running.isEmpty = false := by cases hs : s.running <;> simp_all
      simp only [this, Bool.false_eq_true, ↓reduceIte]
      refine ⟨h1, fun hh => absurd hh hr, ?_, h4⟩
      show s.log ++ (s.waiting ++ [(t, c)]) = s.issued ++ [(t, c)]
      rw [← List.append_assoc, h3]
  | done t =>
    simp only [step]
    by_cases hf : (s.running.filter (fun x => x.1 != t)).isEmpty = true
    · simp only [hf, ↓reduceIte]
      cases hw : s.waiting with
      | nil =>
        refine ⟨by simp, fun _ => rfl, ?_, h4⟩
        show s.log ++ [] = s.issued
        rw [← h3, hw]
      | cons w ws =>
        refine ⟨by simp, fun hh => by simp at hh, ?_, h4⟩
        show s.log ++ [w] ++ ws = s.issued
        rw [← h3, hw]; simp
    · simp only [hf, Bool.false_eq_true, ↓reduceIte]
      have hle : (s.running.filter (fun x => x.1 != t)).length ≤ s.running.length := List.length_filter_le _ _
      refine ⟨by show (s.running.filter _).length ≤ 1; omega, ?_, h3, h4⟩
      intro hh
      simp [show (s.running.filter (fun x => x.1 != t)) = [] from hh] at hf

theorem lockInv_run : ∀ (xs : List Step) (s : BSt), LockInv s → LockInv (run .lock s xs)
  | [], s, h => h
  | x :: xs, s, h => lockInv_run xs (step .lock s x) (lockInv_step s h x)

end Uft.Script.Bind

/-! ## the argument buffer: every reader returns what the writer stored -/
namespace Uft.Script.Args
open Uft.Gen.ScriptArgs

theorem alignUp_ge (n : Nat) : n ≤ alignUp n 4 := by unfold alignUp; omega

theorem wrSize_ge_str (f : Fmt) (size slen : Nat) (h : isStr f = true) : slen + 2 ≤ wrSize f size slen := by
  cases f <;> simp [isStr] at h <;> simp [wrSize] <;> exact alignUp_ge _

theorem wrSize_ge_fixed (f : Fmt) (size slen : Nat) (h : isStr f = false) : size ≤ wrSize f size slen := by
  cases f <;> simp [isStr] at h <;> simp [wrSize] <;> exact alignUp_ge _

/-- the reader advances exactly as far as the writer did, for every format it has a case for -/
structure Good (adv : Fmt → Nat → Nat → Option Nat) : Prop where
  eq : ∀ f size slen a, (f = .chr → size = 1) → adv f size slen = some a → a = wrSize f size slen
  total : ∀ f, handles adv f = true → ∀ size slen, (adv f size slen).isSome = true

theorem padTo_length (n : Nat) (l : List Nat) (h : l.length ≤ n) : (padTo n l).length = n := by
  simp [padTo]; omega

theorem drop_padTo (n : Nat) (l tl : List Nat) (h : l.length ≤ n) : (padTo n l ++ tl).drop n = tl := by
  have := padTo_length n l h
  rw [List.drop_append_of_le_length (by omega)]
  simp [List.drop_eq_nil_of_le, this]

theorem take_padTo (n k : Nat) (l tl : List Nat) (hk : k ≤ l.length) : (padTo n l ++ tl).take k = l.take k := by
  unfold padTo
  rw [List.append_assoc, List.take_append_of_le_length hk]

/-- one value: reading what was just written gives the value back and leaves the rest -/
theorem decOne_encOne (adv : Fmt → Nat → Nat → Option Nat) (hg : Good adv) (sp : ASpec) (v : AVal)
    (hf : fits sp v) (hh : handles adv sp.fmt = true) (tl : List Nat) :
    decOne adv sp (encOne sp v ++ tl) = some (v, tl) := by
  cases v with
  | str s =>
    have hs : isStr sp.fmt = true := hf
    have hne : sp.fmt ≠ .chr := by intro e; rw [e] at hs; simp [isStr] at hs
    have hge := wrSize_ge_str sp.fmt sp.size s.length hs
    have h0 : (encOne sp (.str s) ++ tl).getD 0 0 = s.length % 256 := by simp [encOne, padTo]
    have h1 : (encOne sp (.str s) ++ tl).getD 1 0 = s.length / 256 := by simp [encOne, padTo]
    have hl : s.length % 256 + 256 * (s.length / 256) = s.length := Nat.mod_add_div _ _
    obtain ⟨a, ha⟩ := Option.isSome_iff_exists.mp (hg.total sp.fmt hh sp.size s.length)
    have hw := hg.eq sp.fmt sp.size s.length a (fun e => absurd e hne) ha
    unfold decOne
    simp only [hs, ↓reduceIte, h0, h1, hl, ha]
    have hd : (encOne sp (.str s) ++ tl).drop a = tl := by
      rw [hw]; exact drop_padTo _ _ _ (by simp; omega)
    have ht : ((encOne sp (.str s) ++ tl).drop 2).take s.length = s := by
      simp [encOne, padTo]
    rw [hd, ht]
  | fixed b =>
    obtain ⟨hs, hlen, hc⟩ := hf
    have hge := wrSize_ge_fixed sp.fmt sp.size 0 hs
    obtain ⟨a, ha⟩ := Option.isSome_iff_exists.mp (hg.total sp.fmt hh sp.size 0)
    have hw := hg.eq sp.fmt sp.size 0 a hc ha
    have hr : readLen sp = b.length := by
      unfold readLen
      by_cases e : sp.fmt = .chr
      · simp [e, hlen, hc e]
      · simp [e, hlen]
    unfold decOne
    simp only [hs, Bool.false_eq_true, ↓reduceIte, ha]
    have hd : (encOne sp (.fixed b) ++ tl).drop a = tl := by
      rw [hw]; exact drop_padTo _ _ _ (by omega)
    have ht : (encOne sp (.fixed b) ++ tl).take (readLen sp) = b := by
      rw [hr]; simp only [encOne]
      rw [take_padTo _ _ _ _ (Nat.le_refl _)]; simp
    rw [hd, ht]

/-- the whole list -/
theorem decode_encode (adv : Fmt → Nat → Nat → Option Nat) (hg : Good adv) :
    ∀ (sv : List (ASpec × AVal)) (tl : List Nat),
      (∀ p ∈ sv, fits p.1 p.2 ∧ handles adv p.1.fmt = true) →
      decode adv (sv.map (·.1)) (encode sv ++ tl) = sv.map (·.2)
  | [], _, _ => rfl
  | (sp, v) :: rest, tl, h => by
    have h0 := h (sp, v) (List.mem_cons_self)
    have ih := decode_encode adv hg rest tl (fun p hp => h p (List.mem_cons_of_mem _ hp))
    simp only [List.map_cons, encode, decode, List.append_assoc]
    rw [decOne_encOne adv hg sp v h0.1 h0.2]
    simp only [ih]

theorem good_replay : Good replayAdv where
  eq := by
    intro f size slen a hc h
    cases f <;> simp [replayAdv] at h <;> subst h <;> simp [wrSize]
    rw [hc rfl]
  total := by
    intro f _ size slen
    cases f <;> simp [replayAdv]

theorem good_python : Good pyAdv where
  eq := by
    intro f size slen a hc h
    cases f <;> simp [pyAdv] at h <;> subst h <;> simp [wrSize]
    rw [hc rfl]; simp [alignUp]
  total := by
    intro f hh size slen
    cases f <;> simp_all [pyAdv, handles]

theorem good_lua : Good luaAdv where
  eq := by
    intro f size slen a hc h
    cases f <;> simp [luaAdv] at h <;> subst h <;> simp [wrSize]
    rw [hc rfl]; simp [alignUp]
  total := by
    intro f hh size slen
    cases f <;> simp_all [luaAdv, handles]

theorem replay_handles_all (f : Fmt) : handles replayAdv f = true := by
  cases f <;> simp [handles, replayAdv]

end Uft.Script.Args

/-! ## refinement: this file's model of cmds/script.c against the script loop of the C07 model
    (Uft/Model/Fstack.lean `stepC`), record by record -/
namespace Uft.Script.Bridge
open Uft.Fstack
open Uft.Mcount (Call Calls evCall evCalls)

/-- a record of the C07 / hook models as a record of this model -/
def conv (r : Uft.Mcount.Rec) : Rec :=
  { time := r.time, exit := r.type == 1, depth := r.depth, addr := r.addr }

/-- the option set in the C07 model's terms: -F / -N table, -D, -t -/
def toRCfg (cfg : Cfg) (thr : Nat) : RCfg :=
  { depthOpt := cfg.depth, threshold := thr, optIn := cfg.modeIn, trig := fun a => { filter := cfg.filt a } }

/-- a callback as the shown record of the C07 model: time, kind, function, display depth -/
def cbRec : Cb → List Uft.Mcount.Rec
  | .entry c => [{ time := c.time, type := 0, depth := c.depth, addr := c.addr }]
  | .exit c => [{ time := c.time, type := 1, depth := c.depth, addr := c.addr }]
  | _ => []

def cbRecs (cbs : List Cb) : List Uft.Mcount.Rec := cbs.flatMap cbRec

def frOf (f : Frame) : Fr :=
  { origDepth := f.origDepth, filtered := f.filtered, notrace := f.notrace, norecord := f.norecord }

/-- the list of entered calls of the C07 model is the array of this model below `stack_count` -/
def StackRel (slots : Nat → Frame) : List Fr → Prop
  | [] => True
  | fr :: rest => frOf (slots rest.length) = fr ∧ StackRel slots rest

structure Sim (cfg : Cfg) (st : TaskSt) (fs : FS) : Prop where
  count : st.stackCount = fs.sc
  len : fs.stack.length = fs.sc
  started : st.started = fs.scSet
  disp : st.disp = fs.dispDepth
  dset : st.dispSet = fs.dispSet
  inc : st.inCount = fs.inCount
  outc : st.outCount = fs.outCount
  depth : st.fdepth = fs.depth
  fresh : st.started = false → st.fdepth = cfg.depth
  en : fs.enabled = true
  ss : fs.stack ≠ [] → fs.scSet = true
  stack : StackRel st.slots fs.stack

theorem StackRel_congr (s1 s2 : Nat → Frame) :
    ∀ (l : List Fr), (∀ k, k < l.length → frOf (s1 k) = frOf (s2 k)) → StackRel s1 l → StackRel s2 l
  | [], _, _ => trivial
  | fr :: rest, h, ok => by
    have hk := h rest.length (by simp)
    simp only [StackRel] at ok ⊢
    rw [← hk]
    exact ⟨ok.1, StackRel_congr s1 s2 rest (fun k hk' => h k (by simp; omega)) ok.2⟩

/-- read_rstack touches addr / total_time / valid only: the filter part of every frame stays -/
theorem frOf_consume (cfg : Cfg) (st : TaskSt) (r : Rec) (k : Nat) :
    frOf ((consume cfg st r).slots k) = frOf (st.slots k) := by
  show frOf (lookupL _ (accountSlots (startCount st r) (startSlots st r) r) k) = _
  rw [lookupL_range]
  have hs : ∀ j, frOf (startSlots st r j) = frOf (st.slots j) := by
    intro j
    unfold startSlots
    split
    · rfl
    · split <;> rfl
  unfold accountSlots
  split
  · split
    · exact hs k
    · simp only [setSlot]
      split
      · rename_i e; subst e; simp only [frOf]; exact hs _
      · exact hs k
  · simp only [setSlot]
    split
    · rename_i e; subst e; simp only [frOf]; exact hs _
    · exact hs k

theorem sim_init (cfg : Cfg) (hd : cfg.dispSet0 = true) (thr : Nat) :
    Sim cfg (TaskSt.fresh cfg) (FS.init (toRCfg cfg thr)) :=
  { count := rfl, len := rfl, started := rfl, disp := rfl,
    dset := by simp [TaskSt.fresh, FS.init, toRCfg, hd]
    inc := rfl, outc := rfl, depth := rfl, fresh := fun _ => rfl, en := rfl, ss := fun h => absurd rfl h,
    stack := trivial }

/-- the state of the C07 script loop after a list of records -/
def endC (c : RCfg) : FS → List Uft.Mcount.Rec → FS
  | s, [] => s
  | s, r :: rest => endC c (stepC c s r).1 rest

/-- fstack_entry's verdict in the C07 model, in the terms of this model's tests (the two automata
    take the same decision when their counters agree) -/
theorem verdict_eq (cfg : Cfg) (thr : Nat) (s1 : TaskSt) (fa : FS) (r : Rec)
    (hi : s1.inCount = fa.inCount) (ho : s1.outCount = fa.outCount) (hdp : s1.fdepth = fa.depth)
    (hen : fa.enabled = true) :
    verdict (toRCfg cfg thr) fa r.addr =
      if eOut s1 then .outRegion else if eNotrace cfg s1 r then .notrace else if eMode cfg s1 r then .optOut
      else if fdepth1 cfg s1 r = 0 then .depthOut else .accept := by
  unfold verdict eOut eNotrace eMode fdepth1 eIn eOut
  simp only [toRCfg, locReject, enAfter, depthAfter, isIn, hen, ← hi, ← ho, ← hdp]
  by_cases h1 : s1.outCount > 0
  · simp [h1]
  · simp only [h1, ↓reduceIte, decide_false, Bool.not_false, Bool.true_and]
    rcases hfl : cfg.filt r.addr with _ | (_ | _)
    · by_cases h3 : cfg.modeIn = true ∧ s1.inCount = 0
      · simp [h3.1, h3.2]
      · by_cases hm : cfg.modeIn = true
        · have : s1.inCount ≠ 0 := fun e => h3 ⟨hm, e⟩
          simp [hm, this]
        · simp [hm]
    · simp
    · simp

theorem verdict_facts (cfg : Cfg) (thr : Nat) (s1 : TaskSt) (fa : FS) (r : Rec)
    (hi : s1.inCount = fa.inCount) (ho : s1.outCount = fa.outCount) (hdp : s1.fdepth = fa.depth)
    (hen : fa.enabled = true) :
    (verdict (toRCfg cfg thr) fa r.addr == Verdict.accept) = accepted cfg s1 r ∧
    ((verdict (toRCfg cfg thr) fa r.addr).matched && isIn ((toRCfg cfg thr).trig r.addr)) = eIn cfg s1 r ∧
    (verdict (toRCfg cfg thr) fa r.addr == Verdict.notrace) = eNotrace cfg s1 r ∧
    (verdict (toRCfg cfg thr) fa r.addr).norecord = !accepted cfg s1 r ∧
    ((verdict (toRCfg cfg thr) fa r.addr).late = true →
      depthAfter (toRCfg cfg thr) fa ((toRCfg cfg thr).trig r.addr) = fdepth1 cfg s1 r) ∧
    ((verdict (toRCfg cfg thr) fa r.addr).late = false → eIn cfg s1 r = false ∧ accepted cfg s1 r = false) ∧
    ((verdict (toRCfg cfg thr) fa r.addr).late = true → accepted cfg s1 r = false → fdepth1 cfg s1 r = 0) := by
  rw [verdict_eq cfg thr s1 fa r hi ho hdp hen]
  unfold accepted eMode eNotrace fdepth1 eIn eOut
  simp only [toRCfg, depthAfter, isIn, ← hdp]
  by_cases h1 : s1.outCount > 0
  · simp [h1, Verdict.matched, Verdict.norecord, Verdict.late]
  · simp only [h1, ↓reduceIte, decide_false, Bool.not_false, Bool.true_and]
    rcases hfl : cfg.filt r.addr with _ | (_ | _)
    · by_cases hm : cfg.modeIn = true <;> by_cases hz : s1.inCount = 0 <;> by_cases hd0 : s1.fdepth = 0 <;>
        simp [hm, hz, hd0, Verdict.matched, Verdict.norecord, Verdict.late]
    · simp [Verdict.matched, Verdict.norecord, Verdict.late]
    · by_cases hd0 : cfg.depth = 0 <;> simp [hd0, Verdict.matched, Verdict.norecord, Verdict.late]

theorem account_entry (fs : FS) (r : Uft.Mcount.Rec) (ht : r.type = 0) (hd : r.depth = fs.sc) :
    account fs r = { fs with sc := fs.sc + 1, scSet := true } := by
  unfold account
  simp only [ht, Nat.not_succ_le_zero, ↓reduceIte, Nat.zero_ne_one, ge_iff_le, show ¬ (2 ≤ 0) by omega]
  cases fs.scSet <;> simp [hd]

theorem account_exit (fs : FS) (r : Uft.Mcount.Rec) (ht : r.type = 1) (hs : fs.scSet = true) :
    account fs r = { fs with sc := fs.sc - 1, scSet := true } := by
  unfold account
  simp [ht, hs]

/-- ENTRY: both script loops make the same step -/
theorem entry_sim (cfg : Cfg) (thr i : Nat) (hf : cfg.funcs = []) (st : TaskSt) (fs : FS) (sim : Sim cfg st fs)
    (r : Uft.Mcount.Rec) (ht : r.type = 0) (hd : r.depth = fs.sc) :
    Sim cfg (scriptTask cfg i st (conv r)).1 (stepC (toRCfg cfg thr) fs r).1 ∧
    cbRecs (scriptTask cfg i st (conv r)).2 = (stepC (toRCfg cfg thr) fs r).2 ∧
    ∃ fr, (stepC (toRCfg cfg thr) fs r).1.stack = fr :: fs.stack := by
  have hx : (conv r).exit = false := by simp [conv, ht]
  have hcd : (conv r).depth = fs.sc := hd
  have hsc : startCount st (conv r) = fs.sc := by
    unfold startCount firstCount
    cases hs : st.started
    · simp [hx, hcd]
    · simp [sim.count]
  have h1c : (consume cfg st (conv r)).stackCount = fs.sc + 1 := by
    show newCount (startCount st (conv r)) (conv r) = _
    simp [newCount, hx, hsc]
  have h1fd : (consume cfg st (conv r)).fdepth = fs.depth := by
    show (if st.started = true then st.fdepth else cfg.depth) = _
    cases hs : st.started
    · simp only [Bool.false_eq_true, ↓reduceIte]; rw [← sim.fresh hs]; exact sim.depth
    · simp only [↓reduceIte]; exact sim.depth
  have h1disp : (consume cfg st (conv r)).disp = fs.dispDepth := sim.disp
  have h1dset : (consume cfg st (conv r)).dispSet = fs.dispSet := sim.dset
  have h1in : (consume cfg st (conv r)).inCount = fs.inCount := sim.inc
  have h1out : (consume cfg st (conv r)).outCount = fs.outCount := sim.outc
  have h1started : (consume cfg st (conv r)).started = true := rfl
  have h1fr := frOf_consume cfg st (conv r)
  have hst : (scriptTask cfg i st (conv r)).1 = scriptEntrySt cfg (consume cfg st (conv r)) (conv r) := by
    unfold scriptTask; simp [hx]
  have hout : (scriptTask cfg i st (conv r)).2 = scriptEntryCb cfg i (consume cfg st (conv r)) (conv r) := by
    unfold scriptTask; simp [hx]
  rw [hst, hout]
  generalize consume cfg st (conv r) = s1 at h1c h1fd h1disp h1dset h1in h1out h1started h1fr ⊢
  -- the C07 side
  have ha := account_entry fs r ht hd
  have hplt : isPlt (toRCfg cfg thr) r = false := rfl
  have hC : stepC (toRCfg cfg thr) fs r =
      (if (fsEntry (toRCfg cfg thr) { fs with sc := fs.sc + 1, scSet := true } r.addr).2 = true then
        (updEntry (fsEntry (toRCfg cfg thr) { fs with sc := fs.sc + 1, scSet := true } r.addr).1,
         [shown r (fsEntry (toRCfg cfg thr) { fs with sc := fs.sc + 1, scSet := true } r.addr).1.dispDepth])
       else ((fsEntry (toRCfg cfg thr) { fs with sc := fs.sc + 1, scSet := true } r.addr).1, [])) := by
    unfold stepC
    simp only [hplt, Bool.false_eq_true, ↓reduceIte, ha, ht]
  rw [hC]
  have F := verdict_facts cfg thr s1 { fs with sc := fs.sc + 1, scSet := true } (conv r) h1in h1out h1fd sim.en
  have haddr : (conv r).addr = r.addr := rfl
  rw [haddr] at F
  simp only [fsEntry]
  generalize hv : verdict (toRCfg cfg thr) { fs with sc := fs.sc + 1, scSet := true } r.addr = v at F ⊢
  obtain ⟨Facc, Fin, Fnt, Fnr, Flate, Fnl, Fz⟩ := F
  -- the frame both automata write
  have hslot : ∀ k, k < fs.stack.length → frOf ((fstackEntry cfg s1 (conv r)).slots k) = frOf (st.slots k) := by
    intro k hk
    show frOf (setSlot s1.slots (s1.stackCount - 1) _ k) = _
    have : k ≠ fs.sc := by have := sim.len; omega
    simp only [setSlot, h1c, Nat.add_sub_cancel, this, ↓reduceIte]
    exact h1fr k
  have htop : frOf ((fstackEntry cfg s1 (conv r)).slots fs.stack.length) =
      { origDepth := fs.depth, filtered := eIn cfg s1 (conv r), notrace := eNotrace cfg s1 (conv r),
        norecord := !accepted cfg s1 (conv r) } := by
    show frOf (setSlot s1.slots (s1.stackCount - 1) _ fs.stack.length) = _
    simp [setSlot, h1c, sim.len, frOf, h1fd]
  have hstack : StackRel (fstackEntry cfg s1 (conv r)).slots
      ({ origDepth := fs.depth, filtered := v.matched && isIn ((toRCfg cfg thr).trig r.addr), notrace := v == .notrace,
         norecord := v.norecord } :: fs.stack) := by
    simp only [StackRel]
    refine ⟨?_, StackRel_congr st.slots _ fs.stack (fun k hk => (hslot k hk).symm) sim.stack⟩
    rw [htop, Fin, Fnt, Fnr]
  have e2in : (fstackEntry cfg s1 (conv r)).inCount =
      (if (v.matched && isIn ((toRCfg cfg thr).trig r.addr)) = true then fs.inCount + 1 else fs.inCount) := by
    show (if eIn cfg s1 (conv r) = true then s1.inCount + 1 else s1.inCount) = _
    rw [Fin, h1in]
  have e2out : (fstackEntry cfg s1 (conv r)).outCount = (if v = Verdict.notrace then fs.outCount + 1 else fs.outCount) := by
    show (if eNotrace cfg s1 (conv r) = true then s1.outCount + 1 else s1.outCount) = _
    rw [← Fnt, h1out]
    by_cases e : v = Verdict.notrace <;> simp [e]
  have hvacc : (v = Verdict.accept) ↔ accepted cfg s1 (conv r) = true := by
    rw [← Facc]; simp
  have e2depth : (fstackEntry cfg s1 (conv r)).fdepth =
      (if v.late = true then
        (if v = Verdict.accept then depthAfter (toRCfg cfg thr) { fs with sc := fs.sc + 1, scSet := true } ((toRCfg cfg thr).trig r.addr) - 1
         else depthAfter (toRCfg cfg thr) { fs with sc := fs.sc + 1, scSet := true } ((toRCfg cfg thr).trig r.addr))
       else if (v.matched && isIn ((toRCfg cfg thr).trig r.addr)) = true then (toRCfg cfg thr).depthOpt else fs.depth) := by
    show (if accepted cfg s1 (conv r) = true then fdepth1 cfg s1 (conv r) - 1 else fdepth1 cfg s1 (conv r)) = _
    cases hl : v.late
    · have := Fnl hl
      simp only [Bool.false_eq_true, ↓reduceIte, Fin, this.1, this.2]
      simp [fdepth1, this.1, h1fd]
    · simp only [↓reduceIte, Flate hl]
      by_cases e : v = Verdict.accept
      · simp [e, hvacc.mp e]
      · have : accepted cfg s1 (conv r) = false := by
          cases h : accepted cfg s1 (conv r)
          · rfl
          · exact absurd (hvacc.mpr h) e
        simp [e, this]
  have e2dset : (fstackEntry cfg s1 (conv r)).dispSet = (if v = Verdict.accept then true else fs.dispSet) := by
    show (s1.dispSet || accepted cfg s1 (conv r)) = _
    rw [h1dset]
    by_cases e : v = Verdict.accept
    · simp [e, hvacc.mp e]
    · have : accepted cfg s1 (conv r) = false := by
        cases h : accepted cfg s1 (conv r)
        · rfl
        · exact absurd (hvacc.mpr h) e
      simp [e, this]
  have e2disp : (fstackEntry cfg s1 (conv r)).disp =
      (if (decide (v = Verdict.accept) && !fs.dispSet) = true then fs.sc + 1 - 1 else fs.dispDepth) := by
    show (if (accepted cfg s1 (conv r) && !s1.dispSet) = true then s1.stackCount - 1 else s1.disp) = _
    rw [h1dset, h1c, h1disp]
    by_cases e : v = Verdict.accept
    · simp [e, hvacc.mp e]
    · have : accepted cfg s1 (conv r) = false := by
        cases h : accepted cfg s1 (conv r)
        · rfl
        · exact absurd (hvacc.mpr h) e
      simp [e, this]
  have hto : (toRCfg cfg thr).trig r.addr = ({ filter := cfg.filt r.addr } : Uft.Mcount.Trigger) := rfl
  have hoff : ((toRCfg cfg thr).trig r.addr).traceOff = false := rfl
  unfold scriptEntrySt scriptEntryCb
  simp only [matchFuncs_nil cfg hf, Bool.and_true, hoff, Bool.and_false, Bool.false_eq_true, ↓reduceIte]
  cases hacc : accepted cfg s1 (conv r)
  · have hne : ¬ (v = Verdict.accept) := fun e => by have := hvacc.mp e; rw [hacc] at this; exact absurd this (by simp)
    have hb : (v == Verdict.accept) = false := by simp [hne]
    simp only [hb, Bool.false_eq_true, ↓reduceIte, cbRecs, List.flatMap_nil, true_and]
    refine ⟨?_, _, rfl⟩
    exact {
      count := h1c
      len := by simp [sim.len]
      started := h1started
      disp := by rw [e2disp]; try simp [hne]
      dset := by rw [e2dset]; try simp [hne]
      inc := e2in
      outc := e2out
      depth := e2depth
      fresh := by intro h; rw [show (fstackEntry cfg s1 (conv r)).started = s1.started from rfl, h1started] at h; exact absurd h (by simp)
      en := by
        show (if v.late = true then enAfter ((toRCfg cfg thr).trig r.addr) fs.enabled else fs.enabled) = true
        simp [enAfter, hto, sim.en]
      ss := fun _ => rfl
      stack := hstack }
  · have he : v = Verdict.accept := hvacc.mpr hacc
    have hb : (v == Verdict.accept) = true := by simp [he]
    simp only [hb, ↓reduceIte, cbRecs, List.flatMap_cons, List.flatMap_nil, List.append_nil, cbRec]
    refine ⟨?_, ?_, _, rfl⟩
    · exact {
        count := h1c
        len := by simp [sim.len, updEntry]
        started := h1started
        disp := by
          show (fstackEntry cfg s1 (conv r)).disp + 1 = _
          rw [e2disp]; simp [he, updEntry]
        dset := by
          show (fstackEntry cfg s1 (conv r)).dispSet = _
          rw [e2dset]; simp [he, updEntry]
        inc := e2in
        outc := e2out
        depth := e2depth
        fresh := by intro h; rw [show (updateEntry (fstackEntry cfg s1 (conv r))).started = s1.started from rfl, h1started] at h; exact absurd h (by simp)
        en := by
          show (if v.late = true then enAfter ((toRCfg cfg thr).trig r.addr) fs.enabled else fs.enabled) = true
          simp [enAfter, hto, sim.en]
        ss := fun _ => rfl
        stack := hstack }
    · rw [e2disp]
      simp [shown, conv, he, ht]

/-- EXIT of a call this reader has entered: both script loops make the same step -/
theorem exit_sim (cfg : Cfg) (thr i : Nat) (hf : cfg.funcs = []) (st : TaskSt) (fs : FS) (sim : Sim cfg st fs)
    (r : Uft.Mcount.Rec) (ht : r.type = 1) (fr : Fr) (rest : List Fr) (hstk : fs.stack = fr :: rest) :
    Sim cfg (scriptTask cfg i st (conv r)).1 (stepC (toRCfg cfg thr) fs r).1 ∧
    cbRecs (scriptTask cfg i st (conv r)).2 = (stepC (toRCfg cfg thr) fs r).2 ∧
    (stepC (toRCfg cfg thr) fs r).1.stack = rest := by
  have hx : (conv r).exit = true := by simp [conv, ht]
  have hscset : fs.scSet = true := sim.ss (by rw [hstk]; simp)
  have hstarted : st.started = true := by rw [sim.started]; exact hscset
  have hlen : fs.sc = rest.length + 1 := by have := sim.len; rw [hstk] at this; simpa using this.symm
  have hsr := sim.stack
  rw [hstk] at hsr
  simp only [StackRel] at hsr
  have hsc : startCount st (conv r) = rest.length + 1 := by simp [startCount, hstarted, sim.count, hlen]
  have h1c : (consume cfg st (conv r)).stackCount = rest.length := by
    show newCount (startCount st (conv r)) (conv r) = _
    simp [newCount, hx, hsc]
  have h1fd : (consume cfg st (conv r)).fdepth = fs.depth := by
    show (if st.started = true then st.fdepth else cfg.depth) = _
    simp only [hstarted, ↓reduceIte]; exact sim.depth
  have h1disp : (consume cfg st (conv r)).disp = fs.dispDepth := sim.disp
  have h1dset : (consume cfg st (conv r)).dispSet = fs.dispSet := sim.dset
  have h1in : (consume cfg st (conv r)).inCount = fs.inCount := sim.inc
  have h1out : (consume cfg st (conv r)).outCount = fs.outCount := sim.outc
  have h1started : (consume cfg st (conv r)).started = true := rfl
  have h1fr := frOf_consume cfg st (conv r)
  have hst : (scriptTask cfg i st (conv r)).1 = scriptExitSt (consume cfg st (conv r)) := by
    unfold scriptTask; simp [hx]
  have hout : (scriptTask cfg i st (conv r)).2 = scriptExitCb cfg i (consume cfg st (conv r)) (conv r) := by
    unfold scriptTask; simp [hx]
  rw [hst, hout]
  generalize consume cfg st (conv r) = s1 at h1c h1fd h1disp h1dset h1in h1out h1started h1fr ⊢
  have htopfr : frOf (s1.slots s1.stackCount) = fr := by rw [h1c, h1fr]; exact hsr.1
  have hnr : (s1.slots s1.stackCount).norecord = fr.norecord := by rw [← htopfr]; rfl
  have hfl : (s1.slots s1.stackCount).filtered = fr.filtered := by rw [← htopfr]; rfl
  have hnt : (s1.slots s1.stackCount).notrace = fr.notrace := by rw [← htopfr]; rfl
  have hod : (s1.slots s1.stackCount).origDepth = fr.origDepth := by rw [← htopfr]; rfl
  -- the C07 side
  have ha := account_exit fs r ht hscset
  have hplt : isPlt (toRCfg cfg thr) r = false := rfl
  have htop : topFr (toRCfg cfg thr) { fs with sc := fs.sc - 1, scSet := true } = fr := by
    simp [topFr, hstk]
  have hC : stepC (toRCfg cfg thr) fs r = exitStep (toRCfg cfg thr) { fs with sc := fs.sc - 1, scSet := true } r false := by
    unfold stepC
    simp only [hplt, Bool.false_eq_true, ↓reduceIte, ha, ht, Nat.succ_ne_zero, Nat.one_ne_zero]
  rw [hC]
  unfold exitStep
  rw [htop]
  simp only [sim.en, Bool.not_true, Bool.or_false]
  -- what fstack_exit does to the state, with or without fstack_update
  have hrestSlots : ∀ (s : TaskSt), s.stackCount = rest.length → s.slots = s1.slots →
      StackRel (fstackExit s).slots rest := by
    intro s hc hs
    apply StackRel_congr st.slots _ rest _ hsr.2
    intro k hk
    show frOf (st.slots k) = frOf (setSlot s.slots s.stackCount _ k)
    rw [hc, hs]
    simp only [setSlot]
    rw [if_neg (by omega), h1fr k]
  unfold scriptExitSt scriptExitCb
  simp only [matchFuncs_nil cfg hf, Bool.and_true, hnr]
  cases hn : fr.norecord
  · -- shown
    simp only [Bool.not_false, Bool.false_eq_true, ↓reduceIte, cbRecs, List.flatMap_cons, List.flatMap_nil,
      List.append_nil, cbRec]
    refine ⟨?_, ?_, by simp [fsExit, updExit, hstk]⟩
    · exact {
        count := by show s1.stackCount = fs.sc - 1; rw [h1c, hlen]; simp
        len := by simp [fsExit, updExit, hstk, hlen]
        started := h1started
        disp := by
          show exitDisp s1 = _
          simp [exitDisp, updExit, fsExit, h1dset, h1disp, h1c, hlen]
        dset := rfl
        inc := by
          show (if (s1.slots s1.stackCount).filtered = true then s1.inCount - 1 else s1.inCount) = _
          simp [fsExit, updExit, topFr, hstk, hfl, h1in]
        outc := by
          show (if (!(s1.slots s1.stackCount).filtered && (s1.slots s1.stackCount).notrace) = true then s1.outCount - 1
                else s1.outCount) = _
          simp [fsExit, updExit, topFr, hstk, hfl, hnt, h1out]
        depth := by
          show (s1.slots s1.stackCount).origDepth = _
          simp [fsExit, updExit, topFr, hstk, hod]
        fresh := by
          intro h
          rw [show (fstackExit (updateExit s1)).started = s1.started from rfl, h1started] at h
          exact absurd h (by simp)
        en := by simp [fsExit, updExit, sim.en]
        ss := fun _ => rfl
        stack := by
          have := hrestSlots (updateExit s1) h1c rfl
          simpa [fsExit, updExit, hstk] using this }
    · simp [shown, conv, ht, exitDisp, updExit, h1dset, h1disp, h1c, hlen]
  · -- NORECORD: nothing shown, no fstack_update
    simp only [Bool.not_true, Bool.false_eq_true, ↓reduceIte, cbRecs, List.flatMap_nil]
    refine ⟨?_, trivial, by simp [fsExit, hstk]⟩
    exact {
      count := by show s1.stackCount = fs.sc - 1; rw [h1c, hlen]; simp
      len := by simp [fsExit, hstk, hlen]
      started := h1started
      disp := by show s1.disp = _; simp [fsExit, h1disp]
      dset := by show s1.dispSet = _; simp [fsExit, h1dset]
      inc := by
        show (if (s1.slots s1.stackCount).filtered = true then s1.inCount - 1 else s1.inCount) = _
        simp [fsExit, topFr, hstk, hfl, h1in]
      outc := by
        show (if (!(s1.slots s1.stackCount).filtered && (s1.slots s1.stackCount).notrace) = true then s1.outCount - 1
              else s1.outCount) = _
        simp [fsExit, topFr, hstk, hfl, hnt, h1out]
      depth := by
        show (s1.slots s1.stackCount).origDepth = _
        simp [fsExit, topFr, hstk, hod]
      fresh := by
        intro h
        rw [show (fstackExit s1).started = s1.started from rfl, h1started] at h
        exact absurd h (by simp)
      en := by simp [fsExit, sim.en]
      ss := fun _ => rfl
      stack := by
        have := hrestSlots s1 h1c rfl
        simpa [fsExit, hstk] using this }

theorem taskRun_append (cfg : Cfg) (i : Nat) : ∀ (a b : List Rec) (st : TaskSt),
    taskRun cfg i st (a ++ b) =
      ((taskRun cfg i (taskRun cfg i st a).1 b).1, (taskRun cfg i st a).2 ++ (taskRun cfg i (taskRun cfg i st a).1 b).2)
  | [], b, st => by simp [taskRun]
  | r :: a, b, st => by
    simp only [List.cons_append, taskRun, taskRun_append cfg i a b, List.append_assoc]

theorem endC_append (c : RCfg) : ∀ (a b : List Uft.Mcount.Rec) (s : FS), endC c s (a ++ b) = endC c (endC c s a) b
  | [], _, _ => rfl
  | r :: a, b, s => by simp only [List.cons_append, endC, endC_append c a b]

theorem runSteps_append (c : RCfg) : ∀ (a b : List Uft.Mcount.Rec) (s : FS),
    runSteps (stepC c) s (a ++ b) = runSteps (stepC c) s a ++ runSteps (stepC c) (endC c s a) b
  | [], _, _ => rfl
  | r :: a, b, s => by simp only [List.cons_append, runSteps, endC, runSteps_append c a b, List.append_assoc]

theorem cbRecs_append (a b : List Cb) : cbRecs (a ++ b) = cbRecs a ++ cbRecs b := by simp [cbRecs]

/-- what the simulation gives for a stretch of records -/
structure SimRun (cfg : Cfg) (thr i : Nat) (st : TaskSt) (fs : FS) (rs : List Uft.Mcount.Rec) : Prop where
  sim : Sim cfg (taskRun cfg i st (rs.map conv)).1 (endC (toRCfg cfg thr) fs rs)
  out : cbRecs (taskRun cfg i st (rs.map conv)).2 = runSteps (stepC (toRCfg cfg thr)) fs rs
  stack : (endC (toRCfg cfg thr) fs rs).stack = fs.stack

theorem Sim.sc_of_stack {cfg : Cfg} {st st' : TaskSt} {fs fs' : FS} (a : Sim cfg st fs) (b : Sim cfg st' fs')
    (h : fs'.stack = fs.stack) : fs'.sc = fs.sc := by
  rw [← a.len, ← b.len, h]

mutual
  /-- a complete call: the two script loops stay in step and the entered-call stack is restored -/
  theorem sim_call (cfg : Cfg) (thr i : Nat) (hf : cfg.funcs = []) :
      ∀ (x : Call) (st : TaskSt) (fs : FS), Sim cfg st fs → SimRun cfg thr i st fs (evCall fs.sc x)
    | .node f t0 t1 kids, st, fs, sim => by
      have hE := entry_sim cfg thr i hf st fs sim { time := t0, type := 0, depth := fs.sc, addr := f } rfl rfl
      obtain ⟨sim1, out1, fr, hstk1⟩ := hE
      have hsc1 : (stepC (toRCfg cfg thr) fs { time := t0, type := 0, depth := fs.sc, addr := f }).1.sc = fs.sc + 1 := by
        rw [← sim1.len, hstk1, List.length_cons, sim.len]
      have hK := sim_calls cfg thr i hf kids _ _ sim1
      rw [hsc1] at hK
      have hstk2 := hK.stack
      rw [hstk1] at hstk2
      have hX := exit_sim cfg thr i hf _ _ hK.sim { time := t1, type := 1, depth := fs.sc, addr := f } rfl fr fs.stack hstk2
      obtain ⟨sim3, out3, hstk3⟩ := hX
      have hev : evCall fs.sc (.node f t0 t1 kids) =
          [{ time := t0, type := 0, depth := fs.sc, addr := f }] ++ (evCalls (fs.sc + 1) kids ++
          [{ time := t1, type := 1, depth := fs.sc, addr := f }]) := by
        simp [evCall, List.append_assoc]
      rw [hev]
      refine ⟨?_, ?_, ?_⟩
      · simp only [List.map_append, List.map_cons, List.map_nil, taskRun_append, endC_append]
        simpa [taskRun, endC] using sim3
      · simp only [List.map_append, List.map_cons, List.map_nil, taskRun_append, runSteps_append, cbRecs_append]
        have o1 : cbRecs (taskRun cfg i st [conv { time := t0, type := 0, depth := fs.sc, addr := f }]).2 =
            runSteps (stepC (toRCfg cfg thr)) fs [{ time := t0, type := 0, depth := fs.sc, addr := f }] := by
          simpa [taskRun, runSteps] using out1
        have e1 : (taskRun cfg i st [conv { time := t0, type := 0, depth := fs.sc, addr := f }]).1 =
            (scriptTask cfg i st (conv { time := t0, type := 0, depth := fs.sc, addr := f })).1 := by simp [taskRun]
        have f1 : endC (toRCfg cfg thr) fs [{ time := t0, type := 0, depth := fs.sc, addr := f }] =
            (stepC (toRCfg cfg thr) fs { time := t0, type := 0, depth := fs.sc, addr := f }).1 := rfl
        rw [o1, e1, f1, hK.out]
        congr 2
        simpa [taskRun, runSteps] using out3
      · simp only [endC_append]
        simpa [endC] using hstk3
  theorem sim_calls (cfg : Cfg) (thr i : Nat) (hf : cfg.funcs = []) :
      ∀ (xs : Calls) (st : TaskSt) (fs : FS), Sim cfg st fs → SimRun cfg thr i st fs (evCalls fs.sc xs)
    | .nil, st, fs, sim => by
      simp only [evCalls]
      exact ⟨by simpa [taskRun, endC] using sim, by simp [taskRun, runSteps, cbRecs], rfl⟩
    | .cons x rest, st, fs, sim => by
      have h1 := sim_call cfg thr i hf x st fs sim
      have hsc : (endC (toRCfg cfg thr) fs (evCall fs.sc x)).sc = fs.sc := Sim.sc_of_stack sim h1.sim h1.stack
      have h2 := sim_calls cfg thr i hf rest _ _ h1.sim
      rw [hsc] at h2
      simp only [evCalls]
      refine ⟨?_, ?_, ?_⟩
      · simp only [List.map_append, taskRun_append, endC_append]; exact h2.sim
      · simp only [List.map_append, taskRun_append, runSteps_append, cbRecs_append]; rw [h1.out, h2.out]
      · simp only [endC_append]; rw [h2.stack, h1.stack]
end

/-- **Refinement.**  For every option set of this model (-F / -N table, -D), on the records of
    every call forest — after any look-ahead, so also under -t — the callbacks this model's
    script loop makes are exactly the records the script loop of the C07 model accepts: time,
    kind, function and display depth. -/
theorem script_refines_c07 (cfg : Cfg) (thr i : Nat) (hf : cfg.funcs = []) (hd : cfg.dispSet0 = true) (xs : Calls) :
    cbRecs (taskRun cfg i (TaskSt.fresh cfg) ((evCalls 0 xs).map conv)).2 =
      runSteps (stepC (toRCfg cfg thr)) (FS.init (toRCfg cfg thr)) (evCalls 0 xs) :=
  (sim_calls cfg thr i hf xs _ _ (sim_init cfg hd thr)).out

/-- the main loop over a stream of one task is that task's run -/
theorem runWith_single (cfg : Cfg) (i : Nat) : ∀ (rs : List Rec) (g : G),
    (runWith (scriptTask cfg) g (rs.map fun r => (i, r))).2 = (taskRun cfg i (g i) rs).2
  | [], _ => rfl
  | r :: rs, g => by
    simp only [List.map_cons, runWith, taskRun]
    rw [runWith_single cfg i rs]
    simp [upd]

end Uft.Script.Bridge
