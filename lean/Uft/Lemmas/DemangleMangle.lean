import Uft.Lemmas.Demangle
/-!
# C13 — exact evaluation of the demangler model on names produced by `mangle`

`Rest e p r`: the bytes of the input from index `p` to the end are the list `r`.
All primitives are evaluated exactly against this view.
-/
namespace Uft.Demangle
open Uft.Gen.DemangleTables

/-- the input from index `p` to its end is `r` -/
def Rest (e : Env) (p : Nat) (r : List UInt8) : Prop :=
  p + r.length = e.n ∧ ∀ j, j < r.length → e.rd (p + j) = some (r.getD j 0)

theorem Rest.rd {e : Env} {p : Nat} {r : List UInt8} (h : Rest e p r) (j : Nat) (hj : j ≤ r.length) :
    e.rd (p + j) = some (r.getD j 0) := by
  by_cases hlt : j < r.length
  · exact h.2 j hlt
  · have : j = r.length := by omega
    subst this
    rw [h.1, rd_n]
    simp

theorem Rest.drop {e : Env} {p : Nat} {r : List UInt8} (h : Rest e p r) (k : Nat) (hk : k ≤ r.length) :
    Rest e (p + k) (r.drop k) := by
  refine ⟨by simp [List.length_drop]; have := h.1; omega, ?_⟩
  intro j hj
  simp only [List.length_drop] at hj
  have := h.2 (k + j) (by omega)
  rw [Nat.add_assoc]
  rw [this]
  simp [List.getD_eq_getElem?_getD, List.getElem?_drop]

theorem Rest.of_list (l : List UInt8) (fx : Fixes) : Rest { s := l.toArray, fx := fx } 0 l := by
  refine ⟨by simp [Env.n], ?_⟩
  intro j hj
  simp [Env.rd, hj, List.getD_eq_getElem?_getD]

section prims
variable {e : Env} {st : St} {r : List UInt8}

theorem peek_eq (k : Nat) (hl : st.len = e.n) (h : Rest e st.pos r) : peek k e st = .ok (r.getD k 0) st := by
  unfold peek
  by_cases hk : st.pos + k > st.len
  · have : r.length < k := by have := h.1; omega
    simp [hk, List.getD_eq_getElem?_getD, List.getElem?_eq_none (Nat.le_of_lt this)]
  · have hk' : k ≤ r.length := by have := h.1; omega
    simp [hk, h.rd k hk']

theorem curr_eq (hl : st.len = e.n) (h : Rest e st.pos r) : curr e st = .ok (r.getD 0 0) st := peek_eq 0 hl h

theorem eof_eq (hl : st.len = e.n) (h : Rest e st.pos r) : eof e st = .ok (decide (r.length = 0)) st := by
  unfold eof
  have h1 := h.1
  have : (st.pos ≥ st.len) = (r.length = 0) := by
    apply propext
    constructor <;> intro _ <;> omega
  simp only [this]

theorem consumeN_eq (k : Nat) (hl : st.len = e.n) (h : Rest e st.pos r) (hk : k ≤ r.length) :
    consumeN k e st = .ok (r.getD 0 0) { st with pos := st.pos + k } := by
  unfold consumeN
  have hk' : ¬ st.pos + k > st.len := by have := h.1; omega
  simp [bind_def, curr_eq hl h, getSt, hk', modifySt, pure_def]

theorem consume_eq (hl : st.len = e.n) (h : Rest e st.pos r) (hk : 1 ≤ r.length) :
    consume e st = .ok (r.getD 0 0) { st with pos := st.pos + 1 } := consumeN_eq 1 hl h hk

theorem debugConsume_eq (c : UInt8) (hl : st.len = e.n) (h : Rest e st.pos (c :: r)) :
    debugConsume c e st = .ok true { st with pos := st.pos + 1 } := by
  unfold debugConsume
  simp [bind_def, consume_eq hl h (by simp), pure_def]

end prims


/-- the ASCII digit of `d < 10` -/
def digitByte (d : Nat) : UInt8 := UInt8.ofNat (48 + d)

theorem decimal_lt (n : Nat) (h : n < 10) : decimal n = [digitByte n] := by
  unfold decimal
  rw [Nat.toDigits_of_lt_base h]
  match n, h with
  | 0, _ | 1, _ | 2, _ | 3, _ | 4, _ | 5, _ | 6, _ | 7, _ | 8, _ | 9, _ => rfl

theorem decimal_ge (n : Nat) (h : 10 ≤ n) : decimal n = decimal (n / 10) ++ [digitByte (n % 10)] := by
  unfold decimal
  rw [Nat.toDigits_of_base_le (by omega) h, List.map_append]
  congr 1
  have : n % 10 < 10 := Nat.mod_lt _ (by omega)
  generalize n % 10 = m at this
  match m, this with
  | 0, _ | 1, _ | 2, _ | 3, _ | 4, _ | 5, _ | 6, _ | 7, _ | 8, _ | 9, _ => rfl

theorem digitByte_isDigit (d : Nat) (h : d < 10) : isDigit (digitByte d) = true ∧ (digitByte d).toNat = 48 + d := by
  match d, h with
  | 0, _ | 1, _ | 2, _ | 3, _ | 4, _ | 5, _ | 6, _ | 7, _ | 8, _ | 9, _ => exact ⟨rfl, rfl⟩

/-- value of a decimal digit string -/
def val10 (ds : List UInt8) : Nat := ds.foldl (fun a c => a * 10 + (c.toNat - 48)) 0

theorem val10_append (a : List UInt8) (c : UInt8) : val10 (a ++ [c]) = val10 a * 10 + (c.toNat - 48) := by
  simp [val10, List.foldl_append]

theorem decimal_spec : ∀ (n : Nat), (∀ d ∈ decimal n, isDigit d = true) ∧ val10 (decimal n) = n ∧ decimal n ≠ [] ∧
    (1 ≤ n → (decimal n).head? ≠ some 48) := by
  intro n
  induction n using Nat.strongRecOn with
  | _ n ih =>
    by_cases h : n < 10
    · rw [decimal_lt n h]
      obtain ⟨h1, h2⟩ := digitByte_isDigit n h
      refine ⟨by simpa using h1, by simp [val10, h2], by simp, ?_⟩
      intro hn
      simp only [List.head?_cons, ne_eq, Option.some.injEq]
      intro hh
      have := congrArg UInt8.toNat hh
      rw [h2] at this
      simp at this
      omega
    · have hge : 10 ≤ n := by omega
      rw [decimal_ge n hge]
      obtain ⟨i1, i2, i3, i4⟩ := ih (n / 10) (by omega)
      have hm : n % 10 < 10 := Nat.mod_lt _ (by omega)
      obtain ⟨h1, h2⟩ := digitByte_isDigit (n % 10) hm
      refine ⟨?_, ?_, by simp, ?_⟩
      · intro d hd
        rcases List.mem_append.1 hd with hd | hd
        · exact i1 d hd
        · simp at hd; subst hd; exact h1
      · rw [val10_append, i2, h2]; omega
      · intro _
        have : 1 ≤ n / 10 := by omega
        have := i4 this
        cases hdn : decimal (n / 10) with
        | nil => exact absurd hdn i3
        | cons a t => simp [hdn] at this ⊢; exact this


theorem isDigit_digitVal {c : UInt8} (h : isDigit c = true) : digitVal c = some (c.toNat - 48) ∧ c.toNat - 48 < 10 := by
  have := (isDigit_iff c).1 h
  exact ⟨by simp [digitVal, h], by omega⟩

/-- a non-digit stops a base-10 scan -/
theorem nondigit_stop {c : UInt8} (h : isDigit c = false) : ∀ d, digitVal c = some d → ¬ d < 10 := by
  intro d hd
  unfold digitVal at hd
  rw [h] at hd
  simp only [Bool.false_eq_true, ↓reduceIte] at hd
  split at hd
  · rename_i h1
    simp [u8_le_iff] at h1
    cases hd
    omega
  · split at hd
    · rename_i h1
      simp [u8_le_iff] at h1
      cases hd
      omega
    · cases hd

theorem scanDigits_dec {e : Env} : ∀ (ds : List UInt8) (p acc k : Nat) (c : UInt8) (r : List UInt8),
    Rest e p (ds ++ c :: r) → (∀ d ∈ ds, isDigit d = true) → isDigit c = false → ds.length < k →
    scanDigits e 10 k p acc = (ds.foldl (fun a c => a * 10 + (c.toNat - 48)) acc, p + ds.length) := by
  intro ds
  induction ds with
  | nil =>
    intro p acc k c r h _ hc hk
    cases k with
    | zero => omega
    | succ k =>
      unfold scanDigits
      have h0 := h.rd 0 (by simp)
      simp only [Nat.add_zero, List.nil_append, List.getD_cons_zero] at h0
      rw [h0]
      simp only [List.foldl_nil, List.length_nil, Nat.add_zero]
      cases hd : digitVal c with
      | none => rfl
      | some d => simp [nondigit_stop hc d hd]
  | cons d ds ih =>
    intro p acc k c r h hds hc hk
    cases k with
    | zero => simp at hk
    | succ k =>
      unfold scanDigits
      have h0 := h.rd 0 (by simp)
      simp only [Nat.add_zero, List.cons_append, List.getD_cons_zero] at h0
      rw [h0]
      obtain ⟨hv, hlt⟩ := isDigit_digitVal (hds d List.mem_cons_self)
      simp only [hv, hlt, ↓reduceIte]
      have h' : Rest e (p + 1) (ds ++ c :: r) := by
        have := h.drop 1 (by simp)
        simpa using this
      rw [ih (p + 1) _ k c r h' (fun x hx => hds x (List.mem_cons_of_mem _ hx)) hc (by simpa using hk)]
      simp only [List.foldl_cons, List.length_cons]
      congr 1
      omega

/-- `strtoul` on a decimal number `< 2^31` without leading zero, followed by a non-digit -/
theorem strtoul0_dec {e : Env} (ds : List UInt8) (p : Nat) (c : UInt8) (r : List UInt8) (h : Rest e p (ds ++ c :: r))
    (hds : ∀ d ∈ ds, isDigit d = true) (hne : ds ≠ []) (h0 : ds.head? ≠ some 48) (hc : isDigit c = false)
    (hv : val10 ds < 2 ^ 31) : strtoul0 e p = (((val10 ds : Nat) : Int), p + ds.length) := by
  cases ds with
  | nil => exact absurd rfl hne
  | cons d ds =>
    have hr0 := h.rd 0 (by simp)
    simp only [Nat.add_zero, List.cons_append, List.getD_cons_zero] at hr0
    have hd48 : (d == 48) = false := by
      simp only [List.head?_cons, ne_eq, Option.some.injEq] at h0
      simpa using h0
    unfold strtoul0
    simp only [hr0, Option.getD_some, hd48, Bool.false_and, Bool.false_eq_true, ↓reduceIte]
    have hlen : (d :: ds).length < e.n + 1 - p := by
      have := h.1
      simp only [List.length_append, List.length_cons] at this ⊢
      omega
    rw [scanDigits_dec (d :: ds) p 0 _ c r h hds hc hlen]
    have hv' : List.foldl (fun a c => a * 10 + (c.toNat - 48)) 0 (d :: ds) = val10 (d :: ds) := rfl
    simp only [hv']
    have h64 : ¬ val10 (d :: ds) ≥ 2 ^ 64 := by omega
    have hmod : val10 (d :: ds) % 2 ^ 32 = val10 (d :: ds) := Nat.mod_eq_of_lt (by omega)
    simp only [h64, ↓reduceIte, hmod]
    have h31 : ¬ val10 (d :: ds) ≥ 2 ^ 31 := by omega
    simp only [h31, ↓reduceIte]


theorem rdAt_eq {e : Env} {st : St} {r : List UInt8} (p : Nat) (j : Nat) (h : Rest e p r) (hj : j ≤ r.length) :
    rdAt (p + j) e st = .ok (r.getD j 0) st := by
  unfold rdAt
  rw [h.rd j hj]

/-- `dd_number` on `<decimal k>` followed by a non-digit -/
theorem number_eq {e : Env} {st : St} (k : Nat) (c : UInt8) (r : List UInt8) (hl : st.len = e.n)
    (h : Rest e st.pos (decimal k ++ c :: r)) (hk : 1 ≤ k) (hk2 : k < 2 ^ 31) (hc : isDigit c = false) :
    number e st = .ok (k : Int) { st with pos := st.pos + (decimal k).length } := by
  obtain ⟨d1, d2, d3, d4⟩ := decimal_spec k
  have hs := strtoul0_dec (decimal k) st.pos c r h d1 d3 (d4 hk) hc (by rw [d2]; exact hk2)
  rw [d2] at hs
  cases hdk : decimal k with
  | nil => exact absurd hdk d3
  | cons d ds =>
    rw [hdk] at h hs d1
    have hd := d1 d List.mem_cons_self
    have hdr := (isDigit_iff d).1 hd
    have hdn : (d == 110) = false := by
      simp only [beq_eq_false_iff_ne, ne_eq, u8_eq_iff]
      simp; omega
    have hr0 : rdAt st.pos e st = .ok d st := by
      have := rdAt_eq (st := st) st.pos 0 h (by simp)
      simpa using this
    unfold number
    simp only [bind_def, eof_eq hl h, List.cons_append, List.length_cons, Nat.add_one_ne_zero, decide_false,
      Bool.false_eq_true, ↓reduceIte, getSt, hr0, hdn, hd, Bool.not_true, getEnv, hs, modifySt, pure_def]
    congr 2
    omega


theorem readRange_eq {e : Env} {st : St} : ∀ (k p : Nat) (r : List UInt8), Rest e p r → k ≤ r.length →
    readRange p k e st = .ok (r.take k) st := by
  intro k
  induction k with
  | zero => intro p r _ _; simp [readRange, pure_def]
  | succ k ih =>
    intro p r h hk
    cases r with
    | nil => simp at hk
    | cons c r =>
      unfold readRange
      have h0 : rdAt p e st = .ok c st := by
        have := rdAt_eq (st := st) p 0 h (by simp)
        simpa using this
      have h' : Rest e (p + 1) r := by simpa using h.drop 1 (by simp)
      simp only [bind_def, h0, ih (p + 1) r h' (by simpa using hk), pure_def, List.take_succ_cons]

theorem findByte_none {e : Env} {st : St} (c : UInt8) (hc0 : c ≠ 0) : ∀ (r : List UInt8) (k p : Nat), Rest e p r →
    c ∉ r → r.length < k → findByte c k p e st = .ok none st := by
  intro r
  induction r with
  | nil =>
    intro k p h _ hk
    cases k with
    | zero => omega
    | succ k =>
      unfold findByte
      have h0 : rdAt p e st = .ok 0 st := by
        have := rdAt_eq (st := st) p 0 h (by simp)
        simpa using this
      have : ¬ (0 : UInt8) = c := Ne.symm hc0
      simp [bind_def, h0, this, pure_def]
  | cons b r ih =>
    intro k p h hc hk
    cases k with
    | zero => omega
    | succ k =>
      unfold findByte
      have h0 : rdAt p e st = .ok b st := by
        have := rdAt_eq (st := st) p 0 h (by simp)
        simpa using this
      have hbc : ¬ b = c := by
        simp only [List.mem_cons, not_or] at hc
        exact Ne.symm hc.1
      have h' : Rest e (p + 1) r := by simpa using h.drop 1 (by simp)
      have hrec := ih k (p + 1) h' (fun hm => hc (List.mem_cons_of_mem _ hm)) (by simpa using hk)
      by_cases hb0 : b = 0
      · subst hb0
        simp [bind_def, h0, hbc, pure_def]
      · simp [bind_def, h0, hbc, hb0, hrec]

/-- the output buffer after `dd_append_separator(dd, "::")` -/
def sepOut (st : St) : List UInt8 := if st.firstName then st.out.getD [] else st.out.getD [] ++ [58, 58]

/-- the `17h<16 hex digits>` hash component of a Rust symbol (dropped by dd_source_name) -/
def rustHash (id : List UInt8) : Bool := id.length == 17 && id.getD 0 0 == 104 && ((id.drop 1).take 16).all isXDigit

/-- `dd_source_name` on `<decimal |id|><id>` in name context (`type == 0`, `templates == 0`):
    the identifier is appended after a `::` separator -/
theorem sourceName_eq {e : Env} {st : St} (id rest : List UInt8) (hfx : e.fx = Fixes.all) (hl : st.len = e.n)
    (h : Rest e st.pos (decimal id.length ++ id ++ rest)) (hid : id ≠ []) (hlen : id.length < 2 ^ 31)
    (hhead : isDigit (id.getD 0 0) = false) (hdollar : (36 : UInt8) ∉ id ++ rest) (hhash : rustHash id = false)
    (ht : st.type = 0) (htm : st.templates = 0) :
    sourceName e st = .ok 0 { st with pos := st.pos + (decimal id.length).length + id.length,
                                      out := some (sepOut st ++ id), firstName := false } := by
  have hk1 : 1 ≤ id.length := by
    cases id with
    | nil => exact absurd rfl hid
    | cons a t => simp
  obtain ⟨c0, idt, hidc⟩ : ∃ c0 idt, id = c0 :: idt := by
    cases id with
    | nil => exact absurd rfl hid
    | cons a t => exact ⟨a, t, rfl⟩
  have hc0 : isDigit c0 = false := by simpa [hidc] using hhead
  have hrest : decimal id.length ++ id ++ rest = decimal id.length ++ c0 :: (idt ++ rest) := by simp [hidc]
  have hnum := number_eq (st := st) id.length c0 (idt ++ rest) hl (by rw [← hrest]; exact h) hk1 hlen hc0
  -- the state after dd_number
  let st1 : St := { st with pos := st.pos + (decimal id.length).length }
  have h1 : Rest e st1.pos (id ++ rest) := by
    have := h.drop (decimal id.length).length (by simp)
    simpa [List.append_assoc] using this
  have hl1 : st1.len = e.n := hl
  have heof : eof e st1 = .ok false st1 := by
    rw [eof_eq hl1 h1]
    simp [hidc]
  have hov : (!e.fx.intOvf && decide (st1.pos + (id.length : Int).toNat > 2147483647)) = false := by
    simp [hfx, Fixes.all]
  have hfit : ¬ (st1.pos + (id.length : Int).toNat > st1.len) := by
    have := h1.1
    simp only [List.length_append] at this
    simp only [Int.toNat_natCast]
    omega
  have hr0 : rdAt st1.pos e st1 = .ok c0 st1 := by
    have := rdAt_eq (st := st1) st1.pos 0 h1 (by simp)
    simpa [hidc] using this
  -- the hash test
  have hhashPart : (do
      let x ← rdAt st1.pos
      if ((id.length : Int).toNat == 17 && x == 104) = true then do
          let bs ← readRange (st1.pos + 1) 16
          pure (bs.all isXDigit)
        else pure false : M Bool) e st1 = .ok false st1 := by
    simp only [bind_def, hr0, Int.toNat_natCast]
    by_cases hcond : (id.length == 17 && c0 == 104) = true
    · simp only [hcond, ↓reduceIte]
      have h17 : id.length = 17 := by
        simp only [Bool.and_eq_true, beq_iff_eq] at hcond
        exact hcond.1
      have h1' : Rest e (st1.pos + 1) (idt ++ rest) := by
        have := h1.drop 1 (by simp [hidc])
        simpa [hidc] using this
      rw [bind_def, readRange_eq 16 (st1.pos + 1) (idt ++ rest) h1' (by simp [hidc] at h17; simp; omega)]
      simp only [pure_def]
      congr 1
      have : rustHash id = false := hhash
      unfold rustHash at this
      simp only [Bool.and_eq_true, beq_iff_eq] at hcond
      rw [hidc] at this
      simp only [List.length_cons, List.getD_cons_zero, List.drop_succ_cons, List.drop_zero] at this
      have hl17 : idt.length + 1 = 17 := by simpa [hidc] using h17
      simp only [hl17, beq_self_eq_true, hcond.2, Bool.true_and] at this
      have htk : (idt ++ rest).take 16 = idt.take 16 := by
        rw [List.take_append_of_le_length (by omega)]
      rw [htk]
      exact this
    · have : (id.length == 17 && c0 == 104) = false := by simpa using hcond
      simp only [this, Bool.false_eq_true, ↓reduceIte, pure_def]
  -- after the separator
  let st2 : St := { st1 with out := (if st1.firstName then st1.out else some (st1.out.getD [] ++ colon2)),
                             firstName := false }
  have hsep : appendSeparator colon2 e st1 = .ok () st2 := by
    unfold appendSeparator
    by_cases hf : st1.firstName = true
    · simp [bind_def, getSt, hf, modifySt, pure_def, st2]
    · have hf' : st1.firstName = false := by simpa using hf
      simp [bind_def, getSt, hf', modifySt, appendBytes, st2]
  have h2 : Rest e st2.pos (id ++ rest) := h1
  have hfind : findByte 36 (e.n + 1) st1.pos e st2 = .ok none st2 := by
    refine findByte_none 36 (by decide) (id ++ rest) _ _ h1 hdollar ?_
    have := h1.1
    omega
  have htake : (id ++ rest).take id.length = id := by simp
  let st3 : St := { st2 with out := some (st2.out.getD [] ++ id) }
  have happ : appendFrom st1.pos (id.length : Int).toNat e st2 = .ok () st3 := by
    unfold appendFrom
    simp only [Int.toNat_natCast, bind_def, readRange_eq id.length st1.pos (id ++ rest) h1 (by simp), htake, appendBytes,
      modifySt, st3]
  have h3 : Rest e st3.pos (id ++ rest) := h1
  have hcons : consumeN (id.length : Int).toNat e st3 = .ok ((id ++ rest).getD 0 0) { st3 with pos := st3.pos + id.length } := by
    simp only [Int.toNat_natCast]
    exact consumeN_eq id.length hl h3 (by simp)
  have hty : (st1.type != 0 && !st1.typeInfo) = false := by simp [st1, ht]
  have htm' : (st1.templates != 0) = false := by simp [st1, htm]
  have hnum' : number e st = .ok (id.length : Int) st1 := hnum
  have hnn : ¬ ((id.length : Int) < 0) := by omega
  have hh := hhashPart
  simp only [bind_def] at hh
  unfold sourceName
  simp only [bind_def, hnum', hnn, ↓reduceIte, getEnv, getSt, heof, Bool.false_eq_true, hov, hfit, hty, htm', hh,
    hsep, hfind, happ, hcons, pure_def]
  simp only [st3, st2, st1, sepOut, Nat.add_assoc]
  by_cases hf : st.firstName = true <;> simp [hf, colon2]



theorem digit_beq {d : UInt8} (h : isDigit d = true) (n : UInt8) (hn : isDigit n = false) : (d == n) = false := by
  simp only [beq_eq_false_iff_ne, ne_eq]
  intro hdn
  subst hdn
  rw [h] at hn
  cases hn

theorem digit_not_lower {d : UInt8} (h : isDigit d = true) : isLower d = false := by
  have := (isDigit_iff d).1 h
  have h97 : (97 : UInt8).toNat = 97 := rfl
  simp only [isLower, Bool.and_eq_false_imp, decide_eq_true_eq, decide_eq_false_iff_not, u8_le_iff, h97]
  intro _
  omega

/-- a valid source identifier: nonempty, shorter than 2^31, does not start with a digit, no `$`,
    and not of the form `h<16 hex digits>` (the Rust hash, which dd_source_name drops) -/
structure IdOk (id : List UInt8) : Prop where
  ne : id ≠ []
  len : id.length < 2 ^ 31
  head : isDigit (id.getD 0 0) = false
  nodollar : (36 : UInt8) ∉ id
  nohash : rustHash id = false

/-- `<length><identifier>` -/
def srcName (id : List UInt8) : List UInt8 := decimal id.length ++ id

/-- the effect of dd_source_name on the parser state in name context -/
def appName (st : St) (id : List UInt8) : St :=
  { st with pos := st.pos + (srcName id).length, out := some (sepOut st ++ id), firstName := false }

theorem srcName_head_digit (id : List UInt8) : isDigit ((srcName id).getD 0 0) = true := by
  obtain ⟨d1, _, d3, _⟩ := decimal_spec id.length
  unfold srcName
  cases hd : decimal id.length with
  | nil => exact absurd hd d3
  | cons a t =>
    rw [hd] at d1
    simpa using d1 a List.mem_cons_self

/-- `dd_unqualified_name` on a source name that is not followed by an ABI tag -/
theorem unqualifiedName_src {e : Env} {st : St} (rec : Fn → M Int) (id rest : List UInt8) (hfx : e.fx = Fixes.all)
    (hl : st.len = e.n) (h : Rest e st.pos (srcName id ++ rest)) (hid : IdOk id) (hdollar : (36 : UInt8) ∉ rest)
    (hB : rest.getD 0 0 ≠ 66) (ht : st.type = 0) (htm : st.templates = 0) :
    bUnqualifiedName rec e st = .ok 0 (appName st id) := by
  have hd := srcName_head_digit id
  have hsn := sourceName_eq (st := st) id rest hfx hl (by simpa [srcName] using h) hid.ne hid.len hid.head
    (by simp only [List.mem_append, not_or]; exact ⟨hid.nodollar, hdollar⟩) hid.nohash ht htm
  have hne : (srcName id ++ rest).length ≠ 0 := by
    have := hid.ne
    simp [srcName]
    intro _ h'
    exact absurd h' this
  have hc0 : (srcName id ++ rest).getD 0 0 = (srcName id).getD 0 0 := by
    have : 0 < (srcName id).length := by
      have := hid.ne
      cases hi : id with
      | nil => exact absurd hi this
      | cons a t => simp [srcName]; omega
    simp [List.getD_eq_getElem?_getD, List.getElem?_append_left this]
  -- the state after dd_source_name
  have h' : Rest e (appName st id).pos rest := by
    have := h.drop (srcName id).length (by simp)
    simpa [appName] using this
  have hcur' : curr e (appName st id) = .ok (rest.getD 0 0) (appName st id) :=
    curr_eq (by simpa [appName] using hl) h'
  have hB' : (rest.getD 0 0 == 66) = false := by simpa using hB
  have hsn' : sourceName e st = .ok 0 (appName st id) := by
    rw [hsn]
    congr 1
    simp [appName, srcName, Nat.add_assoc]
  unfold bUnqualifiedName
  simp only [bind_def, curr_eq hl h, peek_eq 1 hl h, eof_eq hl h, hne, decide_false, Bool.false_eq_true, ↓reduceIte,
    hc0, digit_beq hd 67 rfl, digit_beq hd 68 rfl, digit_beq hd 85 rfl, digit_beq hd 76 rfl, digit_not_lower hd,
    Bool.or_self, hsn', pure_def, hcur', hB']


theorem decimal_no_dollar (k : Nat) : (36 : UInt8) ∉ decimal k := by
  intro h
  have := (decimal_spec k).1 36 h
  cases this

theorem srcName_no_dollar {id : List UInt8} (h : IdOk id) : (36 : UInt8) ∉ srcName id := by
  unfold srcName
  simp only [List.mem_append, not_or]
  exact ⟨decimal_no_dollar _, h.nodollar⟩

theorem flatMap_no_dollar {comps : List (List UInt8)} (h : ∀ id ∈ comps, IdOk id) :
    (36 : UInt8) ∉ comps.flatMap srcName := by
  simp only [List.mem_flatMap, not_exists, not_and]
  intro id hid
  exact srcName_no_dollar (h id hid)

theorem srcName_ne_nil (id : List UInt8) : srcName id ≠ [] := by
  unfold srcName
  have := (decimal_spec id.length).2.2.1
  simp [this]

theorem getD0_append_left (a b : List UInt8) (h : a ≠ []) : (a ++ b).getD 0 0 = a.getD 0 0 := by
  cases a with
  | nil => exact absurd rfl h
  | cons x t => simp

theorem appName_facts (st : St) (id : List UInt8) : (appName st id).len = st.len ∧ (appName st id).type = st.type ∧
    (appName st id).templates = st.templates ∧ (appName st id).pos = st.pos + (srcName id).length := ⟨rfl, rfl, rfl, rfl⟩

/-- unrolling the loop of dd_nested_name over a sequence of source names -/
theorem nestedLoop_unroll {e : Env} (hfx : e.fx = Fixes.all) (F : Nat) (hF : 2 ≤ F) (rest : List UInt8)
    (hdollar : (36 : UInt8) ∉ rest) (hB : rest.getD 0 0 ≠ 66) :
    ∀ (comps : List (List UInt8)) (st : St), (∀ id ∈ comps, IdOk id) → st.len = e.n → st.type = 0 → st.templates = 0 →
    Rest e st.pos (comps.flatMap srcName ++ rest) →
    run (F + comps.length) .nestedLoop e st = run F .nestedLoop e (comps.foldl appName st) := by
  intro comps
  induction comps with
  | nil => intro st _ _ _ _ _; rfl
  | cons id comps ih =>
    intro st hok hl ht htm h
    have hid := hok id List.mem_cons_self
    have hok' : ∀ x ∈ comps, IdOk x := fun x hx => hok x (List.mem_cons_of_mem _ hx)
    have hrest : (id :: comps).flatMap srcName ++ rest = srcName id ++ (comps.flatMap srcName ++ rest) := by
      simp [List.flatMap_cons, List.append_assoc]
    rw [hrest] at h
    have hd := srcName_head_digit id
    have hc0 : (srcName id ++ (comps.flatMap srcName ++ rest)).getD 0 0 = (srcName id).getD 0 0 :=
      getD0_append_left _ _ (srcName_ne_nil id)
    have hne : (srcName id ++ (comps.flatMap srcName ++ rest)).length ≠ 0 := by
      have := srcName_ne_nil id
      simp only [List.length_append, ne_eq, Nat.add_eq_zero_iff, List.length_eq_zero_iff, not_and]
      intro h'
      exact absurd h' this
    -- what follows this component
    have hdollar' : (36 : UInt8) ∉ comps.flatMap srcName ++ rest := by
      simp only [List.mem_append, not_or]
      exact ⟨flatMap_no_dollar hok', hdollar⟩
    have hB' : (comps.flatMap srcName ++ rest).getD 0 0 ≠ 66 := by
      cases comps with
      | nil => simpa using hB
      | cons id2 comps2 =>
        have hd2 := srcName_head_digit id2
        have : (List.flatMap srcName (id2 :: comps2) ++ rest).getD 0 0 = (srcName id2).getD 0 0 := by
          rw [List.flatMap_cons, List.append_assoc]
          exact getD0_append_left _ _ (srcName_ne_nil id2)
        rw [this]
        intro h66
        rw [h66] at hd2
        cases hd2
    have hlen : F + (id :: comps).length = (F + comps.length) + 1 := by simp; omega
    have hF' : F + comps.length = (F + comps.length - 1) + 1 := by omega
    rw [hlen]
    show bNestedLoop (run (F + comps.length)) e st = _
    have hun : run (F + comps.length) .unqualifiedName e st = .ok 0 (appName st id) := by
      rw [hF']
      show bUnqualifiedName (run (F + comps.length - 1)) e st = _
      exact unqualifiedName_src _ id _ hfx hl h hid hdollar' hB' ht htm
    unfold bNestedLoop
    simp only [bind_def, curr_eq hl h, peek_eq 1 hl h, eof_eq hl h, hne, decide_false, Bool.false_eq_true, ↓reduceIte,
      hc0, digit_beq hd 69 rfl, digit_beq hd 68 rfl, digit_beq hd 67 rfl, Bool.false_and, Bool.or_self, hd,
      Bool.or_true, hun, pure_def]
    have h' : Rest e (appName st id).pos (comps.flatMap srcName ++ rest) := by
      have := h.drop (srcName id).length (by simp)
      simpa [appName] using this
    have := ih (appName st id) hok' hl ht htm h'
    simpa using this


theorem foldl_appName_facts : ∀ (comps : List (List UInt8)) (st : St),
    (comps.foldl appName st).len = st.len ∧ (comps.foldl appName st).type = st.type ∧
    (comps.foldl appName st).templates = st.templates ∧ (comps.foldl appName st).level = st.level ∧
    (comps.foldl appName st).typeInfo = st.typeInfo ∧ (comps.foldl appName st).expected = st.expected ∧
    (comps.foldl appName st).pos = st.pos + (comps.flatMap srcName).length := by
  intro comps
  induction comps with
  | nil => intro st; simp
  | cons id comps ih =>
    intro st
    obtain ⟨h1, h2, h3, h4, h5, h6, h7⟩ := ih (appName st id)
    simp only [List.foldl_cons, List.flatMap_cons, List.length_append]
    refine ⟨h1, h2, h3, h4, h5, h6, ?_⟩
    rw [h7]
    simp [appName, Nat.add_assoc]

/-- the loop of dd_nested_name stops at 'E' -/
theorem nestedLoop_end {e : Env} {st : St} (F : Nat) (rest : List UInt8) (hl : st.len = e.n)
    (h : Rest e st.pos (69 :: rest)) : run (F + 1) .nestedLoop e st = .ok 0 st := by
  show bNestedLoop (run F) e st = _
  unfold bNestedLoop
  simp [bind_def, curr_eq hl h, pure_def]

/-- `dd_nested_name` on `N <source-name>* E` -/
theorem nestedName_eq {e : Env} {st : St} (hfx : e.fx = Fixes.all) (F : Nat) (hF : 3 ≤ F) (comps : List (List UInt8))
    (rest : List UInt8) (hok : ∀ id ∈ comps, IdOk id) (hdollar : (36 : UInt8) ∉ rest) (hl : st.len = e.n)
    (ht : st.type = 0) (htm : st.templates = 0)
    (h : Rest e st.pos (78 :: (comps.flatMap srcName ++ 69 :: rest))) :
    run (F + comps.length + 1) .nestedName e st =
      .ok 0 { comps.foldl appName { st with pos := st.pos + 1, level := st.level + 1 } with
              pos := st.pos + 1 + (comps.flatMap srcName).length + 1, level := st.level } := by
  show bNestedName (run (F + comps.length)) e st = _
  let st1 : St := { st with pos := st.pos + 1 }
  let st2 : St := { st1 with level := st1.level + 1 }
  have hne : (78 :: (comps.flatMap srcName ++ 69 :: rest)).length ≠ 0 := by simp
  have hdc : debugConsume 78 e st = .ok true st1 := debugConsume_eq 78 hl h
  have hinc : incLevel e st1 = .ok () st2 := rfl
  have h2 : Rest e st2.pos (comps.flatMap srcName ++ 69 :: rest) := by
    have := h.drop 1 (by simp)
    simpa using this
  have hdollar' : (36 : UInt8) ∉ (69 : UInt8) :: rest := by
    simp only [List.mem_cons, not_or]
    exact ⟨by decide, hdollar⟩
  have hloop : run (F + comps.length) .nestedLoop e st2 = .ok 0 (comps.foldl appName st2) := by
    rw [nestedLoop_unroll hfx F (by omega) (69 :: rest) hdollar' (by simp) comps st2 hok hl ht htm h2]
    obtain ⟨f1, _, _, _, _, _, f7⟩ := foldl_appName_facts comps st2
    have hF' : F = (F - 1) + 1 := by omega
    rw [hF']
    refine nestedLoop_end (F - 1) rest (by rw [f1]; exact hl) ?_
    rw [f7]
    have := h2.drop (comps.flatMap srcName).length (by simp)
    simpa using this
  obtain ⟨f1, f2, f3, f4, f5, f6, f7⟩ := foldl_appName_facts comps st2
  have h3 : Rest e (comps.foldl appName st2).pos (69 :: rest) := by
    rw [f7]
    have := h2.drop (comps.flatMap srcName).length (by simp)
    simpa using this
  have hdc2 := debugConsume_eq (st := comps.foldl appName st2) 69 (by rw [f1]; exact hl) h3
  unfold bNestedName
  simp only [bind_def, eof_eq hl h, hne, decide_false, Bool.false_eq_true, ↓reduceIte, hdc, Bool.not_true, hinc, hloop,
    hdc2, decLevel, modifySt, pure_def]
  congr 1
  simp only [f4, f7, st2, st1]
  congr 1
  omega


/-- everything the parser tests about a builtin type code -/
def BuiltinFacts (c : UInt8) : Prop :=
    strchrB cvQual c = false ∧ strchrB typePrefix c = false ∧ (c == 70) = false ∧ (c == 84) = false ∧ (c == 65) = false ∧
    (c == 77) = false ∧ (c == 68) = false ∧ (c == 83) = false ∧ (c == 117) = false ∧ (c == 85) = false ∧
    (c == 73) = false ∧ isDigit c = false ∧ (c == 78) = false ∧ (c == 90) = false ∧ strchrB encEnd c = false ∧
    (c == 36) = false ∧ (c == 46) = false ∧ (c == 64) = false ∧ (c == 71) = false

instance (c : UInt8) : Decidable (BuiltinFacts c) := by unfold BuiltinFacts; infer_instance

set_option maxRecDepth 100000 in
theorem builtin_facts_nat : ∀ n : Nat, n < 256 → types.any (fun t => t.1 == UInt8.ofNat n) = true →
    BuiltinFacts (UInt8.ofNat n) := by decide

theorem builtin_facts (c : UInt8) (h : types.any (fun t => t.1 == c) = true) : BuiltinFacts c := by
  have hc : UInt8.ofNat c.toNat = c := UInt8.ofNat_toNat
  have := builtin_facts_nat c.toNat (UInt8.toNat_lt c)
  rw [hc] at this
  exact this h

/-- `dd_type` on a builtin type code -/
theorem type_builtin {e : Env} {st : St} (F : Nat) (c : UInt8) (rest : List UInt8) (hc : types.any (fun t => t.1 == c) = true)
    (hl : st.len = e.n) (h : Rest e st.pos (c :: rest)) :
    run (F + 2) .type e st = .ok 0 { st with pos := st.pos + 1 } := by
  obtain ⟨b1, b2, b3, b4, b5, b6, b7, b8, b9, b10, b11, b12, b13, b14, _⟩ := builtin_facts c hc
  show bType (run (F + 1)) e st = _
  let st1 : St := { st with type := st.type + 1 }
  let st2 : St := { st1 with level := st1.level + 1 }
  have hne : (c :: rest).length ≠ 0 := by simp
  have h2 : Rest e st2.pos (c :: rest) := h
  have hloop : run (F + 1) (.typeLoop (-1)) e st2 = .ok 0 { st2 with pos := st2.pos + 1 } := by
    show bTypeLoop (run F) (-1) e st2 = _
    unfold bTypeLoop
    simp only [bind_def, eof_eq (st := st2) hl h2, hne, decide_false, Bool.false_eq_true, ↓reduceIte,
      curr_eq (st := st2) hl h2, List.getD_cons_zero, b1, b2, b3, b4, b5, b6, b7, b8, b9, b10, b11, b12, b13, b14,
      Bool.or_self, hc, consume_eq (st := st2) hl h2 (by simp), pure_def]
  unfold bType
  simp only [bind_def, eof_eq hl h, hne, decide_false, Bool.false_eq_true, ↓reduceIte]
  have hinc : incType e st = .ok () st1 := rfl
  have hinc2 : incLevel e st1 = .ok () st2 := rfl
  simp only [hinc, hinc2, hloop, decLevel, decType, modifySt, pure_def]
  congr 1
  simp [st2, st1]


/-- the loop over the parameter types in dd_encoding, for builtin parameter types up to the end of the name -/
theorem encLoop_builtins {e : Env} (F : Nat) (hF : 2 ≤ F) : ∀ (params : List UInt8) (st : St),
    (∀ c ∈ params, types.any (fun t => t.1 == c) = true) → st.len = e.n → Rest e st.pos params →
    run (F + params.length + 1) .encLoop e st = .ok 0 { st with pos := st.pos + params.length } := by
  intro params
  induction params with
  | nil =>
    intro st _ hl h
    show bEncLoop (run (F + 0)) e st = _
    unfold bEncLoop
    simp [bind_def, eof_eq hl h, pure_def]
  | cons c params ih =>
    intro st hb hl h
    have hc := hb c List.mem_cons_self
    obtain ⟨_, _, _, _, _, _, _, _, _, _, _, _, _, _, b15, _⟩ := builtin_facts c hc
    show bEncLoop (run (F + (c :: params).length)) e st = _
    have hne : (c :: params).length ≠ 0 := by simp
    have hty : run (F + (c :: params).length) .type e st = .ok 0 { st with pos := st.pos + 1 } := by
      have : F + (c :: params).length = (F + (c :: params).length - 2) + 2 := by simp; omega
      rw [this]
      exact type_builtin _ c params hc hl h
    have h' : Rest e (st.pos + 1) params := by simpa using h.drop 1 (by simp)
    have hrec := ih { st with pos := st.pos + 1 } (fun x hx => hb x (List.mem_cons_of_mem _ hx)) hl h'
    have hfl : F + (c :: params).length = F + params.length + 1 := by simp; omega
    unfold bEncLoop
    simp only [bind_def, eof_eq hl h, hne, decide_false, Bool.false_eq_true, ↓reduceIte, curr_eq hl h,
      List.getD_cons_zero, b15, hty, Int.lt_irrefl, pure_def]
    rw [hfl, hrec]
    congr 1
    simp only [List.length_cons]
    congr 1
    omega

/-- `dd_name` on a nested name -/
theorem name_nested {e : Env} {st : St} (hfx : e.fx = Fixes.all) (F : Nat) (hF : 3 ≤ F) (comps : List (List UInt8))
    (rest : List UInt8) (hok : ∀ id ∈ comps, IdOk id) (hdollar : (36 : UInt8) ∉ rest) (hl : st.len = e.n)
    (ht : st.type = 0) (htm : st.templates = 0)
    (h : Rest e st.pos (78 :: (comps.flatMap srcName ++ 69 :: rest))) :
    run (F + comps.length + 2) .name e st =
      .ok 0 { comps.foldl appName { st with pos := st.pos + 1, level := st.level + 1 } with
              pos := st.pos + 1 + (comps.flatMap srcName).length + 1, level := st.level } := by
  show bName (run (F + comps.length + 1)) e st = _
  have hne : (78 :: (comps.flatMap srcName ++ 69 :: rest)).length ≠ 0 := by simp
  unfold bName
  simp only [bind_def, curr_eq hl h, eof_eq hl h, hne, decide_false, Bool.false_eq_true, ↓reduceIte,
    List.getD_cons_zero, beq_self_eq_true, nestedName_eq hfx F hF comps rest hok hdollar hl ht htm h, pure_def]

/-- the output buffer after a sequence of source names -/
theorem foldl_appName_out : ∀ (comps : List (List UInt8)) (st : St) (o : List UInt8), st.out = some o →
    st.firstName = false →
    (comps.foldl appName st).out = some (o ++ comps.flatMap (fun id => [58, 58] ++ id)) ∧
    (comps.foldl appName st).firstName = false := by
  intro comps
  induction comps with
  | nil => intro st o ho hf; simp [ho, hf]
  | cons id comps ih =>
    intro st o ho hf
    have h1 : (appName st id).out = some (o ++ [58, 58] ++ id) := by simp [appName, sepOut, ho, hf]
    obtain ⟨i1, i2⟩ := ih (appName st id) _ h1 rfl
    simp only [List.foldl_cons, List.flatMap_cons]
    exact ⟨by rw [i1]; simp [List.append_assoc], i2⟩

/-- `a::b::c` -/
def joinNames (comps : List (List UInt8)) : List UInt8 := [58, 58].intercalate comps

theorem intercalate_flatMap (sep : List UInt8) : ∀ (l : List (List UInt8)) (a : List UInt8),
    a ++ l.flatMap (fun id => sep ++ id) = sep.intercalate (a :: l) := by
  intro l
  induction l with
  | nil => intro a; simp [List.intercalate]
  | cons b l ih =>
    intro a
    have := ih b
    simp only [List.flatMap_cons, List.intercalate, List.intersperse_cons₂, List.flatten_cons] at this ⊢
    rw [← this]
    simp [List.append_assoc]

theorem foldl_appName_out0 (id : List UInt8) (comps : List (List UInt8)) (st : St) (ho : st.out = none)
    (hf : st.firstName = true) :
    ((id :: comps).foldl appName st).out = some (joinNames (id :: comps)) ∧
    ((id :: comps).foldl appName st).firstName = false := by
  have h1 : (appName st id).out = some id := by simp [appName, sepOut, ho, hf]
  obtain ⟨i1, i2⟩ := foldl_appName_out comps (appName st id) id h1 rfl
  refine ⟨?_, i2⟩
  simp only [List.foldl_cons, i1, joinNames]
  congr 1
  exact intercalate_flatMap [58, 58] comps id


/-- `_ZN <source-name>+ E <builtin-type>+` -/
def mangleNested (comps : List (List UInt8)) (params : List UInt8) : List UInt8 :=
  [95, 90, 78] ++ comps.flatMap srcName ++ [69] ++ params

theorem builtin_no_dollar {params : List UInt8} (h : ∀ c ∈ params, types.any (fun t => t.1 == c) = true) :
    (36 : UInt8) ∉ params := by
  intro hm
  have := (builtin_facts 36 (h 36 hm)).2.2.2.2.2.2.2.2.2.2.2.2.2.2.2.1
  simp at this

/-- `dd_encoding` on a nested function name with builtin parameter types -/
theorem encoding_nested (comps : List (List UInt8)) (params : List UInt8) (hok : ∀ id ∈ comps, IdOk id)
    (hb : ∀ c ∈ params, types.any (fun t => t.1 == c) = true) (G : Nat) (hG1 : comps.length + 5 ≤ G)
    (hG2 : params.length + 3 ≤ G) :
    let l := mangleNested comps params
    let e : Env := { s := l.toArray, fx := Fixes.all }
    let st0 : St := { pos := 0, len := l.toArray.size }
    ∃ st, run (G + 1) .encoding e st0 = .ok 0 st ∧ st.level = 0 ∧ st.pos = st.len ∧
      st.out = (comps.foldl appName { st0 with pos := 3, level := 2 }).out := by
  intro l e st0
  have hR : Rest e 0 l := Rest.of_list l Fixes.all
  have hl0 : st0.len = e.n := rfl
  have hlcons : l = 95 :: 90 :: 78 :: (comps.flatMap srcName ++ 69 :: params) := by
    simp [l, mangleNested, List.append_assoc]
  have hne : l.length ≠ 0 := by rw [hlcons]; simp
  show ∃ st, bEncoding (run G) e st0 = .ok 0 st ∧ _
  -- after "_Z"
  let st1 : St := { st0 with pos := 2 }
  let st2 : St := { st1 with level := st1.level + 1 }
  have hcons : consumeN 2 e st0 = .ok 95 st1 := by
    have := consumeN_eq (st := st0) 2 hl0 hR (by rw [hlcons]; simp)
    rw [this]
    congr 1
  have hinc : incLevel e st1 = .ok () st2 := rfl
  have h2 : Rest e st2.pos (78 :: (comps.flatMap srcName ++ 69 :: params)) := by
    have := hR.drop 2 (by rw [hlcons]; simp)
    rw [hlcons] at this
    simpa using this
  have hl2 : st2.len = e.n := rfl
  have hname := name_nested (st := st2) rfl (G - comps.length - 2) (by omega) comps params hok (builtin_no_dollar hb) hl2 rfl rfl h2
  have hGe : G - comps.length - 2 + comps.length + 2 = G := by omega
  rw [hGe] at hname
  -- after the name
  let st3 : St := { comps.foldl appName { st2 with pos := st2.pos + 1, level := st2.level + 1 } with
                    pos := st2.pos + 1 + (comps.flatMap srcName).length + 1, level := st2.level }
  obtain ⟨f1, f2, f3, f4, f5, f6, f7⟩ := foldl_appName_facts comps { st2 with pos := st2.pos + 1, level := st2.level + 1 }
  have hl3 : st3.len = e.n := f1
  have h3 : Rest e st3.pos params := by
    have ha : Rest e (st2.pos + 1) (comps.flatMap srcName ++ 69 :: params) := by
      simpa using h2.drop 1 (by simp)
    have hb' : Rest e (st2.pos + 1 + (comps.flatMap srcName).length) (69 :: params) := by
      simpa using ha.drop (comps.flatMap srcName).length (by simp)
    have hc : Rest e (st2.pos + 1 + (comps.flatMap srcName).length + 1) params := by
      simpa using hb'.drop 1 (by simp)
    exact hc
  have henc := encLoop_builtins (e := e) (G - params.length - 1) (by omega) params st3 hb hl3 h3
  have hGe2 : G - params.length - 1 + params.length + 1 = G := by omega
  rw [hGe2] at henc
  let st4 : St := { st3 with pos := st3.pos + params.length }
  have h4 : Rest e st4.pos [] := by
    have := h3.drop params.length (by simp)
    simpa using this
  have hl4 : st4.len = e.n := hl3
  have hcur4 : curr e st4 = .ok 0 st4 := by
    have := curr_eq (st := st4) hl4 h4
    simpa using this
  have hname' : run G .name e st2 = .ok 0 st3 := hname
  have henc' : run G .encLoop e st3 = .ok 0 st4 := henc
  refine ⟨{ st4 with level := st4.level - 1 }, ?_, ?_, ?_, ?_⟩
  · unfold bEncoding
    simp only [bind_def, eof_eq hl0 hR, hne, decide_false, Bool.false_eq_true, ↓reduceIte, getSt, hcons, hinc,
      curr_eq (st := st2) hl2 h2, List.getD_cons_zero, show ((78 : UInt8) == 84 || (78 : UInt8) == 71) = false from rfl,
      hname', Int.lt_irrefl, henc', hcur4, show ((0 : UInt8) == 46) = false from rfl, show ((0 : UInt8) == 64) = false from rfl,
      decLevel, modifySt, pure_def, beq_self_eq_true, show (st0.pos == 0) = true from rfl]
  · simp [st4, st3, st2, st1, st0]
  · have := h4.1
    simp only [List.length_nil, Nat.add_zero] at this
    show st4.pos = st4.len
    rw [hl4]
    exact this
  · rfl


theorem flatMap_srcName_length_ge (comps : List (List UInt8)) : comps.length ≤ (comps.flatMap srcName).length := by
  induction comps with
  | nil => simp
  | cons id comps ih =>
    have : 1 ≤ (srcName id).length := by
      have := srcName_ne_nil id
      cases h : srcName id with
      | nil => exact absurd h this
      | cons a t => simp
    simp only [List.flatMap_cons, List.length_append, List.length_cons]
    omega

/-- **demangle ∘ mangle** for functions in nested namespaces / classes with builtin parameter types -/
theorem demangle_mangleNested (id : List UInt8) (comps : List (List UInt8)) (params : List UInt8)
    (hok : ∀ x ∈ id :: comps, IdOk x) (hb : ∀ c ∈ params, types.any (fun t => t.1 == c) = true) :
    demangle Fixes.all (mangleNested (id :: comps) params).toArray = .str (joinNames (id :: comps)) := by
  have hlen := flatMap_srcName_length_ge (id :: comps)
  have hsz : (mangleNested (id :: comps) params).toArray.size =
      3 + ((id :: comps).flatMap srcName).length + 1 + params.length := by
    simp [mangleNested]
    omega
  obtain ⟨st, hrun, hlev, hpos, hout⟩ := encoding_nested (id :: comps) params hok hb
    (8 * ((mangleNested (id :: comps) params).toArray.size + 2) - 1) (by rw [hsz]; omega) (by rw [hsz]; omega)
  have hfuel : 8 * ((mangleNested (id :: comps) params).toArray.size + 2) - 1 + 1 =
      fuelFor (mangleNested (id :: comps) params).toArray := by
    unfold fuelFor
    omega
  rw [hfuel] at hrun
  have hout' : st.out = some (joinNames (id :: comps)) := by
    rw [hout]
    exact (foldl_appName_out0 id comps _ rfl rfl).1
  have hpre : globalPrefix.isPrefixOf (mangleNested (id :: comps) params) = false := by
    simp [globalPrefix, mangleNested, List.isPrefixOf]
  have hg0 : (mangleNested (id :: comps) params).toArray.getD 0 0 = 95 := by simp [mangleNested]
  have hg1 : (mangleNested (id :: comps) params).toArray.getD 1 0 = 90 := by simp [mangleNested]
  unfold demangle demangleWith
  simp only [List.toList_toArray, hpre, Bool.false_eq_true, ↓reduceIte]
  unfold demangleCore
  simp only [hg0, hg1, beq_self_eq_true, Bool.and_self, Bool.not_true, Bool.false_eq_true, ↓reduceIte, hrun,
    Int.lt_irrefl, decide_false, hlev, bne_self_eq_false, Bool.or_self, hpos, ge_iff_le, Nat.le_refl, hout']



/-- `dd_nested_name` on `N <source-name>* <leaf> E` where the loop's behaviour on `<leaf> E` is given:
    it turns the state `s2` (after the source names) into `s3` positioned at the `E` -/
theorem nestedName_gen {e : Env} {st : St} (hfx : e.fx = Fixes.all) (F : Nat) (hF : 2 ≤ F) (comps : List (List UInt8))
    (leaf rest : List UInt8) (hok : ∀ id ∈ comps, IdOk id) (hdollar : (36 : UInt8) ∉ leaf ++ 69 :: rest)
    (hB : (leaf ++ 69 :: rest).getD 0 0 ≠ 66) (hl : st.len = e.n)
    (ht : st.type = 0) (htm : st.templates = 0)
    (h : Rest e st.pos (78 :: (comps.flatMap srcName ++ (leaf ++ 69 :: rest))))
    (s3 : St)
    (hleaf : run F .nestedLoop e (comps.foldl appName { st with pos := st.pos + 1, level := st.level + 1 }) = .ok 0 s3)
    (h3l : s3.len = st.len) (h3p : s3.pos = st.pos + 1 + (comps.flatMap srcName).length + leaf.length) :
    run (F + comps.length + 1) .nestedName e st = .ok 0 { s3 with pos := s3.pos + 1, level := s3.level - 1 } := by
  show bNestedName (run (F + comps.length)) e st = _
  let st1 : St := { st with pos := st.pos + 1 }
  let st2 : St := { st1 with level := st1.level + 1 }
  have hne : (78 :: (comps.flatMap srcName ++ (leaf ++ 69 :: rest))).length ≠ 0 := by simp
  have hdc : debugConsume 78 e st = .ok true st1 := debugConsume_eq 78 hl h
  have hinc : incLevel e st1 = .ok () st2 := rfl
  have h2 : Rest e st2.pos (comps.flatMap srcName ++ (leaf ++ 69 :: rest)) := by
    have := h.drop 1 (by simp)
    simpa using this
  have hloop : run (F + comps.length) .nestedLoop e st2 = .ok 0 s3 := by
    rw [nestedLoop_unroll hfx F hF (leaf ++ 69 :: rest) hdollar hB comps st2 hok hl ht htm h2]
    exact hleaf
  have h3 : Rest e s3.pos (69 :: rest) := by
    have := h2.drop ((comps.flatMap srcName).length + leaf.length) (by simp)
    rw [h3p]
    have hd : List.drop ((comps.flatMap srcName).length + leaf.length) (comps.flatMap srcName ++ (leaf ++ 69 :: rest)) =
        69 :: rest := by
      rw [← List.append_assoc, List.drop_append_of_le_length (by simp)]
      simp
    rw [hd] at this
    have hp : st.pos + 1 + (comps.flatMap srcName).length + leaf.length =
        st2.pos + ((comps.flatMap srcName).length + leaf.length) := by
      show _ = st.pos + 1 + _
      omega
    rw [hp]
    exact this
  have hdc2 := debugConsume_eq (st := s3) 69 (by rw [h3l]; exact hl) h3
  unfold bNestedName
  simp only [bind_def, eof_eq hl h, hne, decide_false, Bool.false_eq_true, ↓reduceIte, hdc, Bool.not_true, hinc, hloop,
    hdc2, decLevel, modifySt, pure_def]


/-- the loop of dd_nested_name on a constructor / destructor code followed by `E` -/
theorem nestedLoop_ctor {e : Env} {st : St} (hfx : e.fx = Fixes.all) (F : Nat) (cd k : UInt8) (hcd : cd = 67 ∨ cd = 68)
    (hk : isDigit k = true) (rest : List UInt8) (hl : st.len = e.n) (ht : st.type = 0) (o : List UInt8)
    (ho : st.out = some o) (h : Rest e st.pos (cd :: k :: 69 :: rest)) :
    run (F + 2) .nestedLoop e st =
      .ok 0 { st with pos := st.pos + 2,
                      out := some (o ++ (if cd = 67 then [58, 58] else [58, 58, 126]) ++ lastComponent o) } := by
  show bNestedLoop (run (F + 1)) e st = _
  have hne : (cd :: k :: 69 :: rest).length ≠ 0 := by simp
  let st1 : St := { st with pos := st.pos + 1 }
  let st2 : St := { st1 with pos := st1.pos + 1 }
  have hc1 : consume e st = .ok cd st1 := by
    have := consume_eq (st := st) hl h (by simp)
    simpa using this
  have h1 : Rest e st1.pos (k :: 69 :: rest) := by simpa using h.drop 1 (by simp)
  have hc2 : consume e st1 = .ok k st2 := by
    have := consume_eq (st := st1) hl h1 (by simp)
    simpa using this
  have h2 : Rest e st2.pos (69 :: rest) := by simpa using h1.drop 1 (by simp)
  have hne2 : (69 :: rest).length ≠ 0 := by simp
  have hkI : (k == 73) = false := digit_beq hk 73 rfl
  have hkT : (k == 84) = false := digit_beq hk 84 rfl
  have hkt : (k == 116) = false := digit_beq hk 116 rfl
  let st3 : St := { st2 with out := some (o ++ (if cd = 67 then [58, 58] else [58, 58, 126]) ++ lastComponent o) }
  have hctor : run (F + 1) .ctorDtorName e st = .ok 0 st3 := by
    show bCtorDtorName (run F) e st = _
    unfold bCtorDtorName
    have ht2 : (st2.type != 0) = false := by simp [st2, st1, ht]
    have ho2 : st2.out = some o := ho
    rcases hcd with hcd | hcd <;> subst hcd <;>
    simp only [bind_def, hc1, hc2, eof_eq (st := st2) hl h2, hne2, decide_false, Bool.false_eq_true, ↓reduceIte, getSt,
      hkI, hk, Bool.not_true, ht2, ho2, appendBytes, modifySt, pure_def, bne_self_eq_false, Bool.and_false,
      Bool.false_and, beq_self_eq_true, Bool.and_self, Bool.and_true, Bool.true_and, reduceCtorEq] <;>
    simp [st3]
  have hend : run (F + 1) .nestedLoop e st3 = .ok 0 st3 := nestedLoop_end F rest hl h2
  have hkT' : ¬ k = 84 := by simpa using hkT
  have hkt' : ¬ k = 116 := by simpa using hkt
  have hfin : (.ok 0 st3 : Res Int) = .ok 0 { st with pos := st.pos + 2, out := some (o ++ (if cd = 67 then [58, 58] else [58, 58, 126]) ++ lastComponent o) } := by
    simp [st3, st2, st1, Nat.add_assoc]
  rw [← hfin]
  unfold bNestedLoop
  rcases hcd with hcd | hcd <;> subst hcd <;>
  simp [bind_def, curr_eq hl h, eof_eq hl h, peek_eq 1 hl h, hkT', hkt', hctor, hend, pure_def]


/-- everything the parser tests about an entry of `ops[]` -/
def OpFacts (o : UInt8 × UInt8 × List UInt8) : Prop :=
  isLower o.1 = true ∧ (o.1 == 69) = false ∧ (o.1 == 68) = false ∧ (o.1 == 67) = false ∧ (o.1 == 85) = false ∧
  ops.find? (fun p => p.1 == o.1 && p.2.1 == o.2.1) = some o ∧ (o.1 == 36) = false ∧ (o.2.1 == 36) = false ∧
  (o.1 == 66) = false

instance (o : UInt8 × UInt8 × List UInt8) : Decidable (OpFacts o) := by unfold OpFacts; infer_instance

set_option maxRecDepth 100000 in
theorem ops_facts_all : ∀ o ∈ ops, OpFacts o := by decide

/-- the loop of dd_nested_name on an operator code (other than the conversion and literal operators)
    followed by `E` -/
theorem nestedLoop_op {e : Env} {st : St} (F : Nat) (o : UInt8 × UInt8 × List UInt8) (ho : o ∈ ops)
    (hcv : (o.1 == 99 && o.2.1 == 118) = false) (hli : (o.1 == 108 && o.2.1 == 105) = false)
    (rest : List UInt8) (hl : st.len = e.n) (ht : st.type = 0) (h : Rest e st.pos (o.1 :: o.2.1 :: 69 :: rest)) :
    run (F + 3) .nestedLoop e st =
      .ok 0 { st with pos := st.pos + 2, out := some (sepOut st ++ bs%"operator" ++ o.2.2), firstName := false } := by
  obtain ⟨f1, f2, f3, f4, f5, f6, _, _, _⟩ := ops_facts_all o ho
  obtain ⟨a, b, name⟩ := o
  simp only at f1 f2 f3 f4 f5 f6 hcv hli h
  have g2 : ¬ a = 69 := by simpa using f2
  have g3 : ¬ a = 68 := by simpa using f3
  have g4 : ¬ a = 67 := by simpa using f4
  have g5 : ¬ a = 85 := by simpa using f5
  let st1 : St := { st with pos := st.pos + 1 }
  let st2 : St := { st1 with pos := st1.pos + 1 }
  have hc1 : consume e st = .ok a st1 := by
    have := consume_eq (st := st) hl h (by simp)
    simpa using this
  have h1 : Rest e st1.pos (b :: 69 :: rest) := by simpa using h.drop 1 (by simp)
  have hc2 : consume e st1 = .ok b st2 := by
    have := consume_eq (st := st1) hl h1 (by simp)
    simpa using this
  have h2 : Rest e st2.pos (69 :: rest) := by simpa using h1.drop 1 (by simp)
  -- dd_operator_name
  let st3 : St := { st2 with out := some (sepOut st ++ bs%"operator" ++ name), firstName := false }
  have hop : run (F + 1) .operatorName e st = .ok 0 st3 := by
    show bOperatorName (run F) e st = _
    have ht2 : (st2.type != 0) = false := by simp [st2, st1, ht]
    unfold bOperatorName
    simp only [bind_def, hc1, hc2, eof_eq (st := st2) hl h2, List.length_cons, Nat.add_one_ne_zero, decide_false,
      Bool.false_eq_true, ↓reduceIte, getSt, ht2, f6, hcv, hli]
    by_cases hf : st.firstName = true
    · have hf2 : st2.firstName = true := hf
      simp [appendSeparator, bind_def, getSt, hf2, modifySt, appendBytes, incType, decType, pure_def, st3, sepOut, hf, st2,
        st1]
    · have hf' : st.firstName = false := by simpa using hf
      have hf2 : st2.firstName = false := hf'
      simp [appendSeparator, bind_def, getSt, hf2, modifySt, appendBytes, incType, decType, pure_def, st3, sepOut, hf', st2,
        st1, colon2]
  have hl3 : st3.len = e.n := hl
  have h3 : Rest e st3.pos (69 :: rest) := h2
  have hun : run (F + 2) .unqualifiedName e st = .ok 0 st3 := by
    show bUnqualifiedName (run (F + 1)) e st = _
    unfold bUnqualifiedName
    simp [bind_def, curr_eq hl h, peek_eq 1 hl h, eof_eq hl h, f1, g3, g4, g5, hop, curr_eq (st := st3) hl3 h3, pure_def]
  have hend : run (F + 2) .nestedLoop e st3 = .ok 0 st3 := nestedLoop_end (F + 1) rest hl3 h3
  have hfin : (.ok 0 st3 : Res Int) = .ok 0 { st with pos := st.pos + 2, out := some (sepOut st ++ bs%"operator" ++ name), firstName := false } := by
    simp [st3, st2, st1, Nat.add_assoc]
  rw [← hfin]
  show bNestedLoop (run (F + 2)) e st = _
  unfold bNestedLoop
  simp [bind_def, curr_eq hl h, eof_eq hl h, peek_eq 1 hl h, f1, g2, g3, g4, hun, hend, pure_def]


/-- `_ZN <source-name>+ <leaf> E <builtin-type>+` -/
def mangleLeaf (comps : List (List UInt8)) (leaf params : List UInt8) : List UInt8 :=
  [95, 90, 78] ++ comps.flatMap srcName ++ leaf ++ [69] ++ params

/-- the state of `demangle_simple` after `_ZN` -/
def stN (l : List UInt8) : St := { pos := 3, len := l.toArray.size, level := 2 }

/-- **demangle ∘ mangle, generic part**: if the loop of dd_nested_name turns the state after the source
    names into `s3` (positioned at the closing `E`, output `X`), the whole name demangles to `X`. -/
theorem demangle_nested_gen (comps : List (List UInt8)) (leaf params : List UInt8) (hok : ∀ id ∈ comps, IdOk id)
    (hb : ∀ c ∈ params, types.any (fun t => t.1 == c) = true)
    (hdl : (36 : UInt8) ∉ leaf) (hB : (leaf ++ 69 :: params).getD 0 0 ≠ 66) (hll : leaf.length ≤ 2)
    (s3 : St) (X : List UInt8)
    (hleaf : ∀ F, 3 ≤ F → run F .nestedLoop { s := (mangleLeaf comps leaf params).toArray, fx := Fixes.all }
        (comps.foldl appName (stN (mangleLeaf comps leaf params))) = .ok 0 s3)
    (h3l : s3.len = (mangleLeaf comps leaf params).toArray.size)
    (h3p : s3.pos = 3 + (comps.flatMap srcName).length + leaf.length) (h3v : s3.level = 2) (h3o : s3.out = some X) :
    demangle Fixes.all (mangleLeaf comps leaf params).toArray = .str X := by
  let l := mangleLeaf comps leaf params
  let e : Env := { s := l.toArray, fx := Fixes.all }
  let st0 : St := { pos := 0, len := l.toArray.size }
  have hlen := flatMap_srcName_length_ge comps
  have hsz : l.toArray.size = 3 + (comps.flatMap srcName).length + leaf.length + 1 + params.length := by
    simp [l, mangleLeaf]
    omega
  have hR : Rest e 0 l := Rest.of_list l Fixes.all
  have hl0 : st0.len = e.n := rfl
  have hlcons : l = 95 :: 90 :: 78 :: (comps.flatMap srcName ++ (leaf ++ 69 :: params)) := by
    simp [l, mangleLeaf, List.append_assoc]
  have hne : l.length ≠ 0 := by rw [hlcons]; simp
  let G := 8 * (l.toArray.size + 2) - 1
  have hG : G + 1 = fuelFor l.toArray := by simp only [G, fuelFor]; omega
  let st1 : St := { st0 with pos := 2 }
  let st2 : St := { st1 with level := st1.level + 1 }
  have hcons : consumeN 2 e st0 = .ok 95 st1 := by
    have := consumeN_eq (st := st0) 2 hl0 hR (by rw [hlcons]; simp)
    rw [this]
    congr 1
  have hinc : incLevel e st1 = .ok () st2 := rfl
  have h2 : Rest e st2.pos (78 :: (comps.flatMap srcName ++ (leaf ++ 69 :: params))) := by
    have := hR.drop 2 (by rw [hlcons]; simp)
    rw [hlcons] at this
    simpa using this
  have hl2 : st2.len = e.n := rfl
  have hdollar : (36 : UInt8) ∉ leaf ++ 69 :: params := by
    simp only [List.mem_append, List.mem_cons, not_or]
    exact ⟨hdl, by decide, builtin_no_dollar hb⟩
  -- dd_nested_name
  let F := G - comps.length - 2
  have hF : 3 ≤ F := by simp only [F, G]; omega
  have hnn := nestedName_gen (st := st2) rfl F (by omega) comps leaf params hok hdollar hB hl2 rfl rfl h2 s3
    (hleaf F hF) h3l (by rw [h3p])
  have hFe : F + comps.length + 1 = G - 1 := by simp only [F, G]; omega
  rw [hFe] at hnn
  let st3 : St := { s3 with pos := s3.pos + 1, level := s3.level - 1 }
  have hname : run G .name e st2 = .ok 0 st3 := by
    have : G = (G - 1) + 1 := by simp only [G]; omega
    rw [this]
    show bName (run (G - 1)) e st2 = _
    have hne2 : (78 :: (comps.flatMap srcName ++ (leaf ++ 69 :: params))).length ≠ 0 := by simp
    unfold bName
    simp only [bind_def, curr_eq (st := st2) hl2 h2, eof_eq (st := st2) hl2 h2, hne2, decide_false, Bool.false_eq_true,
      ↓reduceIte, List.getD_cons_zero, beq_self_eq_true, hnn, pure_def]
    rfl
  have hl3 : st3.len = e.n := h3l
  have h3 : Rest e st3.pos params := by
    have ha : Rest e (st2.pos + 1) (comps.flatMap srcName ++ (leaf ++ 69 :: params)) := by
      simpa using h2.drop 1 (by simp)
    have hb' : Rest e (st2.pos + 1 + (comps.flatMap srcName).length) (leaf ++ 69 :: params) := by
      simpa using ha.drop (comps.flatMap srcName).length (by simp)
    have hc : Rest e (st2.pos + 1 + (comps.flatMap srcName).length + leaf.length) (69 :: params) := by
      simpa using hb'.drop leaf.length (by simp)
    have hd : Rest e (st2.pos + 1 + (comps.flatMap srcName).length + leaf.length + 1) params := by
      simpa using hc.drop 1 (by simp)
    have hp : st3.pos = st2.pos + 1 + (comps.flatMap srcName).length + leaf.length + 1 := by
      show s3.pos + 1 = 2 + 1 + _ + _ + 1
      rw [h3p]
    rw [hp]
    exact hd
  have henc := encLoop_builtins (e := e) (G - params.length - 1) (by simp only [G]; omega) params st3 hb hl3 h3
  have hGe2 : G - params.length - 1 + params.length + 1 = G := by simp only [G]; omega
  rw [hGe2] at henc
  let st4 : St := { st3 with pos := st3.pos + params.length }
  have henc' : run G .encLoop e st3 = .ok 0 st4 := henc
  have h4 : Rest e st4.pos [] := by
    have := h3.drop params.length (by simp)
    simpa using this
  have hl4 : st4.len = e.n := hl3
  have hcur4 : curr e st4 = .ok 0 st4 := by
    have := curr_eq (st := st4) hl4 h4
    simpa using this
  have hrun : run (fuelFor l.toArray) .encoding e st0 = .ok 0 { st4 with level := st4.level - 1 } := by
    rw [← hG]
    show bEncoding (run G) e st0 = _
    unfold bEncoding
    simp only [bind_def, eof_eq hl0 hR, hne, decide_false, Bool.false_eq_true, ↓reduceIte, getSt, hcons, hinc,
      curr_eq (st := st2) hl2 h2, List.getD_cons_zero, show ((78 : UInt8) == 84 || (78 : UInt8) == 71) = false from rfl,
      hname, Int.lt_irrefl, henc', hcur4, show ((0 : UInt8) == 46) = false from rfl, show ((0 : UInt8) == 64) = false from rfl,
      decLevel, modifySt, pure_def, beq_self_eq_true, show (st0.pos == 0) = true from rfl]
  have hpre : globalPrefix.isPrefixOf l = false := by
    rw [hlcons]
    simp [globalPrefix, List.isPrefixOf]
  have hg0 : l.toArray.getD 0 0 = 95 := by rw [hlcons]; simp
  have hg1 : l.toArray.getD 1 0 = 90 := by rw [hlcons]; simp
  have hpos : st4.pos = st4.len := by
    have := h4.1
    simp only [List.length_nil, Nat.add_zero] at this
    rw [hl4]
    exact this
  have hlev : st4.level - 1 = 0 := by
    show s3.level - 1 - 1 = 0
    rw [h3v]; rfl
  show demangle Fixes.all l.toArray = .str X
  unfold demangle demangleWith
  simp only [List.toList_toArray, hpre, Bool.false_eq_true, ↓reduceIte]
  have hrun' : run (fuelFor l.toArray) .encoding { s := l.toArray, fx := Fixes.all } { pos := 0, len := l.toArray.size } =
      .ok 0 { st4 with level := st4.level - 1 } := hrun
  have hout : st4.out = some X := h3o
  unfold demangleCore
  simp only [hg0, hg1, beq_self_eq_true, Bool.and_self, Bool.not_true, Bool.false_eq_true, ↓reduceIte, hrun',
    Int.lt_irrefl, decide_false, hlev, bne_self_eq_false, Bool.or_self, hpos, ge_iff_le, Nat.le_refl, hout]


theorem takeWhile_prefix {p : UInt8 → Bool} : ∀ (l₁ : List UInt8) (x : UInt8) (l₂ : List UInt8),
    (∀ y ∈ l₁, p y = true) → p x = false → (l₁ ++ x :: l₂).takeWhile p = l₁ := by
  intro l₁
  induction l₁ with
  | nil => intro x l₂ _ hx; simp [List.takeWhile, hx]
  | cons a l ih =>
    intro x l₂ h hx
    have ha := h a List.mem_cons_self
    simp only [List.cons_append, List.takeWhile_cons, ha, ↓reduceIte]
    rw [ih x l₂ (fun y hy => h y (List.mem_cons_of_mem _ hy)) hx]

theorem takeWhile_all {p : UInt8 → Bool} : ∀ (l : List UInt8), (∀ y ∈ l, p y = true) → l.takeWhile p = l := by
  intro l
  induction l with
  | nil => intro _; rfl
  | cons a l ih =>
    intro h
    simp only [List.takeWhile_cons, h a List.mem_cons_self, ↓reduceIte]
    rw [ih (fun y hy => h y (List.mem_cons_of_mem _ hy))]

theorem lastComponent_snoc (pre last : List UInt8) (h : (58 : UInt8) ∉ last) : lastComponent (pre ++ 58 :: last) = last := by
  unfold lastComponent
  have hr : (pre ++ 58 :: last).reverse = last.reverse ++ 58 :: pre.reverse := by simp
  rw [hr, takeWhile_prefix last.reverse 58 pre.reverse ?_ (by simp)]
  · simp
  · intro y hy
    have : y ∈ last := by simpa using hy
    simp only [bne_iff_ne, ne_eq]
    intro hy58
    subst hy58
    exact h this

theorem lastComponent_self (last : List UInt8) (h : (58 : UInt8) ∉ last) : lastComponent last = last := by
  unfold lastComponent
  rw [takeWhile_all last.reverse ?_]
  · simp
  · intro y hy
    have : y ∈ last := by simpa using hy
    simp only [bne_iff_ne, ne_eq]
    intro hy58
    subst hy58
    exact h this

theorem joinNames_cons (a : List UInt8) (l : List (List UInt8)) :
    joinNames (a :: l) = a ++ l.flatMap (fun id => [58, 58] ++ id) := (intercalate_flatMap [58, 58] l a).symm

/-- the last `::`-component of `a::b::…::last` is `last` -/
theorem lastComponent_join (init : List (List UInt8)) (last : List UInt8) (h : (58 : UInt8) ∉ last) :
    lastComponent (joinNames (init ++ [last])) = last := by
  cases init with
  | nil =>
    simp only [List.nil_append]
    rw [joinNames_cons]
    simpa using lastComponent_self last h
  | cons a l =>
    rw [List.cons_append, joinNames_cons, List.flatMap_append]
    simp only [List.flatMap_cons, List.flatMap_nil, List.append_nil]
    have : a ++ (l.flatMap (fun id => [58, 58] ++ id) ++ ([58, 58] ++ last)) =
        (a ++ l.flatMap (fun id => [58, 58] ++ id) ++ [58]) ++ 58 :: last := by simp [List.append_assoc]
    rw [this]
    exact lastComponent_snoc _ last h


/-! ## declarations, `mangle`, `qualifiedName` -/

/-- what follows the enclosing scopes in a nested name -/
inductive Leaf
  | fn                                        -- an ordinary function: the innermost name is the function
  | ctor (k : UInt8)                          -- constructor `C<k>` of the innermost class
  | dtor (k : UInt8)                          -- destructor `D<k>` of the innermost class
  | op (o : UInt8 × UInt8 × List UInt8)       -- member operator: an entry of the generated `ops[]` table

def Leaf.bytes : Leaf → List UInt8
  | .fn => []
  | .ctor k => [67, k]
  | .dtor k => [68, k]
  | .op o => [o.1, o.2.1]

def Leaf.Ok : Leaf → Prop
  | .fn => True
  | .ctor k => isDigit k = true
  | .dtor k => isDigit k = true
  | .op o => o ∈ ops ∧ (o.1 == 99 && o.2.1 == 118) = false ∧ (o.1 == 108 && o.2.1 == 105) = false

/-- a C++ declaration: `scope₁::…::scopeₙ::name` plus what `leaf` says, taking builtin-type parameters -/
structure Decl where
  scope : List (List UInt8)
  name : List UInt8
  leaf : Leaf
  params : List UInt8

def Decl.path (d : Decl) : List (List UInt8) := d.scope ++ [d.name]

/-- the Itanium-ABI mangled name `_ZN <source-name>+ [C<k> | D<k> | <operator-code>] E <builtin-type>*` -/
def mangle (d : Decl) : List UInt8 := mangleLeaf d.path d.leaf.bytes d.params

def leafSuffix (name : List UInt8) : Leaf → List UInt8
  | .fn => []
  | .ctor _ => [58, 58] ++ name
  | .dtor _ => [58, 58, 126] ++ name
  | .op o => [58, 58] ++ bs%"operator" ++ o.2.2

/-- the qualified name without parameter list: `a::b::f`, `a::K::K`, `a::K::~K`, `a::K::operator+` -/
def qualifiedName (d : Decl) : List UInt8 := joinNames d.path ++ leafSuffix d.name d.leaf

structure Decl.Ok (d : Decl) : Prop where
  ids : ∀ id ∈ d.path, IdOk id
  nocolon : (58 : UInt8) ∉ d.name
  leaf : d.leaf.Ok
  params : ∀ c ∈ d.params, types.any (fun t => t.1 == c) = true

theorem demangle_mangle (d : Decl) (h : d.Ok) : demangle Fixes.all (mangle d).toArray = .str (qualifiedName d) := by
  obtain ⟨scope, name, leaf, params⟩ := d
  obtain ⟨hids, hnc, hleaf, hpar⟩ := h
  simp only [Decl.path] at hids
  simp only at hnc hleaf hpar
  -- the state after the source names
  have hpath : ∃ p0 pt, scope ++ [name] = p0 :: pt := by
    cases scope with
    | nil => exact ⟨name, [], rfl⟩
    | cons a t => exact ⟨a, t ++ [name], rfl⟩
  obtain ⟨p0, pt, hp⟩ := hpath
  let l := mangleLeaf (scope ++ [name]) leaf.bytes params
  let S := (scope ++ [name]).foldl appName (stN l)
  obtain ⟨f1, f2, f3, f4, f5, f6, f7⟩ := foldl_appName_facts (scope ++ [name]) (stN l)
  have hSout : S.out = some (joinNames (scope ++ [name])) ∧ S.firstName = false := by
    have := foldl_appName_out0 p0 pt (stN l) rfl rfl
    rw [← hp] at this
    exact this
  have hSlen : S.len = l.toArray.size := f1
  have hStype : S.type = 0 := f2
  have hSlevel : S.level = 2 := f4
  have hSpos : S.pos = 3 + ((scope ++ [name]).flatMap srcName).length := f7
  have hsz : l.toArray.size = 3 + ((scope ++ [name]).flatMap srcName).length + leaf.bytes.length + 1 + params.length := by
    simp [l, mangleLeaf]
    omega
  have hlcons : l = 95 :: 90 :: 78 :: ((scope ++ [name]).flatMap srcName ++ (leaf.bytes ++ 69 :: params)) := by
    simp [l, mangleLeaf, List.append_assoc]
  have hR : Rest { s := l.toArray, fx := Fixes.all } 0 l := Rest.of_list l Fixes.all
  have hRS : Rest { s := l.toArray, fx := Fixes.all } S.pos (leaf.bytes ++ 69 :: params) := by
    have := hR.drop (3 + ((scope ++ [name]).flatMap srcName).length) (by rw [hlcons]; simp; omega)
    rw [hSpos]
    have hd : List.drop (3 + ((scope ++ [name]).flatMap srcName).length) l = leaf.bytes ++ 69 :: params := by
      rw [hlcons, Nat.add_comm, List.drop_succ_cons, List.drop_succ_cons, List.drop_succ_cons,
        List.drop_append_of_le_length (by simp)]
      simp
    rw [hd] at this
    simpa using this
  have hSl : S.len = ({ s := l.toArray, fx := Fixes.all } : Env).n := hSlen
  show demangle Fixes.all l.toArray = _
  cases leaf with
  | fn =>
    refine demangle_nested_gen (scope ++ [name]) [] params hids hpar (by simp) (by simp) (by simp) S _ ?_ hSlen
      (by rw [hSpos]; simp) hSlevel (by rw [hSout.1]; simp [qualifiedName, leafSuffix, Decl.path])
    intro F hF
    have : F = (F - 1) + 1 := by omega
    rw [this]
    exact nestedLoop_end (F - 1) params hSl hRS
  | ctor k =>
    have hk : isDigit k = true := hleaf
    refine demangle_nested_gen (scope ++ [name]) [67, k] params hids hpar ?_ (by simp) (by simp)
      { S with pos := S.pos + 2, out := some (joinNames (scope ++ [name]) ++ (if (67 : UInt8) = 67 then [58, 58] else [58, 58, 126]) ++ lastComponent (joinNames (scope ++ [name]))) } _ ?_ hSlen
      (by show S.pos + 2 = _; rw [hSpos]; simp) hSlevel ?_
    · simp only [List.mem_cons, List.not_mem_nil, or_false, not_or]
      refine ⟨by decide, ?_⟩
      intro h36
      rw [← h36] at hk
      cases hk
    · intro F hF
      have : F = (F - 2) + 2 := by omega
      rw [this]
      exact nestedLoop_ctor rfl (F - 2) 67 k (Or.inl rfl) hk params hSl hStype _ hSout.1 hRS
    · simp only [↓reduceIte, qualifiedName, leafSuffix, Decl.path, lastComponent_join scope name hnc]
      simp [List.append_assoc]
  | dtor k =>
    have hk : isDigit k = true := hleaf
    refine demangle_nested_gen (scope ++ [name]) [68, k] params hids hpar ?_ (by simp) (by simp)
      { S with pos := S.pos + 2, out := some (joinNames (scope ++ [name]) ++ (if (68 : UInt8) = 67 then [58, 58] else [58, 58, 126]) ++ lastComponent (joinNames (scope ++ [name]))) } _ ?_ hSlen
      (by show S.pos + 2 = _; rw [hSpos]; simp) hSlevel ?_
    · simp only [List.mem_cons, List.not_mem_nil, or_false, not_or]
      refine ⟨by decide, ?_⟩
      intro h36
      rw [← h36] at hk
      cases hk
    · intro F hF
      have : F = (F - 2) + 2 := by omega
      rw [this]
      exact nestedLoop_ctor rfl (F - 2) 68 k (Or.inr rfl) hk params hSl hStype _ hSout.1 hRS
    · simp only [qualifiedName, leafSuffix, Decl.path, lastComponent_join scope name hnc]
      simp [List.append_assoc]
  | op o =>
    obtain ⟨ho, hcv, hli⟩ := hleaf
    obtain ⟨g1, g2, g3, g4, g5, g6, g7, g8, g9⟩ := ops_facts_all o ho
    have hsep : sepOut S = joinNames (scope ++ [name]) ++ [58, 58] := by simp [sepOut, hSout.1, hSout.2]
    refine demangle_nested_gen (scope ++ [name]) [o.1, o.2.1] params hids hpar ?_ ?_ (by simp)
      { S with pos := S.pos + 2, out := some (sepOut S ++ bs%"operator" ++ o.2.2), firstName := false } _ ?_ hSlen
      (by show S.pos + 2 = _; rw [hSpos]; simp) hSlevel ?_
    · simp only [List.mem_cons, List.not_mem_nil, or_false, not_or]
      have g7' : ¬ o.1 = 36 := by simpa using g7
      have g8' : ¬ o.2.1 = 36 := by simpa using g8
      exact ⟨fun h => g7' h.symm, fun h => g8' h.symm⟩
    · simpa using g9
    · intro F hF
      have : F = (F - 3) + 3 := by omega
      rw [this]
      exact nestedLoop_op (F - 3) o ho hcv hli params hSl hStype hRS
    · simp only [hsep, qualifiedName, leafSuffix, Decl.path]
      simp [List.append_assoc]


end Uft.Demangle
