/- C08 helper lemmas: calls still open at the end of the data (`add_remaining_fstack`). -/
import Uft.Lemmas.ReportTree
namespace Uft.Report
open Uft.Mcount (Call Calls)

def capp : Calls → Calls → Calls
  | .nil, b => b
  | .cons c rest, b => .cons c (capp rest b)

/-- the calls that are still open when a task's data ends, outermost first:
    (function, entry time, the callees it had completed) -/
abbrev Open := List (Nat × Nat × Calls)

def evOpen (d : Nat) : Open → List Rec
  | [] => []
  | (f, t0, kids) :: rest =>
    { time := t0, typ := 0, depth := d, addr := f } :: (evCalls (d + 1) kids ++ evOpen (d + 1) rest)

/-- the same calls, returning at time `last` -/
def closeAt (last : Nat) : Open → Calls
  | [] => .nil
  | (f, t0, kids) :: rest => .cons (.node f t0 last (capp kids (closeAt last rest))) .nil

def openHeight : Open → Nat
  | [] => 0
  | (_, _, kids) :: rest => max (kids.height + 1) (openHeight rest + 1)

theorem evCalls_capp (d : Nat) : ∀ (a b : Calls), evCalls d (capp a b) = evCalls d a ++ evCalls d b
  | .nil, b => by simp [capp, evCalls]
  | .cons c rest, b => by simp [capp, evCalls, evCalls_capp d rest b]

theorem updsL_capp (ctx : List Nat) : ∀ (a b : Calls), updsL ctx (capp a b) = updsL ctx a ++ updsL ctx b
  | .nil, b => by simp [capp, updsL]
  | .cons c rest, b => by simp [capp, updsL, updsL_capp ctx rest b]

theorem childTime_capp : ∀ (a b : Calls) (acc : Nat), childTime acc (capp a b) = childTime (childTime acc a) b
  | .nil, b, acc => by simp [capp, childTime]
  | .cons c rest, b, acc => by simp [capp, childTime, childTime_capp rest b]

theorem durSum_capp : ∀ (a b : Calls), durSum (capp a b) = durSum a + durSum b
  | .nil, b => by simp [capp, durSum]
  | .cons c rest, b => by simp [capp, durSum, durSum_capp rest b]; omega

theorem wtL_capp : ∀ (a b : Calls), wtL (capp a b) ↔ wtL a ∧ wtL b
  | .nil, b => by simp [capp, wtL]
  | .cons c rest, b => by simp [capp, wtL, wtL_capp rest b, and_assoc]

theorem height_capp : ∀ (a b : Calls), (capp a b).height = max a.height b.height
  | .nil, b => by simp [capp, Calls.height]
  | .cons c rest, b => by simp [capp, Calls.height, height_capp rest b, Nat.max_assoc]

/-- `add_remaining_fstack` over the slots `lo + n - 1 … lo` -/
def remFrom (last : Nat) (lo : Nat) : Nat → List Fs → List Fs × List Upd
  | 0, stk => (stk, [])
  | n + 1, stk =>
    match stk[lo + n]? with
    | none => remFrom last lo n stk
    | some fs =>
      if fs.total > last then remFrom last lo n stk
      else
        let total0 := last - fs.total
        let total := if fs.child > total0 then fs.child else total0
        let fs' := { fs with total := total }
        let stk1 := stk.set (lo + n) fs'
        let stk2 := if lo + n > 0 then bump stk1 (lo + n - 1) total else stk1
        let u := updOf stk2 (lo + n) fs' fs.addr
        let r := remFrom last lo n stk2
        (r.1, u :: r.2)

theorem remLoop_eq (last : Nat) : ∀ (n : Nat) (stk : List Fs), remLoop last none n stk = remFrom last 0 n stk := by
  intro n
  induction n with
  | zero => intro stk; rfl
  | succ n ih =>
    intro stk
    simp only [remLoop, remFrom, Nat.zero_add, Option.isSome_none, Bool.false_and, Bool.false_eq_true, if_false,
      Option.getD_none]
    cases stk[n]? with
    | none => simp only [ih]
    | some fs => simp only [ih]

theorem remFrom_split (last : Nat) : ∀ (a b lo : Nat) (stk : List Fs),
    remFrom last lo (b + a) stk =
      ((remFrom last lo b (remFrom last (lo + b) a stk).1).1,
       (remFrom last (lo + b) a stk).2 ++ (remFrom last lo b (remFrom last (lo + b) a stk).1).2) := by
  intro a
  induction a with
  | zero => intro b lo stk; simp [remFrom]
  | succ a ih =>
    intro b lo stk
    have e : b + (a + 1) = (b + a) + 1 := by omega
    have e2 : lo + (b + a) = lo + b + a := by omega
    rw [e]
    simp only [remFrom, e2]
    cases stk[lo + b + a]? with
    | none => simp only [ih]
    | some fs =>
      simp only
      split
      · simp only [ih]
      · simp only [ih, List.cons_append]

/-- `func_stack` after `add_remaining_fstack` charged the open frame `fs` of slot `n` with `total` -/
def remStk (stk : List Fs) (n total : Nat) (fs : Fs) : List Fs :=
  let stk1 := stk.set n { fs with total := total }
  if n > 0 then bump stk1 (n - 1) total else stk1

@[simp] theorem remStk_length (stk : List Fs) (n total : Nat) (fs : Fs) :
    (remStk stk n total fs).length = stk.length := by
  unfold remStk; simp only; split <;> simp

theorem remStk_below (stk : List Fs) (n total : Nat) (fs : Fs) (k : Nat) (hk : k < n) :
    (remStk stk n total fs)[k]? = if k + 1 = n then (stk[k]?).map (Fs.addChild total) else stk[k]? := by
  have hne : ¬ (n = k) := by omega
  have hn1 : n > 0 := by omega
  unfold remStk
  simp only [hn1, if_true, bump_getElem?, List.getElem?_set, hne, if_false]
  by_cases h : k + 1 = n
  · subst h; simp
  · have : ¬ (k = n - 1) := by omega
    simp [h, this]

theorem remFrom_one (last n : Nat) (stk : List Fs) (fs : Fs) (h : stk[n]? = some fs)
    (h1 : fs.total ≤ last) (h2 : fs.child ≤ last - fs.total) :
    remFrom last n 1 stk =
      (remStk stk n (last - fs.total) fs,
       [{ key := fs.addr, total := last - fs.total, self := sub64 (last - fs.total) fs.child,
          recursive := isRec (remStk stk n (last - fs.total) fs) n fs.addr }]) := by
  have h1' : ¬ (fs.total > last) := by omega
  have h2' : ¬ (fs.child > last - fs.total) := by omega
  simp only [remFrom, Nat.add_zero, h, h1', if_false, h2', updOf, remStk]

theorem kidsDone_single (f t0 last : Nat) (kids : Calls) (h1 : t0 ≤ last) (h2 : last < M64) (fs : Fs) :
    Fs.kidsDone (.cons (.node f t0 last kids) .nil) fs = Fs.addChild (last - t0) fs := by
  simp only [Fs.kidsDone, Fs.addChild, childTime, dur, sub64_eq _ _ h1 h2]

theorem map_kidsDone_single (f t0 last : Nat) (kids : Calls) (h1 : t0 ≤ last) (h2 : last < M64)
    (o : Option Fs) :
    o.map (Fs.kidsDone (.cons (.node f t0 last kids) .nil)) = o.map (Fs.addChild (last - t0)) := by
  cases o with
  | none => simp only [Option.map_none]
  | some fs => simp only [Option.map_some, kidsDone_single f t0 last kids h1 h2]

theorem map_addr_kidsDone (o : Option Fs) (cs : Calls) :
    (o.map (Fs.kidsDone cs)).map (·.addr) = o.map (·.addr) := by
  cases o with
  | none => simp only [Option.map_none]
  | some fs => simp only [Option.map_some, Fs.kidsDone]

/-- an open frame: function, entry time, `child_time` so far -/
def frame (f t0 c : Nat) : Fs := { addr := f, total := t0, child := c, valid := true }

/-- running the records of the open calls and then `add_remaining_fstack` over their slots gives
    the updates of the same calls closed at `last` -/
theorem run_open (last : Nat) : ∀ (spine : Open) (t : Task) (n d : Nat), t.sc = n → t.lost = false →
    (t.fset = true ∨ (n = 0 ∧ d = 0)) → n + openHeight spine ≤ t.stk.length → wtL (closeAt last spine) →
    (runT t (evOpen d spine)).2 ++ (remFrom last n spine.length (runT t (evOpen d spine)).1.stk).2 =
        updsL (ctxOf t.stk n) (closeAt last spine) ∧
    (runT t (evOpen d spine)).1.sc = ((n + spine.length : Nat) : Int) ∧
    (remFrom last n spine.length (runT t (evOpen d spine)).1.stk).1.length = t.stk.length ∧
    (∀ k, k < n → (remFrom last n spine.length (runT t (evOpen d spine)).1.stk).1[k]? =
        if k + 1 = n then (t.stk[k]?).map (Fs.kidsDone (closeAt last spine)) else t.stk[k]?)
  | [], t, n, d, hs, hl, hf, hh, hw => by
    simp only [evOpen, runT, remFrom, closeAt, updsL, List.append_nil, List.length_nil, Nat.add_zero, hs,
      map_kidsDone_nil, ite_self, implies_true, and_self]
  | (f, t0, kids) :: rest, t, n, d, hs, hl, hf, hh, hw => by
    simp only [closeAt, wtL, wt, and_true] at hw
    obtain ⟨hw1, hw2, hw3, hw4⟩ := hw
    obtain ⟨hwk, hwr⟩ := (wtL_capp _ _).mp hw4
    have hh1 : n + (kids.height + 1) ≤ t.stk.length := by
      have : kids.height + 1 ≤ openHeight ((f, t0, kids) :: rest) := by simp only [openHeight]; exact Nat.le_max_left _ _
      omega
    have hh2 : n + 1 + openHeight rest ≤ t.stk.length := by
      have : openHeight rest + 1 ≤ openHeight ((f, t0, kids) :: rest) := by simp only [openHeight]; exact Nat.le_max_right _ _
      omega
    have hn : n < t.stk.length := by omega
    -- ENTRY
    have hE := stepF_entry t n { time := t0, typ := 0, depth := d, addr := f } hs hl hf rfl hn
    generalize hte : entryTask t n { time := t0, typ := 0, depth := d, addr := f } = tE at hE
    have hEsc : tE.sc = ((n + 1 : Nat) : Int) := by subst hte; simp [entryTask]
    have hEl : tE.lost = false := by subst hte; exact hl
    have hEf : tE.fset = true := by subst hte; rfl
    have hEstk : tE.stk = t.stk.set n { addr := f, total := t0, child := 0, valid := true } := by subst hte; rfl
    have hElen : tE.stk.length = t.stk.length := by rw [hEstk]; simp
    have hctx : ctxOf tE.stk (n + 1) = ctxOf t.stk n ++ [f] := by
      rw [hEstk]; exact ctxOf_set_succ _ _ _ hn
    -- the completed callees
    obtain ⟨ihU, ihP⟩ := run_calls kids tE (n + 1) (d + 1) hEsc hEl (Or.inl hEf) (by rw [hElen]; omega)
    generalize hk : runT tE (evCalls (d + 1) kids) = rk at ihU ihP
    have hKf : rk.1.fset = true := by rcases ihP.fset with h | ⟨h, _⟩; exact h; omega
    have hKslot : rk.1.stk[n]? = some { addr := f, total := t0, child := childTime 0 kids, valid := true } := by
      have := ihP.below n (Nat.lt_succ_self n)
      simp only [if_true] at this
      rw [this, hEstk]
      simp [hn, Fs.kidsDone]
    have hKbelow : ∀ k, k < n → rk.1.stk[k]? = t.stk[k]? := by
      intro k hk'
      have := ihP.below k (by omega)
      have hne : ¬ (k = n) := by omega
      have hne2 : ¬ (n = k) := by omega
      rw [this]; simp [hne, hEstk, List.getElem?_set, hne2]
    have hKctx : ctxOf rk.1.stk (n + 1) = ctxOf t.stk n ++ [f] := by
      rw [← hctx]
      apply ctxOf_congr
      intro k hk'
      rw [ihP.below k hk']
      split
      · exact map_addr_kidsDone _ _
      · rfl
    -- the deeper open calls
    obtain ⟨oU, oS, oL, oB⟩ := run_open last rest rk.1 (n + 1) (d + 1) ihP.sc ihP.lost (Or.inl hKf)
      (by rw [ihP.len, hElen]; exact hh2) hwr
    generalize ho : runT rk.1 (evOpen (d + 1) rest) = ro at oU oS oL oB
    generalize hq : remFrom last (n + 1) rest.length ro.1.stk = q at oU oL oB
    have hrun : runT t (evOpen d ((f, t0, kids) :: rest)) = (ro.1, rk.2 ++ ro.2) := by
      simp only [evOpen, runT, hE, runT_append, hk, ho, List.nil_append]
    -- the frame of `f`
    have hQslot : q.1[n]? = some (frame f t0 (childTime 0 (capp kids (closeAt last rest)))) := by
      have := oB n (Nat.lt_succ_self n)
      simp only [if_true] at this
      rw [this, hKslot]
      simp only [Option.map_some, Fs.kidsDone, childTime_capp, frame]
    have hct : childTime 0 (capp kids (closeAt last rest)) = durSum (capp kids (closeAt last rest)) := by
      rw [childTime_eq _ 0 hw4 (by omega)]; omega
    have hQbelow : ∀ k, k < n → q.1[k]? = t.stk[k]? := by
      intro k hk'
      have := oB k (by omega)
      have hne : ¬ (k = n) := by omega
      rw [this]; simp only [Nat.add_right_cancel_iff, hne, if_false]; exact hKbelow k hk'
    have hsplit := remFrom_split last rest.length 1 n ro.1.stk
    have hlen1 : ((f, t0, kids) :: rest).length = 1 + rest.length := by simp; omega
    have hone := remFrom_one last n q.1 _ hQslot hw1 (by simp only [frame, hct]; exact hw3)
    simp only [frame] at hone
    rw [hrun, hlen1, hsplit, hq, hone]
    refine ⟨?_, ?_, ?_, ?_⟩
    · have hc : ctxOf (remStk q.1 n (last - t0)
          { addr := f, total := t0, child := childTime 0 (capp kids (closeAt last rest)), valid := true }) n =
          ctxOf t.stk n := by
        apply ctxOf_congr
        intro k hk'
        rw [remStk_below _ _ _ _ _ hk', hQbelow k hk']
        split
        · exact map_addr_addChild _ _
        · rfl
      have hcl : ¬ (durSum (capp kids (closeAt last rest)) > last - t0) := by omega
      simp only [frame, hct] at hc
      rw [hKctx] at oU
      simp only [closeAt, updsL, upds, List.append_nil, updsL_capp, ihU, hctx, isRec_eq, hct, hc,
        sub64_eq _ _ hw1 hw2, hcl, if_false, List.append_assoc]
      rw [← oU]
      simp only [List.append_assoc]
    · rw [oS]; omega
    · rw [remStk_length, oL, ihP.len, hElen]
    · intro k hk'
      rw [remStk_below _ _ _ _ _ hk', hQbelow k hk']
      simp only [closeAt]
      rw [map_kidsDone_single f t0 last _ hw1 hw2]

/-! ### one task's data ending with open calls, through the whole report -/

/-- time of the last record (`dflt` for an empty stream) -/
def lastTimeOf (dflt : Nat) (rs : List Rec) : Nat := rs.foldl (fun _ r => r.time) dflt

theorem stepF_lastTime (t : Task) (r : Rec) : (stepF t r).1.lastTime = r.time := by
  unfold stepF
  simp only
  split
  · split <;> rfl
  · split <;> rfl

theorem runT_lastTime : ∀ (rs : List Rec) (t : Task), (runT t rs).1.lastTime = lastTimeOf t.lastTime rs
  | [], t => rfl
  | r :: rs, t => by
    simp only [runT, lastTimeOf, List.foldl_cons]
    rw [runT_lastTime rs, stepF_lastTime]; rfl

theorem finishF_eq (t : Task) (n : Nat) (h : t.sc = n) :
    finishF t = (remFrom t.lastTime 0 n t.stk).2 := by
  unfold finishF
  by_cases h0 : n = 0
  · subst h0; simp [h, remFrom]
  · have : ¬ (t.sc = 0) := by omega
    rw [if_neg this]
    simp only [h, Int.toNat_natCast, remLoop_eq]

/-- a single task: the node table is the empty one updated with what the stream and then
    `add_remaining_fstack` produce -/
theorem report_single (m : Nat) (rs : List Rec) :
    reportNodes false m [rs] =
      Nodes.upds (fun _ => {}) ((runT (Task.init m) rs).2 ++ finishF (runT (Task.init m) rs).1) := by
  obtain ⟨hproj, hlt⟩ := mergeAll_proj [rs]
  obtain ⟨us, hn, hp⟩ := run_nodes 1 (mergeAll [rs]) (St.init m) (by simpa using hlt)
  have h0 : proj 0 (mergeAll [rs]) = rs := by simpa using hproj 0
  have htask : (run false (St.init m) (mergeAll [rs])).tasks 0 = (runT (Task.init m) rs).1 := by
    rw [run_tasks, h0]; rfl
  have hblocks : blocks 1 (St.init m).tasks (mergeAll [rs]) = (runT (Task.init m) rs).2 := by
    simp [blocks, List.range_succ, h0, St.init]
  unfold reportNodes
  simp only [Bool.false_eq_true, if_false, finish, List.length_singleton, List.range_succ, List.range_zero,
    List.nil_append, List.foldl_cons, List.foldl_nil, htask]
  have hus : (St.init m).nodes.upds us = (St.init m).nodes.upds (runT (Task.init m) rs).2 :=
    Nodes.upds_perm _ (hblocks ▸ hp)
  rw [hn, hus, Nodes.upds_append]
  rfl

theorem report_open (m : Nat) (done : Calls) (spine : Open)
    (hd : done.height ≤ m) (hs : openHeight spine ≤ m)
    (hw : wtL (closeAt (lastTimeOf 0 (evCalls 0 done ++ evOpen 0 spine)) spine)) :
    reportNodes false m [evCalls 0 done ++ evOpen 0 spine] =
      Nodes.upds (fun _ => {})
        (updsL [] (capp done (closeAt (lastTimeOf 0 (evCalls 0 done ++ evOpen 0 spine)) spine))) := by
  generalize hlast : lastTimeOf 0 (evCalls 0 done ++ evOpen 0 spine) = last at hw
  obtain ⟨dU, dP⟩ := run_calls done (Task.init m) 0 0 rfl rfl (Or.inr ⟨rfl, rfl⟩) (by simp [Task.init]; exact hd)
  generalize hr1 : runT (Task.init m) (evCalls 0 done) = r1 at dU dP
  have hlen : r1.1.stk.length = m := by rw [dP.len]; simp [Task.init]
  obtain ⟨oU, oS, _, _⟩ := run_open last spine r1.1 0 0 dP.sc dP.lost dP.fset (by rw [hlen]; omega) hw
  have hrun : runT (Task.init m) (evCalls 0 done ++ evOpen 0 spine) =
      ((runT r1.1 (evOpen 0 spine)).1, r1.2 ++ (runT r1.1 (evOpen 0 spine)).2) := by
    rw [runT_append, hr1]
  have hlt : (runT r1.1 (evOpen 0 spine)).1.lastTime = last := by
    have := runT_lastTime (evCalls 0 done ++ evOpen 0 spine) (Task.init m)
    rw [hrun] at this
    rw [this]; exact hlast
  rw [report_single, hrun]
  simp only
  rw [finishF_eq _ spine.length (by rw [oS]; simp), hlt, List.append_assoc, oU, dU, updsL_capp]
  simp [ctxOf]

end Uft.Report
