import Uft.Model.SymFile
import Uft.Lemmas.Symtab
/- Helper lemmas for C10: the sort, well-formedness after loading. -/
namespace Uft.SymFile
open Uft.Symtab

/-! ### sortByAddr is an address-sorted permutation, and the identity on sorted input -/

theorem insertByAddr_perm (s : Sym) (l : List Sym) : (insertByAddr s l).Perm (s :: l) := by
  induction l with
  | nil => simp [insertByAddr]
  | cons x r ih =>
    simp only [insertByAddr]
    split
    · exact List.Perm.refl _
    · exact (List.Perm.cons x ih).trans (List.Perm.swap s x r)

theorem sortByAddr_perm (l : List Sym) : (sortByAddr l).Perm l := by
  induction l with
  | nil => simp [sortByAddr]
  | cons x r ih =>
    simp only [sortByAddr]
    exact (insertByAddr_perm x _).trans (List.Perm.cons x ih)

theorem insertByAddr_sorted (s : Sym) (l : List Sym) (h : AddrSorted l) :
    AddrSorted (insertByAddr s l) := by
  unfold AddrSorted at *
  induction l with
  | nil => simp [insertByAddr]
  | cons x r ih =>
    have hx := (List.pairwise_cons.mp h).1
    have hr := (List.pairwise_cons.mp h).2
    simp only [insertByAddr]
    split
    · rename_i hle
      refine List.pairwise_cons.mpr ⟨?_, h⟩
      intro a ha
      rcases List.mem_cons.mp ha with e | e
      · subst e; exact hle
      · exact Nat.le_trans hle (hx a e)
    · rename_i hgt
      refine List.pairwise_cons.mpr ⟨?_, ih hr⟩
      intro a ha
      have := (insertByAddr_perm s r).mem_iff.mp ha
      rcases List.mem_cons.mp this with e | e
      · subst e; omega
      · exact hx a e

theorem sortByAddr_sorted (l : List Sym) : AddrSorted (sortByAddr l) := by
  induction l with
  | nil => simp [sortByAddr, AddrSorted]
  | cons x r ih => exact insertByAddr_sorted x _ ih

theorem sortByAddr_of_sorted (l : List Sym) (h : AddrSorted l) : sortByAddr l = l := by
  unfold AddrSorted at h
  induction l with
  | nil => rfl
  | cons x r ih =>
    have hx := (List.pairwise_cons.mp h).1
    have hr := (List.pairwise_cons.mp h).2
    simp only [sortByAddr, ih hr]
    cases r with
    | nil => rfl
    | cons y r' => simp [insertByAddr, hx y (by simp)]

/-! ### no proper overlap ⇒ well-formed after sorting -/

theorem NoClash.symm {x y : Sym} (h : NoClash x y) : NoClash y x := ⟨h.2, h.1⟩

theorem wf_of_sorted_noclash (t : List Sym) (hs : AddrSorted t) (hn : NoProperOverlap t) :
    WellFormed t := by
  unfold WellFormed
  have := List.Pairwise.and hs hn
  refine List.Pairwise.imp ?_ this
  intro a b ⟨h1, h2⟩
  exact ⟨h1, h2.1 h1⟩

theorem wf_sort_of_noclash (t : List Sym) (hn : NoProperOverlap t) : WellFormed (sortByAddr t) :=
  wf_of_sorted_noclash _ (sortByAddr_sorted t)
    ((sortByAddr_perm t).symm.pairwise hn (fun h => NoClash.symm h))

/-! ### the loader never stores a `__sym_end` marker -/

theorem not_symend_of_x64 (name : List Char) (h : name.take 5 = ['_','_','x','6','4']) :
    isSymbolEnd name = false := by
  cases hn : isSymbolEnd name with
  | false => rfl
  | true =>
    exfalso
    simp only [isSymbolEnd, symEndNames, List.contains_eq_mem, List.mem_cons, List.not_mem_nil,
      or_false, decide_eq_true_eq] at hn
    rcases hn with e | e | e <;> (subst e; revert h; decide)

theorem not_symend_of_sys (rest : List Char) : isSymbolEnd (['s','y','s','_'] ++ rest) = false := by
  simp [isSymbolEnd, symEndNames]

theorem renameSyS_no_symend (old name : List Char) (h : isSymbolEnd old = false) :
    isSymbolEnd (renameSyS old name) = false := by
  unfold renameSyS
  split
  · rename_i h1; rw [h1.2.1]; exact not_symend_of_sys _
  · exact h

theorem renameIa32_no_symend (old name : List Char) (h : isSymbolEnd old = false) :
    isSymbolEnd (renameIa32 old name) = false := by
  unfold renameIa32
  split
  · rename_i h1; exact not_symend_of_x64 name h1.2.1
  · exact h

theorem renameLast_no_symend (rev : List Sym) (name : List Char)
    (h : ∀ s ∈ rev, isSymbolEnd s.name = false) :
    ∀ s ∈ renameLast rev name, isSymbolEnd s.name = false := by
  cases rev with
  | nil => simp [renameLast]
  | cons x r =>
    intro s hs
    simp only [renameLast, List.mem_cons] at hs
    rcases hs with e | e
    · subst e
      exact renameIa32_no_symend _ _ (renameSyS_no_symend _ _ (h x (by simp)))
    · exact h s (by simp [e])

theorem fillLast_names (rev : List Sym) (upto : Nat) (P : List Char → Prop)
    (h : ∀ s ∈ rev, P s.name) : ∀ s ∈ fillLast rev upto, P s.name := by
  cases rev with
  | nil => simp [fillLast]
  | cons x r =>
    intro s hs
    simp only [fillLast] at hs
    split at hs
    · rcases List.mem_cons.mp hs with e | e
      · subst e; exact h x (by simp)
      · exact h s (by simp [e])
    · exact h s hs

theorem loadLine_no_symend (off : Nat) (st : LdSt) (line : List Char)
    (h : ∀ s ∈ st.rev, isSymbolEnd s.name = false) :
    ∀ s ∈ (loadLine off st line).rev, isSymbolEnd s.name = false := by
  unfold loadLine
  split
  · exact h
  · unfold loadFields
    split
    · exact renameLast_no_symend _ _ h
    · split
      · exact h
      · split
        · exact fillLast_names _ _ (fun n => isSymbolEnd n = false) h
        · rename_i hne
          intro s hs
          rcases List.mem_cons.mp hs with e | e
          · subst e; simp only; simpa using (not_or.mp hne).2
          · exact fillLast_names _ _ (fun n => isSymbolEnd n = false) h s e

theorem rawLoad_no_symend (off : Nat) (text : List Char) :
    ∀ s ∈ rawLoad off text, isSymbolEnd s.name = false := by
  unfold rawLoad
  suffices hgen : ∀ (lines : List (List Char)) (st : LdSt),
      (∀ s ∈ st.rev, isSymbolEnd s.name = false) →
      ∀ s ∈ (lines.foldl (loadLine off) st).rev, isSymbolEnd s.name = false by
    intro s hs
    exact hgen _ {} (by simp) s (by simpa using hs)
  intro lines
  induction lines with
  | nil => intro st h; exact h
  | cons l r ih => intro st h; exact ih _ (loadLine_no_symend off st l h)

/-! ### reading back what `save_module_symbol_file` wrote -/

theorem hexVal_hexDigit : ∀ d, d < 16 → hexVal (hexDigit d) = some d := by decide

theorem hexDigit_facts : ∀ d, d < 16 →
    isSpaceC (hexDigit d) = false ∧ hexDigit d ≠ '-' ∧ hexDigit d ≠ '+' ∧ hexDigit d ≠ 'x' ∧
    hexDigit d ≠ 'X' ∧ hexDigit d ≠ '#' ∧ hexDigit d ≠ '\n' ∧ hexDigit d ≠ ' ' := by decide

theorem hexDigit_isDigit : ∀ d, d < 10 → (hexDigit d).isDigit = true := by decide

theorem hexVal_space : hexVal ' ' = none := by decide

/-- parsing what `%0<w>x` printed, followed by a blank -/
theorem hexDigits_hexFixed (w n acc : Nat) (rest : List Char) :
    hexDigits (hexFixed w n ++ ' ' :: rest) acc = (acc * 16 ^ w + n % 16 ^ w, ' ' :: rest) := by
  induction w generalizing acc with
  | zero => simp [hexFixed, hexDigits, hexVal_space, Nat.mod_one]
  | succ w ih =>
    simp only [hexFixed, List.cons_append, hexDigits]
    rw [hexVal_hexDigit _ (Nat.mod_lt _ (by decide))]
    simp only
    rw [ih]
    congr 1
    rw [Nat.mod_pow_succ (b := 16) (k := w) (x := n), Nat.pow_succ]
    rw [Nat.add_mul, Nat.mul_assoc, Nat.mul_comm 16 (16 ^ w), Nat.mul_comm (n / 16 ^ w % 16) (16 ^ w)]
    omega

theorem stripSign_other (c : Char) (tl : List Char) (m0 : c ≠ '-') (p0 : c ≠ '+') :
    stripSign (c :: tl) = (false, c :: tl) := by
  unfold stripSign
  split
  · rename_i h; simp at h; exact absurd h.1 m0
  · rename_i h; simp at h; exact absurd h.1 p0
  · rfl

theorem strip0x_other (c0 c1 : Char) (tl : List Char) (x1 : c1 ≠ 'x') (X1 : c1 ≠ 'X') :
    strip0x (c0 :: c1 :: tl) = c0 :: c1 :: tl := by
  unfold strip0x
  split
  · rename_i x h r heq
    simp only [List.cons.injEq] at heq
    obtain ⟨_, hx, _⟩ := heq
    subst hx
    simp [x1, X1]
  · rfl

/-- `strtoull` on what `%0<w>x` printed (at least 2 digits, value in range), followed by a blank -/
theorem strtoHex_hexFixed (w n : Nat) (rest : List Char) (hn : n < 16 ^ (w + 2))
    (h64 : 16 ^ (w + 2) ≤ U64) :
    strtoHex (hexFixed (w + 2) n ++ ' ' :: rest) = (n, ' ' :: rest) := by
  have key := hexDigits_hexFixed (w + 2) n 0 rest
  have f0 := hexDigit_facts (n / 16 ^ (w + 1) % 16) (Nat.mod_lt _ (by decide))
  have f1 := hexDigit_facts (n / 16 ^ w % 16) (Nat.mod_lt _ (by decide))
  have v0 := hexVal_hexDigit (n / 16 ^ (w + 1) % 16) (Nat.mod_lt _ (by decide))
  simp only [hexFixed, List.cons_append] at key ⊢
  unfold strtoHex
  rw [List.dropWhile_cons_of_neg (by simp [f0.1])]
  rw [stripSign_other _ _ f0.2.1 f0.2.2.1]
  simp only
  rw [strip0x_other _ _ _ f1.2.2.2.1 f1.2.2.2.2.1]
  simp only [v0, Option.isSome_some, if_true, key]
  rw [Nat.mod_eq_of_lt hn]
  simp
  omega

theorem parseFields_saved (A S : Nat) (ty : Char) (name : List Char) (hA : A < U64)
    (hS : S < 0xa0000000) :
    parseFields (hexFixed 16 A ++ ' ' :: (hexFixed 8 S ++ ' ' :: ty :: ' ' :: name))
      = some (A, S % U32, ty, cutTab name) := by
  have hd : S / 16 ^ 7 % 16 < 10 := by omega
  have step1 := strtoHex_hexFixed 14 A (hexFixed 8 S ++ ' ' :: ty :: ' ' :: name)
    (by unfold U64 at hA; omega) (by unfold U64; decide)
  have step2 := strtoHex_hexFixed 6 S (ty :: ' ' :: name) (by omega) (by unfold U64; decide)
  unfold parseFields
  rw [step1]
  simp only
  have e8 : hexFixed 8 S = hexDigit (S / 16 ^ 7 % 16) :: hexFixed 7 S := rfl
  rw [e8, List.cons_append]
  simp only [hexDigit_isDigit _ hd, if_true]
  have step2' : strtoHex (hexDigit (S / 16 ^ 7 % 16) :: (hexFixed 7 S ++ ' ' :: ty :: ' ' :: name))
      = (S, ' ' :: ty :: ' ' :: name) := step2
  rw [step2']
  rfl

theorem parseLine_saved (A S : Nat) (ty : Char) (name : List Char) (hA : A < U64)
    (hS : S < 0xa0000000) :
    parseLine (hexFixed 16 A ++ ' ' :: (hexFixed 8 S ++ ' ' :: ty :: ' ' :: name))
      = some (A, S % U32, ty, cutTab name) := by
  rw [← parseFields_saved A S ty name hA hS]
  have e16 : hexFixed 16 A = hexDigit (A / 16 ^ 15 % 16) :: hexFixed 15 A := rfl
  generalize hexFixed 8 S ++ ' ' :: ty :: ' ' :: name = rest
  rw [e16]
  unfold parseLine
  split
  · rename_i heq
    simp only [List.cons_append, List.cons.injEq] at heq
    exact absurd heq.1 (hexDigit_facts _ (Nat.mod_lt _ (by decide))).2.2.2.2.2.1
  · rfl

theorem cutTab_of_noTab (n : List Char) (h : '\t' ∉ n) : cutTab n = n := by
  unfold cutTab
  induction n with
  | nil => rfl
  | cons c r ih =>
    have hc : c ≠ '\t' := fun e => h (by simp [e])
    have hr : '\t' ∉ r := fun e => h (by simp [e])
    simp [hc, ih hr]

end Uft.SymFile
