import Uft.Model.SymFile
import Uft.Lemmas.Symtab
/- Helper lemmas for C10: the sort, well-formedness after loading. -/
namespace Uft.SymFile
open Uft.Symtab

/-! ### sortByAddr is an address-sorted permutation, and the identity on sorted input -/

theorem insertByAddr_perm (s : Sym) (l : List Sym) : (insertByAddr s l).Perm (s :: l) := by
  induction l with
  | nil => simp [insertByAddr]
  | cons x r ih =>
    simp only [insertByAddr]
    split
    · exact List.Perm.refl _
    · exact (List.Perm.cons x ih).trans (List.Perm.swap s x r)

theorem sortByAddr_perm (l : List Sym) : (sortByAddr l).Perm l := by
  induction l with
  | nil => simp [sortByAddr]
  | cons x r ih =>
    simp only [sortByAddr]
    exact (insertByAddr_perm x _).trans (List.Perm.cons x ih)

theorem insertByAddr_sorted (s : Sym) (l : List Sym) (h : AddrSorted l) :
    AddrSorted (insertByAddr s l) := by
  unfold AddrSorted at *
  induction l with
  | nil => simp [insertByAddr]
  | cons x r ih =>
    have hx := (List.pairwise_cons.mp h).1
    have hr := (List.pairwise_cons.mp h).2
    simp only [insertByAddr]
    split
    · rename_i hle
      refine List.pairwise_cons.mpr ⟨?_, h⟩
      intro a ha
      rcases List.mem_cons.mp ha with e | e
      · subst e; exact hle
      · exact Nat.le_trans hle (hx a e)
    · rename_i hgt
      refine List.pairwise_cons.mpr ⟨?_, ih hr⟩
      intro a ha
      have := (insertByAddr_perm s r).mem_iff.mp ha
      rcases List.mem_cons.mp this with e | e
      · subst e; omega
      · exact hx a e

theorem sortByAddr_sorted (l : List Sym) : AddrSorted (sortByAddr l) := by
  induction l with
  | nil => simp [sortByAddr, AddrSorted]
  | cons x r ih => exact insertByAddr_sorted x _ ih

theorem sortByAddr_of_sorted (l : List Sym) (h : AddrSorted l) : sortByAddr l = l := by
  unfold AddrSorted at h
  induction l with
  | nil => rfl
  | cons x r ih =>
    have hx := (List.pairwise_cons.mp h).1
    have hr := (List.pairwise_cons.mp h).2
    simp only [sortByAddr, ih hr]
    cases r with
    | nil => rfl
    | cons y r' => simp [insertByAddr, hx y (by simp)]

/-! ### no proper overlap ⇒ well-formed after sorting -/

theorem NoClash.symm {x y : Sym} (h : NoClash x y) : NoClash y x := ⟨h.2, h.1⟩

theorem wf_of_sorted_noclash (t : List Sym) (hs : AddrSorted t) (hn : NoProperOverlap t) :
    WellFormed t := by
  unfold WellFormed
  have := List.Pairwise.and hs hn
  refine List.Pairwise.imp ?_ this
  intro a b ⟨h1, h2⟩
  exact ⟨h1, h2.1 h1⟩

theorem wf_sort_of_noclash (t : List Sym) (hn : NoProperOverlap t) : WellFormed (sortByAddr t) :=
  wf_of_sorted_noclash _ (sortByAddr_sorted t)
    ((sortByAddr_perm t).symm.pairwise hn (fun h => NoClash.symm h))

/-! ### the loader never stores a `__sym_end` marker -/

theorem not_symend_of_x64 (name : List Char) (h : name.take 5 = ['_','_','x','6','4']) :
    isSymbolEnd name = false := by
  cases hn : isSymbolEnd name with
  | false => rfl
  | true =>
    exfalso
    simp only [isSymbolEnd, symEndNames, List.contains_eq_mem, List.mem_cons, List.not_mem_nil,
      or_false, decide_eq_true_eq] at hn
    rcases hn with e | e | e <;> (subst e; revert h; decide)

theorem not_symend_of_sys (rest : List Char) : isSymbolEnd (['s','y','s','_'] ++ rest) = false := by
  simp [isSymbolEnd, symEndNames]

theorem renameSyS_no_symend (old name : List Char) (h : isSymbolEnd old = false) :
    isSymbolEnd (renameSyS old name) = false := by
  unfold renameSyS
  split
  · rename_i h1; rw [h1.2.1]; exact not_symend_of_sys _
  · exact h

theorem renameIa32_no_symend (old name : List Char) (h : isSymbolEnd old = false) :
    isSymbolEnd (renameIa32 old name) = false := by
  unfold renameIa32
  split
  · rename_i h1; exact not_symend_of_x64 name h1.2.1
  · exact h

theorem renameLast_no_symend (rev : List Sym) (name : List Char)
    (h : ∀ s ∈ rev, isSymbolEnd s.name = false) :
    ∀ s ∈ renameLast rev name, isSymbolEnd s.name = false := by
  cases rev with
  | nil => simp [renameLast]
  | cons x r =>
    intro s hs
    simp only [renameLast, List.mem_cons] at hs
    rcases hs with e | e
    · subst e
      exact renameIa32_no_symend _ _ (renameSyS_no_symend _ _ (h x (by simp)))
    · exact h s (by simp [e])

theorem fillLast_names (rev : List Sym) (upto : Nat) (P : List Char → Prop)
    (h : ∀ s ∈ rev, P s.name) : ∀ s ∈ fillLast rev upto, P s.name := by
  cases rev with
  | nil => simp [fillLast]
  | cons x r =>
    intro s hs
    simp only [fillLast] at hs
    split at hs
    · rcases List.mem_cons.mp hs with e | e
      · subst e; exact h x (by simp)
      · exact h s (by simp [e])
    · exact h s hs

theorem loadLine_no_symend (off : Nat) (st : LdSt) (line : List Char)
    (h : ∀ s ∈ st.rev, isSymbolEnd s.name = false) :
    ∀ s ∈ (loadLine off st line).rev, isSymbolEnd s.name = false := by
  unfold loadLine
  split
  · exact h
  · split
    · exact renameLast_no_symend _ _ h
    · split
      · exact h
      · split
        · exact fillLast_names _ _ (fun n => isSymbolEnd n = false) h
        · rename_i hne
          intro s hs
          rcases List.mem_cons.mp hs with e | e
          · subst e; simp only; simpa using (not_or.mp hne).2
          · exact fillLast_names _ _ (fun n => isSymbolEnd n = false) h s e

theorem rawLoad_no_symend (off : Nat) (text : List Char) :
    ∀ s ∈ rawLoad off text, isSymbolEnd s.name = false := by
  unfold rawLoad
  suffices hgen : ∀ (lines : List (List Char)) (st : LdSt),
      (∀ s ∈ st.rev, isSymbolEnd s.name = false) →
      ∀ s ∈ (lines.foldl (loadLine off) st).rev, isSymbolEnd s.name = false by
    intro s hs
    exact hgen _ {} (by simp) s (by simpa using hs)
  intro lines
  induction lines with
  | nil => intro st h; exact h
  | cons l r ih => intro st h; exact ih _ (loadLine_no_symend off st l h)

end Uft.SymFile
