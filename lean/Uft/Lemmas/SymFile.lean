import Uft.Model.SymFile
import Uft.Lemmas.Symtab
/- Helper lemmas for C10: the sort, well-formedness after loading. -/
namespace Uft.SymFile
open Uft.Symtab

/-! ### sortByAddr is an address-sorted permutation, and the identity on sorted input -/

theorem insertByAddr_perm (s : Sym) (l : List Sym) : (insertByAddr s l).Perm (s :: l) := by
  induction l with
  | nil => simp [insertByAddr]
  | cons x r ih =>
    simp only [insertByAddr]
    split
    · exact List.Perm.refl _
    · exact (List.Perm.cons x ih).trans (List.Perm.swap s x r)

theorem sortByAddr_perm (l : List Sym) : (sortByAddr l).Perm l := by
  induction l with
  | nil => simp [sortByAddr]
  | cons x r ih =>
    simp only [sortByAddr]
    exact (insertByAddr_perm x _).trans (List.Perm.cons x ih)

theorem insertByAddr_sorted (s : Sym) (l : List Sym) (h : AddrSorted l) :
    AddrSorted (insertByAddr s l) := by
  unfold AddrSorted at *
  induction l with
  | nil => simp [insertByAddr]
  | cons x r ih =>
    have hx := (List.pairwise_cons.mp h).1
    have hr := (List.pairwise_cons.mp h).2
    simp only [insertByAddr]
    split
    · rename_i hle
      refine List.pairwise_cons.mpr ⟨?_, h⟩
      intro a ha
      rcases List.mem_cons.mp ha with e | e
      · subst e; exact hle
      · exact Nat.le_trans hle (hx a e)
    · rename_i hgt
      refine List.pairwise_cons.mpr ⟨?_, ih hr⟩
      intro a ha
      have := (insertByAddr_perm s r).mem_iff.mp ha
      rcases List.mem_cons.mp this with e | e
      · subst e; omega
      · exact hx a e

theorem sortByAddr_sorted (l : List Sym) : AddrSorted (sortByAddr l) := by
  induction l with
  | nil => simp [sortByAddr, AddrSorted]
  | cons x r ih => exact insertByAddr_sorted x _ ih

theorem sortByAddr_of_sorted (l : List Sym) (h : AddrSorted l) : sortByAddr l = l := by
  unfold AddrSorted at h
  induction l with
  | nil => rfl
  | cons x r ih =>
    have hx := (List.pairwise_cons.mp h).1
    have hr := (List.pairwise_cons.mp h).2
    simp only [sortByAddr, ih hr]
    cases r with
    | nil => rfl
    | cons y r' => simp [insertByAddr, hx y (by simp)]

/-! ### no proper overlap ⇒ well-formed after sorting -/

theorem NoClash.symm {x y : Sym} (h : NoClash x y) : NoClash y x := ⟨h.2, h.1⟩

theorem wf_of_sorted_noclash (t : List Sym) (hs : AddrSorted t) (hn : NoProperOverlap t) :
    WellFormed t := by
  unfold WellFormed
  have := List.Pairwise.and hs hn
  refine List.Pairwise.imp ?_ this
  intro a b ⟨h1, h2⟩
  exact ⟨h1, h2.1 h1⟩

theorem wf_sort_of_noclash (t : List Sym) (hn : NoProperOverlap t) : WellFormed (sortByAddr t) :=
  wf_of_sorted_noclash _ (sortByAddr_sorted t)
    ((sortByAddr_perm t).symm.pairwise hn (fun h => NoClash.symm h))

/-! ### the loader never stores a `__sym_end` marker -/

theorem not_symend_of_x64 (name : List Char) (h : name.take 5 = ['_','_','x','6','4']) :
    isSymbolEnd name = false := by
  cases hn : isSymbolEnd name with
  | false => rfl
  | true =>
    exfalso
    simp only [isSymbolEnd, symEndNames, List.contains_eq_mem, List.mem_cons, List.not_mem_nil,
      or_false, decide_eq_true_eq] at hn
    rcases hn with e | e | e <;> (subst e; revert h; decide)

theorem not_symend_of_sys (rest : List Char) : isSymbolEnd (['s','y','s','_'] ++ rest) = false := by
  simp [isSymbolEnd, symEndNames]

theorem renameSyS_no_symend (old name : List Char) (h : isSymbolEnd old = false) :
    isSymbolEnd (renameSyS old name) = false := by
  unfold renameSyS
  split
  · rename_i h1; rw [h1.2.1]; exact not_symend_of_sys _
  · exact h

theorem renameIa32_no_symend (old name : List Char) (h : isSymbolEnd old = false) :
    isSymbolEnd (renameIa32 old name) = false := by
  unfold renameIa32
  split
  · rename_i h1; exact not_symend_of_x64 name h1.2.1
  · exact h

theorem renameLast_no_symend (rev : List Sym) (name : List Char)
    (h : ∀ s ∈ rev, isSymbolEnd s.name = false) :
    ∀ s ∈ renameLast rev name, isSymbolEnd s.name = false := by
  cases rev with
  | nil => simp [renameLast]
  | cons x r =>
    intro s hs
    simp only [renameLast, List.mem_cons] at hs
    rcases hs with e | e
    · subst e
      exact renameIa32_no_symend _ _ (renameSyS_no_symend _ _ (h x (by simp)))
    · exact h s (by simp [e])

theorem fillLast_names (rev : List Sym) (upto : Nat) (P : List Char → Prop)
    (h : ∀ s ∈ rev, P s.name) : ∀ s ∈ fillLast rev upto, P s.name := by
  cases rev with
  | nil => simp [fillLast]
  | cons x r =>
    intro s hs
    simp only [fillLast] at hs
    split at hs
    · rcases List.mem_cons.mp hs with e | e
      · subst e; exact h x (by simp)
      · exact h s (by simp [e])
    · exact h s hs

theorem loadLine_no_symend (off : Nat) (st : LdSt) (line : List Char)
    (h : ∀ s ∈ st.rev, isSymbolEnd s.name = false) :
    ∀ s ∈ (loadLine off st line).rev, isSymbolEnd s.name = false := by
  unfold loadLine
  split
  · exact h
  · unfold loadFields
    split
    · exact renameLast_no_symend _ _ h
    · split
      · exact h
      · split
        · exact fillLast_names _ _ (fun n => isSymbolEnd n = false) h
        · rename_i hne
          intro s hs
          rcases List.mem_cons.mp hs with e | e
          · subst e; simp only; simpa using (not_or.mp hne).2
          · exact fillLast_names _ _ (fun n => isSymbolEnd n = false) h s e

theorem rawLoad_no_symend (off : Nat) (text : List Char) :
    ∀ s ∈ rawLoad off text, isSymbolEnd s.name = false := by
  unfold rawLoad
  suffices hgen : ∀ (lines : List (List Char)) (st : LdSt),
      (∀ s ∈ st.rev, isSymbolEnd s.name = false) →
      ∀ s ∈ (lines.foldl (loadLine off) st).rev, isSymbolEnd s.name = false by
    intro s hs
    exact hgen _ {} (by simp) s (by simpa using hs)
  intro lines
  induction lines with
  | nil => intro st h; exact h
  | cons l r ih => intro st h; exact ih _ (loadLine_no_symend off st l h)

/-! ### reading back what `save_module_symbol_file` wrote -/

theorem hexVal_hexDigit : ∀ d, d < 16 → hexVal (hexDigit d) = some d := by decide

theorem hexDigit_facts : ∀ d, d < 16 →
    isSpaceC (hexDigit d) = false ∧ hexDigit d ≠ '-' ∧ hexDigit d ≠ '+' ∧ hexDigit d ≠ 'x' ∧
    hexDigit d ≠ 'X' ∧ hexDigit d ≠ '#' ∧ hexDigit d ≠ '\n' ∧ hexDigit d ≠ ' ' := by decide

theorem hexDigit_isDigit : ∀ d, d < 10 → (hexDigit d).isDigit = true := by decide

theorem hexVal_space : hexVal ' ' = none := by decide

/-- parsing what `%0<w>x` printed, followed by a blank -/
theorem hexDigits_hexFixed (w n acc : Nat) (rest : List Char) :
    hexDigits (hexFixed w n ++ ' ' :: rest) acc = (acc * 16 ^ w + n % 16 ^ w, ' ' :: rest) := by
  induction w generalizing acc with
  | zero => simp [hexFixed, hexDigits, hexVal_space, Nat.mod_one]
  | succ w ih =>
    simp only [hexFixed, List.cons_append, hexDigits]
    rw [hexVal_hexDigit _ (Nat.mod_lt _ (by decide))]
    simp only
    rw [ih]
    congr 1
    rw [Nat.mod_pow_succ (b := 16) (k := w) (x := n), Nat.pow_succ]
    rw [Nat.add_mul, Nat.mul_assoc, Nat.mul_comm 16 (16 ^ w), Nat.mul_comm (n / 16 ^ w % 16) (16 ^ w)]
    omega

theorem stripSign_other (c : Char) (tl : List Char) (m0 : c ≠ '-') (p0 : c ≠ '+') :
    stripSign (c :: tl) = (false, c :: tl) := by
  unfold stripSign
  split
  · rename_i h; simp at h; exact absurd h.1 m0
  · rename_i h; simp at h; exact absurd h.1 p0
  · rfl

theorem strip0x_other (c0 c1 : Char) (tl : List Char) (x1 : c1 ≠ 'x') (X1 : c1 ≠ 'X') :
    strip0x (c0 :: c1 :: tl) = c0 :: c1 :: tl := by
  unfold strip0x
  split
  · rename_i x h r heq
    simp only [List.cons.injEq] at heq
    obtain ⟨_, hx, _⟩ := heq
    subst hx
    simp [x1, X1]
  · rfl

/-- `strtoull` on what `%0<w>x` printed (at least 2 digits, value in range), followed by a blank -/
theorem strtoHex_hexFixed (w n : Nat) (rest : List Char) (hn : n < 16 ^ (w + 2))
    (h64 : 16 ^ (w + 2) ≤ U64) :
    strtoHex (hexFixed (w + 2) n ++ ' ' :: rest) = (n, ' ' :: rest) := by
  have key := hexDigits_hexFixed (w + 2) n 0 rest
  have f0 := hexDigit_facts (n / 16 ^ (w + 1) % 16) (Nat.mod_lt _ (by decide))
  have f1 := hexDigit_facts (n / 16 ^ w % 16) (Nat.mod_lt _ (by decide))
  have v0 := hexVal_hexDigit (n / 16 ^ (w + 1) % 16) (Nat.mod_lt _ (by decide))
  simp only [hexFixed, List.cons_append] at key ⊢
  unfold strtoHex
  rw [List.dropWhile_cons_of_neg (by simp [f0.1])]
  rw [stripSign_other _ _ f0.2.1 f0.2.2.1]
  simp only
  rw [strip0x_other _ _ _ f1.2.2.2.1 f1.2.2.2.2.1]
  simp only [v0, Option.isSome_some, if_true, key]
  rw [Nat.mod_eq_of_lt hn]
  simp
  omega

theorem parseFields_saved (A S : Nat) (ty : Char) (name : List Char) (hA : A < U64)
    (hS : S < 0xa0000000) :
    parseFields (hexFixed 16 A ++ ' ' :: (hexFixed 8 S ++ ' ' :: ty :: ' ' :: name))
      = some (A, S % U32, ty, cutTab name) := by
  have hd : S / 16 ^ 7 % 16 < 10 := by omega
  have step1 := strtoHex_hexFixed 14 A (hexFixed 8 S ++ ' ' :: ty :: ' ' :: name)
    (by unfold U64 at hA; omega) (by unfold U64; decide)
  have step2 := strtoHex_hexFixed 6 S (ty :: ' ' :: name) (by omega) (by unfold U64; decide)
  unfold parseFields
  rw [step1]
  simp only
  have e8 : hexFixed 8 S = hexDigit (S / 16 ^ 7 % 16) :: hexFixed 7 S := rfl
  rw [e8, List.cons_append]
  simp only [hexDigit_isDigit _ hd, if_true]
  have step2' : strtoHex (hexDigit (S / 16 ^ 7 % 16) :: (hexFixed 7 S ++ ' ' :: ty :: ' ' :: name))
      = (S, ' ' :: ty :: ' ' :: name) := step2
  rw [step2']
  rfl

theorem parseLine_saved (A S : Nat) (ty : Char) (name : List Char) (hA : A < U64)
    (hS : S < 0xa0000000) :
    parseLine (hexFixed 16 A ++ ' ' :: (hexFixed 8 S ++ ' ' :: ty :: ' ' :: name))
      = some (A, S % U32, ty, cutTab name) := by
  rw [← parseFields_saved A S ty name hA hS]
  have e16 : hexFixed 16 A = hexDigit (A / 16 ^ 15 % 16) :: hexFixed 15 A := rfl
  generalize hexFixed 8 S ++ ' ' :: ty :: ' ' :: name = rest
  rw [e16]
  unfold parseLine
  split
  · rename_i heq
    simp only [List.cons_append, List.cons.injEq] at heq
    exact absurd heq.1 (hexDigit_facts _ (Nat.mod_lt _ (by decide))).2.2.2.2.2.1
  · rfl

theorem cutTab_of_noTab (n : List Char) (h : '\t' ∉ n) : cutTab n = n := by
  unfold cutTab
  induction n with
  | nil => rfl
  | cons c r ih =>
    have hc : c ≠ '\t' := fun e => h (by simp [e])
    have hr : '\t' ∉ r := fun e => h (by simp [e])
    simp [hc, ih hr]

theorem splitLinesAux_line (l rest cur : List Char) (h : '\n' ∉ l) :
    splitLinesAux (l ++ '\n' :: rest) cur = (cur.reverse ++ l) :: splitLinesAux rest [] := by
  induction l generalizing cur with
  | nil => simp [splitLinesAux]
  | cons c r ih =>
    have hc : c ≠ '\n' := fun e => h (by simp [e])
    have hr : '\n' ∉ r := fun e => h (by simp [e])
    simp only [List.cons_append, splitLinesAux, hc, if_false]
    rw [ih _ hr]
    simp

theorem splitLinesAux_lines {α : Type} (f : α → List Char) (t : List α) (h : ∀ s ∈ t, '\n' ∉ f s) :
    splitLinesAux (t.map (fun s => f s ++ ['\n'])).flatten [] = t.map f := by
  induction t with
  | nil => simp [splitLinesAux]
  | cons x r ih =>
    simp only [List.map_cons, List.flatten_cons, List.append_assoc, List.singleton_append]
    rw [splitLinesAux_line _ _ _ (h x (by simp)), ih (fun s hs => h s (by simp [hs]))]
    simp

theorem decDigit_ne_nl : ∀ d, decDigit d ≠ '\n' := by
  intro d; unfold decDigit; split <;> decide

theorem decDigitsAux_no_nl (fuel n : Nat) (acc : List Char) (h : '\n' ∉ acc) :
    '\n' ∉ decDigitsAux fuel n acc := by
  induction fuel generalizing n acc with
  | zero => simpa [decDigitsAux] using h
  | succ k ih =>
    have hacc : '\n' ∉ decDigit (n % 10) :: acc := by
      intro hm
      rcases List.mem_cons.mp hm with e | e
      · exact decDigit_ne_nl _ e.symm
      · exact h e
    simp only [decDigitsAux]
    split
    · exact hacc
    · exact ih _ _ hacc

theorem decDigits_no_nl (n : Nat) : '\n' ∉ decDigits n :=
  decDigitsAux_no_nl _ _ _ (by simp)


/-- what `save_module_symbol_file` can write and `load_module_symbol_file` reads back unchanged -/
structure SaveOk (s : Sym) : Prop where
  addr : s.addr < U64
  sizePos : 0 < s.size
  sizeLt : s.size < 0xa0000000
  type : s.type ∈ allowedTypes
  typeNe : s.type ≠ '?'
  noTab : '\t' ∉ s.name
  noNl : '\n' ∉ s.name
  notEnd : isSymbolEnd s.name = false

/-- no two consecutive entries with the same (addr, type) -/
def NoAdjDup : List Sym → Prop
  | [] => True
  | [_] => True
  | a :: b :: r => ¬ (a.addr = b.addr ∧ a.type = b.type) ∧ NoAdjDup (b :: r)

/-- the header lines of a saved file -/
def hdrLines (n : Nat) (path bid : List Char) : List (List Char) :=
  ["# symbols: ".toList ++ decDigits n, "# path name: ".toList ++ path] ++
    (if bid.isEmpty then [] else ["# build-id: ".toList ++ bid])


theorem splitLines_save (off : Nat) (path bid : List Char) (t : List Sym)
    (hp : '\n' ∉ path) (hb : '\n' ∉ bid) (hl : ∀ s ∈ t, '\n' ∉ saveLine off s) (hne : t ≠ []) :
    splitLines (save off path bid t) = hdrLines t.length path bid ++ t.map (saveLine off) := by
  have h1 : '\n' ∉ "# symbols: ".toList ++ decDigits t.length := by
    intro hm
    rcases List.mem_append.mp hm with e | e
    · revert e; decide
    · exact decDigits_no_nl _ e
  have h2 : '\n' ∉ "# path name: ".toList ++ path := by
    intro hm
    rcases List.mem_append.mp hm with e | e
    · revert e; decide
    · exact hp e
  have h3 : '\n' ∉ "# build-id: ".toList ++ bid := by
    intro hm
    rcases List.mem_append.mp hm with e | e
    · revert e; decide
    · exact hb e
  have hte : t.isEmpty = false := by cases t <;> simp_all
  have line2 : ∀ (a b rest : List Char), '\n' ∉ a ++ b →
      splitLinesAux (a ++ (b ++ '\n' :: rest)) [] = (a ++ b) :: splitLinesAux rest [] := by
    intro a b rest h
    rw [← List.append_assoc, splitLinesAux_line _ _ _ h]; simp
  unfold splitLines save header hdrLines
  rw [hte]
  by_cases hbe : bid.isEmpty = true
  · simp only [hbe, Bool.false_eq_true, if_false, if_true, List.append_nil, List.append_assoc,
      List.cons_append, List.nil_append]
    rw [line2 _ _ _ h1, line2 _ _ _ h2, splitLinesAux_lines _ _ hl]
  · simp only [hbe, Bool.false_eq_true, if_false, List.append_assoc,
      List.cons_append, List.nil_append]
    rw [line2 _ _ _ h1, line2 _ _ _ h2, line2 _ _ _ h3, splitLinesAux_lines _ _ hl]


theorem hexFixed_no_nl (w n : Nat) : '\n' ∉ hexFixed w n := by
  induction w with
  | zero => simp [hexFixed]
  | succ w ih =>
    simp only [hexFixed, List.mem_cons, not_or]
    exact ⟨fun e => (hexDigit_facts _ (Nat.mod_lt _ (by decide))).2.2.2.2.2.2.1 e.symm, ih⟩

theorem allowed_ne_nl : ∀ c ∈ allowedTypes, c ≠ '\n' ∧ c ≠ 'X' := by decide

theorem saveLine_eq (off : Nat) (s : Sym) : saveLine off s =
    hexFixed 16 (saveLine.sub64 s.addr off) ++
      ' ' :: (hexFixed 8 (s.size % U32) ++ ' ' :: s.type :: ' ' :: s.name) := rfl

theorem saveLine_no_nl (off : Nat) (s : Sym) (h : SaveOk s) : '\n' ∉ saveLine off s := by
  rw [saveLine_eq]
  simp only [List.mem_append, List.mem_cons, not_or]
  refine ⟨hexFixed_no_nl _ _, by decide, hexFixed_no_nl _ _, by decide, ?_, by decide, h.noNl⟩
  exact fun e => (allowed_ne_nl _ h.type).1 e.symm

theorem parseLine_saveLine (off : Nat) (s : Sym) (h : SaveOk s) :
    parseLine (saveLine off s) = some (saveLine.sub64 s.addr off, s.size, s.type, s.name) := by
  have h1 := h.sizeLt
  have hS : s.size % U32 = s.size := Nat.mod_eq_of_lt (by unfold U32; omega)
  have hA : saveLine.sub64 s.addr off < U64 := by unfold saveLine.sub64 U64; omega
  have key := parseLine_saved (saveLine.sub64 s.addr off) s.size s.type s.name hA h1
  rw [saveLine_eq, hS, key, hS, cutTab_of_noTab _ h.noTab]

theorem sub64_add (a off : Nat) (h : a < U64) : (saveLine.sub64 a off + off) % U64 = a := by
  unfold saveLine.sub64
  have h1 : off % U64 < U64 := Nat.mod_lt _ (by unfold U64; decide)
  have h2 : (a + U64 - off % U64) % U64 = if off % U64 ≤ a then a - off % U64 else a + U64 - off % U64 := by
    split
    · rw [show a + U64 - off % U64 = (a - off % U64) + U64 by omega, Nat.add_mod_right]
      exact Nat.mod_eq_of_lt (by omega)
    · exact Nat.mod_eq_of_lt (by omega)
  rw [h2, Nat.add_mod, ]
  split
  · rw [Nat.mod_eq_of_lt (show a - off % U64 < U64 by omega)]
    rw [show a - off % U64 + off % U64 = a by omega]
    exact Nat.mod_eq_of_lt h
  · rw [Nat.mod_eq_of_lt (show a + U64 - off % U64 < U64 by omega)]
    rw [show a + U64 - off % U64 + off % U64 = a + U64 by omega, Nat.add_mod_right]
    exact Nat.mod_eq_of_lt h

theorem loadLine_hash (off : Nat) (st : LdSt) (r : List Char) : loadLine off st ('#' :: r) = st := by
  have : parseLine ('#' :: r) = none := by simp [parseLine]
  unfold loadLine
  rw [this]

theorem loadFields_fresh (off : Nat) (st : LdSt) (addr size : Nat) (ty : Char) (name : List Char)
    (hdup : ¬ (addr = st.prevAddr ∧ ty = st.prevType))
    (hty : ty ∈ allowedTypes) (hq : ty ≠ '?') (hne : isSymbolEnd name = false)
    (hhead : ∀ x r, st.rev = x :: r → x.size ≠ 0) :
    loadFields off st addr size ty name =
      { rev := { addr := (addr + off) % U64, size := size, type := ty, name := name } :: st.rev,
        prevAddr := addr, prevType := ty } := by
  have hfill : ∀ a, fillLast st.rev a = st.rev := by
    intro a
    unfold fillLast
    split
    · rename_i x r heq
      rw [if_neg (hhead x r heq)]
    · rename_i heq; exact heq.symm
  unfold loadFields
  rw [if_neg hdup, if_neg (by simpa using hty)]
  simp only
  rw [if_neg (by simp [hq, hne]), hfill]

theorem loadLine_of_parse (off : Nat) (st : LdSt) (line : List Char) (a sz : Nat) (ty : Char)
    (nm : List Char) (h : parseLine line = some (a, sz, ty, nm)) :
    loadLine off st line = loadFields off st a sz ty nm := by
  unfold loadLine
  rw [h]

theorem loadLine_saved (off : Nat) (st : LdSt) (s : Sym) (h : SaveOk s)
    (hdup : ¬ (saveLine.sub64 s.addr off = st.prevAddr ∧ s.type = st.prevType))
    (hhead : ∀ x r, st.rev = x :: r → x.size ≠ 0) :
    loadLine off st (saveLine off s) =
      { rev := s :: st.rev, prevAddr := saveLine.sub64 s.addr off, prevType := s.type } := by
  rw [loadLine_of_parse off st _ _ _ _ _ (parseLine_saveLine off s h),
    loadFields_fresh off st _ _ _ _ hdup h.type h.typeNe h.notEnd hhead, sub64_add _ _ h.addr]

theorem sub64_inj (a b off : Nat) (ha : a < U64) (hb : b < U64)
    (h : saveLine.sub64 a off = saveLine.sub64 b off) : a = b := by
  rw [← sub64_add a off ha, ← sub64_add b off hb, h]

/-- the duplicate test of the loader never fires along the saved lines -/
def Chain (off : Nat) : Nat → Char → List Sym → Prop
  | _, _, [] => True
  | pa, pt, s :: r => ¬ (saveLine.sub64 s.addr off = pa ∧ s.type = pt) ∧
      Chain off (saveLine.sub64 s.addr off) s.type r

theorem chain_of_noAdjDup (off : Nat) (p : Sym) (t : List Sym) (hp : p.addr < U64)
    (ht : ∀ s ∈ t, s.addr < U64) (h : NoAdjDup (p :: t)) :
    Chain off (saveLine.sub64 p.addr off) p.type t := by
  induction t generalizing p with
  | nil => trivial
  | cons s r ih =>
    obtain ⟨h1, h2⟩ := h
    refine ⟨?_, ih s (ht s (by simp)) (fun x hx => ht x (by simp [hx])) h2⟩
    intro ⟨e1, e2⟩
    exact h1 ⟨(sub64_inj _ _ off (ht s (by simp)) hp e1).symm, e2.symm⟩

theorem foldl_saved (off : Nat) (t : List Sym) :
    ∀ (st : LdSt), (∀ s ∈ t, SaveOk s) → Chain off st.prevAddr st.prevType t →
      (∀ x r, st.rev = x :: r → x.size ≠ 0) →
      ((t.map (saveLine off)).foldl (loadLine off) st).rev = t.reverse ++ st.rev := by
  induction t with
  | nil => intro st _ _ _; simp
  | cons s r ih =>
    intro st hok hch hhead
    obtain ⟨hd, hch'⟩ := hch
    have hs := hok s (by simp)
    simp only [List.map_cons, List.foldl_cons]
    rw [loadLine_saved off st s hs hd hhead]
    rw [ih _ (fun x hx => hok x (by simp [hx])) hch']
    · simp
    · intro x r' heq
      simp only [List.cons.injEq] at heq
      rw [← heq.1]
      have := hs.sizePos
      omega

theorem foldl_hash (off : Nat) (ls : List (List Char)) (st : LdSt)
    (h : ∀ l ∈ ls, ∃ r, l = '#' :: r) : ls.foldl (loadLine off) st = st := by
  induction ls generalizing st with
  | nil => rfl
  | cons l r ih =>
    obtain ⟨x, hx⟩ := h l (by simp)
    simp only [List.foldl_cons]
    rw [hx, loadLine_hash]
    exact ih st (fun l' hl' => h l' (by simp [hl']))

theorem hdrLines_hash (n : Nat) (path bid : List Char) :
    ∀ l ∈ hdrLines n path bid, ∃ r, l = '#' :: r := by
  have e1 : "# symbols: ".toList = '#' :: " symbols: ".toList := by decide
  have e2 : "# path name: ".toList = '#' :: " path name: ".toList := by decide
  have e3 : "# build-id: ".toList = '#' :: " build-id: ".toList := by decide
  intro l hl
  unfold hdrLines at hl
  simp only [List.mem_append, List.mem_cons, List.not_mem_nil, or_false] at hl
  rcases hl with (h | h) | h
  · exact ⟨_, by rw [h, e1]; rfl⟩
  · exact ⟨_, by rw [h, e2]; rfl⟩
  · split at h
    · simp at h
    · simp only [List.mem_singleton] at h
      exact ⟨_, by rw [h, e3]; rfl⟩


end Uft.SymFile
