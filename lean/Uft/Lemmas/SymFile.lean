import Uft.Model.SymFile
import Uft.Lemmas.Symtab
/- Helper lemmas for C10: the sort, well-formedness after loading. -/
namespace Uft.SymFile
open Uft.Symtab

/-! ### sortByAddr is an address-sorted permutation, and the identity on sorted input -/

theorem insertByAddr_perm (s : Sym) (l : List Sym) : (insertByAddr s l).Perm (s :: l) := by
  induction l with
  | nil => simp [insertByAddr]
  | cons x r ih =>
    simp only [insertByAddr]
    split
    · exact List.Perm.refl _
    · exact (List.Perm.cons x ih).trans (List.Perm.swap s x r)

theorem sortByAddr_perm (l : List Sym) : (sortByAddr l).Perm l := by
  induction l with
  | nil => simp [sortByAddr]
  | cons x r ih =>
    simp only [sortByAddr]
    exact (insertByAddr_perm x _).trans (List.Perm.cons x ih)

theorem insertByAddr_sorted (s : Sym) (l : List Sym) (h : AddrSorted l) :
    AddrSorted (insertByAddr s l) := by
  unfold AddrSorted at *
  induction l with
  | nil => simp [insertByAddr]
  | cons x r ih =>
    have hx := (List.pairwise_cons.mp h).1
    have hr := (List.pairwise_cons.mp h).2
    simp only [insertByAddr]
    split
    · rename_i hle
      refine List.pairwise_cons.mpr ⟨?_, h⟩
      intro a ha
      rcases List.mem_cons.mp ha with e | e
      · subst e; exact hle
      · exact Nat.le_trans hle (hx a e)
    · rename_i hgt
      refine List.pairwise_cons.mpr ⟨?_, ih hr⟩
      intro a ha
      have := (insertByAddr_perm s r).mem_iff.mp ha
      rcases List.mem_cons.mp this with e | e
      · subst e; omega
      · exact hx a e

theorem sortByAddr_sorted (l : List Sym) : AddrSorted (sortByAddr l) := by
  induction l with
  | nil => simp [sortByAddr, AddrSorted]
  | cons x r ih => exact insertByAddr_sorted x _ ih

theorem sortByAddr_of_sorted (l : List Sym) (h : AddrSorted l) : sortByAddr l = l := by
  unfold AddrSorted at h
  induction l with
  | nil => rfl
  | cons x r ih =>
    have hx := (List.pairwise_cons.mp h).1
    have hr := (List.pairwise_cons.mp h).2
    simp only [sortByAddr, ih hr]
    cases r with
    | nil => rfl
    | cons y r' => simp [insertByAddr, hx y (by simp)]

/-! ### no proper overlap ⇒ well-formed after sorting -/

theorem NoClash.symm {x y : Sym} (h : NoClash x y) : NoClash y x := ⟨h.2, h.1⟩

theorem wf_of_sorted_noclash (t : List Sym) (hs : AddrSorted t) (hn : NoProperOverlap t) :
    WellFormed t := by
  unfold WellFormed
  have := List.Pairwise.and hs hn
  refine List.Pairwise.imp ?_ this
  intro a b ⟨h1, h2⟩
  exact ⟨h1, h2.1 h1⟩

theorem wf_sort_of_noclash (t : List Sym) (hn : NoProperOverlap t) : WellFormed (sortByAddr t) :=
  wf_of_sorted_noclash _ (sortByAddr_sorted t)
    ((sortByAddr_perm t).symm.pairwise hn (fun h => NoClash.symm h))

/-! ### the loader never stores a `__sym_end` marker -/

theorem not_symend_of_x64 (name : List Char) (h : name.take 5 = ['_','_','x','6','4']) :
    isSymbolEnd name = false := by
  cases hn : isSymbolEnd name with
  | false => rfl
  | true =>
    exfalso
    simp only [isSymbolEnd, symEndNames, List.contains_eq_mem, List.mem_cons, List.not_mem_nil,
      or_false, decide_eq_true_eq] at hn
    rcases hn with e | e | e <;> (subst e; revert h; decide)

theorem not_symend_of_sys (rest : List Char) : isSymbolEnd (['s','y','s','_'] ++ rest) = false := by
  simp [isSymbolEnd, symEndNames]

theorem renameSyS_no_symend (old name : List Char) (h : isSymbolEnd old = false) :
    isSymbolEnd (renameSyS old name) = false := by
  unfold renameSyS
  split
  · rename_i h1; rw [h1.2.1]; exact not_symend_of_sys _
  · exact h

theorem renameIa32_no_symend (old name : List Char) (h : isSymbolEnd old = false) :
    isSymbolEnd (renameIa32 old name) = false := by
  unfold renameIa32
  split
  · rename_i h1; exact not_symend_of_x64 name h1.2.1
  · exact h

theorem renameLast_no_symend (rev : List Sym) (name : List Char)
    (h : ∀ s ∈ rev, isSymbolEnd s.name = false) :
    ∀ s ∈ renameLast rev name, isSymbolEnd s.name = false := by
  cases rev with
  | nil => simp [renameLast]
  | cons x r =>
    intro s hs
    simp only [renameLast, List.mem_cons] at hs
    rcases hs with e | e
    · subst e
      exact renameIa32_no_symend _ _ (renameSyS_no_symend _ _ (h x (by simp)))
    · exact h s (by simp [e])

theorem fillLast_names (rev : List Sym) (upto : Nat) (P : List Char → Prop)
    (h : ∀ s ∈ rev, P s.name) : ∀ s ∈ fillLast rev upto, P s.name := by
  cases rev with
  | nil => simp [fillLast]
  | cons x r =>
    intro s hs
    simp only [fillLast] at hs
    split at hs
    · rcases List.mem_cons.mp hs with e | e
      · subst e; exact h x (by simp)
      · exact h s (by simp [e])
    · exact h s hs

theorem loadLine_no_symend (off : Nat) (st : LdSt) (line : List Char)
    (h : ∀ s ∈ st.rev, isSymbolEnd s.name = false) :
    ∀ s ∈ (loadLine off st line).rev, isSymbolEnd s.name = false := by
  unfold loadLine
  split
  · exact h
  · unfold loadFields
    split
    · exact renameLast_no_symend _ _ h
    · split
      · exact h
      · split
        · exact fillLast_names _ _ (fun n => isSymbolEnd n = false) h
        · rename_i hne
          intro s hs
          rcases List.mem_cons.mp hs with e | e
          · subst e; simp only; simpa using (not_or.mp hne).2
          · exact fillLast_names _ _ (fun n => isSymbolEnd n = false) h s e

theorem rawLoad_no_symend (off : Nat) (text : List Char) :
    ∀ s ∈ rawLoad off text, isSymbolEnd s.name = false := by
  unfold rawLoad
  suffices hgen : ∀ (lines : List (List Char)) (st : LdSt),
      (∀ s ∈ st.rev, isSymbolEnd s.name = false) →
      ∀ s ∈ (lines.foldl (loadLine off) st).rev, isSymbolEnd s.name = false by
    intro s hs
    exact hgen _ {} (by simp) s (by simpa using hs)
  intro lines
  induction lines with
  | nil => intro st h; exact h
  | cons l r ih => intro st h; exact ih _ (loadLine_no_symend off st l h)

/-! ### reading back what `save_module_symbol_file` wrote -/

theorem hexVal_hexDigit : ∀ d, d < 16 → hexVal (hexDigit d) = some d := by decide

theorem hexDigit_facts : ∀ d, d < 16 →
    isSpaceC (hexDigit d) = false ∧ hexDigit d ≠ '-' ∧ hexDigit d ≠ '+' ∧ hexDigit d ≠ 'x' ∧
    hexDigit d ≠ 'X' ∧ hexDigit d ≠ '#' ∧ hexDigit d ≠ '\n' ∧ hexDigit d ≠ ' ' := by decide

theorem hexDigit_isDigit : ∀ d, d < 10 → (hexDigit d).isDigit = true := by decide

theorem hexVal_space : hexVal ' ' = none := by decide

/-- parsing what `%0<w>x` printed, followed by a blank -/
theorem hexDigits_hexFixed (w n acc : Nat) (rest : List Char) :
    hexDigits (hexFixed w n ++ ' ' :: rest) acc = (acc * 16 ^ w + n % 16 ^ w, ' ' :: rest) := by
  induction w generalizing acc with
  | zero => simp [hexFixed, hexDigits, hexVal_space, Nat.mod_one]
  | succ w ih =>
    simp only [hexFixed, List.cons_append, hexDigits]
    rw [hexVal_hexDigit _ (Nat.mod_lt _ (by decide))]
    simp only
    rw [ih]
    congr 1
    rw [Nat.mod_pow_succ (b := 16) (k := w) (x := n), Nat.pow_succ]
    rw [Nat.add_mul, Nat.mul_assoc, Nat.mul_comm 16 (16 ^ w), Nat.mul_comm (n / 16 ^ w % 16) (16 ^ w)]
    omega

theorem stripSign_other (c : Char) (tl : List Char) (m0 : c ≠ '-') (p0 : c ≠ '+') :
    stripSign (c :: tl) = (false, c :: tl) := by
  unfold stripSign
  split
  · rename_i h; simp at h; exact absurd h.1 m0
  · rename_i h; simp at h; exact absurd h.1 p0
  · rfl

theorem strip0x_other (c0 c1 : Char) (tl : List Char) (x1 : c1 ≠ 'x') (X1 : c1 ≠ 'X') :
    strip0x (c0 :: c1 :: tl) = c0 :: c1 :: tl := by
  unfold strip0x
  split
  · rename_i x h r heq
    simp only [List.cons.injEq] at heq
    obtain ⟨_, hx, _⟩ := heq
    subst hx
    simp [x1, X1]
  · rfl

/-- `strtoull` on what `%0<w>x` printed (at least 2 digits, value in range), followed by a blank -/
theorem strtoHex_hexFixed (w n : Nat) (rest : List Char) (hn : n < 16 ^ (w + 2))
    (h64 : 16 ^ (w + 2) ≤ U64) :
    strtoHex (hexFixed (w + 2) n ++ ' ' :: rest) = (n, ' ' :: rest) := by
  have key := hexDigits_hexFixed (w + 2) n 0 rest
  have f0 := hexDigit_facts (n / 16 ^ (w + 1) % 16) (Nat.mod_lt _ (by decide))
  have f1 := hexDigit_facts (n / 16 ^ w % 16) (Nat.mod_lt _ (by decide))
  have v0 := hexVal_hexDigit (n / 16 ^ (w + 1) % 16) (Nat.mod_lt _ (by decide))
  simp only [hexFixed, List.cons_append] at key ⊢
  unfold strtoHex
  rw [List.dropWhile_cons_of_neg (by simp [f0.1])]
  rw [stripSign_other _ _ f0.2.1 f0.2.2.1]
  simp only
  rw [strip0x_other _ _ _ f1.2.2.2.1 f1.2.2.2.2.1]
  simp only [v0, Option.isSome_some, if_true, key]
  rw [Nat.mod_eq_of_lt hn]
  simp
  omega

theorem parseFields_saved (A S : Nat) (ty : Char) (name : List Char) (hA : A < U64)
    (hS : S < 0xa0000000) :
    parseFields (hexFixed 16 A ++ ' ' :: (hexFixed 8 S ++ ' ' :: ty :: ' ' :: name))
      = some (A, S % U32, ty, cutTab name) := by
  have hd : S / 16 ^ 7 % 16 < 10 := by omega
  have step1 := strtoHex_hexFixed 14 A (hexFixed 8 S ++ ' ' :: ty :: ' ' :: name)
    (by unfold U64 at hA; omega) (by unfold U64; decide)
  have step2 := strtoHex_hexFixed 6 S (ty :: ' ' :: name) (by omega) (by unfold U64; decide)
  unfold parseFields
  rw [step1]
  simp only
  have e8 : hexFixed 8 S = hexDigit (S / 16 ^ 7 % 16) :: hexFixed 7 S := rfl
  rw [e8, List.cons_append]
  simp only [hexDigit_isDigit _ hd, if_true]
  have step2' : strtoHex (hexDigit (S / 16 ^ 7 % 16) :: (hexFixed 7 S ++ ' ' :: ty :: ' ' :: name))
      = (S, ' ' :: ty :: ' ' :: name) := step2
  rw [step2']
  rfl

theorem parseLine_saved (A S : Nat) (ty : Char) (name : List Char) (hA : A < U64)
    (hS : S < 0xa0000000) :
    parseLine (hexFixed 16 A ++ ' ' :: (hexFixed 8 S ++ ' ' :: ty :: ' ' :: name))
      = some (A, S % U32, ty, cutTab name) := by
  rw [← parseFields_saved A S ty name hA hS]
  have e16 : hexFixed 16 A = hexDigit (A / 16 ^ 15 % 16) :: hexFixed 15 A := rfl
  generalize hexFixed 8 S ++ ' ' :: ty :: ' ' :: name = rest
  rw [e16]
  unfold parseLine
  split
  · rename_i heq
    simp only [List.cons_append, List.cons.injEq] at heq
    exact absurd heq.1 (hexDigit_facts _ (Nat.mod_lt _ (by decide))).2.2.2.2.2.1
  · rfl

theorem cutTab_of_noTab (n : List Char) (h : '\t' ∉ n) : cutTab n = n := by
  unfold cutTab
  induction n with
  | nil => rfl
  | cons c r ih =>
    have hc : c ≠ '\t' := fun e => h (by simp [e])
    have hr : '\t' ∉ r := fun e => h (by simp [e])
    simp [hc, ih hr]

theorem splitLinesAux_line (l rest cur : List Char) (h : '\n' ∉ l) :
    splitLinesAux (l ++ '\n' :: rest) cur = (cur.reverse ++ l) :: splitLinesAux rest [] := by
  induction l generalizing cur with
  | nil => simp [splitLinesAux]
  | cons c r ih =>
    have hc : c ≠ '\n' := fun e => h (by simp [e])
    have hr : '\n' ∉ r := fun e => h (by simp [e])
    simp only [List.cons_append, splitLinesAux, hc, if_false]
    rw [ih _ hr]
    simp

theorem splitLinesAux_lines {α : Type} (f : α → List Char) (t : List α) (h : ∀ s ∈ t, '\n' ∉ f s) :
    splitLinesAux (t.map (fun s => f s ++ ['\n'])).flatten [] = t.map f := by
  induction t with
  | nil => simp [splitLinesAux]
  | cons x r ih =>
    simp only [List.map_cons, List.flatten_cons, List.append_assoc, List.singleton_append]
    rw [splitLinesAux_line _ _ _ (h x (by simp)), ih (fun s hs => h s (by simp [hs]))]
    simp

theorem decDigit_ne_nl : ∀ d, decDigit d ≠ '\n' := by
  intro d; unfold decDigit; split <;> decide

theorem decDigitsAux_no_nl (fuel n : Nat) (acc : List Char) (h : '\n' ∉ acc) :
    '\n' ∉ decDigitsAux fuel n acc := by
  induction fuel generalizing n acc with
  | zero => simpa [decDigitsAux] using h
  | succ k ih =>
    have hacc : '\n' ∉ decDigit (n % 10) :: acc := by
      intro hm
      rcases List.mem_cons.mp hm with e | e
      · exact decDigit_ne_nl _ e.symm
      · exact h e
    simp only [decDigitsAux]
    split
    · exact hacc
    · exact ih _ _ hacc

theorem decDigits_no_nl (n : Nat) : '\n' ∉ decDigits n :=
  decDigitsAux_no_nl _ _ _ (by simp)


/-- what `save_module_symbol_file` can write and `load_module_symbol_file` reads back unchanged -/
structure SaveOk (s : Sym) : Prop where
  addr : s.addr < U64
  sizePos : 0 < s.size
  sizeLt : s.size < 0xa0000000
  type : s.type ∈ allowedTypes
  typeNe : s.type ≠ '?'
  noTab : '\t' ∉ s.name
  noNl : '\n' ∉ s.name
  notEnd : isSymbolEnd s.name = false

/-- no two consecutive entries with the same (addr, type) -/
def NoAdjDup : List Sym → Prop
  | [] => True
  | [_] => True
  | a :: b :: r => ¬ (a.addr = b.addr ∧ a.type = b.type) ∧ NoAdjDup (b :: r)

/-- the header lines of a saved file -/
def hdrLines (n : Nat) (path bid : List Char) : List (List Char) :=
  ["# symbols: ".toList ++ decDigits n, "# path name: ".toList ++ path] ++
    (if bid.isEmpty then [] else ["# build-id: ".toList ++ bid])


theorem splitLines_save (off : Nat) (path bid : List Char) (t : List Sym)
    (hp : '\n' ∉ path) (hb : '\n' ∉ bid) (hl : ∀ s ∈ t, '\n' ∉ saveLine off s) (hne : t ≠ []) :
    splitLines (save off path bid t) = hdrLines t.length path bid ++ t.map (saveLine off) := by
  have h1 : '\n' ∉ "# symbols: ".toList ++ decDigits t.length := by
    intro hm
    rcases List.mem_append.mp hm with e | e
    · revert e; decide
    · exact decDigits_no_nl _ e
  have h2 : '\n' ∉ "# path name: ".toList ++ path := by
    intro hm
    rcases List.mem_append.mp hm with e | e
    · revert e; decide
    · exact hp e
  have h3 : '\n' ∉ "# build-id: ".toList ++ bid := by
    intro hm
    rcases List.mem_append.mp hm with e | e
    · revert e; decide
    · exact hb e
  have hte : t.isEmpty = false := by cases t <;> simp_all
  have line2 : ∀ (a b rest : List Char), '\n' ∉ a ++ b →
      splitLinesAux (a ++ (b ++ '\n' :: rest)) [] = (a ++ b) :: splitLinesAux rest [] := by
    intro a b rest h
    rw [← List.append_assoc, splitLinesAux_line _ _ _ h]; simp
  unfold splitLines save header hdrLines
  rw [hte]
  by_cases hbe : bid.isEmpty = true
  · simp only [hbe, Bool.false_eq_true, if_false, if_true, List.append_nil, List.append_assoc,
      List.cons_append, List.nil_append]
    rw [line2 _ _ _ h1, line2 _ _ _ h2, splitLinesAux_lines _ _ hl]
  · simp only [hbe, Bool.false_eq_true, if_false, List.append_assoc,
      List.cons_append, List.nil_append]
    rw [line2 _ _ _ h1, line2 _ _ _ h2, line2 _ _ _ h3, splitLinesAux_lines _ _ hl]


theorem hexFixed_no_nl (w n : Nat) : '\n' ∉ hexFixed w n := by
  induction w with
  | zero => simp [hexFixed]
  | succ w ih =>
    simp only [hexFixed, List.mem_cons, not_or]
    exact ⟨fun e => (hexDigit_facts _ (Nat.mod_lt _ (by decide))).2.2.2.2.2.2.1 e.symm, ih⟩

theorem allowed_ne_nl : ∀ c ∈ allowedTypes, c ≠ '\n' ∧ c ≠ 'X' := by decide

theorem saveLine_eq (off : Nat) (s : Sym) : saveLine off s =
    hexFixed 16 (saveLine.sub64 s.addr off) ++
      ' ' :: (hexFixed 8 (s.size % U32) ++ ' ' :: s.type :: ' ' :: s.name) := rfl

theorem saveLine_no_nl (off : Nat) (s : Sym) (h : SaveOk s) : '\n' ∉ saveLine off s := by
  rw [saveLine_eq]
  simp only [List.mem_append, List.mem_cons, not_or]
  refine ⟨hexFixed_no_nl _ _, by decide, hexFixed_no_nl _ _, by decide, ?_, by decide, h.noNl⟩
  exact fun e => (allowed_ne_nl _ h.type).1 e.symm

theorem parseLine_saveLine (off : Nat) (s : Sym) (h : SaveOk s) :
    parseLine (saveLine off s) = some (saveLine.sub64 s.addr off, s.size, s.type, s.name) := by
  have h1 := h.sizeLt
  have hS : s.size % U32 = s.size := Nat.mod_eq_of_lt (by unfold U32; omega)
  have hA : saveLine.sub64 s.addr off < U64 := by unfold saveLine.sub64 U64; omega
  have key := parseLine_saved (saveLine.sub64 s.addr off) s.size s.type s.name hA h1
  rw [saveLine_eq, hS, key, hS, cutTab_of_noTab _ h.noTab]

theorem sub64_add (a off : Nat) (h : a < U64) : (saveLine.sub64 a off + off) % U64 = a := by
  unfold saveLine.sub64
  have h1 : off % U64 < U64 := Nat.mod_lt _ (by unfold U64; decide)
  have h2 : (a + U64 - off % U64) % U64 = if off % U64 ≤ a then a - off % U64 else a + U64 - off % U64 := by
    split
    · rw [show a + U64 - off % U64 = (a - off % U64) + U64 by omega, Nat.add_mod_right]
      exact Nat.mod_eq_of_lt (by omega)
    · exact Nat.mod_eq_of_lt (by omega)
  rw [h2, Nat.add_mod, ]
  split
  · rw [Nat.mod_eq_of_lt (show a - off % U64 < U64 by omega)]
    rw [show a - off % U64 + off % U64 = a by omega]
    exact Nat.mod_eq_of_lt h
  · rw [Nat.mod_eq_of_lt (show a + U64 - off % U64 < U64 by omega)]
    rw [show a + U64 - off % U64 + off % U64 = a + U64 by omega, Nat.add_mod_right]
    exact Nat.mod_eq_of_lt h

theorem loadLine_hash (off : Nat) (st : LdSt) (r : List Char) : loadLine off st ('#' :: r) = st := by
  have : parseLine ('#' :: r) = none := by simp [parseLine]
  unfold loadLine
  rw [this]

theorem loadFields_fresh (off : Nat) (st : LdSt) (addr size : Nat) (ty : Char) (name : List Char)
    (hdup : ¬ (addr = st.prevAddr ∧ ty = st.prevType))
    (hty : ty ∈ allowedTypes) (hq : ty ≠ '?') (hne : isSymbolEnd name = false)
    (hhead : ∀ x r, st.rev = x :: r → x.size ≠ 0) :
    loadFields off st addr size ty name =
      { rev := { addr := (addr + off) % U64, size := size, type := ty, name := name } :: st.rev,
        prevAddr := addr, prevType := ty } := by
  have hfill : ∀ a, fillLast st.rev a = st.rev := by
    intro a
    unfold fillLast
    split
    · rename_i x r heq
      rw [if_neg (hhead x r heq)]
    · rename_i heq; exact heq.symm
  unfold loadFields
  rw [if_neg hdup, if_neg (by simpa using hty)]
  simp only
  rw [if_neg (by simp [hq, hne]), hfill]

theorem loadLine_of_parse (off : Nat) (st : LdSt) (line : List Char) (a sz : Nat) (ty : Char)
    (nm : List Char) (h : parseLine line = some (a, sz, ty, nm)) :
    loadLine off st line = loadFields off st a sz ty nm := by
  unfold loadLine
  rw [h]

theorem loadLine_saved (off : Nat) (st : LdSt) (s : Sym) (h : SaveOk s)
    (hdup : ¬ (saveLine.sub64 s.addr off = st.prevAddr ∧ s.type = st.prevType))
    (hhead : ∀ x r, st.rev = x :: r → x.size ≠ 0) :
    loadLine off st (saveLine off s) =
      { rev := s :: st.rev, prevAddr := saveLine.sub64 s.addr off, prevType := s.type } := by
  rw [loadLine_of_parse off st _ _ _ _ _ (parseLine_saveLine off s h),
    loadFields_fresh off st _ _ _ _ hdup h.type h.typeNe h.notEnd hhead, sub64_add _ _ h.addr]

theorem sub64_inj (a b off : Nat) (ha : a < U64) (hb : b < U64)
    (h : saveLine.sub64 a off = saveLine.sub64 b off) : a = b := by
  rw [← sub64_add a off ha, ← sub64_add b off hb, h]

/-- the duplicate test of the loader never fires along the saved lines -/
def Chain (off : Nat) : Nat → Char → List Sym → Prop
  | _, _, [] => True
  | pa, pt, s :: r => ¬ (saveLine.sub64 s.addr off = pa ∧ s.type = pt) ∧
      Chain off (saveLine.sub64 s.addr off) s.type r

theorem chain_of_noAdjDup (off : Nat) (p : Sym) (t : List Sym) (hp : p.addr < U64)
    (ht : ∀ s ∈ t, s.addr < U64) (h : NoAdjDup (p :: t)) :
    Chain off (saveLine.sub64 p.addr off) p.type t := by
  induction t generalizing p with
  | nil => trivial
  | cons s r ih =>
    obtain ⟨h1, h2⟩ := h
    refine ⟨?_, ih s (ht s (by simp)) (fun x hx => ht x (by simp [hx])) h2⟩
    intro ⟨e1, e2⟩
    exact h1 ⟨(sub64_inj _ _ off (ht s (by simp)) hp e1).symm, e2.symm⟩

theorem foldl_saved (off : Nat) (t : List Sym) :
    ∀ (st : LdSt), (∀ s ∈ t, SaveOk s) → Chain off st.prevAddr st.prevType t →
      (∀ x r, st.rev = x :: r → x.size ≠ 0) →
      ((t.map (saveLine off)).foldl (loadLine off) st).rev = t.reverse ++ st.rev := by
  induction t with
  | nil => intro st _ _ _; simp
  | cons s r ih =>
    intro st hok hch hhead
    obtain ⟨hd, hch'⟩ := hch
    have hs := hok s (by simp)
    simp only [List.map_cons, List.foldl_cons]
    rw [loadLine_saved off st s hs hd hhead]
    rw [ih _ (fun x hx => hok x (by simp [hx])) hch']
    · simp
    · intro x r' heq
      simp only [List.cons.injEq] at heq
      rw [← heq.1]
      have := hs.sizePos
      omega

theorem foldl_hash (off : Nat) (ls : List (List Char)) (st : LdSt)
    (h : ∀ l ∈ ls, ∃ r, l = '#' :: r) : ls.foldl (loadLine off) st = st := by
  induction ls generalizing st with
  | nil => rfl
  | cons l r ih =>
    obtain ⟨x, hx⟩ := h l (by simp)
    simp only [List.foldl_cons]
    rw [hx, loadLine_hash]
    exact ih st (fun l' hl' => h l' (by simp [hl']))

theorem hdrLines_hash (n : Nat) (path bid : List Char) :
    ∀ l ∈ hdrLines n path bid, ∃ r, l = '#' :: r := by
  have e1 : "# symbols: ".toList = '#' :: " symbols: ".toList := by decide
  have e2 : "# path name: ".toList = '#' :: " path name: ".toList := by decide
  have e3 : "# build-id: ".toList = '#' :: " build-id: ".toList := by decide
  intro l hl
  unfold hdrLines at hl
  simp only [List.mem_append, List.mem_cons, List.not_mem_nil, or_false] at hl
  rcases hl with (h | h) | h
  · exact ⟨_, by rw [h, e1]; rfl⟩
  · exact ⟨_, by rw [h, e2]; rfl⟩
  · split at h
    · simp at h
    · simp only [List.mem_singleton] at h
      exact ⟨_, by rw [h, e3]; rfl⟩


/-! ### writer/reader agreement -/

theorem pathPre_eq : "# path name: ".toList = ['#',' ','p','a','t','h',' ','n','a','m','e',':',' '] := by decide
theorem bidPre_eq : "# build-id: ".toList = ['#',' ','b','u','i','l','d','-','i','d',':',' '] := by decide
theorem symPre_eq : "# symbols: ".toList = ['#',' ','s','y','m','b','o','l','s',':',' '] := by decide

theorem hdrStep_symbols (h : SymHdr) (r : List Char) : hdrStep h ("# symbols: ".toList ++ r) = h := by
  unfold hdrStep stripPrefix
  rw [pathPre_eq, bidPre_eq, symPre_eq]
  simp

theorem hdrStep_path (h : SymHdr) (p : List Char) :
    hdrStep h ("# path name: ".toList ++ p) = { h with count := h.count + 1, path := p } := by
  unfold hdrStep stripPrefix
  rw [pathPre_eq, bidPre_eq]
  simp

theorem hdrStep_bid (h : SymHdr) (b : List Char) :
    hdrStep h ("# build-id: ".toList ++ b) = { h with count := h.count + 1, bid := b.take 40 } := by
  unfold hdrStep stripPrefix
  rw [pathPre_eq, bidPre_eq]
  simp

theorem saveLine_head (off : Nat) (s : Sym) : (saveLine off s).head? ≠ some '#' := by
  rw [saveLine_eq]
  unfold hexFixed
  simp only [List.cons_append, List.head?_cons, ne_eq, Option.some.injEq]
  exact (hexDigit_facts _ (Nat.mod_lt _ (by decide))).2.2.2.2.2.1

/-- the header `check_symbol_file` reads from a file that `save_module_symbol_file` wrote -/
theorem checkSymbolFile_save (path bid : List Char) (t : List Sym)
    (hp : '\n' ∉ path) (hb : '\n' ∉ bid) (hok : ∀ s ∈ t, SaveOk s) (hne : t ≠ []) (hlen : bid.length ≤ 40) :
    checkSymbolFile (save 0 path bid t) =
      { count := if bid.isEmpty then 1 else 2, path := path, bid := bid } := by
  unfold checkSymbolFile
  rw [splitLines_save 0 path bid t hp hb (fun x hx => saveLine_no_nl 0 x (hok x hx)) hne]
  rw [List.takeWhile_append_of_pos]
  · cases t with
    | nil => exact absurd rfl hne
    | cons s r =>
      have hh : ((saveLine 0 s).head? == some '#') = false := by
        simpa using saveLine_head 0 s
      simp only [List.map_cons, List.takeWhile_cons, hh, Bool.false_eq_true, if_false, List.append_nil]
      unfold hdrLines
      by_cases hbe : bid.isEmpty = true
      · have : bid = [] := by simpa using hbe
        subst this
        simp only [List.isEmpty_nil, if_true, List.append_nil, List.foldl_cons, List.foldl_nil,
          hdrStep_symbols, hdrStep_path]
      · simp only [hbe, Bool.false_eq_true, if_false, List.cons_append, List.nil_append, List.foldl_cons,
          List.foldl_nil, hdrStep_symbols, hdrStep_path, hdrStep_bid, List.take_of_length_le hlen]
  · intro l hl
    obtain ⟨r, hr⟩ := hdrLines_hash _ _ _ l hl
    simp [hr]


theorem get_append_old (d : SymDir) (nm x : List Char) (e : List Char × List Char)
    (h : d.get nm = some x) : SymDir.get (d ++ [e]) nm = some x := by
  unfold SymDir.get at *
  rw [List.lookup_append, h]; rfl

theorem get_append_new (d : SymDir) (nm x : List Char) (h : d.get nm = none) :
    SymDir.get (d ++ [(nm, x)]) nm = some x := by
  unfold SymDir.get at *
  rw [List.lookup_append, h]; simp [List.lookup]

theorem get_append_inv (d : SymDir) (nm k x y : List Char)
    (h : SymDir.get (d ++ [(k, y)]) nm = some x) : d.get nm = some x ∨ (nm = k ∧ x = y) := by
  unfold SymDir.get at *
  rw [List.lookup_append] at h
  cases hd : List.lookup nm d with
  | some v => rw [hd] at h; left; simpa using h
  | none =>
    rw [hd] at h
    right
    simp only [Option.none_or, List.lookup] at h
    by_cases e : nm == k
    · simp only [e] at h
      exact ⟨by simpa using e, by simpa using h.symm⟩
    · simp [e] at h

/-- `save_module_symbol_file` changes nothing or creates exactly one new file, under the
    primary or the alternative name -/
theorem saveStep_cases (d : SymDir) (m : Mod) :
    saveStep d m = d ∨
    (m.tab ≠ [] ∧ ∃ nm, (nm = primaryName m ∨ nm = altName m) ∧ d.get nm = none ∧
      saveStep d m = d ++ [(nm, save 0 m.path m.bid m.tab)]) := by
  unfold saveStep saveInto
  by_cases ht : m.tab.isEmpty = true
  · left; simp [ht]
  · have hne : m.tab ≠ [] := by intro e; simp [e] at ht
    simp only [ht, Bool.false_eq_true, if_false]
    split
    · rename_i hg
      right
      exact ⟨hne, _, Or.inl rfl, hg, rfl⟩
    · split
      · left; rfl
      · split
        · left; rfl
        · split
          · rename_i hg
            right
            exact ⟨hne, _, Or.inr rfl, hg, rfl⟩
          · left; rfl

theorem saveStep_mono (d : SymDir) (m : Mod) (nm x : List Char) (h : d.get nm = some x) :
    (saveStep d m).get nm = some x := by
  rcases saveStep_cases d m with e | ⟨_, k, _, _, e⟩
  · rw [e]; exact h
  · rw [e]; exact get_append_old d nm x _ h

theorem foldl_saveStep_mono (ms : List Mod) (d : SymDir) (nm x : List Char) (h : d.get nm = some x) :
    (ms.foldl saveStep d).get nm = some x := by
  induction ms generalizing d with
  | nil => exact h
  | cons m r ih => exact ih _ (saveStep_mono d m nm x h)

/-- every file of the directory was written for one of the modules handled so far -/
def Written (done : List Mod) (d : SymDir) : Prop :=
  ∀ nm text, d.get nm = some text →
    ∃ m ∈ done, m.tab ≠ [] ∧ text = save 0 m.path m.bid m.tab ∧ (nm = primaryName m ∨ nm = altName m)

theorem written_nil : Written [] [] := by
  intro nm text h
  simp [SymDir.get] at h

theorem written_step (done : List Mod) (d : SymDir) (m : Mod) (h : Written done d) :
    Written (done ++ [m]) (saveStep d m) := by
  intro nm text hg
  rcases saveStep_cases d m with e | ⟨hne, k, hk, _, e⟩
  · rw [e] at hg
    obtain ⟨m', hm', r⟩ := h nm text hg
    exact ⟨m', by simp [hm'], r⟩
  · rw [e] at hg
    rcases get_append_inv d nm k text _ hg with h1 | ⟨h1, h2⟩
    · obtain ⟨m', hm', r⟩ := h nm text h1
      exact ⟨m', by simp [hm'], r⟩
    · exact ⟨m, by simp, hne, h2, h1 ▸ hk⟩

theorem written_foldl (ms done : List Mod) (d : SymDir) (h : Written done d) :
    Written (done ++ ms) (ms.foldl saveStep d) := by
  induction ms generalizing done d with
  | nil => simpa using h
  | cons m r ih =>
    have := ih (done ++ [m]) (saveStep d m) (written_step done d m h)
    simpa using this

/-- What one recording may contain for writer and reader to agree (`ws` = the reader runs
    with `--with-syms`): strings the header lines can carry; a path names one file; a
    build-id names one binary; an alternative file name is never another module's primary
    name and is shared only by installations of one binary; with `--with-syms` (path check
    waived) every binary has a build-id. -/
structure Consistent (ws : Bool) (ms : List Mod) : Prop where
  ok : ∀ m ∈ ms, '\n' ∉ m.path ∧ '\n' ∉ m.bid ∧ m.bid.length ≤ 40 ∧ ∀ s ∈ m.tab, SaveOk s
  samePath : ∀ m ∈ ms, ∀ m' ∈ ms, m.path = m'.path → m.bid = m'.bid ∧ m.tab = m'.tab
  sameBid : ∀ m ∈ ms, ∀ m' ∈ ms, m.bid = m'.bid → m.bid ≠ [] → m.tab = m'.tab
  altPrim : ∀ m ∈ ms, ∀ m' ∈ ms, altName m ≠ primaryName m'
  altAlt : ∀ m ∈ ms, ∀ m' ∈ ms, altName m = altName m' →
    m.path = m'.path ∨ (m.bid = m'.bid ∧ m.bid ≠ [])
  withSyms : ws = true → ∀ m ∈ ms, m.bid ≠ []

theorem hdr_of (ws : Bool) (all : List Mod) (hC : Consistent ws all) (m : Mod) (hm : m ∈ all) (hne : m.tab ≠ []) :
    checkSymbolFile (save 0 m.path m.bid m.tab) =
      { count := if m.bid.isEmpty then 1 else 2, path := m.path, bid := m.bid } := by
  obtain ⟨a, b, c, e⟩ := hC.ok m hm
  exact checkSymbolFile_save _ _ _ a b e hne c

/-- the reader's choice right after the writer handled module `m` (and in every later
    state `dfin` of the directory, files being only added) -/
theorem reader_after_step (ws : Bool) (all done : List Mod) (d dfin : SymDir) (m : Mod)
    (hC : Consistent ws all) (hsub : ∀ x ∈ done, x ∈ all) (hm : m ∈ all)
    (hW : Written done d) (hne : m.tab ≠ [])
    (hmono : ∀ nm x, (saveStep d m).get nm = some x → dfin.get nm = some x) :
    ∃ m' ∈ all, m'.tab = m.tab ∧
      dfin.get (selectSymName dfin ws m.path m.bid) = some (save 0 m'.path m'.bid m'.tab) := by
  have hprimEq : basename m.path ++ ".sym".toList = primaryName m := rfl
  have haltEq : newSymName (primaryName m) m.path m.bid = altName m := rfl
  -- the primary file after the step, and who wrote it
  cases hd : d.get (primaryName m) with
  | none =>
    -- the writer creates the primary file for m; the reader finds m's own header
    have hs : saveStep d m = d ++ [(primaryName m, save 0 m.path m.bid m.tab)] := by
      unfold saveStep saveInto
      have : m.tab.isEmpty = false := by cases h : m.tab <;> simp_all
      simp only [this, Bool.false_eq_true, if_false, hprimEq, hd]
    have hf : dfin.get (primaryName m) = some (save 0 m.path m.bid m.tab) :=
      hmono _ _ (by rw [hs]; exact get_append_new d _ _ hd)
    refine ⟨m, hm, rfl, ?_⟩
    have hsel : selectSymName dfin ws m.path m.bid = primaryName m := by
      unfold selectSymName
      simp only [hprimEq, hf, hdr_of ws all hC m hm hne]
      rw [if_neg]
      intro ⟨_, h⟩
      rcases h with h | h
      · exact h.1 rfl
      · exact h.2.2 rfl
    rw [hsel]; exact hf
  | some text0 =>
    obtain ⟨m0, hm0d, hne0, ht0, hnm0⟩ := hW _ _ hd
    have hm0 : m0 ∈ all := hsub m0 hm0d
    have hprim0 : primaryName m = primaryName m0 := by
      rcases hnm0 with h | h
      · exact h
      · exact absurd h.symm (hC.altPrim m0 hm0 m hm)
    have hf0 : dfin.get (primaryName m) = some (save 0 m0.path m0.bid m0.tab) :=
      hmono _ _ (saveStep_mono d m _ _ (ht0 ▸ hd))
    have hh0 := hdr_of ws all hC m0 hm0 hne0
    have hcnt : (if m0.bid.isEmpty = true then 1 else 2) > 0 := by split <;> decide
    by_cases hsame : m0.path = m.path
    · -- the same path name: the file is m's
      obtain ⟨hb, htab⟩ := hC.samePath m0 hm0 m hm hsame
      refine ⟨m0, hm0, htab, ?_⟩
      have hsel : selectSymName dfin ws m.path m.bid = primaryName m := by
        unfold selectSymName
        simp only [hprimEq, hf0, hh0]
        rw [if_neg]
        intro ⟨_, h⟩
        rcases h with h | h
        · exact h.1 hsame
        · exact h.2.2 hb
      rw [hsel]; exact hf0
    · by_cases hpick : ws = false ∨ m0.bid ≠ m.bid
      · -- writer and reader both go for the alternative name
        have hbne : ws = true → m0.bid ≠ [] ∧ m.bid ≠ [] :=
          fun h => ⟨hC.withSyms h m0 hm0, hC.withSyms h m hm⟩
        have hsel : selectSymName dfin ws m.path m.bid = altName m := by
          unfold selectSymName
          simp only [hprimEq, hf0, hh0, haltEq]
          rw [if_pos]
          refine ⟨hcnt, ?_⟩
          cases ws with
          | false => exact Or.inl ⟨hsame, rfl⟩
          | true =>
            rcases hpick with h | h
            · exact absurd h (by decide)
            · exact Or.inr ⟨(hbne rfl).1, (hbne rfl).2, h⟩
        rw [hsel]
        -- what the writer did with the alternative name
        have hnotsame : ¬ (m0.path = m.path ∧ m0.bid = m.bid) := fun h => hsame h.1
        cases hda : d.get (altName m) with
        | none =>
          have hs : saveStep d m = d ++ [(altName m, save 0 m.path m.bid m.tab)] := by
            unfold saveStep saveInto
            have : m.tab.isEmpty = false := by cases h : m.tab <;> simp_all
            simp only [this, Bool.false_eq_true, if_false, hprimEq, hd, ht0, hh0, haltEq, hda]
            rw [if_neg (by omega), if_neg hnotsame]
          exact ⟨m, hm, rfl, hmono _ _ (by rw [hs]; exact get_append_new d _ _ hda)⟩
        | some text1 =>
          obtain ⟨m1, hm1d, hne1, ht1, hnm1⟩ := hW _ _ hda
          have hm1 : m1 ∈ all := hsub m1 hm1d
          have halt1 : altName m = altName m1 := by
            rcases hnm1 with h | h
            · exact absurd h (hC.altPrim m hm m1 hm1)
            · exact h
          have htab : m1.tab = m.tab := by
            rcases hC.altAlt m hm m1 hm1 halt1 with h | h
            · exact ((hC.samePath m hm m1 hm1 h).2).symm
            · exact (hC.sameBid m hm m1 hm1 h.1 h.2).symm
          exact ⟨m1, hm1, htab, hmono _ _ (saveStep_mono d m _ _ (ht1 ▸ hda))⟩
      · -- --with-syms and the same build-id under another path: the primary file serves
        have hws : ws = true := by cases ws <;> simp_all
        have hb : m0.bid = m.bid := by
          apply Classical.byContradiction; intro h; exact hpick (Or.inr h)
        have hbn : m0.bid ≠ [] := hC.withSyms hws m0 hm0
        refine ⟨m0, hm0, hC.sameBid m0 hm0 m hm hb hbn, ?_⟩
        have hsel : selectSymName dfin ws m.path m.bid = primaryName m := by
          unfold selectSymName
          simp only [hprimEq, hf0, hh0]
          rw [if_neg]
          intro ⟨_, h⟩
          rcases h with h | h
          · rw [hws] at h; exact absurd h.2 (by decide)
          · exact h.2.2 hb
        rw [hsel]; exact hf0

/-- Writer and reader agree: after `save_module_symtabs` has handled the modules in any
    order, the file `load_module_symbol` selects for a module holds that module's table. -/
theorem writer_reader_agree (ws : Bool) (ms : List Mod) (hC : Consistent ws ms) (m : Mod) (hm : m ∈ ms)
    (hne : m.tab ≠ []) :
    ∃ m' ∈ ms, m'.tab = m.tab ∧
      (saveAll ms).get (selectSymName (saveAll ms) ws m.path m.bid) = some (save 0 m'.path m'.bid m'.tab) := by
  obtain ⟨pre, post, hsplit⟩ := List.append_of_mem hm
  have hW : Written pre (pre.foldl saveStep []) := by
    simpa using written_foldl pre [] [] written_nil
  have hfin : saveAll ms = post.foldl saveStep (saveStep (pre.foldl saveStep []) m) := by
    unfold saveAll; rw [hsplit, List.foldl_append, List.foldl_cons]
  rw [hfin]
  exact reader_after_step ws ms pre _ _ m hC (fun x hx => by rw [hsplit]; simp [hx]) hm hW hne
    (fun nm x h => foldl_saveStep_mono post _ nm x h)


end Uft.SymFile
