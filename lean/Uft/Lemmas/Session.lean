import Uft.Model.Session
import Uft.Lemmas.Symtab
/- Helper lemmas for C10: reference lists built by `add_session_ref`, dlopen list order. -/
namespace Uft.Session
open Uft.Symtab

/-- A history of `add_session_ref(task, sess, ts)` calls on one task: (sess, ts) pairs. -/
abbrev Adds := List (Nat × Nat)

/-- the reference list after a history of calls -/
def buildRefs (adds : Adds) : List SessRef :=
  adds.foldl (fun refs x => addRef refs x.1 x.2) []

/-- closed form: each reference ends where the next one starts, the last is open -/
def refsOf : Adds → List SessRef
  | [] => []
  | [x] => [{ sess := x.1, start := x.2, stop := TMAX }]
  | x :: y :: r => { sess := x.1, start := x.2, stop := y.2 } :: refsOf (y :: r)

theorem refsOf_snoc (adds : Adds) (x : Nat × Nat) :
    refsOf (adds ++ [x]) = addRef (refsOf adds) x.1 x.2 := by
  induction adds with
  | nil => simp [refsOf, addRef, closeLast]
  | cons a r ih =>
    cases r with
    | nil => simp [refsOf, addRef, closeLast]
    | cons b r' =>
      simp only [List.cons_append, refsOf] at ih ⊢
      rw [ih]
      cases hr : refsOf (b :: r') with
      | nil => cases r' <;> simp [refsOf] at hr
      | cons c cs => simp [addRef, closeLast]

theorem buildRefs_eq (adds : Adds) : buildRefs adds = refsOf adds := by
  unfold buildRefs
  suffices h : ∀ (pre : Adds), adds.foldl (fun refs x => addRef refs x.1 x.2) (refsOf pre)
      = refsOf (pre ++ adds) by simpa [refsOf] using h []
  induction adds with
  | nil => intro pre; simp
  | cons a r ih =>
    intro pre
    simp only [List.foldl_cons]
    rw [← refsOf_snoc, ih]
    simp

/-- every reference starts at the time of one of the calls -/
theorem refsOf_start_mem (adds : Adds) (r : SessRef) (hr : r ∈ refsOf adds) :
    ∃ x ∈ adds, r.start = x.2 ∧ r.sess = x.1 := by
  induction adds with
  | nil => simp [refsOf] at hr
  | cons a rest ih =>
    cases rest with
    | nil =>
      simp only [refsOf, List.mem_singleton] at hr
      exact ⟨a, by simp, by simp [hr]⟩
    | cons b r' =>
      simp only [refsOf, List.mem_cons] at hr
      rcases hr with hr | hr
      · exact ⟨a, by simp, by simp [hr]⟩
      · obtain ⟨x, hx, e⟩ := ih (by simpa [List.mem_cons] using hr)
        exact ⟨x, List.mem_cons_of_mem _ hx, e⟩

/-- with non-decreasing call times the references are consecutive, non-overlapping intervals -/
theorem refsOf_disjoint (adds : Adds) (hs : adds.Pairwise (fun x y => x.2 ≤ y.2)) :
    (refsOf adds).Pairwise (fun a b => a.stop ≤ b.start) := by
  induction adds with
  | nil => simp [refsOf]
  | cons a rest ih =>
    have hs' := (List.pairwise_cons.mp hs).2
    cases rest with
    | nil => simp [refsOf]
    | cons b r' =>
      simp only [refsOf]
      refine List.pairwise_cons.mpr ⟨?_, ih hs'⟩
      intro r hr
      obtain ⟨x, hx, e, _⟩ := refsOf_start_mem _ r hr
      simp only
      rw [e]
      rcases List.mem_cons.mp hx with h | h
      · subst h; exact Nat.le_refl _
      · exact (List.pairwise_cons.mp hs').1 x h

/-- before the first start time no own reference matches -/
theorem findRef_refsOf_before (adds : Adds) (t : Nat)
    (h : ∀ x ∈ adds, t < x.2) : findRef (refsOf adds) t = none := by
  unfold findRef
  rw [List.find?_eq_none]
  intro r hr
  have : ∃ x ∈ adds, r.start = x.2 := by
    clear h
    induction adds with
    | nil => simp [refsOf] at hr
    | cons a rest ih =>
      cases rest with
      | nil =>
        simp only [refsOf, List.mem_singleton] at hr
        exact ⟨a, by simp, by simp [hr]⟩
      | cons b r' =>
        simp only [refsOf, List.mem_cons] at hr
        rcases hr with hr | hr
        · exact ⟨a, by simp, by simp [hr]⟩
        · obtain ⟨x, hx, e⟩ := ih (by simpa [List.mem_cons] using hr)
          exact ⟨x, List.mem_cons_of_mem _ hx, e⟩
  obtain ⟨x, hx, e⟩ := this
  have := h x hx
  simp; omega

/-- the reference found is the one of the latest call with `ts ≤ t` -/
theorem findRef_refsOf (adds : Adds) (t : Nat) (ht : t < TMAX)
    (hs : adds.Pairwise (fun x y => x.2 ≤ y.2)) :
    (findRef (refsOf adds) t).map (·.sess) =
      (adds.filter (fun x => decide (x.2 ≤ t))).getLast?.map (·.1) := by
  induction adds with
  | nil => simp [refsOf, findRef]
  | cons a rest ih =>
    have hs' := (List.pairwise_cons.mp hs).2
    have ha := (List.pairwise_cons.mp hs).1
    cases rest with
    | nil =>
      by_cases h : a.2 ≤ t <;> simp [refsOf, findRef, h, ht]
    | cons b r' =>
      have ihb := ih hs'
      have hab : a.2 ≤ b.2 := ha b (by simp)
      by_cases h1 : a.2 ≤ t
      · by_cases h2 : t < b.2
        · -- inside the first interval; nothing later has started
          have hnone : (b :: r').filter (fun x => decide (x.2 ≤ t)) = [] := by
            rw [List.filter_eq_nil_iff]
            intro x hx
            have hbx : b.2 ≤ x.2 := by
              rcases List.mem_cons.mp hx with e | e
              · subst e; exact Nat.le_refl _
              · exact (List.pairwise_cons.mp hs').1 x e
            simp; omega
          rw [List.filter_cons_of_pos (by simpa using h1), hnone]
          simp [refsOf, findRef, h1, h2]
        · have hb : b.2 ≤ t := by omega
          have hne : (b :: r').filter (fun x => decide (x.2 ≤ t)) ≠ [] := by
            rw [List.filter_cons_of_pos (by simpa using hb)]; simp
          rw [List.filter_cons_of_pos (by simpa using h1), List.getLast?_cons_of_ne_nil hne, ← ihb]
          simp only [refsOf, findRef]
          rw [List.find?_cons_of_neg (by simp; omega)]
      · -- before the very first start: nothing matches
        have hall : ∀ x ∈ a :: b :: r', t < x.2 := by
          intro x hx
          rcases List.mem_cons.mp hx with e | e
          · subst e; omega
          · have := ha x e; omega
        have hnone : (a :: b :: r').filter (fun x => decide (x.2 ≤ t)) = [] := by
          rw [List.filter_eq_nil_iff]
          intro x hx; have := hall x hx; simp; omega
        rw [hnone, findRef_refsOf_before _ _ hall]
        simp

/-! ### the session tree (in-order list) -/

/-- in-order sequence of the rb-tree: by pid, then by start time -/
def SessSorted (ss : List Sess) : Prop :=
  ss.Pairwise (fun a b => a.pid < b.pid ∨ (a.pid = b.pid ∧ a.start ≤ b.start))

theorem mem_insertSess (x y : Sess) (ss : List Sess) : y ∈ insertSess x ss ↔ y = x ∨ y ∈ ss := by
  induction ss with
  | nil => simp [insertSess]
  | cons s r ih =>
    simp only [insertSess]
    split
    · simp
    · simp only [List.mem_cons, ih]
      constructor
      · rintro (h | h | h) <;> simp [h]
      · rintro (h | h | h) <;> simp [h]

theorem insertSess_sorted (x : Sess) (ss : List Sess) (h : SessSorted ss) :
    SessSorted (insertSess x ss) := by
  unfold SessSorted at *
  induction ss with
  | nil => simp [insertSess]
  | cons s r ih =>
    have hs := (List.pairwise_cons.mp h).1
    have hr := (List.pairwise_cons.mp h).2
    simp only [insertSess]
    split
    · rename_i haft
      simp only [sessAfter, Bool.or_eq_true, decide_eq_true_eq, Bool.and_eq_true, beq_iff_eq] at haft
      refine List.pairwise_cons.mpr ⟨?_, h⟩
      intro a ha
      rcases List.mem_cons.mp ha with e | e
      · subst e; omega
      · have := hs a e; omega
    · rename_i haft
      simp only [sessAfter, Bool.or_eq_true, decide_eq_true_eq, Bool.and_eq_true, beq_iff_eq] at haft
      refine List.pairwise_cons.mpr ⟨?_, ih hr⟩
      intro a ha
      rcases (mem_insertSess x a r).mp ha with e | e
      · subst e; omega
      · exact hs a e

/-! ### dlopen list -/

theorem mem_addDlopen (libs : List DlLib) (x y : DlLib) :
    y ∈ addDlopen libs x ↔ y = x ∨ y ∈ libs := by
  induction libs with
  | nil => simp [addDlopen]
  | cons l r ih =>
    simp only [addDlopen]
    split
    · simp
    · simp only [List.mem_cons, ih]
      constructor
      · rintro (h | h | h) <;> simp [h]
      · rintro (h | h | h) <;> simp [h]

theorem addDlopen_sorted (libs : List DlLib) (x : DlLib)
    (h : libs.Pairwise (fun a b => a.time ≤ b.time)) :
    (addDlopen libs x).Pairwise (fun a b => a.time ≤ b.time) := by
  induction libs with
  | nil => simp [addDlopen]
  | cons l r ih =>
    have hl := (List.pairwise_cons.mp h).1
    have hr := (List.pairwise_cons.mp h).2
    simp only [addDlopen]
    split
    · rename_i hgt
      refine List.pairwise_cons.mpr ⟨?_, h⟩
      intro a ha
      rcases List.mem_cons.mp ha with e | e
      · subst e; omega
      · have := hl a e; omega
    · rename_i hle
      refine List.pairwise_cons.mpr ⟨?_, ih hr⟩
      intro a ha
      rcases (mem_addDlopen r x a).mp ha with e | e
      · subst e; omega
      · exact hl a e

theorem findSome?_filter_irrelevant {α β : Type} (f : α → Option β) (p : α → Bool) (l : List α)
    (h : ∀ x, p x = false → f x = none) : (l.filter p).findSome? f = l.findSome? f := by
  induction l with
  | nil => rfl
  | cons a r ih =>
    by_cases hp : p a = true
    · simp [List.filter_cons_of_pos hp, List.findSome?_cons, ih]
    · have hp' : p a = false := by simpa using hp
      rw [List.filter_cons_of_neg (by simp [hp']), List.findSome?_cons, h a hp', ih]

end Uft.Session
